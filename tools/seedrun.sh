#!/bin/bash
# seedrun.sh <Cxx> <mN> [extra property ids...]: apply a seeded change to /repo, run the checks, undo it.
set -u
ID=$1; M=$2; shift 2
P=/tmp/seedout/$ID/$M/patch.diff
[ -f "$P" ] || P=/verif/seeded/$ID/$M/patch.diff
cd /verif
git -C /repo apply "$P" || { echo "patch does not apply"; exit 2; }
for c in $ID "$@"; do
  timeout 2400 ./check $c 2>&1 | grep -E "^(VIOLATION|KNOWN-FINDING|C[0-9]+ quick|proof obligation|source drift)" | cut -c1-400
done
git -C /repo checkout -- .
git -C /repo status --short | head -3
