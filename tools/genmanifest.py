#!/usr/bin/env python3
"""Regenerates /verif/MANIFEST.json from props.py (kept in sync by construction)."""
import json, os, sys, subprocess
ROOT = os.path.dirname(os.path.dirname(os.path.abspath(__file__)))
sys.path.insert(0, ROOT)
from props import PROPS, NOT_APPLICABLE  # noqa

hooks = subprocess.run(["git", "-C", "/repo", "log", "--format=%H %s", "--grep=^verif hook"], stdout=subprocess.PIPE, text=True).stdout.split("\n")
hook_commits = [l.split()[0] for l in hooks if l.strip()]
m = {
    "version": 1,
    "setup_cmd": "./setup.sh",
    "hooks": {
        "guard": "verif",
        "enable": "go build -tags verif (add-only files export_verif.go with //go:build verif; the harness module replaces github.com/jamf/regatta => /repo)",
        "baseline_off_cmd": "cd /repo && GOFLAGS=-mod=mod GOPROXY=off GOSUMDB=off GOTOOLCHAIN=local go test -vet=off -count=1 -timeout 25m ./...",
        "source_commits": hook_commits,
        "add_only": True,
    },
    "engines": [],
    "checks": [],
    "notes": "Technique: machine-checked proof in Coq 8.16.1 of hand-written Gallina models, tied to /repo by (a) constants regenerated from the code on every run and (b) a differential correspondence check that evaluates the model inside Coq (vm_compute) on the inputs the Go harness ran the implementation on. See DESIGN.md.",
    "not_applicable": NOT_APPLICABLE,
}
for pid in sorted(PROPS):
    P = PROPS[pid]
    m["checks"].append({
        "property_id": pid,
        "quick_cmd": "./check %s --tier quick" % pid,
        "thorough_cmd": "./check %s --tier thorough" % pid,
        "evidence_file": "/verif/evidence/%s.json" % pid,
        "replay_cmd_template": "./check %s --replay {path}" % pid,
        "engine": "coq+harness",
        "level_claimed": {"category": "proof", "text": P["level_text"], "design_ref": P["design_ref"]},
        "level_note": P["level_note"],
        "technique": P["technique"],
    })
m["engines"].append({"name": "coq+harness", "path": "/verif/check", "serves_properties": sorted(PROPS),
                     "kind_free_text": "Coq 8.16.1 proofs (coq/) + Go correspondence harness (harness/) + python driver (check)"})
json.dump(m, open(os.path.join(ROOT, "MANIFEST.json"), "w"), indent=1)
print("MANIFEST.json: %d checks, %d not_applicable" % (len(m["checks"]), len(NOT_APPLICABLE)))
