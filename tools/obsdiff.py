#!/usr/bin/env python3
"""obsdiff.py <cases.json> <index> [--spec]: evaluates the model (or the spec) on one generated case inside Coq and
prints the first differences between its observable tree and the implementation's (debugging aid, also used by
./check to describe disagreements in replay files)."""
import sys, json, re, subprocess, os, tempfile

COQ = os.path.join(os.path.dirname(os.path.dirname(os.path.abspath(__file__))), "coq")


def tokenize(s):
    return re.findall(r'"[^"]*"|\(|\)|\[|\]|;|,|-?\d+|%[A-Za-z]+|[A-Za-z_][A-Za-z_0-9\.]*', s)


class P:
    def __init__(self, toks):
        self.t = toks
        self.i = 0

    def peek(self):
        return self.t[self.i] if self.i < len(self.t) else None

    def next(self):
        x = self.t[self.i]
        self.i += 1
        return x

    def skip_scope(self):
        while self.peek() and self.peek().startswith('%'):
            self.next()

    def obs(self):
        t = self.next()
        if t == '(':
            v = self.obs()
            assert self.next() == ')', self.t[self.i - 3:self.i + 3]
            self.skip_scope()
            return v
        if t == 'ON':
            return ('N', self.num())
        if t == 'OB':
            return ('B', self.bytes())
        if t == 'OL':
            assert self.next() == '['
            items = []
            while self.peek() != ']':
                items.append(self.obs())
                if self.peek() == ';':
                    self.next()
            self.next()
            return ('L', items)
        raise ValueError("unexpected token %r at %d" % (t, self.i))

    def num(self):
        t = self.next()
        if t == '(':
            v = self.num()
            assert self.next() == ')'
            self.skip_scope()
            return v
        self.skip_scope()
        return int(t)

    def bytes(self):
        t = self.next()
        if t == '(':
            v = self.bytes_inner()
            assert self.next() == ')'
            self.skip_scope()
            return v
        self.i -= 1
        return self.bytes_inner()

    def bytes_inner(self):
        t = self.next()
        if t == 'hx':
            s = self.next().strip('"')
            return bytes.fromhex(s)
        if t == 'unrle':
            assert self.next() == '['
            out = b''
            while self.peek() != ']':
                assert self.next() == '('
                b = int(self.next())
                assert self.next() == ','
                n = int(self.next())
                self.skip_scope()
                assert self.next() == ')'
                out += bytes([b]) * n
                if self.peek() == ';':
                    self.next()
            self.next()
            return out
        if t == '[':
            out = []
            while self.peek() != ']':
                out.append(int(self.next()))
                self.skip_scope()
                if self.peek() == ';':
                    self.next()
            self.next()
            return bytes(out)
        raise ValueError("bytes: unexpected %r" % t)


def parse_obs(s):
    return P(tokenize(s)).obs()


def show(o, depth=0):
    k, v = o
    if k == 'N':
        return str(v)
    if k == 'B':
        return repr(v) if len(v) <= 40 else repr(v[:16]) + "..(%d)" % len(v)
    return "[" + ", ".join(show(x) for x in v) + "]"


def diff(a, b, path, out, limit=6):
    if len(out) >= limit:
        return
    if a[0] != b[0]:
        out.append("%s: model %s  vs  impl %s" % (path, show(a), show(b)))
        return
    if a[0] in 'NB':
        if a[1] != b[1]:
            out.append("%s: model %s  vs  impl %s" % (path, show(a), show(b)))
        return
    la, lb = a[1], b[1]
    if len(la) != len(lb):
        out.append("%s: length model %d vs impl %d: model %s  vs  impl %s" % (path, len(la), len(lb), show(a)[:600], show(b)[:600]))
        return
    for i, (x, y) in enumerate(zip(la, lb)):
        diff(x, y, path + "/%d" % i, out, limit)


def model_obs(meta, idx, which):
    src = "From Coq Require Import String.\n" + "".join("From Verif Require Import %s.\n" % r for r in meta["requires"])
    src += "Open Scope N_scope.\nDefinition c : %s := %s.\nEval vm_compute in (%s c).\n" % (meta["case_type"], meta["cases"][idx], meta[which])
    with tempfile.TemporaryDirectory(dir=os.environ.get("TMPDIR", "/var/tmp")) as d:
        p = os.path.join(d, "show.v")
        open(p, "w").write(src)
        r = subprocess.run(["coqc", "-Q", COQ, "Verif", p], stdout=subprocess.PIPE, stderr=subprocess.STDOUT, text=True, cwd=d, timeout=600)
    out = re.sub(r"\s+", " ", r.stdout)
    m = re.search(r"= (.*) : obs", out)
    if not m:
        raise ValueError("cannot evaluate model: " + out[:2000])
    return parse_obs(m.group(1))


def impl_obs(meta, idx, field_rx=r"_impl := (.*) \|\}$"):
    m = re.search(field_rx, meta["cases"][idx], re.S)
    return parse_obs(m.group(1))


def describe(meta, idx, which="show"):
    mo = model_obs(meta, idx, which)
    io = impl_obs(meta, idx)
    out = []
    diff(mo, io, "", out)
    return out


if __name__ == "__main__":
    meta = json.load(open(sys.argv[1]))
    idx = int(sys.argv[2])
    which = "spec_show" if "--spec" in sys.argv else "show"
    print(meta["descr"][idx])
    for l in describe(meta, idx, which):
        print(l)
