#!/usr/bin/env python3
"""srcdrift.py [--update] [Cxx ...]: hashes the source text of the Go functions the Coq model functions stand for
(coq/MODELMAP.json: property -> [{"go": "path/file.go:Func or Recv.Method", "model": "Model/File.v: names"}]).
Without --update prints one line per function whose text differs from the recorded hash (or that no longer exists)
and exits 0 - drift is not a violation, ./check uses it to raise the correspondence budget and records it."""
import sys, os, re, json, hashlib

ROOT = os.path.dirname(os.path.dirname(os.path.abspath(__file__)))
REPO = os.environ.get("VERIF_REPO", "/repo")
MAP = os.path.join(ROOT, "coq", "MODELMAP.json")


def func_text(path, name):
    try:
        src = open(os.path.join(REPO, path)).read().splitlines()
    except OSError:
        return None
    if "." in name:
        recv, meth = name.split(".", 1)
        rx = re.compile(r"^func \(\w*\s*\*?%s(\[[^\]]*\])?\) %s\b" % (re.escape(recv), re.escape(meth)))
    else:
        rx = re.compile(r"^func %s\b" % re.escape(name))
    for i, l in enumerate(src):
        if rx.match(l):
            out = [l]
            if l.rstrip().endswith("}") and "{" in l and l.count("{") == l.count("}"):
                return "\n".join(out)
            for m in src[i + 1:]:
                out.append(m)
                if m.startswith("}"):
                    break
            return "\n".join(out)
    return None


def digest(t):
    return hashlib.sha256(re.sub(r"[ \t]+", " ", t).encode()).hexdigest()[:16]


def drift(props=None, update=False):
    m = json.load(open(MAP))
    res = {}
    for pid, items in m.items():
        if props and pid not in props:
            continue
        for it in items:
            path, name = it["go"].split(":")
            t = func_text(path, name)
            h = digest(t) if t is not None else None
            if update:
                it["hash"] = h
            elif h != it.get("hash"):
                res.setdefault(pid, []).append({"go": it["go"], "model": it.get("model", ""), "state": "missing" if h is None else "changed"})
    if update:
        json.dump(m, open(MAP, "w"), indent=1)
    return res


if __name__ == "__main__":
    args = [a for a in sys.argv[1:] if not a.startswith("--")]
    r = drift(args or None, update="--update" in sys.argv)
    for pid, l in sorted(r.items()):
        for d in l:
            print("drift %s %s (%s) <- %s" % (pid, d["go"], d["state"], d["model"]))
