# Per-property configuration of the check driver (./check) and the source of MANIFEST.json (tools/genmanifest.py).

COMMON_TRUSTED = [
    "Coq 8.16.1 kernel (coqc; vm_compute used for constants, witnesses and model evaluation; native_compute not used)",
    "no axioms declared by the development; Print Assumptions of every property theorem is collected on each run",
    "harness genconst: copies constants computed by the Go compiler from /repo into coq/Generated/Constants.v",
    "correspondence harness (/verif/harness, Go, built from /repo with -tags verif): generators, canonicalisation, Go-side property oracles",
    "model evaluated inside Coq (cases files, vm_compute) - no extraction, no Extract directives",
]

PROPS = {}

PROPS["C12"] = dict(
    title="Key encoding is injective, order-preserving, and isolates bookkeeping keys",
    design_ref="DESIGN.md section 7 (C12)",
    run_files=["Run/C12Run.v"],
    engines=[dict(cmd=["c12"], corr="Model.KeyEnc.{encode,decode_bytes,decode_stream,incr,bounds} <-> key.Encoder.Encode, key.DecodeBytes, key.Decoder.Decode, fsm.incrementRightmostByte, fsm.iterOptionsForBounds")],
    level_text="Theorems for all byte strings of any length (round trip, injectivity, three-way order preservation, wildcard coverage, bookkeeping keys outside every expressible range) about a Gallina model of the codec; constants regenerated from the code on every run; model compared with the real codec on enumerated adversarial and random keys.",
    level_note="Trusts: Coq kernel; genconst; the correspondence run (model = code only on the generated inputs); Go's bytes.Compare modelled as lex_compare (compared on every case).",
    technique="Coq proof (induction over byte lists, vm_compute on generated constants) + differential correspondence check of the Gallina codec model against the Go codec",
    trusted=["Model/KeyEnc.v hand-written model of storage/table/key and fsm bound construction; Pebble's comparer assumed to be bytewise (DefaultComparer.Compare)"],
    assumptions=["stored-key order is Pebble's DefaultComparer (bytes.Compare), which pebble/pebble.go configures"],
)

PROPS["C19"] = dict(
    title="The gossiped shard view converges and never regresses to an older leader",
    design_ref="DESIGN.md section 7 (C19)",
    run_files=["Run/C19Run.v"],
    engines=[dict(cmd=["c19"], corr="Model.View.{merge,update} <-> cluster.mergeShardInfo, shardView.update")],
    level_text="Theorems for all update multisets, orders, repetitions and groupings: the merged view is a function of the set of updates (under Raft consistency of the updates, shown necessary by a counterexample), retains max-cci membership and max-term leader, never replaces a leader by an older or leaderless update, term never regresses; merging a peer's merged view equals receiving its updates. Model compared with mergeShardInfo/shardView.update on random multisets; the Go side also re-applies permutations, duplicates and remote-view merges.",
    level_note="Trusts: Coq kernel; genconst (noLeader); correspondence run; membership map abstracted to a label (the merge only copies it wholesale); Raft consistency of gossip updates is a hypothesis of the order-independence theorems.",
    technique="Coq proof (characterisation of fold merge as a set-determined maximum, induction over update lists) + differential correspondence check against mergeShardInfo/shardView.update",
    trusted=["Model/View.v hand-written model of storage/cluster/view.go; Replicas map abstracted to a label"],
    assumptions=["updates for one shard are Raft-consistent (same term+leader present => same leader; same config-change index => same membership) for the order-independence theorems"],
)

PROPS["C13"] = dict(
    title="The metadata store is a deterministic compare-and-set register map",
    design_ref="DESIGN.md section 7 (C13)",
    run_files=["Run/C13Run.v"],
    engines=[dict(cmd=["c13"], corr="Model.MetaKV.{mupdate,mget,mgetall,mgetallvalues,mlist,mlistdir,msnapshot} <-> kv.LFSM.Update/Lookup/PrepareSnapshot/SaveSnapshot/RecoverFromSnapshot, kv.MapStore")],
    level_text="Theorems for all entry sequences: CAS outcome (success iff absent or version equal; mismatch reports current pair and leaves the store unchanged), fresh increasing versions over logs with increasing indices, refinement of all lookups to the plain map built by successful updates, exact and sorted glob listings, batching independence, snapshot round trip. Model compared with the real kv.LFSM (incl. its JSON snapshot) on random scenarios; Go side checks the property oracle after every step and a second replica.",
    level_note="Trusts: Coq kernel; genconst (result codes); correspondence run; path.Match modelled for patterns of literals and '*' only and List/ListDir for clean absolute paths only (all that callers use); JSON snapshot modelled as identity on content (exercised by the harness).",
    technique="Coq proof (refinement of a sorted association list to an abstract CAS map, induction over entry lists) + differential correspondence check against kv.LFSM",
    trusted=["Model/MetaKV.v hand-written model of storage/kv/raft.go + map.go; strings modelled as UTF-8 byte lists"],
    assumptions=["log indices handed to Update are strictly increasing (Raft)"],
)

# Properties not (yet) claimed, each with a reason; kept current as checks are added.
_PENDING = "check not built yet in this development; will be claimed once its model, theorems and correspondence harness exist"
NOT_APPLICABLE = [dict(property_id="C%02d" % i, reason=_PENDING) for i in range(1, 20) if "C%02d" % i not in PROPS]
