# Per-property configuration of the check driver (./check) and the source of MANIFEST.json (tools/genmanifest.py).

COMMON_TRUSTED = [
    "Coq 8.16.1 kernel (coqc; vm_compute used for constants, witnesses and model evaluation; native_compute not used)",
    "no axioms declared by the development; Print Assumptions of every property theorem is collected on each run",
    "harness genconst: copies constants computed by the Go compiler from /repo into coq/Generated/Constants.v",
    "correspondence harness (/verif/harness, Go, built from /repo with -tags verif): generators, canonicalisation, Go-side property oracles",
    "model evaluated inside Coq (cases files, vm_compute) - no extraction, no Extract directives",
]

PROPS = {}

PROPS["C12"] = dict(
    title="Key encoding is injective, order-preserving, and isolates bookkeeping keys",
    design_ref="DESIGN.md section 7 (C12)",
    run_files=["Run/C12Run.v"],
    engines=[dict(cmd=["c12"], corr="Model.KeyEnc.{encode,decode_bytes,decode_stream,incr,bounds} <-> key.Encoder.Encode, key.DecodeBytes, key.Decoder.Decode, fsm.incrementRightmostByte, fsm.iterOptionsForBounds")],
    level_text="Theorems for all byte strings of any length (round trip, injectivity, three-way order preservation, wildcard coverage, bookkeeping keys outside every expressible range) about a Gallina model of the codec; constants regenerated from the code on every run; model compared with the real codec on enumerated adversarial and random keys; on the real state machine: bookkeeping probe over all bound shapes, long shared prefixes, and the wildcard range over keys made of NUL bytes only (lengths 1..1024).",
    level_note="Trusts: Coq kernel; genconst; the correspondence run (model = code only on the generated inputs); Go's bytes.Compare modelled as lex_compare (compared on every case).",
    technique="Coq proof (induction over byte lists, vm_compute on generated constants) + differential correspondence check of the Gallina codec model against the Go codec",
    trusted=["Model/KeyEnc.v hand-written model of storage/table/key and fsm bound construction; Pebble's comparer assumed to be bytewise (DefaultComparer.Compare)"],
    assumptions=["stored-key order is Pebble's DefaultComparer (bytes.Compare), which pebble/pebble.go configures"],
)

PROPS["C19"] = dict(
    title="The gossiped shard view converges and never regresses to an older leader",
    design_ref="DESIGN.md section 7 (C19)",
    run_files=["Run/C19Run.v"],
    engines=[dict(cmd=["c19"], corr="Model.View.{merge,update} <-> cluster.mergeShardInfo, shardView.update")],
    level_text="Theorems for all update multisets, orders, repetitions and groupings: the merged view is a function of the set of updates (under Raft consistency of the updates, shown necessary by a counterexample), retains max-cci membership and max-term leader, never replaces a leader by an older or leaderless update, term never regresses; merging a peer's merged view equals receiving its updates. Model compared with mergeShardInfo/shardView.update on random multisets; the Go side also re-applies permutations, duplicates and remote-view merges; event sequences through a real cluster.Cluster (its Raft-event Notify, the memberlist join/leave/update callbacks and the push/pull delegate, with lagging peers) are checked after every event against the order-independent function of the updates seen and against the model.",
    level_note="Trusts: Coq kernel; genconst (noLeader); correspondence run; membership map abstracted to a label (the merge only copies it wholesale); Raft consistency of gossip updates is a hypothesis of the order-independence theorems.",
    technique="Coq proof (characterisation of fold merge as a set-determined maximum, induction over update lists) + differential correspondence check against mergeShardInfo/shardView.update",
    trusted=["Model/View.v hand-written model of storage/cluster/view.go; Replicas map abstracted to a label"],
    assumptions=["updates for one shard are Raft-consistent (same term+leader present => same leader; same config-change index => same membership) for the order-independence theorems"],
)

PROPS["C13"] = dict(
    title="The metadata store is a deterministic compare-and-set register map",
    design_ref="DESIGN.md section 7 (C13)",
    run_files=["Run/C13Run.v"],
    engines=[dict(cmd=["kvrace"], corr="compare-and-set through the real kv.RaftStore client under racing writers (the read-modify-write loop of table.Manager.incAndGetIDSeq)", timeout=600),
             dict(cmd=["c13"], corr="Model.MetaKV.{mupdate,mget,mgetall,mgetallvalues,mlist,mlistdir,msnapshot} <-> kv.LFSM.Update/Lookup/PrepareSnapshot/SaveSnapshot/RecoverFromSnapshot, kv.MapStore")],
    level_text="Theorems for all entry sequences: CAS outcome (success iff the supplied version is the key's current one, 0 for an absent key - repaired code; mismatch reports the current pair and leaves the store unchanged), fresh increasing versions over logs with increasing indices, refinement of all lookups to the plain map built by successful updates, exact and sorted glob listings, batching independence, snapshot round trip. Model compared with the real kv.LFSM (incl. its JSON snapshot) on random scenarios; the real kv.RaftStore on a NodeHost (what Set/Delete return, the current pair on a mismatch) and escaped glob patterns against path.Match are checked as well; Go side checks the property oracle after every step (get/exists per key, the whole store, listings and directory listings: no stored child or directory dropped - also directories holding keys only deeper down - nothing invented) and a second replica.",
    level_note="Trusts: Coq kernel; genconst (result codes); correspondence run; path.Match modelled for patterns of literals and '*' only and List/ListDir for clean absolute paths only (all that callers use); JSON snapshot modelled as identity on content (exercised by the harness).",
    technique="Coq proof (refinement of a sorted association list to an abstract CAS map, induction over entry lists) + differential correspondence check against kv.LFSM",
    trusted=["Model/MetaKV.v hand-written model of storage/kv/raft.go + map.go; strings modelled as UTF-8 byte lists"],
    assumptions=["log indices handed to Update are strictly increasing (Raft)"],
)

_FSM_TRUSTED = ["Model/Cmd.v + Model/Fsm.v hand-written model of storage/table/fsm (command*.go, fsm.go Update/Lookup, iter.go, query.go); Pebble (DB, indexed batch, bounded iterators, SeekPrefixGE with Split=len, range tombstones, atomic batch commit) modelled as a sorted association list",
                "Model/ProtoSize.v model of vtprotobuf SizeVT for KeyValue/ResponseOp_Range"]

PROPS["C01"] = dict(
    title="A table behaves as an ordered byte-string map for every command history",
    design_ref="DESIGN.md section 7 (C01)",
    run_files=["Run/FsmRun.v", "Run/ApiRun.v"],
    engines=[dict(cmd=["api"], corr="Model.Api.{impl_step: validators of Model.Validate + table lookup + request->Command + CommandResult->response over Model.Fsm.Update/f_lookup} <-> regattaserver.KVServer.{Range,IterateRange,Put,DeleteRange,Txn} over storage.Engine (real NodeHost) -> table.ActiveTable -> fsm.FSM", timeout=900),
             dict(cmd=["c01"], corr="Model.Fsm.{Update,f_lookup,f_iterator_lookup,local_index,leader_index} <-> fsm.FSM.Update/Lookup")],
    level_text="Refinement theorem for all scenarios (any interleaving of apply batches, reads, iterator reads, read-only transactions, index reads, reopen): the implementation-level model over the encoded Pebble key space produces exactly the outputs of a plain sorted map applying the commands one after another, and its bookkeeping is invisible; the model is compared with the real fsm.FSM (Pebble on MemFS) on random histories, and the specification itself is evaluated on the implementation's outputs. API level (Model/Api.v, theorem C01_api_refines): every response of every request sequence sent through KVServer -> Engine -> ActiveTable to freshly created tables equals the response of the same API over plain sorted maps; the API model is compared with a real regattaserver.KVServer over a real storage.Engine (engine 'api').",
    level_note="Trusts: Coq kernel; genconst; Pebble-as-sorted-map abstraction (validated by every correspondence case, not proved); correspondence run; range deletes with prev_kv over >= 4MiB-1KiB of data are outside the statement (known finding).",
    technique="Coq proof (parametricity of the command handlers in the store + representation invariant, induction over scenarios) + differential correspondence check against fsm.FSM on Pebble/MemFS",
    trusted=_FSM_TRUSTED,
    assumptions=["apply batches are non-empty and indices < 2^64 (dragonboat)", "Pebble behaves as a sorted map with atomic batch commit"],
)

def fsm_label(diffs, descr):
    """semantic label of a difference between the specification and the implementation's outputs of an fsm scenario"""
    kinds = [x.strip().split(" ")[0].split("[")[0] for x in descr.split(" ; ")]
    labs = set()
    for d in diffs:
        path = [p for p in d.split(":")[0].strip("/").split("/") if p != ""]
        if not path:
            labs.add("outputs")
            continue
        try:
            k = kinds[int(path[0])]
        except Exception:
            k = "?"
        if k.startswith("apply"):
            if len(path) >= 2 and path[1] == "1":
                labs.add("index announced to waiters after an apply call")
            elif len(path) >= 4 and path[3] in ("1", "2"):
                labs.add("revision/result data of an applied entry")
            elif len(path) >= 4 and path[3] == "0":
                labs.add("result value of an applied entry")
            else:
                labs.add("command responses")
        elif k in ("read", "iter"):
            tail = path[-1] if k == "read" else (path[2] if len(path) > 2 else "")
            labs.add({"1": "'more' flag of a range read", "2": "count of a range read"}.get(tail, "pairs returned by a range read"))
        elif k == "txn-ro":
            labs.add("read-only transaction answer")
        elif k in ("index", "reopen"):
            labs.add("applied index" if path[-1] == "0" else "leader index")
        else:
            labs.add("outputs")
    return "; ".join(sorted(labs))

PROPS["C01"]["label"] = fsm_label

PROPS["C02"] = dict(
    title="Transactions are atomic if/then/else: one branch, in order, all or nothing",
    design_ref="DESIGN.md section 7 (C02)",
    run_files=["Run/FsmRun.v", "Run/ApiRun.v"],
    engines=[dict(cmd=["api"], corr="Model.Api.{impl_step: validators of Model.Validate + table lookup + request->Command + CommandResult->response over Model.Fsm.Update/f_lookup} <-> regattaserver.KVServer.{Range,IterateRange,Put,DeleteRange,Txn} over storage.Engine (real NodeHost) -> table.ActiveTable -> fsm.FSM", timeout=900),
             dict(cmd=["c02"], corr="Model.Cmd.{handle_txn,txn_compare,txn_ops,lookup_txn} via Model.Fsm.Update/f_lookup_txn <-> fsm.handleTxn, txnCompare, handleTxnOps, FSM.Lookup(TxnRequest)"),
             dict(cmd=["c10", "--txn"], summary="c10", corr="Model.Fsm (transactions) <-> table.ActiveTable.Txn over a simulated Raft host with real fsm.FSM replicas (the table layer between the API and the state machine)", timeout=900)],
    level_text="Theorems for all predicate and operation lists: branch selection by the conjunction of predicates on the pre-state (declarative semantics of single-key and range predicates), in-order execution with one response per operation, read-only transactions equal the read-only path and leave the state unchanged, and the encoded-store transaction equals the plain-map transaction at any position of any scenario; compared with the real FSM on transaction-heavy histories. API level: a read-only transaction (never proposed) answers what proposing it would have answered and proposing it would not change the content (C02_api_readonly_txn_as_if_proposed); compared with the real KVServer over a real Engine (engine 'api').",
    level_note="Trusts: Coq kernel; Pebble indexed batch/snapshot modelled as a working copy of the sorted map; correspondence run. Crash atomicity of the single commit is C04's.",
    technique="Coq proof (parametricity of handlers in the store, induction over operation lists) + differential correspondence check against fsm.FSM",
    trusted=_FSM_TRUSTED, label=fsm_label,
    assumptions=["requests in wire-normal form (the harness feeds what one marshal/unmarshal yields)"],
)

PROPS["C03"] = dict(
    title="Replicas converge: state depends only on the log, not on how it is batched",
    design_ref="DESIGN.md section 7 (C03)",
    run_files=["Run/FsmRun.v"],
    engines=[dict(cmd=["c03"], corr="Model.Fsm.Update over partitions <-> fsm.FSM.Update/Open/Close/PrepareSnapshot/SaveSnapshot/RecoverFromSnapshot")],
    level_text="Theorem for every log and every partition into non-empty apply batches: store (content and both bookkeeping values) and per-entry results are functions of the concatenated log; two partitions of one log give equal replicas. The same log is applied to two real FSMs under two random partitions with reopen and snapshot transfer (both formats and across; the stream written at once or only after the saver applied the next batch, which the receiver then replays) at cut points and compared entry by entry (leader indices also go DOWN within a log: operator reset, re-pointed follower); both runs are also compared with the model.",
    level_note="Trusts: Coq kernel; reopen and snapshot save/recover are the identity on the store in the model (the correspondence run is what checks the implementation does the same); Pebble-as-sorted-map.",
    technique="Coq proof (Update as a fold refining spec_entries, compositionality over list append) + differential correspondence check on two real FSM instances",
    trusted=_FSM_TRUSTED, label=fsm_label,
    assumptions=["apply batches are non-empty (dragonboat)"],
)

PROPS["C09"] = dict(
    title="Range reads are sorted, bounded, truthful about 'more', and page losslessly",
    design_ref="DESIGN.md section 7 (C09)",
    run_files=["Run/FsmRun.v", "Run/ApiRun.v"],
    engines=[dict(cmd=["api"], corr="Model.Api.{impl_step: validators of Model.Validate + table lookup + request->Command + CommandResult->response over Model.Fsm.Update/f_lookup} <-> regattaserver.KVServer.{Range,IterateRange,Put,DeleteRange,Txn} over storage.Engine (real NodeHost) -> table.ActiveTable -> fsm.FSM", timeout=900),
             dict(cmd=["c09"], corr="Model.Cmd.iterate/lookup/iterator_lookup <-> fsm.iterate, rangeLookup, singleLookup, iteratorLookup")],
    level_text="Theorems for all pair lists, limits and modes, generic in the pair representation: lossless paging, exact counts, 'more' exactly when pairs remain, variants agree, message size bounded by threshold + largest pair + 48 (below the 4 MiB transport limit for the code's constants, re-checked from regenerated constants); exhaustive (table size x limit x mode x bounds) grid and megabyte size-cut layouts on the real FSM compared with the model, plus Go-side oracles of each clause; the layers above the state machine (table.ActiveTable.Range, KVServer.Range, KVServer.IterateRange) must hand the state machine's pairs, count and 'more' through unchanged, in one message and in several. API level (C09_api_range_is_the_state_machines_answer): what KV.Range / KV.IterateRange hand to the client for an accepted request IS the state machine's answer (one message / all messages) and the request changes nothing; engine 'api' compares unary and streamed reads (also cut by limits) through the real KVServer over a real Engine with the model.",
    level_note="Trusts: Coq kernel; genconst (maxRangeSize, MaxValueLen, key length, transport limit); ProtoSize model of SizeVT (compared through the cut positions on megabyte tables); correspondence run.",
    technique="Coq proof (induction over the chunking loop with accumulators, arithmetic on varint sizes) + exhaustive-grid differential correspondence check against fsm.FSM",
    trusted=_FSM_TRUSTED, label=fsm_label,
    assumptions=["stored pairs respect the API size limits for the transport-limit corollary"],
)

PROPS["C10"] = dict(
    title="Revisions follow commit order; linearizable reads see all acknowledged writes",
    design_ref="DESIGN.md section 7 (C10)",
    run_files=["Run/FsmRun.v", "Run/C10Run.v", "Mutants/LinearMutants.v", "Run/ApiRun.v"],
    engines=[dict(cmd=["api"], corr="Model.Api.{impl_step: validators of Model.Validate + table lookup + request->Command + CommandResult->response over Model.Fsm.Update/f_lookup} <-> regattaserver.KVServer.{Range,IterateRange,Put,DeleteRange,Txn} over storage.Engine (real NodeHost) -> table.ActiveTable -> fsm.FSM", timeout=900),
             dict(cmd=["c10"], corr="Model.Linear + Model.Fsm <-> table.ActiveTable.{Put,Delete,Txn,Range} over a simulated Raft host with real fsm.FSM replicas; Model.Linear serve_at/engine paths <-> storage.Engine.{Range,IterateRange,Txn} on a real three-node cluster with held apply loops")],
    level_text="Theorems: every API mutation (incl. a transaction with an empty executed branch) reports revision = its log index, revisions of a log are its indices in order, a replica with k >= a applied entries contains all a acknowledged writes, serializable reads answer from a prefix state; the read-path choice of the table layer is checked on the real table.ActiveTable with a simulated Raft host (three real FSM replicas, seed-chosen lag and batching), whose responses are also compared with the model and the specification; a range read delivered in several messages with a transaction applied between two of them must be one state; two identical linearizable reads overlapping an acknowledged write (the later one must see it); an error from the table layer for a committed request is a violation. Engine layer (storage/engine.go): theorems that a linearizable Range/IterateRange and every read-only transaction, on a leader or a follower at any lag, is served from a state including every acknowledged write (the leader-answers-locally variant refuted in Mutants/LinearMutants.v); three real storage.Engines on loopback with one three-replica table: the apply loop of each replica in turn - so also the leader's - is held behind a write acknowledged through another replica, the held replica is asked for linearizable Range, IterateRange and a read-only Txn (no answer is fine, an answer without the write is a violation; released while a read waits, the read answers with the write), every read compared with the model's serving position. API level (Model/Api.v): every acknowledged mutation sent through the API is answered with exactly the log position of its proposal, which is the table's applied index afterwards; the non-zero revisions along any request sequence strictly increase; reads and read-only transactions move nothing (C10_api_*); engine 'api' checks on a real Engine that revisions are non-zero, increasing and equal to the applied index.",
    level_note="Trusts: Coq kernel; dragonboat's ReadIndex contract is an explicit assumption (embodied by the simulated host); concurrency between clients is represented by the commit order only (sequential client scripts); Pebble-as-sorted-map.",
    technique="Coq proof (prefix/append lemmas over spec_entries) + simulated-Raft-host differential check through table.ActiveTable",
    trusted=_FSM_TRUSTED + ["simulated Raft host in the harness (harness/c10.go) standing for dragonboat NodeHost (the three-engine cluster of harness/c10cluster.go runs the real one)"], label=fsm_label,
    assumptions=["ReadIndex contract: a SyncRead started when a entries are committed is served from a state with >= a applied entries", "log indices strictly increase"],
)

PROPS["C06"] = dict(
    title="Replication log stream is exact: consecutive applied entries, no gap or repeat",
    design_ref="DESIGN.md section 7 (C06)",
    run_files=["Run/C06Run.v"],
    engines=[dict(cmd=["c06"], corr="Model.LogReader.{simple_query,cached_query,cget,cput,fix_size,replicate} <-> logreader.Simple/Cached.QueryRaftLog, cache.get/put, fixSize, regattaserver.LogServer.Replicate")],
    level_text="Theorems for every library cut oracle: the uncached reader's answer is exact (empty at applied+1, use-snapshot at/below the compaction point, otherwise a non-empty consecutive prefix from the requested index); the size cut keeps a non-empty prefix; the CACHED reader meets the same contract and preserves the invariant 'the buffer is a contiguous slice of the log' for every cache size and every query (also one whose end is older than what the cache has seen); for any reader service with exact single answers - hence for both readers - the Replicate loop streams exactly the entries F..applied in non-empty batches followed by the up-to-date message. The real readers and LogServer.Replicate run over a contract-faithful fake log (cache sizes 1-12, prepend/append hits, compaction with invalidation, stale range ends, payloads that carry a leader index of their own) and are compared with the model and with the property oracle; the invalidation is also exercised as dragonboat's compaction events delivered through a real storage.Engine's listener.",
    level_note="Trusts: Coq kernel; dragonboat's reader contract (non-empty prefix of the range, ErrCompacted below the marker) as modelled and as implemented by the harness's fake reader; the cache is invalidated as a whole on compaction (Cached.LogCompacted), modelled as atomic - the window between a compaction and its notification is not modelled; correspondence run.",
    technique="Coq proof (consecutive-index lemmas over filtered logs, case analysis of the cached reader over canonical runs of entries, fuel induction over the Replicate loop for an abstract exact reader) + differential correspondence check of logreader and LogServer against the model on a contract-faithful fake log",
    trusted=["Model/LogReader.v hand-written model of storage/logreader and LogServer.Replicate; dragonboat ReadonlyLogReader by contract"],
    assumptions=["the end of the requested range is applied+1 and applied only grows (as the server computes it)", "log entries have consecutive indices after the compaction marker"],
)

PROPS["C07"] = dict(
    title="Restoring a table stream reproduces exactly the content that was captured",
    design_ref="DESIGN.md section 7 (C07)",
    run_files=["Run/C07Run.v"],
    engines=[dict(cmd=["c07"], corr="Model.Restore.{read_into_table,restored,table_stream} + Model.Framing <-> table.Manager.Restore/readIntoTable, fsm.commandSnapshot, snapshot.snapshotFile/Writer/Reader", timeout=1200)],
    level_text="Theorems for every in-memory-log-size setting, table content and chunking: the framed (and compressed, for any round-tripping compressor) command stream is read back with the same message boundaries; the proposed batches carry exactly the stream's pairs; the final message's index is the recorded leader index; loading into the fresh shard yields exactly the captured sorted content. Restores run through the real table.Manager on a single-node dragonboat NodeHost with thresholds on every record position, chunk sizes 1 B..1 MiB, a concurrent writer during capture, pre-existing content and (every third plan) an earlier restore of other content that broke off mid-stream, compared with the model. The manifest gate of the backup client is a theorem (only files whose checksum matches are uploaded; the first mismatch ends the run; earlier tables only) and the operator path runs for real: backup client, Maintenance and Cluster gRPC services, storage.Engine - backup / change / restore of tables of 0, 5 and 3 large pairs, swapped and emptied backup files refused without touching a table.",
    level_note="Trusts: Coq kernel; snappy round trip is a hypothesis of the stream theorem (exercised, not proved); the restore target is a fresh shard (C14); Raft delivers the proposals in order; the backup manifest checksum gate is covered by C18's harness only.",
    technique="Coq proof (induction over the batching loop with accumulators, sorted-insertion lemma, frame parser with fuel) + differential correspondence check through table.Manager.Restore on an in-memory NodeHost",
    trusted=["Model/Restore.v, Model/Framing.v hand-written models of storage/table/manager.go readIntoTable/Restore and replication/snapshot"],
    assumptions=["compressor round trip", "proposals of one restore are applied in proposal order (single proposer, SyncPropose)"],
)

PROPS["C18"] = dict(
    title="Wire codecs and stream framing are lossless for every message and chunking",
    design_ref="DESIGN.md section 7 (C18)",
    run_files=["Run/C18Run.v", "Run/C07Run.v"],
    engines=[dict(cmd=["c18"], corr="Model.ProtoWire.{msg_enc,msg_dec,varint_enc,varint_dec} <-> regattaserver/encoding/proto Codec + regattapb *_vtproto.pb.go MarshalVT/UnmarshalVT"),
             dict(cmd=["c07", "--framing-only"], summary="c07", corr="Model.Framing <-> snapshot.snapshotFile/Writer/Reader", timeout=600)],
    level_text="Theorems: varint and field-list encode/decode round trip for every well-formed field list (all wire types, nesting as byte fields, any sizes), decode into a recycled object equals decode into a fresh one, frames survive every chunking under any round-tripping compressor. The real registered codec is run on generated messages of the API/replication types (every oneof arm, absent vs empty, nil vs empty, 64-bit extremes) with bytes compared to the wire model's encoding of the reflected field tree, fresh and recycled receivers; the pooled Command as the code uses it (snapshot writer, then the replication worker's SEQUENCE); gzip/snappy/zstd under 16 goroutines (panics caught and reported); snapshot files through Writer/Reader at chunk sizes 1 B..1 MiB, length prefixes around the compressed format's block boundaries, large messages written from one reused buffer, chunk streams read through plain Read calls with small buffers; requests in flight through a real regattaserver.NewServer (what the handler sees is what the client sent).",
    level_note="Trusts: Coq kernel; the schema layer (which Go field a number denotes, proto3 default omission, oneof) is reflected by the harness from the generated descriptors, not proved; compressor correctness and sync.Pool behaviour under the Go scheduler are exercised, not proved (PARTIAL).",
    technique="Coq proof (varint arithmetic, parser-with-fuel induction) + differential correspondence check of vtprotobuf bytes against the wire model, concurrency exercise of pooled compressors",
    trusted=["Model/ProtoWire.v hand-written model of the protobuf wire format", "Model/Framing.v"],
    assumptions=["compress/decompress round trip (klauspost/compress)"],
)

PROPS["C11"] = dict(
    title="Writes through a follower are read-your-writes; waiting never wedges the node",
    design_ref="DESIGN.md section 7 (C11)",
    run_files=["Run/C11Run.v", "Run/C05Run.v", "Run/FwdRun.v"],
    engines=[dict(cmd=["fwd"], corr="Model.Forward.fstep (forwarding + replication progress + apply-path reports + Model.Queue.step) <-> regattaserver.ForwardingKVServer.{Put,DeleteRange,Txn} over storage.IndexNotificationQueue with a counting leader", timeout=600),
             dict(cmd=["c11"], corr="Model.Queue.step + Model.Heap <-> storage.IndexNotificationQueue.Run, util/heap", timeout=900),
             dict(cmd=["c05", "--variant", "large backlog"], summary="c05", corr="what the apply path reports to the queue: a follower proposal is tagged with the leader index of its last command (Model.Replication.follows) <-> replication.worker.proposeBatch", timeout=900)],
    level_text="Heap ORDER invariant proved (New establishes it, Push and Pop keep it, the root is a minimum), carried over the whole table map for every completed event sequence, hence promptness: after a handled notification of leader index r nobody in that table's queue waits for a revision <= r. Theorems over all event sequences (adds with any revisions and tables, cancellations, notifications, sweeps, caller reads, length queries), per handler AND composed over the whole table map (GInv: C11_loop_never_wedges - from the initial state every event sequence with fresh waiter ids is handled to the end): no handler ever blocks or panics, every waiter receives at most one answer, an OK answer is preceded by a notification at or beyond the waiter's revision, an error answer by its cancellation, and a sweep leaves no cancelled waiter behind. The real queue (real 1 s ticker) and util/heap are compared with the model on event scripts and operation sequences; a real follower engine (applied-index reports feeding the queue) is taken through an operator reset with a waiter across it. First clause, composed (Model/Forward.v: forwarding server + replication of the leader's log + apply-path reports + the real queue): after ANY history, a call answered without error finds the node's copy equal to the result of applying a leader-log prefix of length >= its revision whose entry at the revision is the call's own command (C11_read_your_writes), with the invariant preserved by every single step (C11_forward_invariant_step).",
    level_note="Trusts: Coq kernel; Go channel/select semantics abstracted to one event at a time (a send on a full capacity-1 channel blocks the loop); that the notified index implies the write is applied rests on C05.",
    technique="Coq proof (invariant over the event-loop state machine, permutation lemmas for the array heap) + differential correspondence check against the real queue under its real ticker",
    trusted=["Model/Queue.v, Model/Heap.v hand-written models of storage/queue.go and util/heap"],
    assumptions=["every caller performs exactly one receive on its channel (regattaserver/kv.go does)", "waiter ids are unique"],
)

PROPS["C04"] = dict(
    title="Crash recovery exposes exactly a prefix of the log, atomically and only once",
    design_ref="DESIGN.md section 7 (C04)",
    run_files=["Run/C04Run.v", "Mutants/DirProtoMutants.v"],
    engines=[dict(cmd=["c04"], corr="Model.DirProto.{expand,exec1,crash,reopen} <-> fsm.FSM Open/Update/Sync/Close/RecoverFromSnapshot + pebble/dir.go over Pebble's strict in-memory file system", timeout=1500)],
    level_text="Theorem for every history of operations (open, update, sync, close, snapshot install), every crash point between two primitive file-system / Pebble steps, every survival oracle and any number of crashes: a reopen succeeds and shows b whole batches with acknowledged <= b <= applied; the invariant (the durable 'current' names a durably present DB directory whose durable content covers everything acknowledged) is proved after every single primitive step; the reopened state is again good (repeated crashes) and replay goes through the ordinary update path. The original first-open order is refuted in the model (Mutants/DirProtoMutants.v). The real fsm.FSM runs over Pebble's strict MemFS: every sync operation of fixed and random scenarios is a crash point (plus a second crash during recovery); the Go oracle checks index/content/last-sync/replay on the real state (scenarios incl. a large mixed batch and batches that stage no write at all), Coq checks the recorded protocol events against the model's steps and that the model admits every outcome.",
    level_note="PARTIAL where Pebble is concerned: the model assumes Pebble's own guarantees (atomic batches, flush/ingest durable when they return, a durably present DB directory reopens with its durable content); these are exercised on the real Pebble at every sync boundary but not proved. The ancestors of the table directory (<base>/<host>) are outside the model (exercised: CreateNodeDataDir). The content of b batches being 'exactly entries 1..i' is C01/C02's theorem about the batch step, not re-proved here. Fault model as in the property (fsync granularity; no torn writes inside a synced file).",
    technique="Coq proof (inductive invariant over primitive steps of the directory protocol with crash, at every prefix of every operation) + exhaustive crash-point enumeration of the real state machine on a strict in-memory file system",
    trusted=["Model/DirProto.v hand-written model of the current/current.updating protocol and of the operations' step sequences", "Pebble's crash guarantees as stated in Model/DirProto.v"],
    assumptions=["fresh DB directory names never collide", "snapshots older than the content are never installed (Raft library)", "Pebble: atomic batches, durable flush/ingest, reopen of a durable directory"],
)

PROPS["C05"] = dict(
    title="A follower table always equals the leader table at its recorded leader index",
    design_ref="DESIGN.md section 7 (C05)",
    run_files=["Run/C05Run.v", "Mutants/ReplicationMutants.v", "Mutants/PipelineMutants.v"],
    engines=[dict(cmd=["c05"], corr="Model.Replication.follows (the proposals a worker may make: Model.Replication.step/propose) <-> the follower table's own raft log produced by replication.worker against regattaserver.LogServer/SnapshotServer", timeout=1800),
             dict(cmd=["c05multi"], summary="c05multi", corr="Model.Replication guard (a poll acts on the follower's current leader index) <-> replication.worker.tableState on a three-node follower cluster with a lagging replica taking over the lease", timeout=900)],
    level_text="Theorems, generic in the table state machine (so non-idempotent transactions and range deletes are covered): for every interleaving of leader writes, leader log compactions, worker polls (any number of entries delivered, any chunking into proposals) and snapshot recoveries the follower's content equals the leader's content as of the recorded leader index - every leader entry exactly once, in leader order; the index never moves backwards and what it denotes never changes; a served poll makes progress, a complete stream or a recovery reaches the leader's latest state; a follower log accepted by [follows] is explained by the model. Full system in one process (real leader and follower storage.Engine, real gRPC replication services with the cached log reader, real replication.Manager/worker): random histories while replicating, compacted leader log (snapshot recovery), small message limit, follower engine restart; every 2 ms sample (leader index, content) of the follower is compared with a reference replay of the leader's raft log at exactly that index; the follower's own raft log is validated against the model in Coq and, on the Go side, against 'each leader command once, in leader order'; variants incl. a second reader that filled the leader's log cache ahead of the follower; the table set (reconcileTables: theorem 'after a reconciliation the follower has exactly the leader's tables', compared at every settling point) is followed down to no table at all. One poll end to end (Model/Pipeline.v, theorem C05_poll_is_the_stream_consumed): the stream of C06 - over any reader service, cached or not, whose single answers are exact - consumed by worker.do/proposeBatch (messages cut into proposals anywhere, each tagged with the leader index the stream attached to its last command) applies exactly the leader's entries r+1..applied once and in order and records leader index applied: it IS the abstract poll of Model/Replication.v.",
    level_note="PARTIAL: (1) the theorem assumes that a poll acts on the follower's CURRENT leader index ([guarded]). For a node whose replica lags and that takes over the lease this was violated by the original code (stale local read; reproduced on a three-node follower cluster, repaired by a linearizable read, KNOWN_FINDINGS F-C05-stale-leader-index; the scenario is part of every run). What remains assumed and is neither proved nor exercised: a proposal that timed out at the worker is not committed later (after the next poll read the index) - the code has no fence against that. (2) Convergence of the SET of tables: creation and deletion are exercised; delete-and-recreate under the same name within one reconcile interval is an open finding (the metadata carries names only). (3) What one Replicate stream carries is C06's theorem, the snapshot transport C07's, the atomic SEQUENCE C03's; here they are composed, not re-proved. Timing (poll/lease/reconcile intervals) is real time: liveness is checked with a 40 s bound.",
    technique="Coq proof (inductive invariant over an interleaving semantics of leader, compaction, worker polls with arbitrary chunking and snapshot recovery, generic in the state machine; trace-validation lemma) + full-system differential run with reference replay of the leader log and Coq validation of the follower's raft log",
    trusted=["Model/Replication.v hand-written model of worker.do/proposeBatch/recover and of what LogServer ships (C06)", "reference replay through a real fsm.FSM as the oracle for 'leader content at index i'"],
    assumptions=["one worker at a time acting on the current leader index (C15 + finished proposals)", "C06 stream exactness, C07 snapshot transport, C03 atomic sequence"],
)

PROPS["C08"] = dict(
    title="In-cluster snapshots are faithful, point-in-time and installed atomically",
    design_ref="DESIGN.md section 7 (C08)",
    run_files=["Run/C08Run.v", "Run/C04Run.v"],
    engines=[dict(cmd=["c08"], corr="Model.Fsm.fsm_steps + Model.Snapshot.{snap_header,recover} <-> fsm.FSM PrepareSnapshot/SaveSnapshot/RecoverFromSnapshot (both formats, across formats)", timeout=1500),
             dict(cmd=["c04", "--installs"], summary="c04", corr="Model.DirProto.{expand HRecover,crash,reopen} <-> RecoverFromSnapshot cut by a crash at every sync operation (strict in-memory file system)", timeout=1500)],
    level_text="Theorems: the receiver ends with exactly the store value pinned at prepare time for every pair of formats, whatever the saver applies while saving and whatever the receiver held; header round trip and dispatch; an install cut by a crash at ANY primitive step (any survival oracle) reopens with the whole snapshot or with what the old DB held (Model/DirProto.v); an install given up on the stop signal or a broken stream leaves the live DB, all contents and 'current' untouched and the state good; reader specification (old state or clean failure, new state after the install). Real replicas: random histories, writes between prepare and save and during save (one batch per Write call), all four format pairs, receivers with other content, close+reopen of the receiver; stop signal / stream failure at every byte offset of small streams (sampled for large ones) on the receiver, and an interrupted SAVE (stop signal, failing sink) must report an error; readers across an install (lazy sequences, half-consumed multi-chunk sequences, lookups). The receiver's content and indices are compared with the model's state after exactly the batches applied before prepare.",
    level_note="PARTIAL: the snapshot body (SST files / tar of a checkpoint) is Pebble's and the tar library's data and is not modelled byte by byte - faithfulness of the body is the differential run against the state-machine model (content, applied index, leader index), the theorem covers regatta's part (value pinned at prepare, header dispatch, whole replacement). The reader clause is a specification only: the implementation violates it (two open findings, KNOWN_FINDINGS.json: lazy sequences consumed after an install panic; streaming reads across an install crash inside Pebble and hang); plain lookups racing inside the window between loading the DB pointer and opening the iterator cannot be scheduled without a hook and are not exercised. Crash atomicity rests on the Pebble assumptions of C04.",
    technique="Coq proof (install all-or-nothing from the directory-protocol invariant at every primitive step; value semantics of the pinned snapshot; header dispatch) + differential run of real replicas of both formats against the state-machine model, with exhaustive byte-offset interruption",
    trusted=["Model/Snapshot.v and Model/DirProto.v hand-written models", "Pebble snapshots/checkpoints/ingestion and archive/tar as the body codec"],
    assumptions=["Pebble: a pebble.Snapshot / Checkpoint is an immutable view", "C04's Pebble crash assumptions"],
)

PROPS["C15"] = dict(
    title="At most one follower node holds a table's replication lease at a time",
    design_ref="DESIGN.md section 7 (C15)",
    run_files=["Run/C15Run.v", "Mutants/LeaseWorkerMutants.v"],
    engines=[dict(cmd=["kvrace"], corr="compare-and-set through the real kv.RaftStore client under racing writers (the read-modify-write loop of table.Manager.incAndGetIDSeq)", timeout=600),
             dict(cmd=["c15"], corr="Model.Lease.lexec <-> table.Manager.LeaseTable/ReturnTable over kv.LFSM compare-and-set", timeout=900)],
    level_text="Theorem for every interleaving (single metadata-store operations of any number of nodes, any lease durations incl. already expired ones, any passage of a global clock): at most one node holds a granted, unreturned, unexpired lease; the invariant is proved for each step; grant condition, one winner among racing requests, return removes only the caller's own lease. The real LeaseTable/ReturnTable run over the real kv.LFSM CAS semantics behind a scheduler that releases one store operation at a time: all interleavings of two calls enumerated plus random 2-3 node schedules, two waiting writes optionally applied by ONE LFSM.Update call (proposals committed together), compared with the model and with a mutual-exclusion oracle; the workers' lease routine on top of it (flag = outcome of the last call; exclusive modulo a missed renewal deadline), with the flag-keeping variant refuted in Mutants/LeaseWorkerMutants.v and real workers run over a partitionable metadata shard.",
    level_note="Trusts: Coq kernel; one global monotone clock (nodes' clocks are assumed synchronised, as the lease design itself assumes); correspondence run; RaftStore.Set/Delete result mapping re-implemented in the harness store (same code shape); the replication worker's `leased` flag (whether a node ACTS on a lease) is modelled in Model/LeaseWorker.v: the flag follows the node's last finished LeaseTable call, two flagged workers coexist only if one is past the end of the lease it last obtained - timeliness of the routine (renewal every interval, lease of four) is real time and only exercised.",
    technique="Coq proof (inductive invariant over a small-step interleaving semantics with a ghost grant map) + scheduler-controlled differential check of table.Manager lease calls",
    trusted=["Model/Lease.v hand-written model of Manager.LeaseTable/ReturnTable and the LFSM version rule"],
    assumptions=["global monotone clock", "metadata store versions are log indices >= 1 (C13)"],
)

PROPS["C14"] = dict(
    title="Table catalogue: unique names, never-reused ids, empty when (re)created",
    design_ref="DESIGN.md section 7 (C14)",
    run_files=["Run/C14Run.v", "Mutants/CatalogueMutants.v"],
    engines=[dict(cmd=["kvrace"], corr="compare-and-set through the real kv.RaftStore client under racing writers (the read-modify-write loop of table.Manager.incAndGetIDSeq)", timeout=600),
             dict(cmd=["c14"], corr="Model.Catalogue.{cexec,to_start,to_stop} <-> table.Manager.createTable/incAndGetIDSeq/DeleteTable/GetTables, diffTables", timeout=900)],
    level_text="Theorems for every interleaving of create/delete/restore/list calls (restores incl. streams that break off and retries) of any number of managers at single-store-operation granularity: ids given to created or restored tables are pairwise distinct, every id drawn from the sequence is above every id drawn before (inductive invariant over the id sequence's compare-and-set), a restore never re-uses the recovery id an interrupted attempt left behind (refuted for the re-using variant in Mutants/CatalogueMutants.v), undisturbed it succeeds and switches the table to the new id, an existing name is refused, the three steps of a creation succeed when undisturbed, the second of two racing creations of one name fails, the second of two racing deletions fails and a restore cannot resurrect a record deleted under it (repaired compare-and-set); a catalogue replica caught up by a snapshot agrees with the leader; '.' and '..' are names like any other; listing is exact and its key pattern selects the record of every table whose name is a path segment and nothing deeper (leases, the id sequence; different names have different records - theorems over all names, the key a real createTable writes first and GetTables' answer compared per name), diffTables starts/stops exactly the right shards, per-id isolation of table data. Real managers run over the real kv.LFSM CAS semantics behind a scheduler (all interleavings of call pairs + random schedules, incl. Restore with complete and interrupted streams; two waiting writes optionally applied by ONE LFSM.Update call; every listing compared with the records present at that moment), real diffTables on random inputs (against the model and a set oracle), and a real Manager on a NodeHost for emptiness of recreated tables, isolation, slash and prefix names, and a restore after an interrupted restore (new id, stream content only). API level: a request addressed to one table leaves the stored form of every other table untouched and the key-value API never changes the set of tables (C14_api_*).",
    level_note="Trusts: Coq kernel; genconst (tableIDsRangeStart); table names are path segments (names with '/' are rejected by the repaired code); emptiness of a new table rests on dragonboat giving a fresh shard id a fresh state machine directory (exercised on a real NodeHost, not proved); Restore's catalogue steps are part of the model and run interleaved with the other managers' calls on a real NodeHost (one per case); what the recovery shard then contains is C07's theorem.",
    technique="Coq proof (inductive invariant over an interleaving semantics of store programs, permutation reasoning on pending ids) + scheduler-controlled differential check of table.Manager",
    trusted=["Model/Catalogue.v hand-written model of the catalogue programs in storage/table/manager.go"],
    assumptions=["metadata store versions are log indices >= 1 and compared only for existing keys (C13)", "table names contain no '/'"],
)

PROPS["C16"] = dict(
    title="Invalid requests are rejected without effect; no request can crash a server",
    design_ref="DESIGN.md section 7 (C16)",
    run_files=["Run/C16Run.v", "Run/ApiRun.v"],
    engines=[dict(cmd=["api"], corr="Model.Api.{impl_step: validators of Model.Validate + table lookup + request->Command + CommandResult->response over Model.Fsm.Update/f_lookup} <-> regattaserver.KVServer.{Range,IterateRange,Put,DeleteRange,Txn} over storage.Engine (real NodeHost) -> table.ActiveTable -> fsm.FSM", timeout=900),
             dict(cmd=["c16"], corr="Model.Validate.{range_status,put_status,del_status,txn_status,create_status,delete_status} <-> regattaserver.KVServer/TablesServer/ReadonlyTablesServer + table.ActiveTable validators", timeout=900)],
    level_text="Theorems over all requests (reduced to the features the validators inspect): every documented constraint yields its status class, an accepted request satisfies all of them, and the key/value limits hold on every path that can create a record including operations nested in transactions. The real KVServer + table.ActiveTable (over a simulated Raft host with real state machines) and the tables servers are run on an enumerated grid of field combinations and a malformed stream; status codes are compared with the model, the table content is read back after every rejection, panics are caught and reported; the routing of transactions to the read path (TxnRequest.IsReadonly: only when both branches hold nothing but range reads - theorem and enumerated comparison); requests with extreme numeric fields run in a child process whose death is reported with the request it announced last; unknown tables with non-UTF-8 or control-character names are unknown tables; on a real storage.Engine, names that only resemble the path of a table ('demo/', './demo', 'x/../demo') are unknown tables too. End to end (Model/Api.v: the validators applied to the actual request, table lookup, request->Command, CommandResult->response, over the state machine): a refused request leaves the database the same VALUE (C16_refused_request_has_no_effect), reads have no effect, the key/value limits are an invariant of every table over every request sequence (C16_limits_are_an_invariant), and the API over encoded state machines equals the API over plain maps (C16_api_refines); compared with the real KVServer over a real storage.Engine on request sequences with a malformed stream mixed in (engine 'api').",
    level_note="PARTIAL: 'no request terminates the process' is exercised (enumerated grid + random garbage, panics caught), not proved - a theorem about total Gallina validators says nothing about Go panics. Requests are called on the server objects directly, not through a network listener (gRPC decoding is C18's codec). storage.Engine's table routing is re-implemented in the harness (three lines per method).",
    technique="Coq proof (case analysis of the validator decision functions) + enumerated differential check of the real servers' status codes and effects",
    trusted=["Model/Validate.v hand-written model of the validators in regattaserver/kv.go, tables.go and storage/table/table.go"],
    assumptions=["a non-OK status is returned before anything is proposed (checked by reading the table back)"],
)

PROPS["C17"] = dict(
    title="Protected endpoints reject callers lacking the right token or certificate",
    design_ref="DESIGN.md section 7 (C17)",
    run_files=["Run/C17Run.v"],
    engines=[dict(cmd=["c17"], corr="Model.Auth.{auth_func,intercept,server_config,verify_peer,accepts} <-> cmd.authFunc + auth interceptor wiring (cmd.createAPIServer), security.TLSInfo.ServerConfig", timeout=900)],
    level_text="Theorems about regatta's decision logic: with a token configured a call passes only with the header '<bearer, any case> <exactly the token>' (every other string, prefix/suffix/case variants included, is refused), services without an override are unaffected, a trusted CA or client-cert-auth makes verified client certificates mandatory, CN/hostname options are exclusive, and acceptance implies a chain to the CA and exactly the allowed CN (resp. hostname validity) on the leaf of the first verified chain. A real API server built by cmd.createAPIServer is called over loopback on every method of the protected services (from the generated descriptors) with 15 header variants, and real TLS handshakes run against TLSInfo.ServerConfig() with harness-minted certificates over all option combinations (incl. a CA that is only in the host's trust store); both compared with the model; endpoints built by createAPIServer for every TLS address scheme (https, unixs) refuse a plaintext client; which schemes get the TLS configuration (cmd.resolveURL) is a two-line model with its theorem, compared on a list of addresses.",
    level_note="PARTIAL: chain verification and hostname matching are crypto/tls and crypto/x509 (inputs of the modelled decision, observed in real handshakes, not proved); the go-grpc-middleware interceptor is modelled from its source.",
    technique="Coq proof (string-splitting lemma for the bearer header, case analysis of the TLS option decision) + enumerated differential check against a real gRPC server and real TLS handshakes",
    trusted=["Model/Auth.v hand-written model of cmd.authFunc, the auth interceptor and security/tls.go"],
    assumptions=["crypto/tls verifies chains against ClientCAs and calls VerifyPeerCertificate with the verified chains", "ASCII scheme names (EqualFold)"],
)

# Properties not (yet) claimed, each with a reason; kept current as checks are added.
_PENDING = "check not built yet in this development; will be claimed once its model, theorems and correspondence harness exist"
NOT_APPLICABLE = [dict(property_id="C%02d" % i, reason=_PENDING) for i in range(1, 20) if "C%02d" % i not in PROPS]
