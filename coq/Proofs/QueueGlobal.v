(* storage/queue.go: the per-heap handler lemmas of QueueFacts composed over the whole table map.  GInv: the table keys
   are distinct, and ALL queued waiters of ALL tables together have pairwise distinct ids, an empty channel and no
   answer yet, and nobody was answered twice.  Every event handled from a GInv state completes (never Blocked, never
   Panicked) and re-establishes GInv, so the event loop never wedges on any sequence of events (C11). *)
From Coq Require Import Lia Permutation.
From Verif Require Import Model.Bytes Model.Heap Model.Queue Proofs.HeapFacts Proofs.QueueFacts Proofs.QueueOrder.

Definition all_items (hs : list (N * list item)) : list item := concat (map snd hs).
Definition keys (hs : list (N * list item)) : list N := map fst hs.

Record GInv (s : qstate) : Prop := {
  g_keys : NoDup (keys (heaps s));
  g_items : HInv (all_items (heaps s)) (chans s) (answers s)
}.

Lemma all_items_cons k h r : all_items ((k, h) :: r) = h ++ all_items r.
Proof. reflexivity. Qed.

(* the waiters of every table but t *)
Fixpoint others (hs : list (N * list item)) (t : N) : list item :=
  match hs with [] => [] | (k, h) :: r => if k =? t then others r t else h ++ others r t end.

Lemma others_notin hs t : ~ In t (keys hs) -> others hs t = all_items hs.
Proof.
  induction hs as [|[k h] r IH]; intros H; [reflexivity|]. cbn [others].
  destruct (N.eqb_spec k t) as [->|Hk]; [exfalso; apply H; now left|].
  rewrite all_items_cons. f_equal. apply IH. intro H'. apply H. now right.
Qed.

Lemma items_split hs t : NoDup (keys hs) -> Permutation (all_items hs) (hget hs t ++ others hs t).
Proof.
  induction hs as [|[k h] r IH]; intros Hn; [constructor|]. cbn [hget others]. rewrite all_items_cons.
  inversion Hn as [|? ? Hnot Hn']; subst.
  destruct (N.eqb_spec k t) as [->|Hk].
  - rewrite others_notin by exact Hnot. apply Permutation_refl.
  - apply Permutation_trans with (h ++ hget r t ++ others r t); [apply Permutation_app_head, IH, Hn'|].
    rewrite !app_assoc. apply Permutation_app_tail, Permutation_app_comm.
Qed.

Lemma keys_hset hs t h k : In k (keys (hset hs t h)) <-> k = t \/ In k (keys hs).
Proof.
  induction hs as [|[k0 h0] r IH]; cbn [hset].
  - cbn. intuition.
  - destruct (N.eqb_spec k0 t) as [->|Hk]; cbn [keys map fst In].
    + intuition.
    + fold (keys (hset r t h)). fold (keys r). rewrite IH. intuition.
Qed.

Lemma keys_hset_nodup hs t h : NoDup (keys hs) -> NoDup (keys (hset hs t h)).
Proof.
  induction hs as [|[k0 h0] r IH]; intros Hn; cbn [hset].
  - cbn. constructor; [intros []|constructor].
  - inversion Hn as [|? ? Hnot Hn']; subst. destruct (N.eqb_spec k0 t) as [->|Hk].
    + exact Hn.
    + cbn [keys map fst]. constructor; [|apply IH, Hn']. fold (keys (hset r t h)). rewrite keys_hset.
      intros [E|H]; [congruence|contradiction].
Qed.

Lemma others_hset hs t h : others (hset hs t h) t = others hs t.
Proof.
  induction hs as [|[k0 h0] r IH]; cbn [hset].
  - cbn [others]. now rewrite N.eqb_refl.
  - destruct (N.eqb_spec k0 t) as [->|Hk]; cbn [others].
    + now rewrite N.eqb_refl.
    + destruct (N.eqb_spec k0 t); [contradiction|]. f_equal. exact IH.
Qed.

Lemma items_hset hs t h : NoDup (keys hs) -> Permutation (all_items (hset hs t h)) (h ++ others hs t).
Proof.
  intros Hn. pose proof (items_split (hset hs t h) t (keys_hset_nodup hs t h Hn)) as H.
  rewrite hget_hset, N.eqb_refl, others_hset in H. exact H.
Qed.

(* ---- NoDup over concatenations ---- *)
Lemma NoDup_app_inv (A : Type) (a b : list A) :
  NoDup (a ++ b) -> NoDup a /\ NoDup b /\ (forall x, In x a -> ~ In x b).
Proof.
  induction a as [|y a IH]; cbn; intros H; [split; [constructor|split; [exact H|intros x []]]|].
  inversion H as [|? ? Hnot Hn]; subst. destruct (IH Hn) as (Ha & Hb & Hd).
  split; [constructor; [|exact Ha]; intro Hy; apply Hnot, in_or_app; now left|].
  split; [exact Hb|]. intros x [<-|Hx]; [intro Hy; apply Hnot, in_or_app; now right|now apply Hd].
Qed.

Lemma NoDup_app_intro (A : Type) (a b : list A) :
  NoDup a -> NoDup b -> (forall x, In x a -> ~ In x b) -> NoDup (a ++ b).
Proof.
  induction a as [|y a IH]; cbn; intros Ha Hb Hd; [exact Hb|].
  inversion Ha as [|? ? Hnot Hn]; subst. constructor.
  - intro H. apply in_app_or in H. destruct H as [H|H]; [contradiction|]. exact (Hd y (or_introl eq_refl) H).
  - apply IH; auto.
Qed.

Lemma ids_app a b : ids (a ++ b) = ids a ++ ids b.
Proof. apply map_app. Qed.

(* ---- a handler that works on one heap, seen from the whole map ---- *)
Lemma HInv_sub h o cs ans : HInv (h ++ o) cs ans -> HInv h cs ans.
Proof.
  intros [Hn He Hu Ha]. rewrite ids_app in Hn. destruct (NoDup_app_inv _ _ _ Hn) as (Hh & _ & _).
  constructor; auto.
  - intros x Hx. apply He, in_or_app. now left.
  - intros x Hx. apply Hu, in_or_app. now left.
Qed.

Lemma HInv_local h o cs ans h' cs' new :
  HInv (h ++ o) cs ans ->
  HInv h' cs' (ans ++ new) ->
  (forall j, ~ In j (ids h) -> cget cs' j = cget cs j) ->
  (forall y, In y h' -> In y h) ->
  (forall i a, In (i, a) new -> In i (ids h)) ->
  HInv (h' ++ o) cs' (ans ++ new).
Proof.
  intros [Hn He Hu Ha] [Hn' He' Hu' Ha'] Hfr Hsub Hnew.
  rewrite ids_app in Hn. destruct (NoDup_app_inv _ _ _ Hn) as (Hh & Ho & Hd).
  constructor.
  - rewrite ids_app. apply NoDup_app_intro; [exact Hn'|exact Ho|].
    intros x Hx. apply Hd. unfold ids in *. apply in_map_iff in Hx. destruct Hx as (y & <- & Hy).
    apply in_map. now apply Hsub.
  - intros x Hx. apply in_app_or in Hx. destruct Hx as [Hx|Hx]; [now apply He'|].
    rewrite Hfr; [apply He, in_or_app; now right|].
    intro H. apply (Hd _ H). now apply in_map.
  - intros x Hx. apply in_app_or in Hx. destruct Hx as [Hx|Hx]; [now apply Hu'|].
    unfold ans_ids. rewrite map_app. intro H. apply in_app_or in H. destruct H as [H|H].
    + apply (Hu x); [apply in_or_app; now right|exact H].
    + apply in_map_iff in H. destruct H as ([i a] & Ei & Hin). cbn in Ei. subst i.
      apply (Hd _ (Hnew _ _ Hin)). now apply in_map.
  - exact Ha'.
Qed.

Lemma justified_ids canc rev h new : justified canc rev h new -> forall i a, In (i, a) new -> In i (ids h).
Proof. intros Hj i a Hin. destruct (Hj i a Hin) as (x & Hx & <- & _). now apply in_map. Qed.

(* a new waiter with a fresh id, seen from the whole map *)
Lemma HInv_cons l cs ans id rev :
  HInv l cs ans -> ~ In id (ids l) -> ~ In id (ans_ids ans) ->
  HInv ({| it_id := id; it_rev := rev |} :: l) (cset cs id ChEmpty) ans.
Proof.
  intros [Hn He Hu Ha] Hid Hans. constructor; auto.
  - cbn. constructor; assumption.
  - intros x [<-|Hx]; cbn; [apply cget_cset_same|].
    rewrite cget_cset_other; [now apply He|]. intro E. apply Hid. rewrite E. now apply in_map.
  - intros x [<-|Hx]; cbn; [exact Hans|now apply Hu].
Qed.

(* ---- the sweep over every table ---- *)
Lemma sweep_all_inv canc : forall hs o cs ans, HInv (all_items hs ++ o) cs ans ->
  exists hs' cs' new,
    sweep_all canc hs cs ans = (Fine, hs', cs', ans ++ new) /\
    HInv (all_items hs' ++ o) cs' (ans ++ new) /\
    keys hs' = keys hs /\
    (forall j, ~ In j (ids (all_items hs)) -> cget cs' j = cget cs j) /\
    (forall y, In y (all_items hs') -> In y (all_items hs)) /\
    (forall i a, In (i, a) new -> In i (ids (all_items hs))).
Proof.
  induction hs as [|[k h] r IH]; intros o cs ans HI.
  - exists [], cs, []. cbn [sweep_all all_items map concat keys]. rewrite app_nil_r.
    split; [reflexivity|]. split; [exact HI|]. split; [reflexivity|]. split; [auto|]. split; [auto|]. intros i a [].
  - rewrite all_items_cons, <- app_assoc in HI.
    pose proof (HInv_sub _ _ _ _ HI) as HIh.
    destruct (sweep_scan_ok canc h cs ans HIh) as (cs1 & new1 & E1 & HI1 & Hfr1 & Hj1).
    remember (filter (fun x => negb (canc (it_id x))) h) as live eqn:Elive.
    assert (Hlive : forall y, In y live -> In y h) by (intros y Hy; subst live; apply filter_In in Hy; tauto).
    assert (HI2 : HInv (live ++ all_items r ++ o) cs1 (ans ++ new1)).
    { apply HInv_local with h cs; auto. exact (justified_ids _ _ _ _ Hj1). }
    assert (HI3 : HInv (all_items r ++ (heapify item lessi ditem live ++ o)) cs1 (ans ++ new1)).
    { eapply HInv_perm; [|exact HI2].
      apply Permutation_trans with (heapify item lessi ditem live ++ all_items r ++ o).
      - apply Permutation_app_tail, Permutation_sym, heapify_perm.
      - rewrite !app_assoc. apply Permutation_app_tail, Permutation_app_comm. }
    destruct (IH _ _ _ HI3) as (r' & cs2 & new2 & E2 & HI4 & Hk & Hfr2 & Hsub2 & Hn2).
    exists ((k, heapify item lessi ditem live) :: r'), cs2, (new1 ++ new2).
    cbn [sweep_all]. rewrite E1. cbn beta iota. rewrite E2. rewrite app_assoc.
    split; [reflexivity|]. split; [|split; [|split; [|split]]].
    + rewrite all_items_cons. eapply HInv_perm; [|exact HI4].
      rewrite !app_assoc. apply Permutation_app_tail, Permutation_app_comm.
    + cbn. f_equal. exact Hk.
    + intros j Hj. rewrite all_items_cons, ids_app in Hj.
      rewrite Hfr2 by (intro H; apply Hj, in_or_app; now right).
      apply Hfr1. intro H. apply Hj, in_or_app. now left.
    + intros y Hy. rewrite all_items_cons in *. apply in_app_or in Hy. apply in_or_app. destruct Hy as [Hy|Hy].
      * left. apply Hlive. eapply Permutation_in; [apply heapify_perm|exact Hy].
      * right. now apply Hsub2.
    + intros i a Hin. rewrite all_items_cons, ids_app. apply in_or_app. apply in_app_or in Hin. destruct Hin as [Hin|Hin].
      * left. exact (justified_ids _ _ _ _ Hj1 _ _ Hin).
      * right. exact (Hn2 _ _ Hin).
Qed.

(* ---- every event ---- *)
Definition known (s : qstate) : list nat := ids (all_items (heaps s)) ++ ans_ids (answers s).

Definition fresh_event (s : qstate) (e : event) : Prop :=
  match e with EAdd id _ _ => ~ In id (known s) | _ => True end.
Definition is_add (e : event) (j : nat) : Prop := match e with EAdd id _ _ => id = j | _ => False end.

Lemma GInv0 : GInv q0.
Proof. constructor; cbn; [constructor|]. constructor; cbn; try constructor; intros x []. Qed.

Theorem step_never_blocks s e : GInv s -> fresh_event s e ->
  exists s' r, step s e = (Fine, s', r) /\ GInv s' /\
    (forall j, In j (known s') -> In j (known s) \/ is_add e j).
Proof.
  intros [Hk HI] Hf. destruct e as [id t rev|id|t rev| |id|t]; cbn [step].
  - (* Add *)
    eexists _, _. split; [reflexivity|]. cbn [fresh_event] in Hf. unfold known in Hf.
    assert (Hid : ~ In id (ids (all_items (heaps s)))) by (intro H; apply Hf, in_or_app; now left).
    assert (Hans : ~ In id (ans_ids (answers s))) by (intro H; apply Hf, in_or_app; now right).
    assert (Hp : Permutation (all_items (hset (heaps s) t (push item lessi ditem (hget (heaps s) t) {| it_id := id; it_rev := rev |})))
                             ({| it_id := id; it_rev := rev |} :: all_items (heaps s))).
    { eapply Permutation_trans; [apply items_hset, Hk|].
      eapply Permutation_trans; [apply Permutation_app_tail, push_perm|]. cbn. constructor.
      apply Permutation_sym, items_split, Hk. }
    split; [constructor; cbn [heaps chans answers]|].
    + apply keys_hset_nodup, Hk.
    + eapply HInv_perm; [apply Permutation_sym, Hp|]. now apply HInv_cons.
    + intros j Hj. unfold known in *. cbn [heaps answers] in Hj. apply in_app_or in Hj. destruct Hj as [Hj|Hj].
      * apply (Permutation_in _ (perm_ids _ _ Hp)) in Hj. cbn in Hj. destruct Hj as [<-|Hj]; [right; reflexivity|].
        left. apply in_or_app. now left.
      * left. apply in_or_app. now right.
  - (* Cancel *)
    eexists _, _. split; [reflexivity|]. split; [constructor; assumption|]. intros j Hj. now left.
  - (* Notify *)
    pose proof (items_split (heaps s) t Hk) as Hp.
    pose proof (HInv_perm _ _ _ _ Hp HI) as HI0.
    destruct (notify_loop_ok (is_cancelled s) rev (length (hget (heaps s) t)) _ _ _ (le_n _) (HInv_sub _ _ _ _ HI0))
      as (h' & cs' & new & E & HI' & Hfr & Hsub & Hj).
    rewrite E. eexists _, _. split; [reflexivity|].
    assert (Hp' : Permutation (all_items (hset (heaps s) t h')) (h' ++ others (heaps s) t)) by (apply items_hset, Hk).
    split; [constructor; cbn [heaps chans answers]|].
    + apply keys_hset_nodup, Hk.
    + eapply HInv_perm; [apply Permutation_sym, Hp'|].
      apply HInv_local with (hget (heaps s) t) (chans s); auto. exact (justified_ids _ _ _ _ Hj).
    + intros j Hin. left. unfold known in *. cbn [heaps answers] in Hin. apply in_or_app.
      apply in_app_or in Hin. destruct Hin as [Hin|Hin].
      * left. apply (Permutation_in _ (perm_ids _ _ Hp')) in Hin. apply (Permutation_in _ (Permutation_sym (perm_ids _ _ Hp))).
        rewrite ids_app in *. apply in_or_app. apply in_app_or in Hin. destruct Hin as [Hin|Hin]; [left|now right].
        unfold ids in *. apply in_map_iff in Hin. destruct Hin as (y & <- & Hy). apply in_map. now apply Hsub.
      * unfold ans_ids in Hin. rewrite map_app in Hin. apply in_app_or in Hin. destruct Hin as [Hin|Hin]; [now right|].
        left. apply in_map_iff in Hin. destruct Hin as ([i a] & Ei & Hin). cbn in Ei. subst i.
        apply (Permutation_in _ (Permutation_sym (perm_ids _ _ Hp))). rewrite ids_app. apply in_or_app. left.
        exact (justified_ids _ _ _ _ Hj _ _ Hin).
  - (* Sweep *)
    assert (HI0 : HInv (all_items (heaps s) ++ []) (chans s) (answers s)) by (now rewrite app_nil_r).
    destruct (sweep_all_inv (is_cancelled s) _ _ _ _ HI0) as (hs' & cs' & new & E & HI' & Hk' & Hfr & Hsub & Hn).
    rewrite E. eexists _, _. split; [reflexivity|]. rewrite app_nil_r in HI'.
    split; [constructor; cbn [heaps chans answers]; [now rewrite Hk'|exact HI']|].
    intros j Hin. left. unfold known in *. cbn [heaps answers] in Hin. apply in_or_app.
    apply in_app_or in Hin. destruct Hin as [Hin|Hin].
    + left. unfold ids in *. apply in_map_iff in Hin. destruct Hin as (y & <- & Hy). apply in_map. now apply Hsub.
    + unfold ans_ids in Hin. rewrite map_app in Hin. apply in_app_or in Hin. destruct Hin as [Hin|Hin]; [now right|].
      left. apply in_map_iff in Hin. destruct Hin as ([i a] & Ei & Hin). cbn in Ei. subst i. exact (Hn _ _ Hin).
  - (* Read *)
    eexists _, _. split; [reflexivity|]. split; [|intros j Hj; now left].
    constructor; cbn [heaps chans answers]; [exact Hk|].
    destruct (cget (chans s) id) eqn:Ec; try exact HI.
    destruct HI as [Hn He Hu Ha]. constructor; auto.
    intros x Hx. rewrite cget_cset_other; [now apply He|]. intro E. rewrite E, (He x Hx) in Ec. discriminate.
  - (* Len *)
    eexists _, _. split; [reflexivity|]. split; [constructor; assumption|]. intros j Hj. now left.
Qed.

(* the ids of the Add events of a run *)
Fixpoint adds (es : list event) : list nat :=
  match es with [] => [] | EAdd id _ _ :: r => id :: adds r | _ :: r => adds r end.

(* From the initial state, or any GInv state, every sequence of events whose Add ids are new and pairwise distinct is
   handled to the end: no event blocks the loop or panics it, and the invariant holds in the final state. *)
Theorem run_never_blocks es : forall s, GInv s -> NoDup (adds es) -> (forall j, In j (adds es) -> ~ In j (known s)) ->
  fst (run s es) = repeat Fine (length es) /\ GInv (snd (run s es)).
Proof.
  induction es as [|e es IH]; intros s HG Hn Hfresh; [split; [reflexivity|exact HG]|].
  assert (Hfe : fresh_event s e).
  { destruct e; cbn; auto. apply Hfresh. cbn. now left. }
  destruct (step_never_blocks s e HG Hfe) as (s' & r & E & HG' & Hkn).
  cbn [run]. rewrite E.
  assert (Hn' : NoDup (adds es)) by (destruct e; cbn in Hn; auto; now inversion Hn).
  assert (Hfresh' : forall j, In j (adds es) -> ~ In j (known s')).
  { intros j Hj Hin. destruct (Hkn j Hin) as [Hold|Hadd].
    - apply (Hfresh j); [destruct e; cbn; auto|exact Hold].
    - destruct e; cbn in Hadd; try contradiction. subst. cbn in Hn. inversion Hn; subst. contradiction. }
  destruct (IH s' HG' Hn' Hfresh') as [Hr HGf]. destruct (run s' es) as [os s''] eqn:Er. cbn [fst snd] in *.
  split; [cbn; now f_equal|exact HGf].
Qed.

(* exactly once: in every state reached this way nobody has two answers and no answered waiter is still queued *)
Corollary run_answers_once es s : GInv s -> NoDup (adds es) -> (forall j, In j (adds es) -> ~ In j (known s)) ->
  NoDup (ans_ids (answers (snd (run s es)))) /\
  forall x, In x (all_items (heaps (snd (run s es)))) -> ~ In (it_id x) (ans_ids (answers (snd (run s es)))).
Proof.
  intros HG Hn Hf. destruct (run_never_blocks es s HG Hn Hf) as [_ [_ [_ _ Hu Ha]]]. split; assumption.
Qed.
