From Verif Require Import Model.Replication.

Section Repl.
  Variables (S C : Type) (app : S -> C -> S) (init : S).
  Notation state_at := (state_at S C app init).
  Notation Inv := (Inv S C app init).
  Notation step := (step S C app init).
  Notation run := (run S C app init).
  Notation guarded := (guarded C).

  Lemma firstn_add {A} (l : list A) i k : firstn (i + k) l = firstn i l ++ firstn k (skipn i l).
  Proof.
    revert l. induction i as [|i IH]; intros l; [reflexivity|]. destruct l as [|x l]; cbn.
    - now rewrite firstn_nil.
    - now rewrite IH.
  Qed.
  Lemma state_at_add L i k : state_at L (i + k) = fold_left app (firstn k (skipn i L)) (state_at L i).
  Proof. unfold Replication.state_at. now rewrite firstn_add, fold_left_app. Qed.
  Lemma state_at_app L c i : i <= length L -> state_at (L ++ [c]) i = state_at L i.
  Proof. intros H. unfold Replication.state_at. now rewrite firstn_app, (proj2 (Nat.sub_0_le i (length L)) H), firstn_O, app_nil_r. Qed.

  Lemma skipn_add {A} (l : list A) i k : skipn (i + k) l = skipn k (skipn i l).
  Proof.
    revert l. induction i as [|i IH]; intros l; [reflexivity|]. destruct l as [|x l]; cbn; [now rewrite skipn_nil|apply IH].
  Qed.
  Lemma firstn_app_exact {A} (a b : list A) : firstn (length a) (a ++ b) = a.
  Proof. rewrite firstn_app, Nat.sub_diag, firstn_O, app_nil_r. apply firstn_all. Qed.
  Lemma skipn_app_exact {A} (a b : list A) : skipn (length a) (a ++ b) = b.
  Proof. rewrite skipn_app, Nat.sub_diag, skipn_all. reflexivity. Qed.
  Lemma state_at_split L r es rest : skipn r L = es ++ rest -> state_at L (r + length es) = fold_left app es (state_at L r).
  Proof. intros H. rewrite state_at_add, H. now rewrite firstn_app_exact. Qed.
  Lemma skipn_split {A} (L : list A) r es rest : skipn r L = es ++ rest -> skipn (r + length es) L = rest.
  Proof. intros H. rewrite skipn_add, H. apply skipn_app_exact. Qed.
  Lemma skipn_le_length {A} (L : list A) r es rest : skipn r L = es ++ rest -> r <= length L -> r + length es <= length L.
  Proof.
    intros H Hr. assert (E : length (skipn r L) = length es + length rest) by (rewrite H; apply app_length).
    rewrite skipn_length in E. lia.
  Qed.

  (* the follower holds exactly the entries up to r and es are the entries after r: proposing them in any chunking
     leaves it holding exactly the entries up to r + |es| *)
  Lemma propose_exact L sizes : forall es f rest,
    f_store S f = state_at L (f_lidx S f) -> skipn (f_lidx S f) L = es ++ rest ->
    f_store S (propose S C app f es sizes) = state_at L (f_lidx S f + length es) /\
    f_lidx S (propose S C app f es sizes) = f_lidx S f + length es.
  Proof.
    induction sizes as [|k ks IH]; intros es f rest Hs He.
    - destruct es as [|e es]; cbn [propose]; [cbn [length]; rewrite Nat.add_0_r; now split|].
      cbn [apply_seq f_store f_lidx]. split; [|reflexivity]. rewrite (state_at_split L _ _ rest He), Hs. reflexivity.
    - destruct es as [|e es]; cbn [propose]; [cbn [length]; rewrite Nat.add_0_r; now split|].
      set (es0 := e :: es) in *. set (c := firstn (Datatypes.S k) es0). set (tl := skipn (Datatypes.S k) es0).
      assert (E0 : es0 = c ++ tl) by (symmetry; apply firstn_skipn).
      assert (He' : skipn (f_lidx S f) L = c ++ (tl ++ rest)) by (rewrite He, E0, app_assoc; reflexivity).
      destruct (IH tl (apply_seq S C app f c (f_lidx S f + length c)) rest) as [H1 H2].
      + cbn [apply_seq f_store f_lidx]. rewrite (state_at_split L _ _ _ He'), Hs. reflexivity.
      + cbn [apply_seq f_lidx]. apply (skipn_split L _ _ _ He').
      + cbn [apply_seq f_lidx] in H1, H2.
        assert (El : length es0 = length c + length tl) by (rewrite E0 at 1; apply app_length).
        split; [rewrite H1; f_equal; lia|rewrite H2; lia].
  Qed.

  Lemma propose_lidx_ge sizes : forall es f, f_lidx S f <= f_lidx S (propose S C app f es sizes).
  Proof.
    induction sizes as [|k ks IH]; intros es f; destruct es as [|e es]; cbn [propose]; try apply le_n.
    - cbn. lia.
    - etransitivity; [|apply IH]. cbn. lia.
  Qed.

  Lemma firstn_skipn_split {A} (l : list A) r n : skipn r l = firstn n (skipn r l) ++ skipn n (skipn r l).
  Proof. symmetry. apply firstn_skipn. Qed.

  (* ---- the invariant: at every moment the follower's content is the leader's content as of the recorded index ---- *)
  Theorem step_inv s a : guarded a = true -> Inv s -> Inv (step s a).
  Proof.
    intros Hg [Hs Hl]. destruct a; try discriminate; unfold Replication.Inv in *; cbn [step s_log s_fol s_marker].
    - (* ALeader *) rewrite app_length. cbn. split; [rewrite state_at_app by assumption; assumption|lia].
    - (* ACompact *) split; assumption.
    - (* APoll *)
      destruct (f_lidx S (s_fol S C s) <? s_marker S C s); [split; assumption|]. cbn [s_log s_fol].
      set (r := f_lidx S (s_fol S C s)) in *.
      destruct (propose_exact (s_log S C s) sizes (firstn n (skipn r (s_log S C s))) (s_fol S C s)
                  (skipn n (skipn r (s_log S C s))) Hs (firstn_skipn_split _ _ _)) as [H1 H2].
      rewrite H2. split; [exact H1|]. fold r. apply (skipn_le_length _ _ _ _ (firstn_skipn_split (s_log S C s) r n) Hl).
    - (* ARecover *) cbn. split; [reflexivity|apply le_n].
  Qed.

  Theorem run_inv acts : forallb guarded acts = true -> Inv (run acts).
  Proof.
    unfold Replication.run. assert (H0 : Inv (sys0 S C init)) by (split; [reflexivity|apply le_n]).
    revert H0. generalize (sys0 S C init). induction acts as [|a acts IH]; intros s Hs Hg; [exact Hs|].
    cbn in Hg. apply andb_prop in Hg as [Ha Hg]. cbn [fold_left]. apply IH; [now apply step_inv|assumption].
  Qed.

  (* the recorded leader index never moves backwards *)
  Theorem step_monotone s a : guarded a = true -> Inv s -> f_lidx S (s_fol S C s) <= f_lidx S (s_fol S C (step s a)).
  Proof.
    intros Hg [Hs Hl]. destruct a; try discriminate; cbn [step s_fol]; try apply le_n.
    - destruct (_ <? _); [apply le_n|]. cbn [s_fol]. apply propose_lidx_ge.
    - cbn. exact Hl.
  Qed.

  (* the leader's log only grows, so "the leader's content as of index i" never changes for an index once reached *)
  Theorem leader_prefix_stable s a i : i <= length (s_log S C s) ->
    state_at (s_log S C (step s a)) i = state_at (s_log S C s) i.
  Proof. intros H. destruct a; cbn [step s_log]; try reflexivity; [now apply state_at_app|destruct (_ <? _); reflexivity]. Qed.

  (* progress and convergence: a poll that is served delivers at least one entry whenever one is missing (C06: the
     batches are non-empty), so it moves the index strictly forward; a complete stream or a snapshot reaches the
     leader's latest state *)
  Theorem poll_progress s n sizes : Inv s -> 1 <= n -> s_marker S C s <= f_lidx S (s_fol S C s) ->
    f_lidx S (s_fol S C s) < length (s_log S C s) ->
    f_lidx S (s_fol S C s) < f_lidx S (s_fol S C (step s (APoll C n sizes))).
  Proof.
    intros [Hs Hl] Hn Hm Hlt. cbn [step]. replace (_ <? _) with false by (symmetry; apply Nat.ltb_ge; assumption).
    cbn [s_fol]. set (r := f_lidx S (s_fol S C s)) in *.
    destruct (propose_exact (s_log S C s) sizes (firstn n (skipn r (s_log S C s))) (s_fol S C s)
                (skipn n (skipn r (s_log S C s))) Hs (firstn_skipn_split _ _ _)) as [_ H2].
    rewrite H2. fold r. rewrite firstn_length, skipn_length. lia.
  Qed.
  Theorem poll_complete s n sizes : Inv s -> s_marker S C s <= f_lidx S (s_fol S C s) ->
    length (s_log S C s) - f_lidx S (s_fol S C s) <= n ->
    let s' := step s (APoll C n sizes) in
    f_lidx S (s_fol S C s') = length (s_log S C s) /\ f_store S (s_fol S C s') = state_at (s_log S C s) (length (s_log S C s)).
  Proof.
    intros [Hs Hl] Hm Hn. cbn [step]. replace (_ <? _) with false by (symmetry; apply Nat.ltb_ge; assumption).
    cbn [s_fol]. set (r := f_lidx S (s_fol S C s)) in *.
    destruct (propose_exact (s_log S C s) sizes (firstn n (skipn r (s_log S C s))) (s_fol S C s)
                (skipn n (skipn r (s_log S C s))) Hs (firstn_skipn_split _ _ _)) as [H1 H2].
    fold r in H1, H2. assert (E : r + length (firstn n (skipn r (s_log S C s))) = length (s_log S C s)).
    { rewrite firstn_length, skipn_length. lia. }
    rewrite H2, H1, E. now split.
  Qed.
  Theorem recover_complete s :
    let s' := step s (ARecover C) in
    f_lidx S (s_fol S C s') = length (s_log S C s) /\ f_store S (s_fol S C s') = state_at (s_log S C s) (length (s_log S C s)).
  Proof. cbn. now split. Qed.

  (* ---- a follower log that [follows] the leader's is explained: exactly once, in order ---- *)
  Variable ceq : C -> C -> bool.
  Hypothesis ceq_eq : forall x y, ceq x y = true -> x = y.
  Lemma list_eqb_eq a : forall b, list_eqb C ceq a b = true -> a = b.
  Proof.
    induction a as [|x a IH]; intros [|y b] H; try discriminate; [reflexivity|].
    cbn in H. apply andb_prop in H as [H1 H2]. f_equal; [now apply ceq_eq|now apply IH].
  Qed.
  Theorem follows_exact L ps : forall cur fin f,
    follows C ceq L cur ps = Some fin -> cur <= length L ->
    f_store S f = state_at L cur -> f_lidx S f = cur ->
    let f' := replay S C app init L f ps in
    f_store S f' = state_at L fin /\ f_lidx S f' = fin /\ cur <= fin <= length L.
  Proof.
    induction ps as [|p ps IH]; intros cur fin f Hf Hc Hs Hl; cbn [follows replay] in *.
    - injection Hf as <-. repeat split; try assumption; lia.
    - destruct p as [[t|] cs|[t|]|t]; try discriminate.
      + destruct (list_eqb C ceq cs (firstn (length cs) (skipn cur L)) && Nat.eqb t (cur + length cs) && Nat.leb 1 (length cs) &&
                  Nat.leb (cur + length cs) (length L)) eqn:E; [|discriminate].
        apply andb_prop in E as [E E4]. apply andb_prop in E as [E E3]. apply andb_prop in E as [E1 E2].
        apply list_eqb_eq in E1. apply Nat.eqb_eq in E2. apply Nat.leb_le in E3, E4. subst t.
        destruct (IH (cur + length cs) fin (apply_seq S C app f cs (cur + length cs)) Hf E4) as [H1 [H2 H3]].
        * cbn [apply_seq f_store]. rewrite state_at_add, Hs, <- E1. reflexivity.
        * reflexivity.
        * repeat split; try assumption; lia.
      + destruct (Nat.leb cur t && Nat.leb t (length L)) eqn:E; [|discriminate].
        apply andb_prop in E as [E1 E2]. apply Nat.leb_le in E1, E2.
        destruct (IH t fin {| f_store := state_at L t; f_lidx := t |} Hf E2 eq_refl eq_refl) as [H1 [H2 H3]].
        repeat split; try assumption; lia.
      + apply (IH cur fin f Hf Hc Hs Hl).
  Qed.
End Repl.
