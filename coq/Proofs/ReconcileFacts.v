From Coq Require Import Lia.
From Verif Require Import Model.Bytes Model.Reconcile.

Lemma memb_in x l : memb x l = true <-> In x l.
Proof.
  unfold memb. rewrite existsb_exists. split.
  - intros (y & Hy & E). apply N.eqb_eq in E. now subst.
  - intros H. exists x. split; [exact H|apply N.eqb_refl].
Qed.
Lemma memb_notin x l : memb x l = false <-> ~ In x l.
Proof. rewrite <- memb_in. destruct (memb x l); split; intros; congruence. Qed.

(* after one reconciliation the follower has exactly the leader's tables: created ones appear, deleted ones disappear -
   also when the leader has none left *)
Theorem reconcile_exact leader follower x : In x (reconcile leader follower) <-> In x leader.
Proof.
  unfold reconcile, to_delete, to_create. rewrite in_app_iff, !filter_In, !negb_true_iff, !memb_notin. split.
  - intros [[Hf Hnd]|[Hl _]]; [|exact Hl].
    destruct (memb x leader) eqn:E; [now apply memb_in|]. exfalso. apply Hnd. apply filter_In. split; [exact Hf|].
    now rewrite E.
  - intros Hl. destruct (memb x follower) eqn:E.
    + left. apply memb_in in E. split; [exact E|]. intros H. apply filter_In in H. destruct H as [_ H].
      apply negb_true_iff, memb_notin in H. contradiction.
    + right. split; [exact Hl|]. now apply memb_notin.
Qed.
Corollary reconcile_empty_leader follower : reconcile [] follower = [].
Proof.
  destruct (reconcile [] follower) as [|x r] eqn:E; [reflexivity|].
  assert (H : In x (reconcile [] follower)) by (rewrite E; now left). apply reconcile_exact in H. destruct H.
Qed.
(* nothing the leader still has is deleted, nothing the follower already has is created *)
Theorem reconcile_minimal leader follower x :
  (In x (to_delete leader follower) <-> In x follower /\ ~ In x leader) /\
  (In x (to_create leader follower) <-> In x leader /\ ~ In x follower).
Proof. unfold to_delete, to_create. rewrite !filter_In, !negb_true_iff, !memb_notin. tauto. Qed.
(* a table set that already equals the leader's is left alone *)
Lemma filter_none (L F : list N) : (forall x, In x F -> In x L) -> filter (fun f => negb (memb f L)) F = [].
Proof.
  induction F as [|a F IH]; intros H; [reflexivity|]. cbn [filter].
  replace (memb a L) with true by (symmetry; apply memb_in, H; now left). cbn [negb]. apply IH. intros x Hx. apply H. now right.
Qed.
Lemma filter_all (F : list N) : filter (fun f => negb (memb f [])) F = F.
Proof. induction F as [|a F IH]; [reflexivity|]. cbn [filter]. change (memb a []) with false. cbn [negb]. f_equal. exact IH. Qed.
Theorem reconcile_stable leader : reconcile leader leader = leader.
Proof.
  unfold reconcile, to_delete, to_create. rewrite (filter_none leader leader) by auto.
  rewrite filter_all. apply app_nil_r.
Qed.
