(* storage/queue.go: the handlers of the event loop never block, answer each waiter at most once, and only for a
   reason (C11).  Per-heap statements with a frame clause: a handler touches only the waiters of its own heap. *)
From Coq Require Import Lia Permutation.
From Verif Require Import Model.Bytes Model.Heap Model.Queue Proofs.HeapFacts.

Definition ids (h : list item) : list nat := map it_id h.
Definition ans_ids (a : list (nat * answer)) : list nat := map fst a.

Record HInv (h : list item) (cs : list (nat * chan)) (ans : list (nat * answer)) : Prop := {
  hi_nodup : NoDup (ids h);
  hi_empty : forall x, In x h -> cget cs (it_id x) = ChEmpty;
  hi_unanswered : forall x, In x h -> ~ In (it_id x) (ans_ids ans);
  hi_ans_nodup : NoDup (ans_ids ans)
}.

Lemma cget_cset_same cs i c : cget (cset cs i c) i = c.
Proof. induction cs as [|[k c0] r IH]; simpl; [now rewrite Nat.eqb_refl|]. destruct (Nat.eqb_spec k i); simpl; [now rewrite e, Nat.eqb_refl|]. destruct (Nat.eqb_spec k i); [contradiction|exact IH]. Qed.

Lemma cget_cset_other cs i j c : i <> j -> cget (cset cs i c) j = cget cs j.
Proof.
  intros H. induction cs as [|[k c0] r IH]; simpl.
  - destruct (Nat.eqb_spec i j); [contradiction|reflexivity].
  - destruct (Nat.eqb_spec k i) as [->|Hk]; simpl.
    + destruct (Nat.eqb_spec i j); [contradiction|reflexivity].
    + destruct (Nat.eqb_spec k j); [reflexivity|exact IH].
Qed.

Lemma perm_ids h h' : Permutation h h' -> Permutation (ids h) (ids h').
Proof. apply Permutation_map. Qed.

(* removing the root e and answering it keeps the invariant for the rest *)
Lemma HInv_remove_root e r h' cs ans c a :
  HInv (e :: r) cs ans -> Permutation h' r -> c <> ChEmpty \/ True ->
  HInv h' (cset cs (it_id e) c) (ans ++ [(it_id e, a)]).
Proof.
  intros [Hn He Hu Ha] Hp _.
  assert (Hne : forall y, In y h' -> it_id y <> it_id e).
  { intros y Hy E. simpl in Hn. inversion Hn as [|? ? Hnot _]; subst. apply Hnot.
    rewrite <- E. apply in_map. eapply Permutation_in; eauto. }
  constructor.
  - simpl in Hn. inversion Hn; subst. eapply Permutation_NoDup; [apply Permutation_sym, perm_ids; exact Hp|assumption].
  - intros y Hy. rewrite cget_cset_other by (intro E; apply (Hne y Hy); auto). apply He. right. eapply Permutation_in; eauto.
  - intros y Hy. unfold ans_ids. rewrite map_app, in_app_iff. intros [H|[H|[]]].
    + apply (Hu y); [right; eapply Permutation_in; eauto|exact H].
    + simpl in H. apply (Hne y Hy). auto.
  - unfold ans_ids. rewrite map_app. simpl.
    assert (G : forall (l : list nat) x, NoDup l -> ~ In x l -> NoDup (l ++ [x])).
    { clear. induction l as [|y l IH]; intros x Hn Hx; simpl; [constructor; [auto|constructor]|].
      inversion Hn; subst. constructor.
      - rewrite in_app_iff. intros [H|[H|[]]]; [contradiction|]. apply Hx. now left.
      - apply IH; [assumption|]. intro; apply Hx; now right. }
    apply G; [exact Ha|]. apply (Hu e). now left.
Qed.

(* what a handler adds to the answers *)
Definition justified (canc : nat -> bool) (rev : option N) (h : list item) (new : list (nat * answer)) : Prop :=
  forall i a, In (i, a) new ->
    exists x, In x h /\ it_id x = i /\
    match a with
    | AErr => canc i = true
    | AOk => canc i = false /\ match rev with Some r => it_rev x <= r | None => False end
    end.

Lemma notify_loop_ok canc rev fuel : forall h cs ans, (fuel <= length h)%nat -> HInv h cs ans ->
  exists h' cs' new,
    notify_loop fuel canc rev h cs ans = (Fine, h', cs', ans ++ new) /\
    HInv h' cs' (ans ++ new) /\
    (forall j, ~ In j (ids h) -> cget cs' j = cget cs j) /\
    (forall y, In y h' -> In y h) /\
    justified canc (Some rev) h new.
Proof.
  induction fuel as [|f IH]; intros h cs ans Hf HI.
  - exists h, cs, []. cbn [notify_loop]. rewrite app_nil_r.
    split; [reflexivity|]. split; [exact HI|]. split; [auto|]. split; [auto|]. unfold justified. intros i a [].
  - cbn [notify_loop]. destruct h as [|e r]; [simpl in Hf; lia|]. cbn [peek].
    destruct (canc (it_id e)) eqn:Ec.
    + (* expired root: error, pop *)
      unfold send_err. rewrite (hi_empty _ _ _ HI e (or_introl eq_refl)).
      destruct (pop item lessi ditem (e :: r)) as [[x h1]|] eqn:Ep.
      2:{ unfold pop in Ep. discriminate. }
      destruct (pop_spec item lessi ditem _ _ _ Ep) as (r0 & Er & Hp). injection Er as <- <-.
      assert (HI1 : HInv h1 (cset cs (it_id e) ChFull) (ans ++ [(it_id e, AErr)])) by (eapply HInv_remove_root; eauto).
      assert (Hl : (f <= length h1)%nat) by (rewrite (Permutation_length Hp); simpl in Hf; lia).
      destruct (IH h1 _ _ Hl HI1) as (h' & cs' & new & E & HI' & Hfr & Hsub & Hj).
      exists h', cs', ((it_id e, AErr) :: new). rewrite E.
      replace ((ans ++ [(it_id e, AErr)]) ++ new) with (ans ++ (it_id e, AErr) :: new) in * by (rewrite <- app_assoc; reflexivity).
      split; [reflexivity|]. split; [exact HI'|]. split; [|split].
      * intros j Hj'. rewrite Hfr.
        -- apply cget_cset_other. intro E'. apply Hj'. simpl. now left.
        -- intro H. apply Hj'. simpl. right. apply (Permutation_in _ (perm_ids _ _ Hp)). exact H.
      * intros y Hy. right. eapply Permutation_in; [exact Hp|]. now apply Hsub.
      * intros i a [[= <- <-]|Hin].
        -- exists e. repeat split; auto. now left.
        -- destruct (Hj i a Hin) as (x & Hx & Hid & Hwhy). exists x. split; [right; eapply Permutation_in; eauto|]. auto.
    + destruct (N.leb_spec (it_rev e) rev) as [Hle|Hgt].
      * (* released *)
        rewrite (hi_empty _ _ _ HI e (or_introl eq_refl)).
        destruct (pop item lessi ditem (e :: r)) as [[x h1]|] eqn:Ep.
        2:{ unfold pop in Ep. discriminate. }
        destruct (pop_spec item lessi ditem _ _ _ Ep) as (r0 & Er & Hp). injection Er as <- <-.
        assert (HI1 : HInv h1 (cset cs (it_id e) ChClosed) (ans ++ [(it_id e, AOk)])) by (eapply HInv_remove_root; eauto).
        assert (Hl : (f <= length h1)%nat) by (rewrite (Permutation_length Hp); simpl in Hf; lia).
        destruct (IH h1 _ _ Hl HI1) as (h' & cs' & new & E & HI' & Hfr & Hsub & Hj).
        exists h', cs', ((it_id e, AOk) :: new). rewrite E.
        replace ((ans ++ [(it_id e, AOk)]) ++ new) with (ans ++ (it_id e, AOk) :: new) in * by (rewrite <- app_assoc; reflexivity).
        split; [reflexivity|]. split; [exact HI'|]. split; [|split].
        -- intros j Hj'. rewrite Hfr.
           ++ apply cget_cset_other. intro E'. apply Hj'. simpl. now left.
           ++ intro H. apply Hj'. simpl. right. apply (Permutation_in _ (perm_ids _ _ Hp)). exact H.
        -- intros y Hy. right. eapply Permutation_in; [exact Hp|]. now apply Hsub.
        -- intros i a [[= <- <-]|Hin].
           ++ exists e. repeat split; auto. now left.
           ++ destruct (Hj i a Hin) as (x & Hx & Hid & Hwhy). exists x. split; [right; eapply Permutation_in; eauto|]. auto.
      * exists (e :: r), cs, []. rewrite app_nil_r.
        split; [reflexivity|]. split; [exact HI|]. split; [auto|]. split; [auto|]. unfold justified. intros i a [].
Qed.

Lemma sweep_scan_ok canc : forall h cs ans, HInv h cs ans ->
  exists cs' new,
    sweep_scan canc h cs ans = (Fine, filter (fun x => negb (canc (it_id x))) h, cs', ans ++ new) /\
    HInv (filter (fun x => negb (canc (it_id x))) h) cs' (ans ++ new) /\
    (forall j, ~ In j (ids h) -> cget cs' j = cget cs j) /\
    justified canc None h new.
Proof.
  induction h as [|e r IH]; intros cs ans HI.
  - exists cs, []. simpl. rewrite app_nil_r.
    split; [reflexivity|]. split; [exact HI|]. split; [auto|]. unfold justified. intros i a [].
  - cbn [sweep_scan filter]. destruct (canc (it_id e)) eqn:Ec; cbn [negb].
    + unfold send_err. rewrite (hi_empty _ _ _ HI e (or_introl eq_refl)).
      assert (HI1 : HInv r (cset cs (it_id e) ChFull) (ans ++ [(it_id e, AErr)])).
      { eapply HInv_remove_root; eauto. }
      destruct (IH _ _ HI1) as (cs' & new & E & HI' & Hfr & Hj).
      exists cs', ((it_id e, AErr) :: new). rewrite E.
      replace ((ans ++ [(it_id e, AErr)]) ++ new) with (ans ++ (it_id e, AErr) :: new) in * by (rewrite <- app_assoc; reflexivity).
      split; [reflexivity|]. split; [exact HI'|]. split.
      * intros j Hj'. rewrite Hfr; [apply cget_cset_other; intro E'; apply Hj'; simpl; now left|].
        intro H. apply Hj'. simpl. now right.
      * intros i a [[= <- <-]|Hin].
        -- exists e. repeat split; auto. now left.
        -- destruct (Hj i a Hin) as (x & Hx & Hid & Hwhy). exists x. split; [now right|]. auto.
    + assert (HIr : HInv r cs ans).
      { destruct HI as [Hn He Hu Ha]. constructor; auto.
        - simpl in Hn. now inversion Hn.
        - intros x Hx. apply He. now right.
        - intros x Hx. apply Hu. now right. }
      destruct (IH _ _ HIr) as (cs' & new & E & HI' & Hfr & Hj).
      exists cs', new. rewrite E. split; [reflexivity|]. split; [|split].
      * destruct HI as [Hn He Hu Ha]. destruct HI' as [Hn' He' Hu' Ha'].
        assert (Hnotin : ~ In (it_id e) (ids r)) by (simpl in Hn; now inversion Hn).
        constructor.
        -- simpl. constructor; [|exact Hn'].
           intro H. apply Hnotin. unfold ids in *. apply in_map_iff in H. destruct H as (y & Ey & Hy).
           apply filter_In in Hy. apply in_map_iff. exists y. tauto.
        -- intros x [<-|Hx]; [|now apply He'].
           rewrite Hfr by exact Hnotin. apply He. now left.
        -- intros x [<-|Hx]; [|now apply Hu'].
           unfold ans_ids. rewrite map_app, in_app_iff. intros [H|H]; [apply (Hu e (or_introl eq_refl) H)|].
           apply in_map_iff in H. destruct H as ([i a] & Ei & Hin). simpl in Ei. subst i.
           destruct (Hj _ _ Hin) as (x & Hx & Hid & _). apply Hnotin. rewrite <- Hid. now apply in_map.
        -- exact Ha'.
      * intros j Hj'. apply Hfr. intro H. apply Hj'. simpl. now right.
      * intros i a Hin. destruct (Hj i a Hin) as (x & Hx & Hid & Hwhy). exists x. split; [now right|]. auto.
Qed.

(* after a sweep of a heap no expired waiter is left in it, every live one is *)
Lemma sweep_leaves_live canc h x :
  In x (heapify item lessi ditem (filter (fun x => negb (canc (it_id x))) h)) <-> In x h /\ canc (it_id x) = false.
Proof.
  split.
  - intros H. apply (Permutation_in _ (heapify_perm item lessi ditem _)) in H. apply filter_In in H.
    destruct H as [H1 H2]. split; [exact H1|]. now destruct (canc (it_id x)).
  - intros [H1 H2]. apply (Permutation_in _ (Permutation_sym (heapify_perm item lessi ditem _))).
    apply filter_In. split; [exact H1|]. now rewrite H2.
Qed.

Lemma HInv_perm h h' cs ans : Permutation h h' -> HInv h cs ans -> HInv h' cs ans.
Proof.
  intros Hp [Hn He Hu Ha]. constructor; auto.
  - eapply Permutation_NoDup; [apply perm_ids; exact Hp|exact Hn].
  - intros x Hx. apply He. eapply Permutation_in; [apply Permutation_sym; exact Hp|exact Hx].
  - intros x Hx. apply Hu. eapply Permutation_in; [apply Permutation_sym; exact Hp|exact Hx].
Qed.

(* adding a waiter with a fresh id *)
Lemma HInv_push h cs ans id rev :
  HInv h cs ans -> ~ In id (ids h) -> ~ In id (ans_ids ans) ->
  HInv (push item lessi ditem h {| it_id := id; it_rev := rev |}) (cset cs id ChEmpty) ans.
Proof.
  intros [Hn He Hu Ha] Hid Hans.
  apply (HInv_perm ({| it_id := id; it_rev := rev |} :: h)); [apply Permutation_sym, push_perm|].
  constructor; auto.
  - simpl. constructor; assumption.
  - intros x [<-|Hx]; simpl; [apply cget_cset_same|].
    rewrite cget_cset_other; [now apply He|]. intro E. apply Hid. rewrite E. now apply in_map.
  - intros x [<-|Hx]; simpl; [exact Hans|now apply Hu].
Qed.
