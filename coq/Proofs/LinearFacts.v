From Coq Require Import Lia.
From Verif Require Import Model.Bytes Model.SMap Model.Cmd Model.Spec Model.Linear Proofs.SpecFacts.

Lemma spec_entry_rev st e : r_rev (snd (spec_entry st e)) = e_index e.
Proof. unfold spec_entry. destruct (s_handle (content st) (e_cmd e)) as [c' [val rs]]. reflexivity. Qed.

(* every API mutation reports its result: revision = log index, data present *)
Theorem mutation_revision st e : api_mutation (e_cmd e) = true ->
  r_data (snd (spec_entry st e)) = true /\ r_rev (snd (spec_entry st e)) = e_index e.
Proof.
  intros H. split; [|apply spec_entry_rev].
  unfold spec_entry. destruct (e_cmd e) eqn:E; try discriminate.
  - unfold s_handle. cbn [handle]. destruct (handle_put _ _ _ _ _) as [s' r]. reflexivity.
  - unfold s_handle. cbn [handle]. destruct (handle_delete _ _ _ _ _ _ _) as [s' r]. reflexivity.
  - destruct (s_handle (content st) (CTxn cmp succ fail)) as [c' [val rs]]. reflexivity.
Qed.

(* the revisions reported for a log are its indices, in order: strictly increasing when the indices are *)
Theorem revisions_are_indices es : forall st, map r_rev (snd (spec_entries st es)) = map e_index es.
Proof.
  induction es as [|e r IH]; intros st; cbn [spec_entries map]; [reflexivity|].
  pose proof (spec_entry_rev st e) as H. destruct (spec_entry st e) as [st1 o].
  specialize (IH st1). destruct (spec_entries st1 r) as [st2 os]. cbn [snd map] in *. now rewrite H, IH.
Qed.

(* a replica that has applied k >= a entries has applied every one of the first a (acknowledged) writes:
   its state is the state after those a writes, advanced by the next k-a entries of the same log *)
Theorem replica_includes_acknowledged log a k : (a <= k)%nat ->
  replica_state log k = fst (spec_entries (replica_state log a) (firstn (k - a) (skipn a log))).
Proof.
  intros H. unfold replica_state.
  assert (E : firstn k log = firstn a log ++ firstn (k - a) (skipn a log)).
  { replace k with (a + (k - a))%nat at 1 by lia. apply firstn_app_2' || idtac.
    rewrite <- (firstn_skipn a log) at 1. rewrite firstn_app. rewrite firstn_firstn.
    replace (Nat.min (a + (k - a)) a) with a by lia. f_equal.
    destruct (Nat.le_gt_cases a (length log)) as [Hl|Hl].
    - rewrite firstn_length_le by assumption. now replace (a + (k - a) - a)%nat with (k - a)%nat by lia.
    - rewrite skipn_all2 by lia. now rewrite !firstn_nil. }
  rewrite E, spec_entries_app.
  destruct (spec_entries spec_init (firstn a log)) as [st1 o1]. cbn [fst].
  destruct (spec_entries st1 (firstn (k - a) (skipn a log))) as [st2 o2]. reflexivity.
Qed.

(* when nothing was committed after the acknowledged writes, a linearizable read returns exactly the state after them *)
Theorem linearizable_read_exact log a k q : (a <= k)%nat -> a = length log ->
  replica_read log k q = s_lookup (content (fst (spec_entries spec_init log))) q.
Proof.
  intros H ->. unfold replica_read, replica_state. now rewrite firstn_all2 by lia.
Qed.

(* a serializable read answers from the state after SOME prefix of the committed log - a state that existed *)
Theorem serializable_read_is_prefix log k q :
  exists p, (p <= length log)%nat /\ replica_read log k q = s_lookup (content (fst (spec_entries spec_init (firstn p log)))) q.
Proof.
  exists (Nat.min k (length log)). split; [lia|]. unfold replica_read, replica_state.
  destruct (Nat.le_gt_cases k (length log)) as [H|H].
  - now replace (Nat.min k (length log)) with k by lia.
  - replace (Nat.min k (length log)) with (length log) by lia. now rewrite !firstn_all2 by lia.
Qed.

(* the engine layer: a linearizable Range/IterateRange and every read-only transaction, on a leader or a follower, at any
   lag, is served from a state that includes the a writes acknowledged before it (a <= committed: acknowledged writes are
   committed) *)
Theorem engine_linearizable_read log applied committed a is_leader : (a <= committed)%nat ->
  let k := serve_at (engine_range_path true is_leader) applied committed in
  (a <= k)%nat /\ replica_state log k = fst (spec_entries (replica_state log a) (firstn (k - a) (skipn a log))).
Proof.
  intros H k. assert (Hk : (a <= k)%nat) by (subst k; cbn; lia). split; [exact Hk|]. now apply replica_includes_acknowledged.
Qed.
Theorem engine_readonly_txn log applied committed a is_leader : (a <= committed)%nat ->
  let k := serve_at (engine_txn_path is_leader) applied committed in
  (a <= k)%nat /\ replica_state log k = fst (spec_entries (replica_state log a) (firstn (k - a) (skipn a log))).
Proof.
  intros H k. assert (Hk : (a <= k)%nat) by (subst k; cbn; lia). split; [exact Hk|]. now apply replica_includes_acknowledged.
Qed.
(* a serializable read is served from the replica's own prefix *)
Theorem engine_serializable_read applied committed is_leader : serve_at (engine_range_path false is_leader) applied committed = applied.
Proof. reflexivity. Qed.
