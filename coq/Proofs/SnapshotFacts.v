From Coq Require Import Lia.
From Verif Require Import Model.Snapshot.

Lemma parse_snap_header f : parse_header (snap_header f) = Some f.
Proof. destruct f; reflexivity. Qed.
Lemma snap_header_length f : length (snap_header f) = 8%nat.
Proof. destruct f; reflexivity. Qed.
Lemma snap_header_inj f g : snap_header f = snap_header g -> f = g.
Proof. destruct f, g; intros H; try reflexivity; discriminate. Qed.

Section Replica.
  Variable S : Type.

  (* faithful and point in time, for every pair of formats: what is installed is the value pinned at prepare time,
     whatever the saver applies afterwards and whatever the receiver held *)
  Lemma snapshot_faithful (f cfg : sfmt) (s old : S) (during : list (S -> S)) :
    let pinned := prepare S s in
    let saver_now := fold_left (fun x g => g x) during s in
    recover S cfg old (save S f pinned) = Some s.
  Proof. cbn. unfold recover, save. cbn [fst snd]. now rewrite parse_snap_header. Qed.

  Lemma recover_bad_header cfg (old : S) b body : parse_header b = None -> recover S cfg old (b, body) = None.
  Proof. unfold recover. cbn [fst]. now intros ->. Qed.

  (* a reader sees the state it started on or fails: never a mixture, never the state of another generation *)
  Lemma reader_old_or_fail (r r' : rep S) (rd : reader S) v :
    rd = read_start S r -> read_next S r' rd = Some v -> v = r_store S r /\ r_gen S r' = r_gen S r.
  Proof.
    intros -> H. unfold read_next, read_start in H. cbn in H.
    destruct (Nat.eqb_spec (r_gen S r) (r_gen S r')) as [E|E]; [|discriminate]. injection H as <-. now split.
  Qed.
  Lemma reader_after_install (r : rep S) s : read_next S (install S r s) (read_start S r) = None.
  Proof.
    unfold read_next, install, read_start. cbn.
    destruct (Nat.eqb_spec (r_gen S r) (Datatypes.S (r_gen S r))) as [E|E]; [lia|reflexivity].
  Qed.
  (* an interrupted save never passes for a snapshot; an uninterrupted one is the pinned state *)
  Lemma save_interrupted f (pinned : S) stopped failed : stopped || failed = true -> save_to S f pinned stopped failed = SaveError S.
  Proof. unfold save_to. now intros ->. Qed.
  Lemma save_complete f (pinned : S) str : save_to S f pinned false false = SaveDone S str -> str = save S f pinned.
  Proof. unfold save_to. cbn. now intros [= <-]. Qed.
  (* a lazy sequence never fails: it delivers the content of the replica at the time it is consumed - the new content
     when an install happened between handing it out and consuming it *)
  Lemma lazy_consume_current (r : rep S) : lazy_consume S r = Some (r_store S r).
  Proof. unfold lazy_consume, read_next, read_start. cbn. now rewrite Nat.eqb_refl. Qed.
  Lemma lazy_after_install (r : rep S) s : lazy_consume S (install S r s) = Some s.
  Proof. apply lazy_consume_current. Qed.
  Lemma reader_new_after_install (r : rep S) s :
    read_next S (install S r s) (read_start S (install S r s)) = Some s.
  Proof. unfold read_next, install, read_start. cbn. now rewrite Nat.eqb_refl. Qed.
End Replica.
