(* The table state machine over the encoded key space refines the plain sorted map of Model/Spec.v:
   key encoding, range bounds and the two bookkeeping keys are invisible to every command and every read. *)
From Coq Require Import Lia.
From Verif Require Import Model.Bytes Model.SMap Model.KeyEnc Model.Cmd Model.Fsm Model.Spec.
From Verif Require Import Proofs.BytesFacts Proofs.SMapFacts Proofs.KeyEncFacts Proofs.CmdLift.

Definition encp (kv : bytes * bytes) : bytes * bytes := (enc (fst kv), snd kv).
Definition sys_entries (ol od : option N) : store :=
  (match ol with Some i => [(sysLocalIndex, idx_bytes i)] | None => [] end) ++
  (match od with Some l => [(sysLeaderIndex, idx_bytes l)] | None => [] end).
Definition repr (U : umap) (ol od : option N) : store := map encp U ++ sys_entries ol od.
Definition dflt (o : option N) : N := match o with Some x => x | None => 0 end.

(* ---------- generic facts about association lists ---------- *)
Lemma sget_app {V} (a b : smap V) k : sget (a ++ b) k = match sget a k with Some v => Some v | None => sget b k end.
Proof. induction a as [|[k0 v0] r IH]; simpl; [reflexivity|]. destruct (beqb k k0); auto. Qed.

Lemma sset_below {V} (S : smap V) k v : (forall x, In x S -> blt k (fst x)) -> sset S k v = (k, v) :: S.
Proof.
  destruct S as [|[k0 v0] r]; intros H; simpl; [reflexivity|].
  specialize (H (k0, v0) (or_introl eq_refl)). unfold blt in H; simpl in H. now rewrite H.
Qed.

Lemma sset_app_above {V} (A B : smap V) k v :
  (forall x, In x A -> blt (fst x) k) -> sset (A ++ B) k v = A ++ sset B k v.
Proof.
  induction A as [|[k0 v0] r IH]; intros H; simpl; [reflexivity|].
  assert (H0 : lex_compare k k0 = Gt).
  { specialize (H (k0, v0) (or_introl eq_refl)). unfold blt in H; simpl in H. now rewrite lex_antisym, H. }
  rewrite H0. f_equal. apply IH. intros x Hx. apply H. now right.
Qed.

Lemma sdel_absent {V} (S : smap V) k : (forall x, In x S -> beqb k (fst x) = false) -> sdel S k = S.
Proof.
  induction S as [|[k0 v0] r IH]; intros H; simpl; [reflexivity|].
  assert (E : beqb k k0 = false) by (apply (H (k0, v0)); now left).
  rewrite E. f_equal. apply IH. intros x Hx. apply H. now right.
Qed.

Lemma sget_absent {V} (S : smap V) k : (forall x, In x S -> beqb k (fst x) = false) -> sget S k = None.
Proof.
  induction S as [|[k0 v0] r IH]; intros H; simpl; [reflexivity|].
  assert (E : beqb k k0 = false) by (apply (H (k0, v0)); now left).
  rewrite E. apply IH. intros x Hx. apply H. now right.
Qed.

Lemma filter_all {A} (f : A -> bool) l : (forall x, In x l -> f x = true) -> filter f l = l.
Proof.
  induction l as [|a r IH]; intros H; simpl; [reflexivity|].
  rewrite (H a (or_introl eq_refl)). f_equal. apply IH. intros x Hx. apply H. now right.
Qed.
Lemma filter_none {A} (f : A -> bool) l : (forall x, In x l -> f x = false) -> filter f l = [].
Proof.
  induction l as [|a r IH]; intros H; simpl; [reflexivity|].
  rewrite (H a (or_introl eq_refl)). apply IH. intros x Hx. apply H. now right.
Qed.
Lemma filter_map_comm {A B} (g : A -> B) (f : B -> bool) l : filter f (map g l) = map g (filter (fun x => f (g x)) l).
Proof. induction l as [|a r IH]; simpl; [reflexivity|]. destruct (f (g a)); simpl; now rewrite IH. Qed.

(* ---------- the encoding ---------- *)
Lemma beqb_enc a b : beqb (enc a) (enc b) = beqb a b.
Proof. unfold beqb, enc. now rewrite encode_order. Qed.

Lemma lex_enc a b : lex_compare (enc a) (enc b) = lex_compare a b.
Proof. unfold enc. apply encode_order. Qed.

Lemma user_key_of_enc k : user_key_of (enc k) = k.
Proof.
  unfold user_key_of. destruct k as [|x k].
  - unfold enc. now rewrite decode_encode_empty.
  - unfold enc. rewrite decode_encode by discriminate. reflexivity.
Qed.

Lemma sys_in ol od x : In x (sys_entries ol od) -> fst x = sysLocalIndex \/ fst x = sysLeaderIndex.
Proof.
  unfold sys_entries. rewrite in_app_iff. destruct ol, od; simpl; intros [[<-|[]]|[<-|[]]] || intros [[<-|[]]|[]] || intros [[]|[<-|[]]] || intros [[]|[]]; auto.
Qed.

Lemma enc_lt_sys k x ol od : In x (sys_entries ol od) -> blt (enc k) (fst x).
Proof.
  intros H. destruct (sys_in _ _ _ H) as [-> | ->].
  - rewrite sysLocalIndex_enc. apply sys_above_user.
  - rewrite sysLeaderIndex_enc. apply sys_above_user.
Qed.

Lemma enc_ne_sys_b k x ol od : In x (sys_entries ol od) -> beqb (enc k) (fst x) = false.
Proof.
  intros H. pose proof (enc_lt_sys k x ol od H) as Hl. unfold blt in Hl. unfold beqb. now rewrite Hl.
Qed.

Lemma encp_in (U : umap) x : In x (map encp U) -> exists u, fst x = enc u.
Proof. intros H. apply in_map_iff in H. destruct H as ([u v] & <- & _). now exists u. Qed.

Lemma sys_key_cases k : k = sysLocalIndex \/ k = sysLeaderIndex -> forall U x, In x (map encp U) -> blt (fst x) k.
Proof.
  intros Hk U x Hx. destruct (encp_in U x Hx) as [u ->]. destruct Hk as [-> | ->].
  - rewrite sysLocalIndex_enc. apply sys_above_user.
  - rewrite sysLeaderIndex_enc. apply sys_above_user.
Qed.

(* ---------- the five primitives ---------- *)
Lemma sget_map_enc U k : sget (map encp U) (enc k) = sget U k.
Proof.
  induction U as [|[k0 v0] r IH]; cbn [map sget encp fst snd]; [reflexivity|].
  rewrite beqb_enc. destruct (beqb k k0); auto.
Qed.

Lemma get_agree U ol od k : e_get (repr U ol od) k = p_get U k.
Proof.
  unfold e_get, p_get, repr. rewrite sget_app, sget_map_enc.
  destruct (sget U k); [reflexivity|]. apply sget_absent. intros x Hx. eapply enc_ne_sys_b; eauto.
Qed.

Lemma sset_map_enc U S k v : (forall x, In x S -> blt (enc k) (fst x)) ->
  sset (map encp U ++ S) (enc k) v = map encp (sset U k v) ++ S.
Proof.
  intros HS. induction U as [|[k0 v0] r IH]; cbn [map app sset encp fst snd].
  - now apply sset_below.
  - rewrite lex_enc.
    destruct (lex_compare k k0); cbn [map app encp fst snd]; try reflexivity. now rewrite IH.
Qed.

Lemma set_agree U ol od k v : e_set (repr U ol od) k v = repr (p_set U k v) ol od.
Proof. unfold e_set, p_set, repr. apply sset_map_enc. intros x Hx. eapply enc_lt_sys; eauto. Qed.

Lemma sdel_map_enc U S k : (forall x, In x S -> beqb (enc k) (fst x) = false) ->
  sdel (map encp U ++ S) (enc k) = map encp (sdel U k) ++ S.
Proof.
  intros HS. induction U as [|[k0 v0] r IH]; cbn [map app sdel encp fst snd].
  - now apply sdel_absent.
  - rewrite beqb_enc. destruct (beqb k k0); cbn [map app encp fst snd]; [reflexivity|]. now rewrite IH.
Qed.

Lemma del_agree U ol od k : e_del (repr U ol od) k = repr (p_del U k) ol od.
Proof. unfold e_del, p_del, repr. apply sdel_map_enc. intros x Hx. eapply enc_ne_sys_b; eauto. Qed.

Lemma in_bounds_enc lo hi k : in_range (fst (bounds lo hi)) (snd (bounds lo hi)) (enc k) = p_in lo hi k.
Proof.
  unfold in_range, p_in, bounds. cbn [fst snd]. unfold bleb at 1. rewrite lex_enc.
  fold (bleb lo k). destruct (beqb hi wildcard); cbn [orb].
  - pose proof (wildcard_covers_all_user_keys k) as H. unfold blt in H. unfold bltb. rewrite H. reflexivity.
  - unfold bltb at 1. rewrite lex_enc. reflexivity.
Qed.

Lemma in_bounds_sys lo hi x ol od : In x (sys_entries ol od) ->
  in_range (fst (bounds lo hi)) (snd (bounds lo hi)) (fst x) = false.
Proof.
  intros H. destruct (sys_keys_outside_user_ranges lo hi) as [H1 H2]. unfold in_bounds in *.
  destruct (sys_in _ _ _ H) as [-> | ->]; assumption.
Qed.

Lemma delrange_agree U ol od lo hi : e_delrange (repr U ol od) lo hi = repr (p_delrange U lo hi) ol od.
Proof.
  unfold e_delrange, p_delrange, repr, sdelrange. rewrite filter_app. f_equal.
  - rewrite filter_map_comm. f_equal. apply filter_ext. intros [k v]. cbn [fst encp]. now rewrite in_bounds_enc.
  - apply filter_all. intros x Hx. now rewrite (in_bounds_sys lo hi x ol od Hx).
Qed.

Lemma scan_agree U ol od lo hi : e_scan (repr U ol od) lo hi = p_scan U lo hi.
Proof.
  unfold e_scan, p_scan, repr, sscan. rewrite filter_app, map_app.
  rewrite (filter_none _ (sys_entries ol od)) by (intros x Hx; now apply (in_bounds_sys lo hi x ol od)).
  rewrite app_nil_r, filter_map_comm, map_map.
  rewrite (filter_ext _ (fun kv => p_in lo hi (fst kv))) by (intros [k v]; cbn [fst encp]; apply in_bounds_enc).
  rewrite (map_ext _ (fun x => x)); [apply map_id|].
  intros [k v]. cbn [encp fst snd]. now rewrite user_key_of_enc.
Qed.

(* ---------- commands and reads ---------- *)
Definition Rel (ol od : option N) (s : store) (U : umap) : Prop := s = repr U ol od.

Theorem handle_refines ol od c U :
  f_handle (repr U ol od) c = (repr (fst (s_handle U c)) ol od, snd (s_handle U c)).
Proof.
  pose proof (handle_lift store umap e_get e_set e_del e_delrange e_scan p_get p_set p_del p_delrange p_scan (Rel ol od)) as L.
  assert (H : Rel ol od (fst (f_handle (repr U ol od) c)) (fst (s_handle U c)) /\
              snd (f_handle (repr U ol od) c) = snd (s_handle U c)).
  { apply L; unfold Rel; try reflexivity.
    - intros s u k ->. apply get_agree.
    - intros s u k v ->. apply set_agree.
    - intros s u k ->. apply del_agree.
    - intros s u lo hi ->. apply delrange_agree.
    - intros s u lo hi ->. apply scan_agree. }
  destruct H as [H1 H2]. unfold Rel in H1.
  destruct (f_handle (repr U ol od) c) as [s' o]. simpl in *. now subst.
Qed.

Lemma lookup_refines ol od U q : f_lookup (repr U ol od) q = s_lookup U q.
Proof.
  apply (lookup_lift store umap e_get e_scan p_get p_scan (Rel ol od)); unfold Rel; try reflexivity.
  - intros s u k ->. apply get_agree.
  - intros s u lo hi ->. apply scan_agree.
Qed.

Lemma iterator_lookup_refines ol od U q : f_iterator_lookup (repr U ol od) q = s_iterator_lookup U q.
Proof.
  apply (iterator_lookup_lift store umap e_get e_scan p_get p_scan (Rel ol od)); unfold Rel; try reflexivity.
  - intros s u k ->. apply get_agree.
  - intros s u lo hi ->. apply scan_agree.
Qed.

Lemma lookup_txn_refines ol od U cs su fa : f_lookup_txn (repr U ol od) cs su fa = s_lookup_txn U cs su fa.
Proof.
  apply (lookup_txn_lift store umap e_get e_scan p_get p_scan (Rel ol od)); unfold Rel; try reflexivity.
  - intros s u k ->. apply get_agree.
  - intros s u lo hi ->. apply scan_agree.
Qed.

(* ---------- bookkeeping ---------- *)
Lemma sys_lt : lex_compare sysLocalIndex sysLeaderIndex = Lt.
Proof. reflexivity. Qed.

Lemma sset_sys_leader ol od l : sset (sys_entries ol od) sysLeaderIndex (idx_bytes l) = sys_entries ol (Some l).
Proof.
  unfold sys_entries. destruct ol, od; simpl; rewrite ?lex_refl, ?(lex_antisym sysLocalIndex sysLeaderIndex), ?sys_lt; simpl;
    rewrite ?lex_refl; reflexivity.
Qed.

Lemma sset_sys_local ol od i : sset (sys_entries ol od) sysLocalIndex (idx_bytes i) = sys_entries (Some i) od.
Proof.
  unfold sys_entries. destruct ol, od; simpl; rewrite ?lex_refl, ?sys_lt; reflexivity.
Qed.

Lemma commit_repr U ol od i ld :
  commit {| u_store := repr U ol od; u_index := i; u_leader := ld |} =
  repr U (Some i) (match ld with Some l => Some l | None => od end).
Proof.
  unfold commit, repr; cbn [u_store u_index u_leader].
  destruct ld as [l|].
  - rewrite sset_app_above by (apply sys_key_cases; auto). rewrite sset_sys_leader.
    rewrite sset_app_above by (apply sys_key_cases; auto). now rewrite sset_sys_local.
  - rewrite sset_app_above by (apply sys_key_cases; auto). now rewrite sset_sys_local.
Qed.

Definition u64 (n : N) : Prop := n < 2 ^ 64.
Definition u64o (o : option N) : Prop := match o with Some n => u64 n | None => True end.

Lemma idx_roundtrip n : u64 n -> le_val (firstn 8 (idx_bytes n)) = n.
Proof.
  intros H. unfold idx_bytes. replace (firstn 8 (le_bytes 8 n)) with (le_bytes 8 n) by reflexivity.
  apply le_val_bytes. exact H.
Qed.

Lemma sget_sys_skip U S k : k = sysLocalIndex \/ k = sysLeaderIndex -> sget (map encp U ++ S) k = sget S k.
Proof.
  intros Hk. rewrite sget_app. rewrite sget_absent; [reflexivity|].
  intros x Hx. pose proof (sys_key_cases k Hk U x Hx) as Hl. unfold blt in Hl.
  unfold beqb. rewrite lex_antisym, Hl. reflexivity.
Qed.

Lemma sget_sys_local ol od : sget (sys_entries ol od) sysLocalIndex = option_map idx_bytes ol.
Proof. destruct ol, od; reflexivity. Qed.
Lemma sget_sys_leader ol od : sget (sys_entries ol od) sysLeaderIndex = option_map idx_bytes od.
Proof. destruct ol, od; reflexivity. Qed.

Lemma local_index_repr U ol od : u64o ol -> local_index (repr U ol od) = dflt ol.
Proof.
  intros H. unfold local_index, read_index, repr. rewrite sget_sys_skip by auto. rewrite sget_sys_local.
  destruct ol as [i|]; simpl; [now apply idx_roundtrip|reflexivity].
Qed.

Lemma leader_index_repr U ol od : u64o od -> leader_index (repr U ol od) = dflt od.
Proof.
  intros H. unfold leader_index, read_index, repr. rewrite sget_sys_skip by auto. rewrite sget_sys_leader.
  destruct od as [i|]; simpl; [now apply idx_roundtrip|reflexivity].
Qed.

(* ---------- FSM.Update ---------- *)
Definition ctx_of (U : umap) (ol od : option N) (i : N) (ld : option N) : uctx :=
  {| u_store := repr U ol od; u_index := i; u_leader := ld |}.

Definition merge_leader (ld : option N) (e : entry) : option N :=
  match e_leader e with Some l => Some l | None => ld end.

Lemma update_one_refines U ol od i ld e st :
  content st = U ->
  update_one (ctx_of U ol od i ld) e =
  (ctx_of (content (fst (spec_entry st e))) ol od (e_index e) (merge_leader ld e),
   snd (spec_entry st e)).
Proof.
  intros <-. unfold update_one, update_one_gen, ctx_of, spec_entry; cbn [u_store u_leader].
  rewrite handle_refines. destruct (s_handle (content st) (e_cmd e)) as [U' [val rs]]. reflexivity.
Qed.

Fixpoint fold_leader (ld : option N) (es : list entry) : option N :=
  match es with [] => ld | e :: r => fold_leader (merge_leader ld e) r end.
Fixpoint last_index (i : N) (es : list entry) : N :=
  match es with [] => i | e :: r => last_index (e_index e) r end.

Lemma update_entries_refines es : forall U ol od i ld st,
  content st = U ->
  update_entries update_one (ctx_of U ol od i ld) es =
  (ctx_of (content (fst (spec_entries st es))) ol od (last_index i es) (fold_leader ld es),
   snd (spec_entries st es)).
Proof.
  induction es as [|e r IH]; intros U ol od i ld st HU; cbn [update_entries spec_entries last_index fold_leader].
  - subst. reflexivity.
  - rewrite (update_one_refines U ol od i ld e st HU).
    destruct (spec_entry st e) as [st1 o] eqn:E1. cbn [fst snd].
    rewrite (IH (content st1) ol od (e_index e) (merge_leader ld e) st1 eq_refl).
    destruct (spec_entries st1 r) as [st2 os]. reflexivity.
Qed.

Lemma spec_entries_applied es : forall st, applied (fst (spec_entries st es)) = last_index (applied st) es.
Proof.
  induction es as [|e r IH]; intros st; cbn [spec_entries last_index]; [reflexivity|].
  unfold spec_entry at 1. destruct (s_handle (content st) (e_cmd e)) as [c' [val rs]].
  match goal with |- context [spec_entries ?s r] => specialize (IH s); destruct (spec_entries s r) as [st2 os] end.
  cbn [fst] in *. rewrite IH. reflexivity.
Qed.

Lemma last_index_nonempty i j es : es <> [] -> last_index i es = last_index j es.
Proof. destruct es; [congruence|reflexivity]. Qed.

Lemma fold_leader_some es : forall l, exists l', fold_leader (Some l) es = Some l'.
Proof.
  induction es as [|e r IH]; intros l; cbn [fold_leader]; [eauto|].
  unfold merge_leader. destruct (e_leader e); apply IH.
Qed.

Lemma fold_leader_fl es : forall ld,
  fold_leader ld es = fold_left (fun a e => match e_leader e with Some l => Some l | None => a end) es ld.
Proof. induction es as [|e r IH]; intros ld; cbn [fold_leader fold_left]; [reflexivity|]. apply IH. Qed.

Lemma fold_leader_batch es : forall ld, fold_leader ld es = match batch_leader es with Some l => Some l | None => ld end.
Proof.
  unfold batch_leader. intros ld. rewrite <- (fold_leader_fl es None). revert ld.
  induction es as [|e r IH]; intros ld; cbn [fold_leader]; [reflexivity|].
  unfold merge_leader. destruct (e_leader e) as [l|].
  - destruct (fold_leader_some r l) as [l' ->]. reflexivity.
  - apply IH.
Qed.

Lemma spec_entries_leader es : forall st,
  leader (fst (spec_entries st es)) = dflt (fold_leader (Some (leader st)) es).
Proof.
  induction es as [|e r IH]; intros st; cbn [spec_entries fold_leader]; [reflexivity|].
  unfold spec_entry at 1. destruct (s_handle (content st) (e_cmd e)) as [c' [val rs]].
  match goal with |- context [spec_entries ?s r] => specialize (IH s); destruct (spec_entries s r) as [st2 os] end.
  cbn [fst leader] in *. rewrite IH. unfold merge_leader. destruct (e_leader e); reflexivity.
Qed.

Theorem Update_refines U ol od es st :
  es <> [] -> content st = U -> applied st = dflt ol -> leader st = dflt od ->
  let st' := fst (spec_apply st es) in
  exists od', Update (repr U ol od) es =
              (repr (content st') (Some (applied st')) od', snd (spec_entries st es),
               match batch_leader es with Some l => l | None => applied st' end)
              /\ leader st' = dflt od' /\ od' = match batch_leader es with Some l => Some l | None => od end.
Proof.
  intros Hne HU Ha Hl. unfold spec_apply. cbn zeta.
  unfold Update, Update_gen. fold update_one.
  change {| u_store := repr U ol od; u_index := 0; u_leader := None |} with (ctx_of U ol od 0 None).
  rewrite (update_entries_refines es U ol od 0 None st HU).
  pose proof (spec_entries_applied es st) as HA. pose proof (spec_entries_leader es st) as HL.
  destruct (spec_entries st es) as [st' rs]. cbn [fst snd] in *.
  unfold ctx_of at 1. rewrite commit_repr. cbn [u_leader u_index ctx_of].
  rewrite (last_index_nonempty 0 (applied st) es Hne), <- HA.
  rewrite fold_leader_batch in *.
  exists (match batch_leader es with Some l => Some l | None => od end).
  split; [|split].
  - destruct (batch_leader es); reflexivity.
  - rewrite HL. destruct (batch_leader es); simpl; [reflexivity|]. exact Hl.
  - reflexivity.
Qed.

(* ---------- whole scenarios ---------- *)
Definition wf_entry (e : entry) : Prop := u64 (e_index e) /\ u64o (e_leader e).
Definition wf_step (s : step) : Prop :=
  match s with SApply es => es <> [] /\ Forall wf_entry es | _ => True end.

Lemma last_index_u64 es : forall i, u64 i -> Forall wf_entry es -> u64 (last_index i es).
Proof. induction es as [|e r IH]; intros i Hi H; simpl; [assumption|]. inversion H as [|? ? [He _] Hr]; subst. now apply IH. Qed.

Lemma batch_leader_u64 es l : Forall wf_entry es -> batch_leader es = Some l -> u64 l.
Proof.
  unfold batch_leader. intros H.
  assert (G : forall acc, u64o acc -> fold_left (fun a e => match e_leader e with Some l => Some l | None => a end) es acc = Some l -> u64 l).
  { induction H as [|e r [_ He] Hr IH]; intros acc Hacc; simpl.
    - intros ->. exact Hacc.
    - apply IH. destruct (e_leader e); assumption. }
  apply G. exact I.
Qed.

Theorem steps_refine steps : forall ol od st,
  Forall wf_step steps -> u64o ol -> u64o od ->
  applied st = dflt ol -> leader st = dflt od ->
  fsm_steps (repr (content st) ol od) steps = spec_steps st steps /\
  exists ol' od', fsm_final (repr (content st) ol od) steps = repr (content (spec_final st steps)) ol' od' /\
                  applied (spec_final st steps) = dflt ol' /\ leader (spec_final st steps) = dflt od'.
Proof.
  induction steps as [|s r IH]; intros ol od st Hwf Hol Hod Ha Hl.
  - simpl. split; [reflexivity|]. exists ol, od. auto.
  - inversion Hwf as [|? ? Hs Hr]; subst.
    destruct s as [es|q|q|cs su fa| |]; cbn [fsm_steps spec_steps fsm_final spec_final].
    + destruct Hs as [Hne Hes].
      destruct (Update_refines (content st) ol od es st Hne eq_refl Ha Hl) as (od' & HUp & Hl' & Hod').
      cbn zeta in *. rewrite HUp. cbn [fst].
      unfold spec_apply in *. destruct (spec_entries st es) as [st' rs] eqn:E. cbn [fst snd] in *.
      assert (Hol' : u64o (Some (applied st'))).
      { simpl. pose proof (spec_entries_applied es st) as HA. rewrite E in HA. cbn [fst] in HA. rewrite HA.
        destruct es as [|e es']; [congruence|]. simpl. inversion Hes as [|? ? [He _] Hr']; subst.
        now apply last_index_u64. }
      assert (Hod'' : u64o od').
      { rewrite Hod'. destruct (batch_leader es) as [l|] eqn:Hb; [|assumption]. simpl. eapply batch_leader_u64; eauto. }
      destruct (IH (Some (applied st')) od' st' Hr Hol' Hod'' eq_refl Hl') as [I1 I2].
      split; [now rewrite I1|exact I2].
    + rewrite lookup_refines. destruct (IH ol od st Hr Hol Hod Ha Hl) as [I1 I2]. split; [now rewrite I1|exact I2].
    + rewrite iterator_lookup_refines. destruct (IH ol od st Hr Hol Hod Ha Hl) as [I1 I2]. split; [now rewrite I1|exact I2].
    + rewrite lookup_txn_refines. destruct (IH ol od st Hr Hol Hod Ha Hl) as [I1 I2]. split; [now rewrite I1|exact I2].
    + rewrite local_index_repr, leader_index_repr by assumption. rewrite <- Ha, <- Hl.
      destruct (IH ol od st Hr Hol Hod Ha Hl) as [I1 I2]. split; [now rewrite I1|exact I2].
    + rewrite local_index_repr, leader_index_repr by assumption. rewrite <- Ha, <- Hl.
      destruct (IH ol od st Hr Hol Hod Ha Hl) as [I1 I2]. split; [now rewrite I1|exact I2].
Qed.
