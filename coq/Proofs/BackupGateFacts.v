From Coq Require Import Lia.
From Verif Require Import Model.Bytes Model.BackupGate.

Section Gate.
  Variable hash : bytes -> N.

  (* only files whose checksum matches the manifest are ever uploaded *)
  Theorem uploads_match ts n f : In (n, f) (fst (restore_client hash ts)) ->
    exists t, In t ts /\ b_name t = n /\ b_file t = f /\ hash f = b_sum t.
  Proof.
    induction ts as [|t r IH]; cbn [restore_client]; [intros []|].
    destruct (matches hash t) eqn:Em; [|intros []].
    destruct (restore_client hash r) as [u ok]. cbn [fst] in *. intros [[= <- <-]|H].
    - exists t. split; [now left|]. repeat split. unfold matches in Em. now apply N.eqb_eq in Em.
    - destruct (IH H) as (t' & Hin & H1 & H2 & H3). exists t'. split; [now right|]. auto.
  Qed.

  (* the run succeeds iff every file matches, and then every table is uploaded, in manifest order *)
  Theorem success_iff_all_match ts : snd (restore_client hash ts) = true <-> forallb (matches hash) ts = true.
  Proof.
    induction ts as [|t r IH]; cbn [restore_client forallb]; [tauto|].
    destruct (matches hash t); cbn [andb]; [|split; discriminate].
    destruct (restore_client hash r) as [u ok]. exact IH.
  Qed.
  Theorem success_uploads_all ts : snd (restore_client hash ts) = true ->
    fst (restore_client hash ts) = map (fun t => (b_name t, b_file t)) ts.
  Proof.
    induction ts as [|t r IH]; cbn [restore_client map]; [reflexivity|].
    destruct (matches hash t); [|discriminate]. destruct (restore_client hash r) as [u ok]. cbn [fst snd] in *.
    intros H. now rewrite (IH H).
  Qed.

  (* a table whose file does not match, and every table after it, is not touched: the uploads are exactly the tables
     before the first mismatch *)
  Theorem uploads_are_matching_prefix ts :
    map fst (fst (restore_client hash ts)) =
    map b_name (firstn (length (fst (restore_client hash ts))) ts) /\
    (snd (restore_client hash ts) = false ->
     exists t, nth_error ts (length (fst (restore_client hash ts))) = Some t /\ matches hash t = false).
  Proof.
    induction ts as [|t r IH]; cbn [restore_client]; [split; [reflexivity|discriminate]|].
    destruct (matches hash t) eqn:Em.
    - destruct (restore_client hash r) as [u ok]. cbn [fst snd length firstn map nth_error] in *. destruct IH as [I1 I2].
      split; [now f_equal|exact I2].
    - cbn [fst snd length firstn map nth_error]. split; [reflexivity|]. intros _. exists t. auto.
  Qed.

  (* the observable used by the correspondence run: per manifest position, was the table replaced *)
  Lemma map_const_false {A} (l : list A) : map (fun _ => false) l = repeat false (length l).
  Proof. induction l; cbn; congruence. Qed.
  Theorem flags_are_prefix ts :
    uploaded_flags (map (matches hash) ts) =
    repeat true (length (fst (restore_client hash ts))) ++ repeat false (length ts - length (fst (restore_client hash ts))).
  Proof.
    induction ts as [|t r IH]; cbn [restore_client map uploaded_flags]; [reflexivity|].
    destruct (matches hash t).
    - destruct (restore_client hash r) as [u ok]. cbn [fst length repeat app] in *. rewrite IH. reflexivity.
    - cbn [fst length repeat app Nat.sub]. rewrite map_const_false, map_length. reflexivity.
  Qed.
End Gate.
