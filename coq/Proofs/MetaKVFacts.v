From Coq Require Import Lia Sorted.
From Verif Require Import Model.Bytes Model.SMap Model.MetaKV Proofs.BytesFacts Proofs.SMapFacts.

(* ---- compare-and-set ---- *)
Lemma mupdate_mismatch s e cur :
  mget s (me_key e) = Some cur -> pver cur <> me_ver e ->
  mupdate s e = (s, (kv_ResultCodeVersionMismatch, cur)).
Proof.
  intros Hg Hv. unfold mupdate. rewrite Hg.
  destruct (N.eqb_spec (pver cur) (me_ver e)); [contradiction|reflexivity].
Qed.

Definition apply_op (s : mstore) (e : mentry) : mstore :=
  match me_op e with
  | OpSet => sset s (me_key e) (me_val e, me_index e)
  | OpDelete => sdel s (me_key e)
  | OpOther => s
  end.

Lemma mupdate_match s e cur :
  mget s (me_key e) = Some cur -> pver cur = me_ver e ->
  mupdate s e = (apply_op s e, (kv_ResultCodeSuccess, {| pk := me_key e; pv := me_val e; pver := me_index e |})).
Proof. intros Hg Hv. unfold mupdate. rewrite Hg, Hv, N.eqb_refl. reflexivity. Qed.

Lemma mupdate_absent s e :
  mget s (me_key e) = None -> me_ver e = 0 ->
  mupdate s e = (apply_op s e, (kv_ResultCodeSuccess, {| pk := me_key e; pv := me_val e; pver := me_index e |})).
Proof. intros Hg Hv. unfold mupdate. rewrite Hg, Hv. reflexivity. Qed.
Lemma mupdate_absent_mismatch s e :
  mget s (me_key e) = None -> me_ver e <> 0 ->
  mupdate s e = (s, (kv_ResultCodeVersionMismatch, {| pk := me_key e; pv := []; pver := 0 |})).
Proof. intros Hg Hv. unfold mupdate. rewrite Hg. destruct (N.eqb_spec (me_ver e) 0); [contradiction|reflexivity]. Qed.

(* success iff the supplied version is the key's current one - 0 for an absent key *)
Definition cas_ok (s : mstore) (e : mentry) : bool :=
  match sget s (me_key e) with Some (_, ver) => ver =? me_ver e | None => me_ver e =? 0 end.

Lemma mupdate_code s e :
  fst (snd (mupdate s e)) = if cas_ok s e then kv_ResultCodeSuccess else kv_ResultCodeVersionMismatch.
Proof.
  unfold mupdate, cas_ok, mget. destruct (sget s (me_key e)) as [[v ver]|]; simpl.
  - destruct (ver =? me_ver e); reflexivity.
  - destruct (me_ver e =? 0); reflexivity.
Qed.

Lemma mupdate_state s e : fst (mupdate s e) = if cas_ok s e then apply_op s e else s.
Proof.
  unfold mupdate, cas_ok, mget, apply_op. destruct (sget s (me_key e)) as [[v ver]|]; simpl.
  - destruct (ver =? me_ver e); reflexivity.
  - destruct (me_ver e =? 0); reflexivity.
Qed.

Lemma mupdate_mismatch_reports_current s e :
  cas_ok s e = false ->
  (exists v ver, sget s (me_key e) = Some (v, ver) /\ ver <> me_ver e /\
     snd (snd (mupdate s e)) = {| pk := me_key e; pv := v; pver := ver |}) \/
  (sget s (me_key e) = None /\ me_ver e <> 0 /\ snd (snd (mupdate s e)) = {| pk := me_key e; pv := []; pver := 0 |}).
Proof.
  unfold cas_ok, mupdate, mget. destruct (sget s (me_key e)) as [[v ver]|]; intros H.
  - left. exists v, ver. simpl. rewrite H. repeat split. now apply N.eqb_neq.
  - right. simpl. rewrite H. repeat split. now apply N.eqb_neq.
Qed.

(* ---- invariant and refinement to a plain partial map ---- *)
Lemma apply_op_sorted s e : sorted s -> sorted (apply_op s e).
Proof. intros H. unfold apply_op. destruct (me_op e); [apply sset_sorted|apply sdel_sorted|]; assumption. Qed.

Lemma mupdate_sorted s e : sorted s -> sorted (fst (mupdate s e)).
Proof. intros H. rewrite mupdate_state. destruct (cas_ok s e); [apply apply_op_sorted|]; assumption. Qed.

Definition amap := bytes -> option mval.
Definition aupd (m : amap) (k : bytes) (o : option mval) : amap := fun k' => if beqb k' k then o else m k'.
Definition spec_update (m : amap) (e : mentry) : amap :=
  let ok := match m (me_key e) with Some (_, ver) => ver =? me_ver e | None => me_ver e =? 0 end in
  if ok then match me_op e with
             | OpSet => aupd m (me_key e) (Some (me_val e, me_index e))
             | OpDelete => aupd m (me_key e) None
             | OpOther => m
             end
  else m.

Theorem mupdate_refines s e : sorted s -> forall k, sget (fst (mupdate s e)) k = spec_update (sget s) e k.
Proof.
  intros Hs k. rewrite mupdate_state. unfold spec_update, cas_ok.
  destruct (match sget s (me_key e) with Some (_, ver) => ver =? me_ver e | None => me_ver e =? 0 end); [|reflexivity].
  unfold apply_op, aupd. destruct (me_op e).
  - apply sget_sset.
  - apply sget_sdel, Hs.
  - reflexivity.
Qed.

Lemma mrun_sorted es : forall s, sorted s -> sorted (fst (mrun s es)).
Proof.
  induction es as [|e r IH]; intros s H; simpl; [assumption|].
  destruct (mupdate s e) as [s1 o] eqn:E1. destruct (mrun s1 r) as [s2 os] eqn:E2. simpl.
  change s2 with (fst (s2, os)). rewrite <- E2. apply IH.
  change s1 with (fst (s1, o)). rewrite <- E1. now apply mupdate_sorted.
Qed.

Fixpoint spec_run (m : amap) (es : list mentry) : amap :=
  match es with [] => m | e :: r => spec_run (spec_update m e) r end.

Lemma spec_update_ext m1 m2 e : (forall k, m1 k = m2 k) -> forall k, spec_update m1 e k = spec_update m2 e k.
Proof.
  intros H k. unfold spec_update. rewrite (H (me_key e)).
  destruct (match m2 (me_key e) with Some (_, ver) => ver =? me_ver e | None => me_ver e =? 0 end); [|apply H].
  destruct (me_op e); unfold aupd; try destruct (beqb k (me_key e)); auto.
Qed.

Lemma spec_run_ext es : forall m1 m2, (forall k, m1 k = m2 k) -> forall k, spec_run m1 es k = spec_run m2 es k.
Proof.
  induction es as [|e r IH]; intros m1 m2 H k; simpl; [apply H|].
  apply IH. now apply spec_update_ext.
Qed.

(* lookups after any sequence of updates are exactly those of the map built by the successful updates *)
Theorem mrun_refines es : forall s, sorted s -> forall k, sget (fst (mrun s es)) k = spec_run (sget s) es k.
Proof.
  induction es as [|e r IH]; intros s Hs k; simpl; [reflexivity|].
  destruct (mupdate s e) as [s1 o] eqn:E1. destruct (mrun s1 r) as [s2 os] eqn:E2. simpl.
  assert (H1 : s1 = fst (mupdate s e)) by now rewrite E1.
  assert (H2 : s2 = fst (mrun s1 r)) by now rewrite E2.
  rewrite H2, IH by (rewrite H1; now apply mupdate_sorted).
  apply spec_run_ext. intros k'. rewrite H1. now apply mupdate_refines.
Qed.

(* ---- determinism / batching: replicas applying the same entries in different apply batches agree ---- *)
Theorem mrun_app a : forall s b,
  mrun s (a ++ b) = let '(s1, o1) := mrun s a in let '(s2, o2) := mrun s1 b in (s2, o1 ++ o2).
Proof.
  induction a as [|e r IH]; intros s b; simpl.
  - destruct (mrun s b); reflexivity.
  - destruct (mupdate s e) as [s1 o]. rewrite IH.
    destruct (mrun s1 r) as [s2 o2]. destruct (mrun s2 b) as [s3 o3]. reflexivity.
Qed.

(* ---- versions ---- *)
Definition versions_below (s : mstore) (n : N) : Prop := forall k v ver, sget s k = Some (v, ver) -> ver < n.

Lemma mupdate_versions s e n :
  sorted s -> versions_below s n -> n <= me_index e -> versions_below (fst (mupdate s e)) (me_index e + 1).
Proof.
  intros Hs Hb Hn k v ver. rewrite mupdate_refines by assumption. unfold spec_update.
  destruct (match sget s (me_key e) with Some (_, ver0) => ver0 =? me_ver e | None => me_ver e =? 0 end).
  - destruct (me_op e); unfold aupd; try destruct (beqb k (me_key e)); intros H; try discriminate;
      try (injection H as _ <-; lia); try (specialize (Hb _ _ _ H); lia).
  - intros H. specialize (Hb _ _ _ H). lia.
Qed.

(* a successful set stores exactly the entry index as the new version, above every version in the store before *)
Theorem set_fresh_version s e n :
  sorted s -> versions_below s n -> n <= me_index e -> me_op e = OpSet -> cas_ok s e = true ->
  sget (fst (mupdate s e)) (me_key e) = Some (me_val e, me_index e) /\
  pver (snd (snd (mupdate s e))) = me_index e /\
  (forall k v ver, sget s k = Some (v, ver) -> ver < me_index e).
Proof.
  intros Hs Hb Hn Hop Hok. split; [|split].
  - rewrite mupdate_state, Hok. unfold apply_op. rewrite Hop, sget_sset, beqb_refl. reflexivity.
  - unfold cas_ok in Hok. unfold mupdate, mget. destruct (sget s (me_key e)) as [[v ver]|]; simpl; rewrite Hok; reflexivity.
  - intros k v ver H. specialize (Hb _ _ _ H). lia.
Qed.

Fixpoint increasing_from (n : N) (es : list mentry) : Prop :=
  match es with [] => True | e :: r => n <= me_index e /\ increasing_from (me_index e + 1) r end.

Theorem mrun_versions es : forall s n,
  sorted s -> versions_below s n -> increasing_from n es ->
  exists n', versions_below (fst (mrun s es)) n' /\ n <= n' /\
             Forall (fun e => me_index e < n') es.
Proof.
  induction es as [|e r IH]; intros s n Hs Hb Hi; simpl.
  - exists n. repeat split; auto; lia.
  - destruct Hi as [Hn Hr].
    destruct (mupdate s e) as [s1 o] eqn:E1. destruct (mrun s1 r) as [s2 os] eqn:E2. simpl.
    assert (H1 : s1 = fst (mupdate s e)) by now rewrite E1.
    destruct (IH s1 (me_index e + 1)) as (n' & Hv & Hle & Hall).
    + rewrite H1. now apply mupdate_sorted.
    + rewrite H1. eapply mupdate_versions; eauto.
    + assumption.
    + rewrite E2 in Hv. exists n'. repeat split; [assumption|lia|]. constructor; [lia|assumption].
Qed.

(* ---- glob listing ---- *)
Theorem mgetall_spec s pat p :
  sorted s -> (In p (mgetall s pat) <-> mget s (pk p) = Some p /\ glob pat (pk p) = true).
Proof.
  intros Hs. unfold mgetall. rewrite in_map_iff. split.
  - intros ([k [v ver]] & <- & Hin). apply filter_In in Hin. destruct Hin as [Hin Hg]. simpl in *.
    split; [|assumption]. unfold mget. apply (sget_in _ s k (v, ver) Hs) in Hin. now rewrite Hin.
  - intros [Hg Hm]. unfold mget in Hg. destruct (sget s (pk p)) as [[v ver]|] eqn:E; [|discriminate].
    injection Hg as <-. exists (pk p, (v, ver)). split; [reflexivity|].
    apply filter_In. split; [now apply (sget_in _ s _ _ Hs)|assumption].
Qed.

Theorem mgetall_sorted s pat : sorted s -> StronglySorted blt (map pk (mgetall s pat)).
Proof.
  intros Hs. unfold mgetall. rewrite map_map. simpl.
  apply (sorted_keys_ascending _ _ (filter_sorted _ (fun kv => glob pat (fst kv)) s Hs)).
Qed.

(* ---- snapshot ---- *)
Theorem snapshot_roundtrip old s : mrecover old (msnapshot s) = s.
Proof. reflexivity. Qed.
