(* Facts about the API model (Model/Api.v): a rejected request has no effect, requests to one table leave every other
   table alone, the API over the encoded state machines answers exactly like the API over plain sorted maps, revisions
   are log positions, and the key/value limits are an invariant of every table under every request sequence. *)
From Coq Require Import Lia.
From Verif Require Import Model.Api Proofs.BytesFacts Proofs.SMapFacts Proofs.FsmRefine Proofs.SpecFacts.

(* ---------- generic: databases related table by table ---------- *)
Section RelDb.
  Context {A B : Type} (R : A -> B -> Prop).
  Definition rel_db (d : smap A) (e : smap B) : Prop := Forall2 (fun a b => fst a = fst b /\ R (snd a) (snd b)) d e.

  Lemma rel_get d e t : rel_db d e ->
    match sget d t, sget e t with Some a, Some b => R a b | None, None => True | _, _ => False end.
  Proof.
    induction 1 as [|[k a] [k' b] d e [Hk HR] _ IH]; simpl; [exact I|].
    simpl in Hk. subst k'. destruct (beqb t k); [exact HR|exact IH].
  Qed.

  Lemma rel_set d e t a b : rel_db d e -> R a b -> rel_db (sset d t a) (sset e t b).
  Proof.
    intros H HR. induction H as [|[k x] [k' y] d e [Hk Hxy] Hde IH]; simpl.
    - constructor; [split; [reflexivity|exact HR]|constructor].
    - simpl in Hk. subst k'. destruct (lex_compare t k).
      + constructor; [split; [reflexivity|exact HR]|exact Hde].
      + constructor; [split; [reflexivity|exact HR]|]. constructor; [split; [reflexivity|exact Hxy]|exact Hde].
      + constructor; [split; [reflexivity|exact Hxy]|exact IH].
  Qed.

  Lemma rel_known (kn : forall T, smap T -> bytes -> bool) d e t :
    (forall T (x : smap T), kn T x t = match sget x t with Some _ => true | None => false end) ->
    rel_db d e -> kn A d t = kn B e t.
  Proof.
    intros Hk H. rewrite !Hk. pose proof (rel_get d e t H) as G.
    destruct (sget d t), (sget e t); try reflexivity; contradiction.
  Qed.
End RelDb.

(* ---------- generic facts about api_step ---------- *)
Section Generic.
  Variable T : Type.
  Variable t_lookup : T -> range_req -> range_resp.
  Variable t_iter : T -> range_req -> list range_resp.
  Variable t_txn : T -> list compare -> list request_op -> list request_op -> bool * list response_op.
  Variable t_propose : T -> N -> command -> T * result.
  Notation step := (api_step T t_lookup t_iter t_txn t_propose).

  (* the result of a proposed put / delete has the shape proposeTable expects *)
  Hypothesis put_shape : forall s idx k v prev, exists p, first_resp (snd (t_propose s idx (CPut k v prev))) = Some (RPut p).
  Hypothesis del_shape : forall s idx k e prev cnt, exists n kvs,
    first_resp (snd (t_propose s idx (CDelete k e prev cnt))) = Some (RDel n kvs).

  (* C16: a request that is refused has no effect - the database is the same VALUE afterwards *)
  Theorem refused_no_effect d idx q st : snd (step d idx q) = PErr st -> fst (step d idx q) = d.
  Proof.
    destruct q as [t r lin f|t r lin f|t k v prev|t k e prev cnt|t cs su fa]; cbn [api_step].
    - destruct (range_status _); destruct (sget d t); intros; reflexivity.
    - destruct (range_status _); destruct (sget d t); intros; reflexivity.
    - destruct (put_status _); destruct (sget d t) as [s|]; try (intros; reflexivity).
      destruct (put_shape s idx k v prev) as [p Hp].
      destruct (t_propose s idx (CPut k v prev)) as [s' res]. cbn [snd] in *. rewrite Hp. discriminate.
    - destruct (del_status _); destruct (sget d t) as [s|]; try (intros; reflexivity).
      destruct (del_shape s idx k e prev cnt) as (n & kvs & Hp).
      destruct (t_propose s idx (CDelete k e prev cnt)) as [s' res]. cbn [snd] in *. rewrite Hp. discriminate.
    - destruct (txn_status _); destruct (sget d t) as [s|]; try (intros; reflexivity).
      destruct (is_readonly _ _).
      + destruct (t_txn s cs su fa). intros; reflexivity.
      + destruct (t_propose s idx (CTxn cs su fa)). cbn [snd]. discriminate.
  Qed.

  (* reads never change anything, whatever they answer *)
  Theorem reads_no_effect d idx q :
    match q with QRange _ _ _ _ | QIterate _ _ _ _ => True | _ => False end -> fst (step d idx q) = d.
  Proof.
    destruct q as [t r lin f|t r lin f| | |]; try contradiction; intros _; cbn [api_step];
      destruct (range_status _); destruct (sget d t); reflexivity.
  Qed.

  (* C14: a request addressed to table t leaves every other table as it was *)
  Theorem other_tables_untouched d idx q t' : t' <> req_table q -> sget (fst (step d idx q)) t' = sget d t'.
  Proof.
    intros Hne.
    assert (G : forall s', sget (sset d (req_table q) s') t' = sget d t').
    { intros s'. rewrite sget_sset. destruct (beqb t' (req_table q)) eqn:E; [|reflexivity].
      apply beqb_eq in E. contradiction. }
    destruct q as [t r lin f|t r lin f|t k v prev|t k e prev cnt|t cs su fa]; cbn [api_step req_table] in *.
    - destruct (range_status _); destruct (sget d t); reflexivity.
    - destruct (range_status _); destruct (sget d t); reflexivity.
    - destruct (put_status _); destruct (sget d t) as [s|]; try reflexivity.
      destruct (t_propose s idx (CPut k v prev)). cbn [fst]. apply G.
    - destruct (del_status _); destruct (sget d t) as [s|]; try reflexivity.
      destruct (t_propose s idx (CDelete k e prev cnt)). cbn [fst]. apply G.
    - destruct (txn_status _); destruct (sget d t) as [s|]; try reflexivity.
      destruct (is_readonly _ _).
      + destruct (t_txn s cs su fa). reflexivity.
      + destruct (t_propose s idx (CTxn cs su fa)). cbn [fst]. apply G.
  Qed.

  (* tables are neither created nor dropped by the key-value API *)
  Theorem known_preserved d idx q t' : known T (fst (step d idx q)) t' = known T d t'.
  Proof.
    assert (G : forall s s', sget d (req_table q) = Some s -> known T (sset d (req_table q) s') t' = known T d t').
    { intros s s' Hs. unfold known. rewrite sget_sset. destruct (beqb t' (req_table q)) eqn:E; [|reflexivity].
      apply beqb_eq in E. subst t'. rewrite Hs. reflexivity. }
    destruct q as [t r lin f|t r lin f|t k v prev|t k e prev cnt|t cs su fa]; cbn [api_step req_table] in *.
    - destruct (range_status _); destruct (sget d t); reflexivity.
    - destruct (range_status _); destruct (sget d t); reflexivity.
    - destruct (put_status _); destruct (sget d t) as [s|] eqn:Hs; try reflexivity.
      destruct (t_propose s idx (CPut k v prev)). cbn [fst]. eapply G; reflexivity.
    - destruct (del_status _); destruct (sget d t) as [s|] eqn:Hs; try reflexivity.
      destruct (t_propose s idx (CDelete k e prev cnt)). cbn [fst]. eapply G; reflexivity.
    - destruct (txn_status _); destruct (sget d t) as [s|] eqn:Hs; try reflexivity.
      destruct (is_readonly _ _).
      + destruct (t_txn s cs su fa). reflexivity.
      + destruct (t_propose s idx (CTxn cs su fa)). cbn [fst]. eapply G; reflexivity.
  Qed.
End Generic.

(* ---------- the two instances have the result shape proposeTable expects ---------- *)
Lemma spec_put_shape st idx k v prev : exists p, first_resp (snd (s_propose st idx (CPut k v prev))) = Some (RPut p).
Proof. unfold s_propose, spec_entry, s_handle. cbn. eexists. reflexivity. Qed.
Lemma spec_del_shape st idx k e prev cnt : exists n kvs, first_resp (snd (s_propose st idx (CDelete k e prev cnt))) = Some (RDel n kvs).
Proof.
  unfold s_propose, spec_entry, s_handle. cbn [handle e_cmd].
  destruct (handle_delete _ _ _ _ _ _ _) as [c' r] eqn:E. cbn.
  unfold handle_delete in E. destruct (dl_prev _ || dl_count _), e; inversion E; subst; do 2 eexists; reflexivity.
Qed.

(* ---------- refinement: encoded state machines vs plain maps, table by table ---------- *)
Definition Rtab (s : store) (st : spec_state) : Prop :=
  exists ol od, s = repr (content st) ol od /\ u64o ol /\ u64o od /\ applied st = dflt ol /\ leader st = dflt od.

Lemma propose_refines s st idx c : Rtab s st -> u64 idx ->
  snd (f_propose s idx c) = snd (s_propose st idx c) /\ Rtab (fst (f_propose s idx c)) (fst (s_propose st idx c)).
Proof.
  intros (ol & od & -> & Hol & Hod & Ha & Hl) Hidx.
  set (e := {| e_index := idx; e_leader := None; e_cmd := c |}).
  assert (Hne : [e] <> []) by discriminate.
  destruct (Update_refines (content st) ol od [e] st Hne eq_refl Ha Hl) as (od' & HUp & Hl' & Hod').
  cbn zeta in HUp. unfold f_propose. fold e. rewrite HUp.
  unfold s_propose. fold e. unfold spec_apply in *. cbn [spec_entries] in *.
  destruct (spec_entry st e) as [st1 o] eqn:E. cbn [fst snd hd] in *.
  split; [reflexivity|].
  exists (Some (applied st1)), od'. split; [reflexivity|].
  assert (Happ : applied st1 = idx).
  { unfold spec_entry in E. destruct (s_handle (content st) (e_cmd e)) as [c' [val rs]]. inversion E. reflexivity. }
  repeat split.
  - cbn. rewrite Happ. exact Hidx.
  - subst od'. cbn. exact Hod.
  - exact Hl'.
Qed.

Lemma f_put_shape s idx k v prev : exists p, first_resp (snd (f_propose s idx (CPut k v prev))) = Some (RPut p).
Proof.
  unfold f_propose, Update, Update_gen. cbn [update_entries]. unfold update_one_gen. cbn [e_cmd e_index e_leader].
  unfold f_handle. cbn [handle]. destruct (handle_put _ _ _ _ _) as [s' r] eqn:E. cbn.
  unfold handle_put in E. inversion E. eexists. reflexivity.
Qed.
Lemma f_del_shape s idx k e prev cnt : exists n kvs, first_resp (snd (f_propose s idx (CDelete k e prev cnt))) = Some (RDel n kvs).
Proof.
  unfold f_propose, Update, Update_gen. cbn [update_entries]. unfold update_one_gen. cbn [e_cmd e_index e_leader].
  unfold f_handle. cbn [handle]. destruct (handle_delete _ _ _ _ _ _ _) as [s' r] eqn:E. cbn.
  unfold handle_delete in E. destruct (dl_prev _ || dl_count _), e; inversion E; subst; do 2 eexists; reflexivity.
Qed.

Definition Rdb := rel_db Rtab.

Lemma known_rel d sd t : Rdb d sd -> known store d t = known spec_state sd t.
Proof.
  intros H. unfold known. pose proof (rel_get Rtab d sd t H) as G.
  destruct (sget d t), (sget sd t); try reflexivity; contradiction.
Qed.

Theorem step_refines d sd idx q : Rdb d sd -> u64 idx ->
  snd (impl_step d idx q) = snd (spec_step sd idx q) /\ Rdb (fst (impl_step d idx q)) (fst (spec_step sd idx q)).
Proof.
  intros HR Hidx. unfold impl_step, spec_step.
  pose proof (rel_get Rtab d sd (req_table q) HR) as G.
  pose proof (known_rel d sd (req_table q) HR) as K.
  destruct q as [t r lin f|t r lin f|t k v prev|t k e prev cnt|t cs su fa]; cbn [api_step req_table] in *; rewrite K.
  - destruct (range_status _); destruct (sget d t) as [s|], (sget sd t) as [st|]; try contradiction; try (split; [reflexivity|exact HR]).
    destruct G as (ol & od & -> & _). cbn [fst snd]. rewrite lookup_refines. split; [reflexivity|exact HR].
  - destruct (range_status _); destruct (sget d t) as [s|], (sget sd t) as [st|]; try contradiction; try (split; [reflexivity|exact HR]).
    destruct G as (ol & od & -> & _). cbn [fst snd]. rewrite iterator_lookup_refines. split; [reflexivity|exact HR].
  - destruct (put_status _); destruct (sget d t) as [s|], (sget sd t) as [st|]; try contradiction; try (split; [reflexivity|exact HR]).
    destruct (propose_refines s st idx (CPut k v prev) G Hidx) as [Ho Hs].
    destruct (f_propose s idx (CPut k v prev)) as [s' res], (s_propose st idx (CPut k v prev)) as [st' res'].
    cbn [fst snd] in *. subst res'. split; [reflexivity|]. apply rel_set; assumption.
  - destruct (del_status _); destruct (sget d t) as [s|], (sget sd t) as [st|]; try contradiction; try (split; [reflexivity|exact HR]).
    destruct (propose_refines s st idx (CDelete k e prev cnt) G Hidx) as [Ho Hs].
    destruct (f_propose s idx (CDelete k e prev cnt)) as [s' res], (s_propose st idx (CDelete k e prev cnt)) as [st' res'].
    cbn [fst snd] in *. subst res'. split; [reflexivity|]. apply rel_set; assumption.
  - destruct (txn_status _); destruct (sget d t) as [s|], (sget sd t) as [st|]; try contradiction; try (split; [reflexivity|exact HR]).
    destruct (is_readonly _ _).
    + destruct G as (ol & od & -> & _). rewrite lookup_txn_refines.
      destruct (s_lookup_txn (content st) cs su fa). split; [reflexivity|exact HR].
    + destruct (propose_refines s st idx (CTxn cs su fa) G Hidx) as [Ho Hs].
      destruct (f_propose s idx (CTxn cs su fa)) as [s' res], (s_propose st idx (CTxn cs su fa)) as [st' res'].
      cbn [fst snd] in *. subst res'. split; [reflexivity|]. apply rel_set; assumption.
Qed.

Theorem run_refines qs : forall d sd, Rdb d sd -> Forall (fun iq => u64 (fst iq)) qs ->
  snd (impl_run d qs) = snd (spec_run sd qs) /\ Rdb (fst (impl_run d qs)) (fst (spec_run sd qs)).
Proof.
  induction qs as [|[idx q] r IH]; intros d sd HR Hwf; cbn [impl_run spec_run api_run].
  - split; [reflexivity|exact HR].
  - inversion Hwf as [|? ? Hi Hr]; subst. cbn [fst] in Hi.
    destruct (step_refines d sd idx q HR Hi) as [Ho Hs].
    fold impl_step spec_step. destruct (impl_step d idx q) as [d1 o], (spec_step sd idx q) as [sd1 o'].
    cbn [fst snd] in *. subst o'.
    destruct (IH d1 sd1 Hs Hr) as [Ho2 Hs2].
    fold impl_run spec_run. destruct (impl_run d1 r) as [d2 os], (spec_run sd1 r) as [sd2 os'].
    cbn [fst snd] in *. subst os'. split; [reflexivity|exact Hs2].
Qed.

(* a database of freshly created (empty) tables *)
Lemma fresh_rel names : Rdb (fresh_impl names) (fresh_spec names).
Proof.
  unfold fresh_impl, fresh_spec.
  assert (G : forall d sd, Rdb d sd -> Rdb (fold_left (fun d t => sset d t []) names d) (fold_left (fun d t => sset d t spec_init) names sd)).
  { induction names as [|t r IH]; intros d sd H; simpl; [exact H|].
    apply IH. apply rel_set; [exact H|]. exists None, None. repeat split; reflexivity. }
  apply G. constructor.
Qed.

Theorem api_refines_from_fresh names qs : Forall (fun iq => u64 (fst iq)) qs ->
  snd (impl_run (fresh_impl names) qs) = snd (spec_run (fresh_spec names) qs).
Proof. intros H. exact (proj1 (run_refines qs _ _ (fresh_rel names) H)). Qed.

(* ---------- revisions (on the specification instance; carried to the code by step_refines) ---------- *)
Definition resp_rev (o : api_resp) : option N :=
  match o with PPut _ r | PDel _ _ r | PTxn _ _ r => Some r | _ => None end.
Definition is_write (q : api_req) : bool :=
  match q with
  | QPut _ _ _ _ | QDelete _ _ _ _ _ => true
  | QTxn _ _ su fa => negb (is_readonly (map op_feat su) (map op_feat fa))
  | _ => false
  end.

(* every acknowledged mutation - also a transaction whose executed branch is empty - reports the log index it was given,
   and that index is the table's applied index afterwards *)
Lemma s_propose_facts st idx c :
  applied (fst (s_propose st idx c)) = idx /\ r_rev (snd (s_propose st idx c)) = idx /\
  (is_txn c = true -> r_data (snd (s_propose st idx c)) = true).
Proof.
  unfold s_propose, spec_entry. cbn [e_cmd e_index]. destruct (s_handle (content st) c) as [c' [val rs]]. cbn.
  repeat split. intros ->. reflexivity.
Qed.

Theorem write_revision sd idx q o sd' : spec_step sd idx q = (sd', o) -> is_write q = true ->
  (exists st, o = PErr st /\ sd' = sd) \/
  (resp_rev o = Some idx /\ exists st', sget sd' (req_table q) = Some st' /\ applied st' = idx).
Proof.
  unfold spec_step. intros E W.
  destruct q as [t r lin f|t r lin f|t k v prev|t k e prev cnt|t cs su fa]; cbn [api_step req_table is_write] in *; try discriminate.
  - destruct (put_status _) eqn:S; destruct (sget sd t) as [st|] eqn:G;
      try (inversion E; subst; left; eexists; split; reflexivity).
    destruct (spec_put_shape st idx k v prev) as [p Hp].
    destruct (s_propose_facts st idx (CPut k v prev)) as (Fa & Fr & _).
    destruct (s_propose st idx (CPut k v prev)) as [st' res]. cbn [fst snd] in *. rewrite Hp in E.
    inversion E; subst sd' o. right. split; [cbn [resp_rev]; rewrite Fr; reflexivity|].
    exists st'. split; [rewrite sget_sset, beqb_refl; reflexivity|exact Fa].
  - destruct (del_status _) eqn:S; destruct (sget sd t) as [st|] eqn:G;
      try (inversion E; subst; left; eexists; split; reflexivity).
    destruct (spec_del_shape st idx k e prev cnt) as (n & kvs & Hp).
    destruct (s_propose_facts st idx (CDelete k e prev cnt)) as (Fa & Fr & _).
    destruct (s_propose st idx (CDelete k e prev cnt)) as [st' res]. cbn [fst snd] in *. rewrite Hp in E.
    inversion E; subst sd' o. right. split; [cbn [resp_rev]; rewrite Fr; reflexivity|].
    exists st'. split; [rewrite sget_sset, beqb_refl; reflexivity|exact Fa].
  - apply negb_true_iff in W. rewrite W in E.
    destruct (txn_status _) eqn:S; destruct (sget sd t) as [st|] eqn:G;
      try (inversion E; subst; left; eexists; split; reflexivity).
    destruct (s_propose_facts st idx (CTxn cs su fa)) as (Fa & Fr & Fd). specialize (Fd eq_refl).
    destruct (s_propose st idx (CTxn cs su fa)) as [st' res]. cbn [fst snd] in *. rewrite Fd in E.
    inversion E; subst sd' o. right. split; [cbn [resp_rev]; rewrite Fr; reflexivity|].
    exists st'. split; [rewrite sget_sset, beqb_refl; reflexivity|exact Fa].
Qed.

(* a request that is not a write never carries a non-zero revision and never moves an applied index *)
Theorem read_revision sd idx q : is_write q = false -> fst (spec_step sd idx q) = sd.
Proof.
  unfold spec_step. intros W.
  destruct q as [t r lin f|t r lin f|t k v prev|t k e prev cnt|t cs su fa]; cbn [api_step is_write] in *; try discriminate.
  - destruct (range_status _); destruct (sget sd t); reflexivity.
  - destruct (range_status _); destruct (sget sd t); reflexivity.
  - apply negb_false_iff in W. rewrite W.
    destruct (txn_status _); destruct (sget sd t) as [st|]; try reflexivity;
      destruct (s_lookup_txn (content st) cs su fa); reflexivity.
Qed.

(* C02 at the API: a read-only transaction, which is never proposed, answers what proposing it would have answered *)
Theorem readonly_txn_as_if_proposed st cs su fa idx :
  is_readonly (map op_feat su) (map op_feat fa) = true ->
  let '(st', res) := s_propose st idx (CTxn cs su fa) in
  content st' = content st /\
  (r_value res =? fsm_ResultSuccess, r_resps res) = s_lookup_txn (content st) cs su fa.
Proof.
  intros H. unfold is_readonly in H. apply andb_true_iff in H. destruct H as [H1 H2].
  assert (A : forall l, forallb is_range (map op_feat l) = true -> all_ranges l = true).
  { induction l as [|o l IH]; simpl; [reflexivity|]. intros E. apply andb_true_iff in E. destruct E as [E1 E2].
    rewrite (IH E2). destruct o; try discriminate; reflexivity. }
  unfold s_propose, spec_entry, s_handle. cbn [handle e_cmd].
  rewrite (txn_readonly_agrees umap p_get p_set p_del p_delrange p_scan (content st) cs su fa (A su H1) (A fa H2)).
  unfold s_lookup_txn, lookup_txn. cbn [fst snd content r_value r_resps].
  split; [reflexivity|].
  destruct (txn_compare umap p_get p_scan (content st) cs); reflexivity.
Qed.

(* ---------- C16: the limits are an invariant of every table under every request sequence ---------- *)
Lemma forallb_sset (U : umap) k v : forallb pair_ok U = true -> pair_ok (k, v) = true -> forallb pair_ok (sset U k v) = true.
Proof.
  intros HU Hp. induction U as [|[k' v'] r IH]; simpl; [rewrite Hp; reflexivity|].
  simpl in HU. apply andb_true_iff in HU. destruct HU as [H1 H2].
  destruct (lex_compare k k'); simpl.
  - rewrite Hp, H2. reflexivity.
  - rewrite Hp, H1, H2. reflexivity.
  - rewrite H1, (IH H2). reflexivity.
Qed.
Lemma forallb_sdel (U : umap) k : forallb pair_ok U = true -> forallb pair_ok (sdel U k) = true.
Proof.
  induction U as [|[k' v'] r IH]; simpl; [reflexivity|]. intros H. apply andb_true_iff in H. destruct H as [H1 H2].
  destruct (beqb k k'); simpl; [exact H2|]. rewrite H1, (IH H2). reflexivity.
Qed.
Lemma forallb_filter {A} (p f : A -> bool) l : forallb p l = true -> forallb p (filter f l) = true.
Proof.
  induction l as [|x r IH]; simpl; [reflexivity|]. intros H. apply andb_true_iff in H. destruct H as [H1 H2].
  destruct (f x); simpl; [rewrite H1|]; auto.
Qed.

Definition op_within (o : request_op) : bool := op_ok (op_feat o).

Lemma put_within U p : within_limits U = true -> op_within (OPut p) = true ->
  within_limits (fst (handle_put umap p_get p_set U p)) = true.
Proof.
  unfold within_limits, op_within, handle_put, p_set. cbn [fst op_feat op_ok]. intros HU Hp.
  apply forallb_sset; [exact HU|]. unfold pair_ok. cbn [fst snd]. exact Hp.
Qed.
Lemma delete_within U d : within_limits U = true ->
  within_limits (fst (handle_delete umap p_get p_del p_delrange p_scan U d)) = true.
Proof.
  unfold within_limits, handle_delete. intros HU.
  destruct (dl_end d); cbn [fst]; [apply forallb_filter|apply forallb_sdel]; exact HU.
Qed.
Lemma txn_ops_within ops : forall U, within_limits U = true -> forallb op_within ops = true ->
  within_limits (fst (txn_ops umap p_get p_set p_del p_delrange p_scan U ops)) = true.
Proof.
  induction ops as [|o r IH]; intros U HU Hops; cbn [txn_ops fst]; [exact HU|].
  cbn [forallb] in Hops. apply andb_true_iff in Hops. destruct Hops as [Ho Hr].
  destruct o as [q|p|d|].
  - specialize (IH U HU Hr). destruct (txn_ops _ _ _ _ _ _ U r). exact IH.
  - pose proof (put_within U p HU Ho) as H1. destruct (handle_put _ _ _ U p) as [U1 r1]. cbn [fst] in H1.
    specialize (IH U1 H1 Hr). destruct (txn_ops _ _ _ _ _ _ U1 r). exact IH.
  - pose proof (delete_within U d HU) as H1. destruct (handle_delete _ _ _ _ _ U d) as [U1 r1]. cbn [fst] in H1.
    specialize (IH U1 H1 Hr). destruct (txn_ops _ _ _ _ _ _ U1 r). exact IH.
  - exact (IH U HU Hr).
Qed.

Definition db_within (sd : smap spec_state) : Prop := forall t st, sget sd t = Some st -> within_limits (content st) = true.

Lemma db_within_set sd t st : db_within sd -> within_limits (content st) = true -> db_within (sset sd t st).
Proof.
  intros H Hs t' st'. rewrite sget_sset. destruct (beqb t' t); [intros E; inversion E; subst; exact Hs|apply H].
Qed.

Lemma forallb_app_true {A} (p : A -> bool) a b : forallb p (a ++ b) = true -> forallb p a = true /\ forallb p b = true.
Proof. rewrite forallb_app. apply andb_true_iff. Qed.

Theorem limits_invariant sd idx q : db_within sd -> db_within (fst (spec_step sd idx q)).
Proof.
  unfold spec_step. intros H.
  destruct q as [t r lin f|t r lin f|t k v prev|t k e prev cnt|t cs su fa]; cbn [api_step].
  - destruct (range_status _); destruct (sget sd t); exact H.
  - destruct (range_status _); destruct (sget sd t); exact H.
  - destruct (put_status _) eqn:S; destruct (sget sd t) as [st|] eqn:G; try exact H.
    unfold s_propose, spec_entry, s_handle. cbn [handle e_cmd].
    pose proof (put_within (content st) {| pt_key := k; pt_val := v; pt_prev := prev |} (H t st G)) as P.
    destruct (handle_put _ _ _ _ _) as [c' rp]. cbn [fst] in *. apply db_within_set; [exact H|]. cbn [content].
    apply P. unfold op_within. cbn [op_feat op_ok pt_key pt_val].
    unfold put_status, put_feat in S. cbn in S.
    destruct (blen t =? 0); [discriminate|]. destruct (blen k =? 0) eqn:E1; [discriminate|].
    destruct (negb (known spec_state sd t)); [discriminate|]. destruct (key_limit <? blen k) eqn:E2; [discriminate|].
    destruct (val_limit <? blen v) eqn:E3; [discriminate|].
    apply N.ltb_ge in E2, E3. apply N.leb_le in E2, E3. rewrite E2, E3. reflexivity.
  - destruct (del_status _) eqn:S; destruct (sget sd t) as [st|] eqn:G; try exact H.
    unfold s_propose, spec_entry, s_handle. cbn [handle e_cmd].
    pose proof (delete_within (content st) {| dl_key := k; dl_end := e; dl_prev := prev; dl_count := cnt |} (H t st G)) as P.
    destruct (handle_delete _ _ _ _ _ _ _) as [c' rp]. cbn [fst] in *. apply db_within_set; [exact H|exact P].
  - destruct (txn_status _) eqn:S; destruct (sget sd t) as [st|] eqn:G; try exact H.
    destruct (is_readonly _ _).
    + destruct (s_lookup_txn (content st) cs su fa). exact H.
    + unfold s_propose, spec_entry, s_handle. cbn [handle e_cmd]. unfold handle_txn.
      assert (Hops : forallb op_within su = true /\ forallb op_within fa = true).
      { unfold txn_status, txn_feat in S. cbn in S. destruct (blen t =? 0); [discriminate|].
        destruct (negb (known spec_state sd t)); [discriminate|].
        destruct (forallb op_ok (map op_feat su ++ map op_feat fa)) eqn:F; [|discriminate].
        apply forallb_app_true in F. destruct F as [F1 F2]. unfold op_within.
        rewrite !forallb_forall in *. split; intros o Ho; [apply F1|apply F2]; apply in_map; exact Ho. }
      destruct Hops as [Hsu Hfa].
      pose proof (txn_ops_within (if txn_compare umap p_get p_scan (content st) cs then su else fa) (content st) (H t st G)) as P.
      destruct (txn_ops _ _ _ _ _ _ _ _) as [c' rs]. cbn [fst] in *.
      apply db_within_set; [exact H|]. cbn [content]. apply P.
      destruct (txn_compare _ _ _ _ _); assumption.
Qed.

Theorem limits_invariant_run qs : forall sd, db_within sd -> db_within (fst (spec_run sd qs)).
Proof.
  induction qs as [|[idx q] r IH]; intros sd H; cbn [spec_run api_run fst]; [exact H|].
  pose proof (limits_invariant sd idx q H) as H1. fold spec_step.
  destruct (spec_step sd idx q) as [sd1 o]. cbn [fst] in H1.
  specialize (IH sd1 H1). fold spec_run. destruct (spec_run sd1 r) as [sd2 os]. exact IH.
Qed.

(* revisions strictly increase along every request sequence whose proposals get increasing log positions *)
Fixpoint revs_of (os : list api_resp) : list N :=
  match os with
  | [] => []
  | o :: r => match resp_rev o with Some n => if n =? 0 then revs_of r else n :: revs_of r | None => revs_of r end
  end.

Lemma step_rev sd idx q :
  resp_rev (snd (spec_step sd idx q)) = None \/ resp_rev (snd (spec_step sd idx q)) = Some 0 \/
  resp_rev (snd (spec_step sd idx q)) = Some idx.
Proof.
  destruct (is_write q) eqn:W.
  - destruct (spec_step sd idx q) as [sd' o] eqn:E.
    destruct (write_revision sd idx q o sd' E W) as [(st & -> & _)|[Hr _]]; cbn [snd]; [left; reflexivity|right; right; exact Hr].
  - unfold spec_step.
    destruct q as [t r lin f|t r lin f|t k v prev|t k e prev cnt|t cs su fa]; cbn [api_step is_write] in *; try discriminate.
    + left. destruct (range_status _); destruct (sget sd t); reflexivity.
    + left. destruct (range_status _); destruct (sget sd t); reflexivity.
    + apply negb_false_iff in W. rewrite W.
      destruct (txn_status _); destruct (sget sd t) as [st|]; try (left; reflexivity).
      destruct (s_lookup_txn (content st) cs su fa). right; left; reflexivity.
Qed.

Theorem revisions_increase qs : forall sd lo,
  Sorted.StronglySorted N.lt (map fst qs) -> Forall (fun i => lo < i) (map fst qs) ->
  Forall (fun r => lo < r) (revs_of (snd (spec_run sd qs))) /\ Sorted.StronglySorted N.lt (revs_of (snd (spec_run sd qs))).
Proof.
  induction qs as [|[idx q] r IH]; intros sd lo Hs Hlo; cbn [spec_run api_run snd revs_of map fst] in *.
  - split; constructor.
  - inversion Hs as [|? ? Hs' Hall]; subst. inversion Hlo as [|? ? Hi Hlo']; subst.
    fold spec_step. pose proof (step_rev sd idx q) as R.
    destruct (spec_step sd idx q) as [sd1 o]. cbn [snd] in R.
    fold spec_run. destruct (IH sd1 lo Hs' Hlo') as [IH1 IH2]. destruct (IH sd1 idx Hs' Hall) as [IH3 _].
    destruct (spec_run sd1 r) as [sd2 os]. cbn [snd revs_of] in *.
    destruct R as [-> | [-> | ->]]; [split; assumption|cbn; split; assumption|].
    destruct (idx =? 0) eqn:Z; [split; assumption|].
    split; [constructor; assumption|constructor; assumption].
Qed.

(* no acknowledged mutation reports revision 0 when log positions start at 1 *)
Corollary write_revision_nonzero sd idx q o sd' : spec_step sd idx q = (sd', o) -> is_write q = true -> 0 < idx ->
  (exists st, o = PErr st) \/ (exists r, resp_rev o = Some r /\ 0 < r).
Proof.
  intros E W Hi. destruct (write_revision sd idx q o sd' E W) as [(st & -> & _)|[Hr _]]; [left; eexists; reflexivity|].
  right. exists idx. split; assumption.
Qed.

(* C09 at the API: what KV.Range / KV.IterateRange hand to the client for an accepted request to an existing table IS the
   state machine's answer (one message / all messages), untouched by the layers in between *)
Theorem api_range_answer sd idx t r lin f st : sget sd t = Some st ->
  range_status (range_feat true t r f) = SOk ->
  spec_step sd idx (QRange t r lin f) = (sd, PRange (s_lookup (content st) r)) /\
  spec_step sd idx (QIterate t r lin f) = (sd, PIter (s_iterator_lookup (content st) r)).
Proof.
  intros Hs Hok. unfold spec_step. cbn [api_step]. unfold known. rewrite Hs, Hok. split; reflexivity.
Qed.
