From Coq Require Import Lia Sorted.
From Verif Require Import Model.Bytes Model.SMap Model.Cmd Model.Spec Model.Restore.
From Verif Require Import Proofs.BytesFacts Proofs.SMapFacts.

Definition kvs_of (ms : list smsg) : list (bytes * bytes) :=
  concat (map (fun m => match m_kv m with Some kv => [kv] | None => [] end) ms).

(* no pair lost, duplicated, added or reordered - for every threshold *)
Lemma rit_lossless mx ms : forall est batch li,
  concat (map fst (rit_gen true true mx ms est batch li)) = batch ++ map Some (kvs_of ms).
Proof.
  induction ms as [|m r IH]; intros est batch li; cbn [rit_gen].
  - simpl. now rewrite !app_nil_r.
  - unfold kvs_of. cbn [map concat]. fold (kvs_of r). rewrite map_app.
    assert (Hadd : (match m_kv m with Some kv => [Some kv] | None => [] end) =
                   map Some (match m_kv m with Some kv => [kv] | None => [] end)) by (destruct (m_kv m); reflexivity).
    destruct (est + m_size m <? mx / 2).
    + rewrite IH, Hadd. now rewrite app_assoc.
    + cbn [map concat fst]. rewrite IH, Hadd. simpl. now rewrite app_assoc.
Qed.

Theorem batches_lossless mx ms :
  concat (map p_batch (read_into_table mx ms)) = kvs_of ms.
Proof.
  unfold read_into_table. rewrite map_map.
  assert (G : forall l, concat (map (fun x => p_batch (to_proposal x)) l) = map elem_kv (concat (map fst l))).
  { induction l as [|x l IH]; cbn [map concat]; [reflexivity|]. rewrite IH, map_app. reflexivity. }
  rewrite G, rit_lossless. simpl. rewrite map_map. simpl. apply map_id.
Qed.

(* the leader index declared by the final message is the last one any proposal carries *)
Definition last_leader (ps : list proposal) : option N :=
  fold_left (fun acc p => match p_leader p with Some l => Some l | None => acc end) ps None.

Lemma rit_last_leader mx ms : forall est batch li acc i,
  (exists body, ms = body ++ [ {| m_size := 8; m_kv := None; m_leader := Some i |} ]) ->
  fold_left (fun acc p => match snd p with Some l => Some l | None => acc end)
            (rit_gen true true mx ms est batch li) acc = Some i.
Proof.
  induction ms as [|m r IH]; intros est batch li acc i [body Hb].
  - destruct body; discriminate.
  - destruct body as [|b body'].
    + (* m is the final message *)
      simpl in Hb. injection Hb as -> ->. cbn [rit_gen m_size m_kv m_leader].
      destruct (est + 8 <? mx / 2); simpl; reflexivity.
    + simpl in Hb. injection Hb as -> ->. cbn [rit_gen].
      destruct (est + m_size b <? mx / 2).
      * apply IH. eauto.
      * cbn [fold_left]. apply IH. eauto.
Qed.

Lemma fold_left_map' {A B C} (f : A -> B -> A) (g : C -> B) l : forall a,
  fold_left f (map g l) a = fold_left (fun a x => f a (g x)) l a.
Proof. induction l as [|x l IH]; intros a; simpl; [reflexivity|]. apply IH. Qed.

Theorem declared_leader_index mx U size_of i :
  last_leader (read_into_table mx (table_stream size_of U (Some i))) = Some i.
Proof.
  unfold last_leader, read_into_table. rewrite fold_left_map'. cbn [to_proposal p_leader].
  unfold table_stream. apply (rit_last_leader mx _ 0 [] None None i). eauto.
Qed.

(* ---------- loading into a fresh shard reproduces the captured content ---------- *)
Lemma put_batch_fold kvs : forall s, fst (put_batch umap p_get p_set s kvs) = fold_left (fun s kv => sset s (fst kv) (snd kv)) kvs s.
Proof.
  induction kvs as [|[k v] r IH]; intros s; cbn [put_batch fold_left]; [reflexivity|].
  unfold handle_put at 1. cbn [pt_prev pt_key pt_val].
  specialize (IH (p_set s k v)). destruct (put_batch umap p_get p_set (p_set s k v) r) as [s' rs]. simpl in *. exact IH.
Qed.

Lemma sset_at_end (s : umap) k v : Forall (fun x => blt (fst x) k) s -> sset s k v = s ++ [(k, v)].
Proof.
  induction s as [|[k0 v0] r IH]; intros H; simpl; [reflexivity|].
  inversion H as [|? ? H0 Hr]; subst. unfold blt in H0; simpl in H0. rewrite lex_antisym, H0. simpl.
  now rewrite IH.
Qed.

Lemma fold_sset_sorted (l2 : umap) : forall l1 : umap, sorted (l1 ++ l2) ->
  fold_left (fun s kv => sset s (fst kv) (snd kv)) l2 l1 = l1 ++ l2.
Proof.
  induction l2 as [|[k v] r IH]; intros l1 Hs; cbn [fold_left]; [now rewrite app_nil_r|].
  assert (Hlt : Forall (fun x => blt (fst x) k) l1).
  { clear IH. induction l1 as [|a l1 IH1]; [constructor|].
    simpl in Hs. apply sorted_inv in Hs. destruct Hs as [Hs1 Hf]. constructor.
    - rewrite Forall_forall in Hf. apply (Hf (k, v)). apply in_or_app. right. now left.
    - apply IH1. exact Hs1. }
  cbn [fst snd]. rewrite (sset_at_end l1 k v Hlt). rewrite IH; [now rewrite <- app_assoc|].
  now rewrite <- app_assoc.
Qed.

Lemma restored_fold ps : forall st,
  fst (fold_left apply_proposal ps st) = fold_left (fun s kv => sset s (fst kv) (snd kv)) (concat (map p_batch ps)) (fst st).
Proof.
  induction ps as [|p r IH]; intros st; cbn [fold_left map concat]; [reflexivity|].
  rewrite IH. unfold apply_proposal. cbn [fst]. unfold s_handle. cbn [handle].
  pose proof (put_batch_fold (p_batch p) (fst st)) as Hp.
  destruct (put_batch umap p_get p_set (fst st) (p_batch p)) as [s' rs]. cbn [fst] in *. rewrite Hp.
  now rewrite fold_left_app.
Qed.

Definition ll (acc : option N) (ps : list proposal) : option N :=
  fold_left (fun acc p => match p_leader p with Some l => Some l | None => acc end) ps acc.

Lemma ll_some ps : forall a, ll (Some a) ps = match ll None ps with Some l => Some l | None => Some a end.
Proof.
  unfold ll. induction ps as [|p r IH]; intros a; cbn [fold_left]; [reflexivity|].
  destruct (p_leader p) as [l|]; [|apply IH].
  rewrite (IH l). destruct (fold_left _ r None); reflexivity.
Qed.

Lemma restored_leader_acc ps : forall st,
  snd (fold_left apply_proposal ps st) = match ll (Some (snd st)) ps with Some l => l | None => 0 end.
Proof.
  unfold ll. induction ps as [|p r IH]; intros st; cbn [fold_left]; [reflexivity|].
  rewrite IH. unfold apply_proposal. cbn [snd]. destruct (p_leader p); reflexivity.
Qed.

Lemma restored_leader ps : forall st,
  snd (fold_left apply_proposal ps st) = match ll None ps with Some l => l | None => snd st end.
Proof. intros st. rewrite restored_leader_acc, ll_some. destruct (ll None ps); reflexivity. Qed.

(* the restored table holds exactly the captured pairs and records the declared index - whatever the threshold *)
Theorem restore_exact mx size_of U i : sorted U ->
  restored (read_into_table mx (table_stream size_of U (Some i))) = (U, i).
Proof.
  intros Hs. unfold restored.
  apply injective_projections.
  - rewrite restored_fold, batches_lossless. cbn [fst].
    assert (E : kvs_of (table_stream size_of U (Some i)) = U).
    { unfold table_stream, kvs_of. rewrite map_app, concat_app. simpl. rewrite app_nil_r.
      rewrite map_map. simpl. induction U as [|a r IH]; simpl; [reflexivity|]. f_equal. apply IH.
      apply sorted_inv in Hs. tauto. }
    rewrite E. apply (fold_sset_sorted U []). exact Hs.
  - rewrite restored_leader. pose proof (declared_leader_index mx U size_of i) as H. unfold last_leader in H.
    unfold ll. rewrite H. reflexivity.
Qed.

(* a backup stream carries no final index: content restored, leader index untouched *)
Theorem restore_backup_exact mx size_of U : sorted U ->
  fst (restored (read_into_table mx (table_stream size_of U None))) = U.
Proof.
  intros Hs. unfold restored. rewrite restored_fold, batches_lossless. cbn [fst].
  assert (E : kvs_of (table_stream size_of U None) = U).
  { unfold table_stream, kvs_of. rewrite app_nil_r, map_map. simpl.
    induction U as [|a r IH]; simpl; [reflexivity|]. f_equal. apply IH. apply sorted_inv in Hs. tauto. }
  rewrite E. apply (fold_sset_sorted U []). exact Hs.
Qed.
