(* Read-your-writes through a follower node (Model/Forward.v): whenever a call has been answered without error, the node's
   copy of the table has applied a prefix of the leader's log that contains the call's own command at its revision. *)
From Coq Require Import Lia Permutation.
From Verif Require Import Model.Forward Proofs.ReplicationFacts Proofs.HeapFacts.

Definition all_of (hs : list (N * list item)) : list item := flat_map snd hs.

Lemma in_hget hs t y : In y (hget hs t) -> In y (all_of hs).
Proof.
  induction hs as [|[k h] r IH]; simpl; [contradiction|].
  destruct (k =? t); intros H; apply in_or_app; [left; exact H|right; apply IH, H].
Qed.
Lemma in_hset hs t h y : In y (all_of (hset hs t h)) -> In y h \/ In y (all_of hs).
Proof.
  induction hs as [|[k h0] r IH]; simpl.
  - rewrite app_nil_r. auto.
  - destruct (k =? t); simpl; intros H; apply in_app_or in H; destruct H as [H|H].
    + left; exact H.
    + right. apply in_or_app. right; exact H.
    + right. apply in_or_app. left; exact H.
    + destruct (IH H) as [H1|H1]; [left; exact H1|right; apply in_or_app; right; exact H1].
Qed.

(* ---- what the queue handlers can do to a heap and to the answers (no invariant needed) ---- *)
Lemma notify_loop_sub canc rev fuel : forall h cs ans o h' cs' ans',
  notify_loop fuel canc rev h cs ans = (o, h', cs', ans') ->
  (forall y, In y h' -> In y h) /\
  (forall id a, In (id, a) ans' -> In (id, a) ans \/ exists x, In x h /\ it_id x = id /\ (a = AOk -> it_rev x <= rev)).
Proof.
  induction fuel as [|f IH]; intros h cs ans o h' cs' ans' E; simpl in E.
  - inversion E; subst. split; auto.
  - destruct (peek item h) as [e|] eqn:P; [|inversion E; subst; split; auto].
    assert (He : In e h) by (destruct h; [discriminate|inversion P; left; reflexivity]).
    assert (Step : forall h1 cs1 a1, (forall y, In y h1 -> In y h) -> (a1 = AOk -> it_rev e <= rev) ->
              notify_loop f canc rev h1 cs1 (ans ++ [(it_id e, a1)]) = (o, h', cs', ans') ->
              (forall y, In y h' -> In y h) /\
              (forall id a, In (id, a) ans' -> In (id, a) ans \/ exists x, In x h /\ it_id x = id /\ (a = AOk -> it_rev x <= rev))).
    { intros h1 cs1 a1 Sub Ha E1. destruct (IH _ _ _ _ _ _ _ E1) as [S1 S2].
      split; [intros y Hy; apply Sub, S1, Hy|].
      intros id a Hid. destruct (S2 id a Hid) as [H|(x0 & Hx & Hi & Hr)].
      - apply in_app_or in H. destruct H as [H|[H|[]]]; [left; exact H|].
        inversion H; subst. right. exists e. split; [exact He|split; [reflexivity|exact Ha]].
      - right. exists x0. split; [apply Sub, Hx|split; assumption]. }
    destruct (canc (it_id e)).
    + destruct (send_err cs (it_id e)) as [cs1|]; [|inversion E; subst; split; auto].
      destruct (pop item lessi ditem h) as [[x h1]|] eqn:PP; [|inversion E; subst; split; auto].
      destruct (pop_spec _ _ _ _ _ _ PP) as (r & Hh & Hp).
      apply (Step h1 cs1 AErr); [|intros X; discriminate X|exact E].
      intros y Hy. subst h. right. eapply Permutation_in; [exact Hp|exact Hy].
    + destruct (it_rev e <=? rev) eqn:Le; [|inversion E; subst; split; auto].
      destruct (cget cs (it_id e)); try (inversion E; subst; split; auto; fail);
        (destruct (pop item lessi ditem h) as [[x h1]|] eqn:PP; [|inversion E; subst; split; auto]);
        destruct (pop_spec _ _ _ _ _ _ PP) as (r & Hh & Hp);
        (eapply (Step h1 _ AOk); [|intros _; apply N.leb_le, Le|exact E]);
        intros y Hy; subst h; right; (eapply Permutation_in; [exact Hp|exact Hy]).
Qed.

Lemma sweep_scan_sub canc : forall h cs ans o live cs' ans',
  sweep_scan canc h cs ans = (o, live, cs', ans') ->
  (forall y, In y live -> In y h) /\
  (forall id a, In (id, a) ans' -> In (id, a) ans \/ (a = AErr /\ exists x, In x h /\ it_id x = id)).
Proof.
  induction h as [|e r IH]; intros cs ans o live cs' ans' E; simpl in E.
  - inversion E; subst. split; auto.
  - destruct (canc (it_id e)).
    + destruct (send_err cs (it_id e)) as [cs1|]; [|inversion E; subst; split; auto].
      destruct (IH _ _ _ _ _ _ E) as [S1 S2]. split; [intros y Hy; right; apply S1, Hy|].
      intros id a Hid. destruct (S2 id a Hid) as [H|(Ha & x & Hx & Hi)].
      * apply in_app_or in H. destruct H as [H|[H|[]]]; [left; exact H|].
        inversion H; subst. right. split; [reflexivity|]. exists e. split; [left; reflexivity|reflexivity].
      * right. split; [exact Ha|]. exists x. split; [right; exact Hx|exact Hi].
    + destruct (sweep_scan canc r cs ans) as [[[o1 l1] c1] a1] eqn:E1. inversion E; subst.
      destruct (IH _ _ _ _ _ _ E1) as [S1 S2]. split.
      * intros y [->|Hy]; [left; reflexivity|right; apply S1, Hy].
      * intros id a Hid. destruct (S2 id a Hid) as [H|(Ha & x & Hx & Hi)]; [left; exact H|].
        right. split; [exact Ha|]. exists x. split; [right; exact Hx|exact Hi].
Qed.

Lemma sweep_all_sub canc : forall hs cs ans o hs' cs' ans',
  sweep_all canc hs cs ans = (o, hs', cs', ans') ->
  (forall y, In y (all_of hs') -> In y (all_of hs)) /\
  (forall id a, In (id, a) ans' -> In (id, a) ans \/ (a = AErr /\ exists x, In x (all_of hs) /\ it_id x = id)).
Proof.
  induction hs as [|[t h] r IH]; intros cs ans o hs' cs' ans' E; simpl in E.
  - inversion E; subst. split; auto.
  - destruct (sweep_scan canc h cs ans) as [[[o1 live] cs1] ans1] eqn:E1.
    destruct (sweep_scan_sub _ _ _ _ _ _ _ _ E1) as [L1 A1].
    assert (A1' : forall id a, In (id, a) ans1 -> In (id, a) ans \/ (a = AErr /\ exists x, In x (all_of ((t, h) :: r)) /\ it_id x = id)).
    { intros id a Hid. destruct (A1 id a Hid) as [H|(Ha & x & Hx & Hi)]; [left; exact H|].
      right. split; [exact Ha|]. exists x. split; [simpl; apply in_or_app; left; exact Hx|exact Hi]. }
    destruct o1.
    + destruct (sweep_all canc r cs1 ans1) as [[[o2 r'] cs2] ans2] eqn:E2. inversion E; subst.
      destruct (IH _ _ _ _ _ _ E2) as [L2 A2]. split.
      * intros y Hy. simpl in *. apply in_app_or in Hy. apply in_or_app. destruct Hy as [Hy|Hy].
        -- left. apply L1. eapply Permutation_in; [apply heapify_perm|exact Hy].
        -- right. apply L2, Hy.
      * intros id a Hid. destruct (A2 id a Hid) as [H|(Ha & x & Hx & Hi)]; [apply A1', H|].
        right. split; [exact Ha|]. exists x. split; [simpl; apply in_or_app; right; exact Hx|exact Hi].
    + inversion E; subst. split; [|exact A1'].
      intros y Hy. simpl in *. apply in_app_or in Hy. apply in_or_app. destruct Hy as [Hy|Hy]; [left; apply L1, Hy|right; exact Hy].
    + inversion E; subst. split; [|exact A1'].
      intros y Hy. simpl in *. apply in_app_or in Hy. apply in_or_app. destruct Hy as [Hy|Hy]; [left; apply L1, Hy|right; exact Hy].
Qed.

Section Fwd.
  Variables (S C : Type) (app : S -> C -> S) (init : S) (tbl : N).
  Notation node := (node S C).
  Notation fstep := (fstep S C app init tbl).
  Notation lidx := (lidx S C).
  Notation wait := (n_wait S C).
  Notation que := (n_q S C).

  Record K (n : node) : Prop := {
    K_inv : Inv S C app init (n_sys S C n);
    K_items : forall x, In x (all_of (heaps (que n))) -> exists c, In (it_id x, (N.to_nat (it_rev x), c)) (wait n);
    K_ids : NoDup (map fst (wait n));
    K_ans : forall id a, In (id, a) (answers (que n)) -> In id (map fst (wait n));
    K_acked : forall id r c, acked S C n id -> In (id, (r, c)) (wait n) -> (r <= lidx n)%nat;
    K_log : forall id r c, In (id, (r, c)) (wait n) -> (1 <= r)%nat /\ nth_error (s_log S C (n_sys S C n)) (r - 1) = Some c
  }.

  Lemma K0 : K (node0 S C init).
  Proof.
    constructor; simpl; try (intros; contradiction); try constructor.
    - reflexivity.
    - simpl. lia.
  Qed.

  Lemma wait_unique (l : list (nat * (nat * C))) id r c r' c' : NoDup (map fst l) ->
    In (id, (r, c)) l -> In (id, (r', c')) l -> r = r' /\ c = c'.
  Proof.
    induction l as [|[i p] l IH]; simpl; [contradiction|].
    intros ND [H1|H1] [H2|H2]; inversion ND as [|? ? Hn Hd]; subst.
    - rewrite H1 in H2. inversion H2. split; reflexivity.
    - inversion H1; subst. exfalso. apply Hn. apply (in_map fst) in H2. exact H2.
    - inversion H2; subst. exfalso. apply Hn. apply (in_map fst) in H1. exact H1.
    - apply IH; assumption.
  Qed.

  Lemma nth_grows {A} (l ext : list A) i x : nth_error l i = Some x -> nth_error (l ++ ext) i = Some x.
  Proof. intros H. rewrite nth_error_app1; [exact H|]. apply nth_error_Some. rewrite H. discriminate. Qed.

  (* the leader's log only grows *)
  Lemma log_grows s a : exists ext, s_log S C (Replication.step S C app init s a) = s_log S C s ++ ext.
  Proof.
    destruct a; simpl; try (exists []; rewrite app_nil_r; reflexivity).
    - eexists; reflexivity.
    - destruct (_ <? _)%nat; simpl; exists []; rewrite app_nil_r; reflexivity.
  Qed.

  (* a notification with a value at or below the copy's leader index keeps everything *)
  Lemma notify_keeps n v : K n -> (v <= lidx n)%nat ->
    K {| n_sys := n_sys S C n; n_q := qstep (que n) (ENotify tbl (N.of_nat v)); n_wait := wait n |}.
  Proof.
    intros [Ki Kit Kid Kan Ka Kl] Hv.
    unfold qstep. cbn [Queue.step].
    destruct (notify_loop _ _ _ _ _ _) as [[[o h'] cs'] ans'] eqn:E. cbn [fst snd].
    destruct (notify_loop_sub _ _ _ _ _ _ _ _ _ _ E) as [Sub Ans].
    constructor; cbn [n_sys n_q n_wait heaps answers]; [exact Ki| |exact Kid| | |exact Kl].
    - intros x Hx. apply in_hset in Hx. destruct Hx as [Hx|Hx]; [apply Kit, (in_hget _ tbl), Sub, Hx|apply Kit, Hx].
    - intros id a Hid. destruct (Ans id a Hid) as [H|(x & Hx & Hi & _)]; [eapply Kan, H|].
      destruct (Kit x (in_hget _ _ _ Hx)) as [c0 Hc0]. rewrite Hi in Hc0. apply (in_map fst) in Hc0. exact Hc0.
    - unfold acked, Forward.lidx. cbn [n_q answers n_sys]. intros id r c Hid Hw.
      destruct (Ans id AOk Hid) as [H|(x & Hx & Hi & Hr)]; [eapply Ka; [exact H|exact Hw]|].
      destruct (Kit x (in_hget _ _ _ Hx)) as [c0 Hc0]. rewrite Hi in Hc0.
      destruct (wait_unique _ id r c _ _ Kid Hw Hc0) as [-> _].
      specialize (Hr eq_refl). unfold Forward.lidx in Hv. lia.
  Qed.

  Definition fact_ok (n : node) (a : fact C) : Prop :=
    match a with FWrite _ id _ => ~ In id (map fst (wait n)) | FRepl _ x => guarded C x = true | _ => True end.

  Theorem K_step n a : K n -> fact_ok n a -> K (fstep n a).
  Proof.
    intros HK Hok. destruct a as [id c|x| |r|e]; cbn [Forward.fstep fact_ok] in *.
    - (* a write through this node *)
      destruct HK as [Ki Kit Kid Kan Ka Kl].
      assert (G : guarded C (ALeader C c) = true) by reflexivity.
      constructor; cbn [n_sys n_q n_wait].
      + apply step_inv; assumption.
      + unfold qstep. cbn [Queue.step fst snd heaps]. intros y Hy. apply in_hset in Hy. destruct Hy as [Hy|Hy].
        * apply (Permutation_in _ (push_perm _ _ _ _ _)) in Hy. destruct Hy as [<-|Hy].
          -- exists c. left. cbn [it_id it_rev]. rewrite Nat2N.id. reflexivity.
          -- destruct (Kit y (in_hget _ _ _ Hy)) as [c0 H0]. exists c0. right. exact H0.
        * destruct (Kit y Hy) as [c0 H0]. exists c0. right. exact H0.
      + cbn [map fst]. constructor; assumption.
      + unfold qstep. cbn [Queue.step fst snd answers]. intros i a Hi. right. eapply Kan, Hi.
      + unfold acked, qstep, Forward.lidx. cbn [n_q Queue.step fst snd answers n_sys]. intros i r0 c0 Hi [Hw|Hw].
        * inversion Hw; subst. exfalso. apply Hok. eapply Kan, Hi.
        * pose proof (Ka i r0 c0 Hi Hw) as H. unfold Forward.lidx in H. simpl. exact H.
      + intros i r0 c0 [Hw|Hw].
        * inversion Hw; subst. simpl. rewrite app_length. simpl. split; [lia|].
          replace (length (s_log S C (n_sys S C n)) + 1 - 1)%nat with (length (s_log S C (n_sys S C n))) by lia.
          rewrite nth_error_app2, Nat.sub_diag; [reflexivity|lia].
        * destruct (Kl i r0 c0 Hw) as [H1 H2]. split; [exact H1|]. simpl. apply nth_grows. exact H2.
    - (* leader / replication activity *)
      destruct HK as [Ki Kit Kid Kan Ka Kl].
      constructor; cbn [n_sys n_q n_wait]; auto.
      + apply step_inv; assumption.
      + unfold acked, Forward.lidx in *. cbn [n_q n_sys]. intros i r0 c0 Hi Hw.
        pose proof (Ka i r0 c0 Hi Hw). pose proof (step_monotone S C app init _ x Hok Ki). lia.
      + intros i r0 c0 Hw. destruct (Kl i r0 c0 Hw) as [H1 H2]. split; [exact H1|].
        destruct (log_grows (n_sys S C n) x) as [ext ->]. apply nth_grows. exact H2.
    - apply notify_keeps; [exact HK|lia].
    - apply notify_keeps; [exact HK|lia].
    - destruct e as [i t rv|i|t rv| |i|t]; try exact HK; destruct HK as [Ki Kit Kid Kan Ka Kl].
      + constructor; cbn [n_sys n_q n_wait]; auto.
      + unfold qstep. cbn [Queue.step].
        destruct (sweep_all _ _ _ _) as [[[o hs'] cs'] ans'] eqn:E. cbn [fst snd].
        destruct (sweep_all_sub _ _ _ _ _ _ _ _ E) as [Sub Ans].
        constructor; cbn [n_sys n_q n_wait heaps answers]; [exact Ki| |exact Kid| | |exact Kl].
        * intros y Hy. apply Kit, Sub, Hy.
        * intros id a Hid. destruct (Ans id a Hid) as [H|(_ & y & Hy & Hi)]; [eapply Kan, H|].
          destruct (Kit y Hy) as [c0 Hc0]. rewrite Hi in Hc0. apply (in_map fst) in Hc0. exact Hc0.
        * unfold acked. cbn [n_q answers]. intros id r0 c0 Hid Hw.
          destruct (Ans id AOk Hid) as [H|(Hd & _)]; [eapply Ka; [exact H|exact Hw]|discriminate].
      + constructor; cbn [n_sys n_q n_wait]; auto.
      + constructor; cbn [n_sys n_q n_wait]; auto.
  Qed.

  Theorem K_run acts : forall n, K n -> ok_run S C app init tbl n acts -> K (frun S C app init tbl n acts).
  Proof.
    induction acts as [|a r IH]; intros n HK Hok; cbn [frun fold_left]; [exact HK|].
    cbn [ok_run] in Hok. destruct Hok as [Ha Hr]. apply IH; [|exact Hr].
    apply K_step; [exact HK|]. destruct a; exact Ha.
  Qed.

  (* READ-YOUR-WRITES.  After ANY history of a follower node - writes through it, other writers at the leader, log
     compaction, replication polls in any chunking, snapshot recoveries, notifications (also late ones), cancellations,
     sweeps - if the call of waiter id (which asked for command c and was told revision r) has been answered without
     error, then the node's copy of the table is the result of applying a prefix of the leader's log of length >= r whose
     r-th entry is c: every following read on this node is a read of a state that contains the write. *)
  Theorem read_your_writes acts id r c :
    let n := frun S C app init tbl (node0 S C init) acts in
    ok_run S C app init tbl (node0 S C init) acts ->
    acked S C n id -> In (id, (r, c)) (wait n) ->
    f_store S (s_fol S C (n_sys S C n)) = fold_left app (firstn (lidx n) (s_log S C (n_sys S C n))) init /\
    (1 <= r <= lidx n)%nat /\ nth_error (firstn (lidx n) (s_log S C (n_sys S C n))) (r - 1) = Some c.
  Proof.
    intros n Hok Hack Hw. destruct (K_run acts _ K0 Hok) as [Ki Kit Kid Kan Ka Kl]. fold n in Ki, Ka, Kl.
    destruct Ki as [Hst Hle]. pose proof (Ka id r c Hack Hw) as Hr. destruct (Kl id r c Hw) as [H1 H2].
    split; [exact Hst|]. split; [lia|].
    rewrite <- (firstn_skipn (lidx n) (s_log S C (n_sys S C n))) in H2.
    rewrite nth_error_app1 in H2; [exact H2|]. rewrite firstn_length. unfold Forward.lidx in *. lia.
  Qed.
End Fwd.
