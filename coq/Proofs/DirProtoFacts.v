(* The current/current.updating protocol never exposes a state a reopen cannot recover from, at any primitive-step
   boundary, for any operation history, any survival oracle and any number of crashes. *)
From Verif Require Import Model.DirProto.

Definition points (l : list nat) (s : st) (o : option nat) : Prop :=
  match o with
  | None => ack s = 0
  | Some i => exists c, i_synced (inodes s i) = Some c /\ In c l /\ ack s <= dur (dbs s c) /\ i < ninodes s
  end.

Record Inv (s : st) : Prop := {
  I_v : points (v_dbs s) s (v_cur s);
  I_vd : forall i, v_cur s = Some i -> i_data (inodes s i) = i_synced (inodes s i);
  I_d : points (d_dbs s) s (d_cur s);
  I_db : forall x, dur (dbs s x) <= mem (dbs s x) /\ mem (dbs s x) <= top s;
  I_vu : forall j, v_upd s = Some j -> v_cur s <> Some j /\ d_cur s <> Some j;
  I_du : forall j, d_upd s = Some j -> d_cur s <> Some j;
  I_nv : forall d, In d (v_dbs s) -> d < next s;
  I_nd : forall d, In d (d_dbs s) -> d < next s
}.

Lemma Inv0 : Inv st0.
Proof. constructor; cbn; try tauto; try discriminate; intros; lia. Qed.

Lemma updf_same {A} (f : nat -> A) d v : updf f d v d = v.
Proof. unfold updf. now rewrite Nat.eqb_refl. Qed.
Lemma updf_other {A} (f : nat -> A) d v x : x <> d -> updf f d v x = f x.
Proof. unfold updf. intros H. destruct (Nat.eqb_spec x d); [contradiction|reflexivity]. Qed.

Lemma mem_nat_In d l : mem_nat d l = true <-> In d l.
Proof.
  unfold mem_nat. rewrite existsb_exists. split.
  - intros [x [Hx He]]. apply Nat.eqb_eq in He. now subst.
  - intros H. exists d. split; [assumption|apply Nat.eqb_refl].
Qed.
Lemma remove_nat_In x d l : In x (remove_nat d l) <-> In x l /\ x <> d.
Proof.
  unfold remove_nat. rewrite filter_In. split; intros [H1 H2]; split; try assumption.
  - intros ->. rewrite Nat.eqb_refl in H2. discriminate.
  - destruct (Nat.eqb_spec x d); [contradiction|reflexivity].
Qed.

Local Arguments mem_nat : simpl never.
Local Arguments remove_nat : simpl never.

(* ---- one primitive step ---- *)
Definition pre (p : prim) (s : st) : Prop :=
  match p with
  | PMkDb d => d < next s
  | PRename => exists j d, v_upd s = Some j /\ j < ninodes s /\ i_synced (inodes s j) = Some d /\
                           i_data (inodes s j) = Some d /\ In d (v_dbs s) /\ ack s <= dur (dbs s d)
  | PRemoveDb x => forall i c, v_cur s = Some i -> i_synced (inodes s i) = Some c -> x <> c
  | PDbLoad d _ => forall i c, v_cur s = Some i \/ d_cur s = Some i -> i_synced (inodes s i) = Some c -> c <> d
  | PAck n => v_cur s <> None /\ d_cur s <> None /\
              forall i c, v_cur s = Some i \/ d_cur s = Some i -> i_synced (inodes s i) = Some c -> n <= dur (dbs s c)
  | PFail => False
  | _ => True
  end.

Ltac pts H := let c := fresh "c" in let H1 := fresh "Hs" in let H2 := fresh "Hi" in let H3 := fresh "Ha" in
              let H4 := fresh "Hn" in destruct H as [c [H1 [H2 [H3 H4]]]].

Lemma step_inv s p : Inv s -> pre p s -> Inv (exec1 s p).
Proof.
  intros HI Hp. pose proof HI as [Iv Ivd Id Idb Ivu Idu Inv_ Ind]. destruct p; cbn [exec1 pre] in *.
  - (* PMkDb *)
    constructor; cbn; try assumption.
    + destruct (v_cur s) as [i|]; cbn in *; [|assumption]. pts Iv. exists c. repeat split; try assumption.
      destruct (mem_nat d (v_dbs s)); [assumption|now right].
    + intros x Hx. destruct (mem_nat d (v_dbs s)); [now apply Inv_|]. destruct Hx as [<-|Hx]; [assumption|now apply Inv_].
  - (* PSyncDir *)
    constructor; cbn; try assumption.
    + intros j Hj. destruct (Ivu j Hj) as [H1 _]. split; assumption.
    + intros j Hj. now destruct (Ivu j Hj).
  - (* PCreateUpd *)
    assert (Hne : forall l o i, points l s o -> o = Some i -> i <> ninodes s).
    { intros l o i H ->. cbn in H. pts H. lia. }
    constructor; cbn; try assumption.
    + destruct (v_cur s) as [i|] eqn:E; cbn in *; [|assumption]. pts Iv. exists c.
      rewrite updf_other by lia. repeat split; try assumption. lia.
    + intros i Hi. rewrite updf_other; [now apply Ivd|]. eapply Hne; [exact Iv|exact Hi].
    + destruct (d_cur s) as [i|] eqn:E; cbn in *; [|assumption]. pts Id. exists c.
      rewrite updf_other by lia. repeat split; try assumption. lia.
    + intros j Hj. injection Hj as <-. split; intros E.
      * eapply (Hne _ _ _ Iv E); reflexivity.
      * eapply (Hne _ _ _ Id E); reflexivity.
  - (* PWriteUpd *)
    destruct (v_upd s) as [j|] eqn:Ej; [|exact HI].
    destruct (Ivu j eq_refl) as [Hv Hd].
    constructor; cbn; try assumption.
    + destruct (v_cur s) as [i|] eqn:E; cbn in *; [|assumption]. pts Iv. exists c.
      rewrite updf_other by congruence. repeat split; assumption.
    + intros i Hi. rewrite updf_other by congruence. now apply Ivd.
    + destruct (d_cur s) as [i|] eqn:E; cbn in *; [|assumption]. pts Id. exists c.
      rewrite updf_other by congruence. repeat split; assumption.
    + intros j' Hj'. rewrite Ej in Hj'. injection Hj' as <-. split; assumption.
  - (* PSyncUpd *)
    destruct (v_upd s) as [j|] eqn:Ej; [|exact HI].
    destruct (Ivu j eq_refl) as [Hv Hd].
    constructor; cbn; try assumption.
    + destruct (v_cur s) as [i|] eqn:E; cbn in *; [|assumption]. pts Iv. exists c.
      rewrite updf_other by congruence. repeat split; assumption.
    + intros i Hi. rewrite updf_other by congruence. now apply Ivd.
    + destruct (d_cur s) as [i|] eqn:E; cbn in *; [|assumption]. pts Id. exists c.
      rewrite updf_other by congruence. repeat split; assumption.
    + intros j' Hj'. rewrite Ej in Hj'. injection Hj' as <-. split; assumption.
  - (* PRename *)
    destruct Hp as [j [d [Ej [Hlt [Hs [Hd [Hin Hack]]]]]]]. rewrite Ej.
    constructor; cbn; try assumption.
    + exists d. repeat split; assumption.
    + intros i Hi. injection Hi as <-. congruence.
    + discriminate.
  - (* PRemoveUpd *)
    constructor; cbn; try assumption. discriminate.
  - (* PRemoveDb *)
    constructor; cbn; try assumption.
    + destruct (v_cur s) as [i|] eqn:E; cbn in *; [|assumption]. pts Iv. exists c. repeat split; try assumption.
      apply remove_nat_In. split; [assumption|]. intros ->. now apply (Hp i d).
    + intros x Hx. apply remove_nat_In in Hx. now apply Inv_.
  - (* PDbApply *)
    constructor; cbn; try assumption.
    + destruct (v_cur s) as [i|]; cbn in *; [|assumption]. pts Iv. exists c. repeat split; try assumption.
      unfold updf. destruct (Nat.eqb_spec c d); [subst; cbn; assumption|assumption].
    + destruct (d_cur s) as [i|]; cbn in *; [|assumption]. pts Id. exists c. repeat split; try assumption.
      unfold updf. destruct (Nat.eqb_spec c d); [subst; cbn; assumption|assumption].
    + intros x. pose proof (Idb d). pose proof (Idb x). unfold updf. destruct (Nat.eqb_spec x d); cbn; [subst|]; lia.
  - (* PDbFlush *)
    constructor; cbn; try assumption.
    + destruct (v_cur s) as [i|]; cbn in *; [|assumption]. pts Iv. exists c. repeat split; try assumption.
      unfold updf. destruct (Nat.eqb_spec c d); [subst; cbn; destruct (Idb d); lia|assumption].
    + destruct (d_cur s) as [i|]; cbn in *; [|assumption]. pts Id. exists c. repeat split; try assumption.
      unfold updf. destruct (Nat.eqb_spec c d); [subst; cbn; destruct (Idb d); lia|assumption].
    + intros x. pose proof (Idb d). pose proof (Idb x). unfold updf. destruct (Nat.eqb_spec x d); cbn; [subst|]; lia.
  - (* PDbLoad *)
    constructor; cbn; try assumption.
    + destruct (v_cur s) as [i|] eqn:E; cbn in *; [|assumption]. pts Iv. exists c. repeat split; try assumption.
      rewrite updf_other; [assumption|]. eapply Hp; [left; reflexivity|eassumption].
    + destruct (d_cur s) as [i|] eqn:E; cbn in *; [|assumption]. pts Id. exists c. repeat split; try assumption.
      rewrite updf_other; [assumption|]. eapply Hp; [right; reflexivity|eassumption].
    + intros x. pose proof (Idb x). unfold updf. destruct (Nat.eqb_spec x d); cbn; [subst|]; lia.
  - (* PSetLive *)
    constructor; cbn; assumption.
  - (* PAck *)
    destruct Hp as [Hv [Hd Hle]].
    constructor; cbn; try assumption.
    + destruct (v_cur s) as [i|] eqn:E; cbn in *; [|congruence]. pts Iv. exists c. repeat split; try assumption.
      eapply Hle; [left; reflexivity|eassumption].
    + destruct (d_cur s) as [i|] eqn:E; cbn in *; [|congruence]. pts Id. exists c. repeat split; try assumption.
      eapply Hle; [right; reflexivity|eassumption].
  - contradiction.
Qed.

(* ---- sequences: the invariant at every prefix ---- *)
Definition Safe (ps : list prim) (s : st) : Prop := forall k, Inv (exec (firstn k ps) s).

Lemma exec_app a b s : exec (a ++ b) s = exec b (exec a s).
Proof. unfold exec. apply fold_left_app. Qed.
Lemma Safe_start ps s : Safe ps s -> Inv s.
Proof. intros H. exact (H 0). Qed.
Lemma Safe_end ps s : Safe ps s -> Inv (exec ps s).
Proof. intros H. specialize (H (length ps)). now rewrite firstn_all in H. Qed.
Lemma Safe_nil s : Inv s -> Safe [] s.
Proof. intros H k. now rewrite firstn_nil. Qed.
Lemma Safe_cons p ps s : Inv s -> Safe ps (exec1 s p) -> Safe (p :: ps) s.
Proof. intros H Hs [|k]; [exact H|exact (Hs k)]. Qed.
Lemma Safe_app a b s : Safe a s -> Safe b (exec a s) -> Safe (a ++ b) s.
Proof.
  intros Ha Hb k. rewrite firstn_app, exec_app.
  destruct (Nat.le_gt_cases k (length a)) as [Hk|Hk].
  - replace (k - length a) with 0 by lia. cbn. apply Ha.
  - rewrite (firstn_all2 a) by lia. apply Hb.
Qed.
Lemma Safe_step p ps s : Inv s -> pre p s -> Safe ps (exec1 s p) -> Safe (p :: ps) s.
Proof. intros. now apply Safe_cons. Qed.

(* fields a primitive step leaves alone *)
Definition same_ptrs (s s' : st) : Prop :=
  inodes s' = inodes s /\ ninodes s' = ninodes s /\ v_cur s' = v_cur s /\ d_cur s' = d_cur s /\ d_upd s' = d_upd s /\
  d_dbs s' = d_dbs s /\ dbs s' = dbs s /\ live s' = live s /\ next s' = next s /\ ack s' = ack s /\ top s' = top s /\
  failed s' = failed s.
Lemma same_ptrs_refl s : same_ptrs s s.
Proof. repeat split. Qed.
Lemma same_ptrs_trans a b c : same_ptrs a b -> same_ptrs b c -> same_ptrs a c.
Proof. unfold same_ptrs. intuition congruence. Qed.

Lemma removes_safe l s c :
  Inv s -> (forall i x, v_cur s = Some i -> i_synced (inodes s i) = Some x -> x = c) -> ~ In c l ->
  Safe (map PRemoveDb l) s /\ same_ptrs s (exec (map PRemoveDb l) s) /\
  v_upd (exec (map PRemoveDb l) s) = v_upd s /\
  (forall x, In x (v_dbs (exec (map PRemoveDb l) s)) <-> In x (v_dbs s) /\ ~ In x l).
Proof.
  revert s. induction l as [|a l IH]; intros s HI Hc Hn.
  - cbn. split; [now apply Safe_nil|]. split; [apply same_ptrs_refl|]. split; [reflexivity|]. intros x. tauto.
  - assert (Hpre : pre (PRemoveDb a) s).
    { cbn. intros i x Hi Hx ->. apply Hn. left. eapply Hc; eassumption. }
    assert (HI1 : Inv (exec1 s (PRemoveDb a))) by now apply step_inv.
    destruct (IH (exec1 s (PRemoveDb a)) HI1) as [S1 [P1 [U1 V1]]].
    + cbn. exact Hc.
    + intros H. apply Hn. now right.
    + cbn [map]. split; [now apply Safe_cons|]. change (exec (PRemoveDb a :: map PRemoveDb l) s) with (exec (map PRemoveDb l) (exec1 s (PRemoveDb a))).
      split; [|split].
      * eapply same_ptrs_trans; [|exact P1]. repeat split.
      * rewrite U1. reflexivity.
      * intros x. rewrite V1. cbn. rewrite remove_nat_In. split.
        -- intros [[H1 H2] H3]. split; [assumption|]. intros [->|H4]; [congruence|contradiction].
        -- intros [H1 H2]. split; [split; [assumption|]|]; intros H; apply H2; [left; congruence|now right].
Qed.

(* SaveCurrentDBDirName + ReplaceCurrentDBFile from any invariant state, for a directory that is present and whose
   durable content covers the acknowledged batches *)
Lemma publish_safe d s :
  Inv s -> In d (v_dbs s) -> ack s <= dur (dbs s d) ->
  Safe (publish d) s /\
  let s' := exec (publish d) s in
  v_cur s' = Some (ninodes s) /\ d_cur s' = Some (ninodes s) /\ v_upd s' = None /\
  i_synced (inodes s' (ninodes s)) = Some d /\ i_data (inodes s' (ninodes s)) = Some d /\
  v_dbs s' = v_dbs s /\ d_dbs s' = v_dbs s /\ dbs s' = dbs s /\ live s' = live s /\ next s' = next s /\
  ack s' = ack s /\ top s' = top s /\ failed s' = failed s.
Proof.
  intros HI Hin Hack.
  set (s1 := exec1 s PCreateUpd).
  assert (H1 : Inv s1) by (apply step_inv; [assumption|exact I]).
  set (s2 := exec1 s1 (PWriteUpd d)).
  assert (H2 : Inv s2) by (apply step_inv; [assumption|exact I]).
  set (s3 := exec1 s2 PSyncUpd).
  assert (H3 : Inv s3) by (apply step_inv; [assumption|exact I]).
  set (s4 := exec1 s3 PSyncDir).
  assert (H4 : Inv s4) by (apply step_inv; [assumption|exact I]).
  assert (E4 : v_upd s4 = Some (ninodes s)) by reflexivity.
  assert (F4 : i_synced (inodes s4 (ninodes s)) = Some d /\ i_data (inodes s4 (ninodes s)) = Some d).
  { unfold s4, s3, s2, s1. cbn. rewrite !updf_same. cbn. split; reflexivity. }
  set (s5 := exec1 s4 PRename).
  assert (H5 : Inv s5).
  { apply step_inv; [assumption|]. cbn [pre]. exists (ninodes s), d. destruct F4 as [F4 F4'].
    repeat split; try assumption. unfold s4, s3, s2, s1. cbn. lia. }
  set (s6 := exec1 s5 PSyncDir).
  assert (H6 : Inv s6) by (apply step_inv; [assumption|exact I]).
  split.
  - unfold publish. repeat (apply Safe_cons; [assumption|]). now apply Safe_nil.
  - change (exec (publish d) s) with s6. destruct F4 as [F4 F4'].
    assert (E5 : v_cur s5 = Some (ninodes s)) by (unfold s5; cbn [exec1]; rewrite E4; reflexivity).
    assert (E5' : inodes s5 = inodes s4) by (unfold s5; cbn [exec1]; rewrite E4; reflexivity).
    unfold s6. cbn [exec1 sync_dir v_cur d_cur v_upd inodes v_dbs d_dbs dbs live next ack top failed].
    rewrite E5, E5'. unfold s5. cbn [exec1]. rewrite E4. cbn.
    repeat split; try assumption.
Qed.

(* ---- between operations ---- *)
Record Good (s : st) : Prop := {
  G_inv : Inv s;
  G_same : v_cur s = d_cur s;
  G_nf : failed s = false;
  G_live : forall d, live s = Some d -> exists i, v_cur s = Some i /\ i_synced (inodes s i) = Some d;
  G_upd : live s <> None -> v_upd s = None
}.

Lemma Good0 : Good st0.
Proof. constructor; [exact Inv0|reflexivity|reflexivity|discriminate|reflexivity]. Qed.

Lemma bump_inv h s : Inv s -> Inv (bump h s).
Proof.
  intros [Iv Ivd Id Idb Ivu Idu Inv_ Ind].
  destruct h; try (constructor; assumption); constructor; cbn; try assumption; intros d Hd;
    (apply Inv_ in Hd || apply Ind in Hd); lia.
Qed.

Lemma bump_good h s : Good s -> Good (bump h s).
Proof. intros [HI H1 H2 H3 H4]. constructor; [now apply bump_inv|destruct h; assumption..]. Qed.

Lemma crash_good pick s : Inv s -> Good (crash pick s).
Proof.
  intros [Iv Ivd Id Idb Ivu Idu Inv_ Ind].
  assert (P : points (d_dbs s) (crash pick s) (d_cur s)).
  { destruct (d_cur s) as [i|]; cbn in *; [|assumption]. pts Id. exists c. repeat split; try assumption.
    destruct (Idb c). lia. }
  constructor; [constructor|..]; cbn; try assumption; try reflexivity; try discriminate.
  - intros x. destruct (Idb x). lia.
  - intros j Hj. split; now apply Idu.
  - intros H. now contradiction H.
Qed.

Lemma points_cur l s i c : points l s (Some i) -> i_synced (inodes s i) = Some c -> In c l /\ ack s <= dur (dbs s c).
Proof. cbn. intros H E. pts H. rewrite E in Hs. injection Hs as <-. split; assumption. Qed.

Ltac pcbn := cbn [inodes ninodes v_cur v_upd d_cur d_upd v_dbs d_dbs dbs live next ack top failed set_ino set_newino
                   set_vnames set_vdbs set_dbs set_live set_ack set_next sync_dir set_fail exec1 exec fold_left pre bump
                   mem dur i_data i_synced points].

Lemma hop_safe_good h s : Good s -> Safe (expand h s) (bump h s) /\ Good (exec (expand h s) (bump h s)).
Proof.
  intros HG. pose proof HG as [HI Hsame Hnf Hlive Hupd]. pose proof (bump_inv h s HI) as HB.
  destruct h; unfold expand; cbn [expand_gen].
  - (* HOpen *)
    destruct (v_cur s) as [i|] eqn:Ev.
    + (* an existing table *)
      pose proof (I_v s HI) as Pv. rewrite Ev in Pv. pose proof Pv as Pv'. cbn in Pv'. pts Pv'.
      unfold read_cur. rewrite Ev, (I_vd s HI i Ev), Hs.
      assert (Hm : mem_nat c (v_dbs s) = true) by now apply mem_nat_In. rewrite Hm.
     
      assert (I1 : Inv (exec1 (bump HOpen s) PRemoveUpd)) by (apply step_inv; [assumption|exact I]).
      destruct (removes_safe (remove_nat c (v_dbs s)) (exec1 (bump HOpen s) PRemoveUpd) c I1) as [S1 [P1 [U1 V1]]].
      { pcbn. intros i' x Hi' Hx. rewrite Ev in Hi'. injection Hi' as <-. congruence. }
      { rewrite remove_nat_In. tauto. }
      set (s2 := exec (map PRemoveDb (remove_nat c (v_dbs s))) (exec1 (bump HOpen s) PRemoveUpd)) in *.
      assert (S2 : Safe (cleanup (v_dbs s) c) (bump HOpen s)) by (unfold cleanup; apply Safe_cons; assumption).
      assert (E2 : exec (cleanup (v_dbs s) c) (bump HOpen s) = s2) by reflexivity.
      split.
      * apply Safe_app; [assumption|]. rewrite E2. apply Safe_cons; [now apply Safe_end in S1|].
        apply Safe_nil. apply step_inv; [now apply Safe_end in S1|exact I].
      * rewrite exec_app, E2. change (exec [PSetLive (Some c)] s2) with (exec1 s2 (PSetLive (Some c))).
        destruct P1 as [Q1 [Q2 [Q3 [Q4 [Q5 [Q6 [Q7 [Q8 [Q9 [Q10 [Q11 Q12]]]]]]]]]]].
        constructor.
        -- apply step_inv; [now apply Safe_end in S1|exact I].
        -- pcbn. rewrite Q3, Q4. pcbn. congruence.
        -- pcbn. rewrite Q12. pcbn. exact Hnf.
        -- pcbn. intros d Hd. injection Hd as <-. exists i. rewrite Q3, Q1. pcbn. split; assumption.
        -- pcbn. intros _. rewrite U1. reflexivity.
    + (* first open *)
      set (d := next s).
      assert (Hack0 : ack s = 0) by (pose proof (I_v s HI) as Pv; rewrite Ev in Pv; exact Pv).
      assert (I1 : Inv (exec1 (bump HOpen s) (PMkDb d))) by (apply step_inv; [assumption|pcbn; lia]).
      assert (I2 : Inv (exec1 (exec1 (bump HOpen s) (PMkDb d)) PSyncDir)) by (apply step_inv; [assumption|exact I]).
      set (s2 := exec1 (exec1 (bump HOpen s) (PMkDb d)) PSyncDir) in *.
      assert (Hin2 : In d (v_dbs s2)).
      { unfold s2. pcbn. destruct (mem_nat d (v_dbs s)) eqn:Em; [now apply mem_nat_In|now left]. }
      destruct (publish_safe d s2 I2 Hin2) as [S3 F3].
      { unfold s2. pcbn. rewrite Hack0. lia. }
      cbn zeta in F3. set (s3 := exec (publish d) s2) in *.
      destruct F3 as [F1 [F2 [F3 [F4 [F5 [F6 [F7 [F8 [F9 [F10 [F11 [F12 F13]]]]]]]]]]]].
      assert (I3 : Inv s3) by now apply Safe_end in S3.
      assert (I5 : Inv (exec1 s3 (PSetLive (Some d)))) by (apply step_inv; [assumption|exact I]).
      assert (Ex : exec ([PMkDb d; PSyncDir] ++ publish d ++ [] ++ [PSetLive (Some d)]) (bump HOpen s) =
                   exec1 s3 (PSetLive (Some d))).
      { rewrite exec_app. change (exec [PMkDb d; PSyncDir] (bump HOpen s)) with s2. rewrite exec_app. reflexivity. }
      split.
      * apply Safe_app; [repeat (apply Safe_cons; [assumption|]); now apply Safe_nil|].
        change (exec [PMkDb d; PSyncDir] (bump HOpen s)) with s2. apply Safe_app; [assumption|].
        fold s3. repeat (apply Safe_cons; [assumption|]). now apply Safe_nil.
      * rewrite Ex. clear Ex S3. clearbody s3. constructor; [assumption|..]; pcbn.
        -- congruence.
        -- rewrite F13. unfold s2. pcbn. exact Hnf.
        -- intros d' Hd'. injection Hd' as <-. exists (ninodes s2). split; assumption.
        -- intros _. assumption.
  - (* HUpdate *)
    destruct (live s) as [d|] eqn:El.
    + assert (I1 : Inv (exec1 s (PDbApply d))) by (apply step_inv; [assumption|exact I]).
      split; [apply Safe_cons; [assumption|now apply Safe_nil]|].
      pcbn. constructor; [assumption|pcbn; assumption..| |]; pcbn; [rewrite El; exact Hlive|intros _; apply Hupd; congruence].
    + split; [now apply Safe_nil|exact HG].
  - (* HSync *)
    destruct (live s) as [d|] eqn:El.
    + destruct (Hlive d eq_refl) as [i [Ei Es]].
      assert (I1 : Inv (exec1 s (PDbFlush d))) by (apply step_inv; [assumption|exact I]).
      assert (I2 : Inv (exec1 (exec1 s (PDbFlush d)) (PAck (mem (dbs s d))))).
      { apply step_inv; [assumption|]. pcbn. rewrite <- Hsame, Ei. repeat split; try discriminate.
        intros i' c [H|H] Hc; injection H as <-; rewrite Es in Hc; injection Hc as <-; rewrite updf_same; pcbn; lia. }
      split; [repeat (apply Safe_cons; [assumption|]); now apply Safe_nil|].
      pcbn. constructor; [assumption|pcbn; assumption..| |]; pcbn; [rewrite El; exact Hlive|intros _; apply Hupd; congruence].
    + split; [now apply Safe_nil|exact HG].
  - (* HClose *)
    destruct (live s) as [d|] eqn:El.
    + destruct (Hlive d eq_refl) as [i [Ei Es]].
      assert (I1 : Inv (exec1 s (PDbFlush d))) by (apply step_inv; [assumption|exact I]).
      assert (I2 : Inv (exec1 (exec1 s (PDbFlush d)) (PSetLive None))) by (apply step_inv; [assumption|exact I]).
      assert (I3 : Inv (exec1 (exec1 (exec1 s (PDbFlush d)) (PSetLive None)) (PAck (mem (dbs s d))))).
      { apply step_inv; [assumption|]. pcbn. rewrite <- Hsame, Ei. repeat split; try discriminate.
        intros i' c [H|H] Hc; injection H as <-; rewrite Es in Hc; injection Hc as <-; rewrite updf_same; pcbn; lia. }
      split; [repeat (apply Safe_cons; [assumption|]); now apply Safe_nil|].
      pcbn. constructor; [assumption|pcbn; assumption..| |]; pcbn; [discriminate|intros H; now contradiction H].
    + split; [now apply Safe_nil|exact HG].
  - (* HRecover *)
    destruct (live s) as [old|] eqn:El; [|split; [now apply Safe_nil|exact (bump_good _ _ HG)]].
    destruct (n <? mem (dbs s old)) eqn:En; [split; [now apply Safe_nil|exact (bump_good _ _ HG)]|].
    apply Nat.ltb_ge in En.
    destruct (Hlive old eq_refl) as [i [Ei Es]].
    pose proof (I_v s HI) as Pv. rewrite Ei in Pv. destruct (points_cur _ _ _ _ Pv Es) as [Hoin Hoack].
    assert (Holt : old < next s) by now apply (I_nv s HI).
    set (d := next s).
    assert (Hfresh : ~ In d (v_dbs s)) by (intros H; apply (I_nv s HI) in H; unfold d in H; lia).
    assert (I1 : Inv (exec1 (bump (HRecover n) s) (PMkDb d))) by (apply step_inv; [assumption|pcbn; lia]).
    set (s1 := exec1 (bump (HRecover n) s) (PMkDb d)) in *.
    assert (Ev1 : v_dbs s1 = d :: v_dbs s).
    { unfold s1. pcbn. destruct (mem_nat d (v_dbs s)) eqn:Em; [apply mem_nat_In in Em; contradiction|reflexivity]. }
    assert (I2 : Inv (exec1 s1 (PDbLoad d n))).
    { apply step_inv; [assumption|]. unfold s1. pcbn. intros i' c H Hc. rewrite <- Hsame, Ei in H.
      assert (i' = i) by (destruct H as [H|H]; congruence). subst i'. rewrite Es in Hc. injection Hc as <-. unfold d. lia. }
    set (s2 := exec1 s1 (PDbLoad d n)) in *.
    assert (Hold_le : dur (dbs s old) <= mem (dbs s old)) by apply (I_db s HI).
    destruct (publish_safe d s2 I2) as [S3 F3].
    { change (In d (v_dbs s1)). rewrite Ev1. now left. }
    { unfold s2, s1. pcbn. rewrite updf_same. pcbn. lia. }
    cbn zeta in F3. set (s3 := exec (publish d) s2) in *.
    destruct F3 as [F1 [F2 [F3 [F4 [F5 [F6 [F7 [F8 [F9 [F10 [F11 [F12 F13]]]]]]]]]]]].
    assert (I3 : Inv s3) by now apply Safe_end in S3.
    assert (I4 : Inv (exec1 s3 (PSetLive (Some d)))) by (apply step_inv; [assumption|exact I]).
    set (s4 := exec1 s3 (PSetLive (Some d))) in *.
    assert (I5 : Inv (exec1 s4 PRemoveUpd)) by (apply step_inv; [assumption|exact I]).
    destruct (removes_safe (remove_nat d (d :: v_dbs s)) (exec1 s4 PRemoveUpd) d I5) as [S6 [P6 [U6 V6]]].
    { unfold s4. pcbn. rewrite F1. intros i' x Hi' Hx. injection Hi' as <-.
      rewrite (F4 : i_synced (inodes s3 (ninodes s)) = Some d) in Hx. congruence. }
    { rewrite remove_nat_In. tauto. }
    set (s6 := exec (map PRemoveDb (remove_nat d (d :: v_dbs s))) (exec1 s4 PRemoveUpd)) in *.
    assert (I6 : Inv s6) by now apply Safe_end in S6.
    destruct P6 as [Q1 [Q2 [Q3 [Q4 [Q5 [Q6 [Q7 [Q8 [Q9 [Q10 [Q11 Q12]]]]]]]]]]].
    assert (I7 : Inv (exec1 s6 (PAck n))).
    { apply step_inv; [assumption|]. pcbn. rewrite Q3, Q4, Q1, Q7. unfold s4. pcbn. rewrite F1, F2.
      repeat split; try discriminate.
      intros i' c H Hc. assert (i' = ninodes s2) by (destruct H as [H|H]; congruence). subst i'.
      rewrite F4 in Hc. injection Hc as <-. rewrite F8. unfold s2. pcbn. rewrite updf_same. pcbn. lia. }
    assert (Ex : exec ([PMkDb d; PDbLoad d n] ++ publish d ++ [PSetLive (Some d)] ++ cleanup (d :: v_dbs s) d ++ [PAck n]) (bump (HRecover n) s) =
                 exec1 s6 (PAck n)).
    { rewrite exec_app. change (exec [PMkDb d; PDbLoad d n] (bump (HRecover n) s)) with s2. rewrite exec_app. fold s3.
      rewrite exec_app. change (exec [PSetLive (Some d)] s3) with s4. rewrite exec_app. reflexivity. }
    split.
    + apply Safe_app; [repeat (apply Safe_cons; [assumption|]); now apply Safe_nil|].
      change (exec [PMkDb d; PDbLoad d n] (bump (HRecover n) s)) with s2. apply Safe_app; [assumption|]. fold s3.
      apply Safe_app; [apply Safe_cons; [assumption|now apply Safe_nil]|].
      change (exec [PSetLive (Some d)] s3) with s4.
      apply Safe_app; [unfold cleanup; apply Safe_cons; assumption|].
      change (exec (cleanup (d :: v_dbs s) d) s4) with s6.
      apply Safe_cons; [assumption|now apply Safe_nil].
    + rewrite Ex. clear Ex S3 S6 V6. clearbody s6. clearbody s3. constructor; [assumption|..]; pcbn.
      * rewrite Q3, Q4. unfold s4. pcbn. congruence.
      * rewrite Q12. unfold s4. pcbn. rewrite F13. unfold s2, s1. pcbn. exact Hnf.
      * rewrite Q8. unfold s4. pcbn. intros d' Hd'. injection Hd' as <-. exists (ninodes s2). rewrite Q3, Q1. pcbn. split; assumption.
      * intros _. rewrite U6. reflexivity.
  - (* HRecoverStop *)
    destruct (live s) as [old|] eqn:El; [|split; [now apply Safe_nil|exact (bump_good _ _ HG)]].
    destruct (Hlive old eq_refl) as [i [Ei Es]].
    set (d := next s).
    assert (I1 : Inv (exec1 (bump (HRecoverStop clean) s) (PMkDb d))) by (apply step_inv; [assumption|pcbn; unfold d; lia]).
    set (s1 := exec1 (bump (HRecoverStop clean) s) (PMkDb d)) in *.
    assert (G1 : Good s1).
    { constructor; [assumption|unfold s1; pcbn..]; try assumption.
      - rewrite El. exact Hlive.
      - intros _. apply Hupd. congruence. }
    destruct clean; [|split; [apply Safe_cons; [assumption|now apply Safe_nil]|exact G1]].
    assert (I2 : Inv (exec1 s1 PRemoveUpd)) by (apply step_inv; [assumption|exact I]).
    destruct (removes_safe (remove_nat old (d :: v_dbs s)) (exec1 s1 PRemoveUpd) old I2) as [S3 [P3 [U3 V3]]].
    { unfold s1. pcbn. intros i' x Hi' Hx. rewrite Ei in Hi'. injection Hi' as <-. congruence. }
    { rewrite remove_nat_In. tauto. }
    set (s3 := exec (map PRemoveDb (remove_nat old (d :: v_dbs s))) (exec1 s1 PRemoveUpd)) in *.
    split.
    + apply Safe_cons; [assumption|]. fold s1. unfold cleanup. apply Safe_cons; assumption.
    + change (exec (PMkDb d :: cleanup (d :: v_dbs s) old) (bump (HRecoverStop true) s)) with s3.
      destruct P3 as [Q1 [Q2 [Q3 [Q4 [Q5 [Q6 [Q7 [Q8 [Q9 [Q10 [Q11 Q12]]]]]]]]]]].
      constructor; [now apply Safe_end in S3|..].
      * rewrite Q3, Q4. unfold s1. pcbn. exact Hsame.
      * rewrite Q12. unfold s1. pcbn. exact Hnf.
      * rewrite Q8, Q3, Q1. unfold s1. pcbn. rewrite El. exact Hlive.
      * intros _. rewrite U3. reflexivity.
Qed.

Lemma run_inv hs : forall k s, Good s -> Inv (run hs k s).
Proof.
  induction hs as [|h hs IH]; intros k s HG; [apply (G_inv s HG)|].
  unfold run in *. cbn [run_gen]. destruct (hop_safe_good h s HG) as [HS HG'].
  fold (expand h s). destruct (k <? length (expand h s)); [apply HS|apply IH; exact HG'].
Qed.

Lemma eras_good_from es : forall s, Good s -> Good (fold_left (run_era_gen true) es s).
Proof.
  induction es as [|e es IH]; intros s HG; [exact HG|]. cbn [fold_left]. apply IH.
  unfold run_era_gen. apply crash_good. now apply run_inv.
Qed.
Lemma eras_good es : Good (run_eras es).
Proof. apply eras_good_from. exact Good0. Qed.

(* a reopen of a good state succeeds, reports at least the acknowledged batches and nothing that was never applied *)
Lemma good_reopen s : Good s -> exists b, reopen s = Some b /\ ack s <= b /\ b <= top (exec (expand HOpen s) (bump HOpen s)).
Proof.
  intros HG. destruct (hop_safe_good HOpen s HG) as [_ HG']. pose proof HG as [HI Hsame Hnf Hlive Hupd].
  unfold reopen, reopen_gen. fold (expand HOpen s).
  set (s' := exec (expand HOpen s) (bump HOpen s)) in *.
  rewrite (G_nf s' HG').
  assert (Hl : exists d, live s' = Some d /\ ack s' = ack s).
  { unfold s', expand. cbn [expand_gen]. destruct (v_cur s) as [i|] eqn:Ev.
    - pose proof (I_v s HI) as Pv. rewrite Ev in Pv. cbn in Pv. pts Pv.
      unfold read_cur. rewrite Ev, (I_vd s HI i Ev), Hs.
      assert (Hm : mem_nat c (v_dbs s) = true) by now apply mem_nat_In. rewrite Hm.
      rewrite exec_app. cbn [exec fold_left exec1 live set_live ack].
      exists c. split; [reflexivity|].
      assert (I1 : Inv (exec1 (bump HOpen s) PRemoveUpd)) by (apply step_inv; [now apply bump_inv|exact I]).
      destruct (removes_safe (remove_nat c (v_dbs s)) (exec1 (bump HOpen s) PRemoveUpd) c I1) as [_ [P1 _]].
      { cbn. intros i' x Hi' Hx. rewrite Ev in Hi'. injection Hi' as <-. congruence. }
      { rewrite remove_nat_In. tauto. }
      unfold cleanup. change (exec (PRemoveUpd :: map PRemoveDb (remove_nat c (v_dbs s))) (bump HOpen s))
        with (exec (map PRemoveDb (remove_nat c (v_dbs s))) (exec1 (bump HOpen s) PRemoveUpd)).
      destruct P1 as [_ [_ [_ [_ [_ [_ [_ [_ [_ [Q10 _]]]]]]]]]]. rewrite Q10. reflexivity.
    - exists (next s). rewrite !exec_app. cbn. split; reflexivity. }
  destruct Hl as [d [Hl Ha]]. rewrite Hl. exists (mem (dbs s' d)). split; [reflexivity|].
  destruct (G_live s' HG' d Hl) as [i [Ei Es]]. pose proof (I_v s' (G_inv s' HG')) as Pv. rewrite Ei in Pv.
  destruct (points_cur _ _ _ _ Pv Es) as [_ Hack]. destruct (I_db s' (G_inv s' HG') d). lia.
Qed.

Theorem crash_recovery es :
  exists b, reopen (run_eras es) = Some b /\ ack (run_eras es) <= b /\
            b <= top (exec (expand HOpen (run_eras es)) (bump HOpen (run_eras es))).
Proof. apply good_reopen, eras_good. Qed.

(* after the reopen the table is again in a good state: everything above applies to the next era as well, and
   re-applying the batches after the reported one goes through the ordinary update path *)
Theorem reopen_good es : Good (exec (expand HOpen (run_eras es)) (bump HOpen (run_eras es))).
Proof. apply hop_safe_good, eras_good. Qed.

Fixpoint updates (k : nat) (s : st) : st :=
  match k with O => s | S k' => updates k' (exec (expand HUpdate s) (bump HUpdate s)) end.
Lemma updates_reach k : forall s d, live s = Some d ->
  live (updates k s) = Some d /\ mem (dbs (updates k s) d) = mem (dbs s d) + k.
Proof.
  induction k as [|k IH]; intros s d Hl; [cbn; split; [assumption|lia]|].
  cbn [updates]. unfold expand. cbn [expand_gen]. rewrite Hl.
  destruct (IH (exec [PDbApply d] (bump HUpdate s)) d) as [H1 H2]; [cbn; assumption|].
  split; [assumption|]. rewrite H2. cbn. rewrite updf_same. cbn. lia.
Qed.

(* ---- installs: given up before the switch, or cut by a crash ---- *)

(* an install that stops before the switch leaves the live DB, every DB's content and the acknowledged count alone *)
Lemma stop_unchanged clean s old : Good s -> live s = Some old ->
  let s' := exec (expand (HRecoverStop clean) s) (bump (HRecoverStop clean) s) in
  live s' = Some old /\ dbs s' = dbs s /\ ack s' = ack s /\ v_cur s' = v_cur s /\ d_cur s' = d_cur s /\ inodes s' = inodes s.
Proof.
  intros HG El. pose proof HG as [HI Hsame Hnf Hlive Hupd]. destruct (Hlive old El) as [i [Ei Es]].
  unfold expand. cbn [expand_gen]. rewrite El. cbn zeta.
  destruct clean; [|cbn; repeat split; assumption].
  set (d := next s). set (s1 := exec1 (bump (HRecoverStop true) s) (PMkDb d)).
  assert (I1 : Inv s1) by (apply step_inv; [now apply bump_inv|cbn; unfold d; lia]).
  assert (I2 : Inv (exec1 s1 PRemoveUpd)) by (apply step_inv; [assumption|exact I]).
  destruct (removes_safe (remove_nat old (d :: v_dbs s)) (exec1 s1 PRemoveUpd) old I2) as [_ [P3 _]].
  { unfold s1. pcbn. intros i' x Hi' Hx. rewrite Ei in Hi'. injection Hi' as <-. congruence. }
  { rewrite remove_nat_In. tauto. }
  change (exec (PMkDb d :: cleanup (d :: v_dbs s) old) (bump (HRecoverStop true) s))
    with (exec (map PRemoveDb (remove_nat old (d :: v_dbs s))) (exec1 s1 PRemoveUpd)).
  destruct P3 as [Q1 [Q2 [Q3 [Q4 [Q5 [Q6 [Q7 [Q8 [Q9 [Q10 [Q11 Q12]]]]]]]]]]].
  rewrite Q8, Q7, Q10, Q3, Q4, Q1. unfold s1. pcbn. repeat split; assumption.
Qed.

(* what a reopen of a good state with an existing "current" reports *)
Lemma reopen_existing s i c : Good s -> v_cur s = Some i -> i_synced (inodes s i) = Some c ->
  reopen s = Some (mem (dbs s c)).
Proof.
  intros HG Ev Hs. pose proof HG as [HI Hsame Hnf Hlive Hupd].
  pose proof (I_v s HI) as Pv. rewrite Ev in Pv. destruct (points_cur _ _ _ _ Pv Hs) as [Hin _].
  unfold reopen, reopen_gen. cbn [expand_gen]. rewrite Ev. unfold read_cur. rewrite Ev, (I_vd s HI i Ev), Hs.
  assert (Hm : mem_nat c (v_dbs s) = true) by now apply mem_nat_In. rewrite Hm.
  assert (I1 : Inv (exec1 (bump HOpen s) PRemoveUpd)) by (apply step_inv; [now apply bump_inv|exact I]).
  destruct (removes_safe (remove_nat c (v_dbs s)) (exec1 (bump HOpen s) PRemoveUpd) c I1) as [_ [P1 _]].
  { cbn. intros i' x Hi' Hx. rewrite Ev in Hi'. injection Hi' as <-. congruence. }
  { rewrite remove_nat_In. tauto. }
  rewrite exec_app. unfold cleanup.
  change (exec (PRemoveUpd :: map PRemoveDb (remove_nat c (v_dbs s))) (bump HOpen s))
    with (exec (map PRemoveDb (remove_nat c (v_dbs s))) (exec1 (bump HOpen s) PRemoveUpd)).
  destruct P1 as [Q1 [Q2 [Q3 [Q4 [Q5 [Q6 [Q7 [Q8 [Q9 [Q10 [Q11 Q12]]]]]]]]]]].
  set (s2 := exec (map PRemoveDb (remove_nat c (v_dbs s))) (exec1 (bump HOpen s) PRemoveUpd)) in *.
  change (exec [PSetLive (Some c)] s2) with (set_live s2 (Some c)).
  cbn [failed set_live live dbs]. rewrite Q12, Q7. cbn. rewrite Hnf. reflexivity.
Qed.

Section Install.
  Variables (old d n : nat) (B : dbst).

  Definition okp (p : prim) : Prop :=
    match p with
    | PWriteUpd x => x = d
    | PDbApply _ | PDbFlush _ | PDbLoad _ _ | PFail => False
    | _ => True
    end.

  Record Mid (s : st) : Prop := {
    M_tgt : forall i c, v_cur s = Some i \/ d_cur s = Some i -> i_synced (inodes s i) = Some c -> c = old \/ c = d;
    M_old : dbs s old = B;
    M_new : dbs s d = {| mem := n; dur := n |};
    M_upd : forall j c, v_upd s = Some j -> i_synced (inodes s j) = Some c \/ i_data (inodes s j) = Some c -> c = d;
    M_some : v_cur s <> None /\ d_cur s <> None
  }.

  Lemma mid_step s p : Inv s -> Mid s -> okp p -> Mid (exec1 s p).
  Proof.
    intros HI HM Hok. pose proof HM as [Mt Mo Mn Mu [Mv Md]].
    assert (Hlt : forall i, v_cur s = Some i \/ d_cur s = Some i -> i < ninodes s).
    { intros i [E|E]; [pose proof (I_v s HI) as P|pose proof (I_d s HI) as P]; rewrite E in P; cbn in P; pts P; assumption. }
    destruct p; cbn [okp] in Hok; try contradiction; cbn [exec1].
    - constructor; cbn; try assumption. now split.
    - (* PSyncDir *) constructor; cbn; try assumption.
      + intros i c [E|E]; apply Mt; now left.
      + now split.
    - (* PCreateUpd *) constructor; cbn; try assumption.
      + intros i c E. rewrite updf_other by (apply Hlt in E; lia). now apply Mt.
      + intros j c E. injection E as <-. rewrite updf_same. cbn. intros [H|H]; discriminate.
      + now split.
    - (* PWriteUpd *) subst d0. destruct (v_upd s) as [j|] eqn:Ej; [|exact HM].
      destruct (I_vu s HI j Ej) as [Hv Hd].
      constructor; cbn; try assumption.
      + intros i c E. rewrite updf_other by (destruct E; congruence). now apply Mt.
      + intros j' c E. rewrite Ej in E. injection E as <-. rewrite updf_same. cbn. intros [H|H]; [|congruence].
        apply (Mu j c eq_refl). now left.
      + now split.
    - (* PSyncUpd *) destruct (v_upd s) as [j|] eqn:Ej; [|exact HM].
      destruct (I_vu s HI j Ej) as [Hv Hd].
      constructor; cbn; try assumption.
      + intros i c E. rewrite updf_other by (destruct E; congruence). now apply Mt.
      + intros j' c E. rewrite Ej in E. injection E as <-. rewrite updf_same. cbn. intros [H|H]; apply (Mu j c eq_refl); now right.
      + now split.
    - (* PRename *) destruct (v_upd s) as [j|] eqn:Ej; [|exact HM].
      constructor; cbn; try assumption.
      + intros i c [E|E] Hc; [injection E as <-; right; apply (Mu j c eq_refl); now left|apply (Mt i c); [now right|assumption]].
      + discriminate.
      + split; [discriminate|assumption].
    - (* PRemoveUpd *) constructor; cbn; try assumption; [discriminate|now split].
    - constructor; cbn; try assumption. now split.
    - constructor; cbn; try assumption. now split.
    - constructor; cbn; try assumption. now split.
  Qed.

  Lemma mid_prefix ps : forall s, Safe ps s -> Forall okp ps -> Mid s -> forall k, Mid (exec (firstn k ps) s).
  Proof.
    induction ps as [|p ps IH]; intros s HS Hok HM k; [now rewrite firstn_nil|].
    destruct k as [|k]; [exact HM|]. cbn [firstn]. change (exec (p :: firstn k ps) s) with (exec (firstn k ps) (exec1 s p)).
    inversion Hok as [|? ? Hp Hps]; subst. apply IH; [intros k'; exact (HS (S k'))|assumption|].
    apply mid_step; [exact (HS 0)|assumption|assumption].
  Qed.
End Install.

Lemma okp_cleanup d l x : Forall (okp d) (cleanup l x).
Proof. unfold cleanup. constructor; [exact I|]. induction (remove_nat x l); constructor; [exact I|assumption]. Qed.

(* an install cut by a crash at any primitive step is all or nothing: the reopened table shows the snapshot (n
   batches) or what the old DB held (between its durable and its volatile content) *)
Theorem recover_old_or_new n s old pick k : Good s -> live s = Some old -> mem (dbs s old) <= n ->
  exists b, reopen (crash pick (exec (firstn k (expand (HRecover n) s)) (bump (HRecover n) s))) = Some b /\
            (b = n \/ dur (dbs s old) <= b <= mem (dbs s old)).
Proof.
  intros HG El Hn. pose proof HG as [HI Hsame Hnf Hlive Hupd]. destruct (Hlive old El) as [i [Ei Es]].
  destruct (hop_safe_good (HRecover n) s HG) as [HS _].
  set (sk := exec (firstn k (expand (HRecover n) s)) (bump (HRecover n) s)).
  assert (Ik : Inv sk) by apply HS.
  pose proof (crash_good pick sk Ik) as Gc.
  set (d := next s).
  assert (Hod : old <> d).
  { pose proof (I_v s HI) as Pv. rewrite Ei in Pv. destruct (points_cur _ _ _ _ Pv Es) as [Hin _].
    apply (I_nv s HI) in Hin. unfold d. lia. }
  (* where the durable "current" points *)
  assert (T : exists i' c, d_cur sk = Some i' /\ i_synced (inodes sk i') = Some c /\
                           ((c = old /\ dbs sk old = dbs s old) \/ (c = d /\ dbs sk d = {| mem := n; dur := n |}))).
  { set (rest := publish d ++ [PSetLive (Some d)] ++ cleanup (d :: v_dbs s) d ++ [PAck n]).
    set (s2 := exec1 (exec1 (bump (HRecover n) s) (PMkDb d)) (PDbLoad d n)).
    assert (Ex : expand (HRecover n) s = PMkDb d :: PDbLoad d n :: rest).
    { unfold expand. cbn [expand_gen]. rewrite El.
      replace (n <? mem (dbs s old)) with false by (symmetry; apply Nat.ltb_ge; lia). reflexivity. }
    assert (T2 : forall k', exists i' c, d_cur (exec (firstn k' rest) s2) = Some i' /\
                   i_synced (inodes (exec (firstn k' rest) s2) i') = Some c /\
                   ((c = old /\ dbs (exec (firstn k' rest) s2) old = dbs s old) \/
                    (c = d /\ dbs (exec (firstn k' rest) s2) d = {| mem := n; dur := n |}))).
    { intros k'.
      assert (M2 : Mid old d n (dbs s old) s2).
      { constructor; unfold s2; pcbn.
        - intros i' c E Hc. rewrite <- Hsame, Ei in E. assert (i' = i) by (destruct E; congruence). subst i'.
          left. congruence.
        - now rewrite updf_other.
        - now rewrite updf_same.
        - intros j c E. rewrite Hupd in E by congruence. discriminate.
        - rewrite <- Hsame, Ei. split; discriminate. }
      assert (S2 : Safe rest s2).
      { intros k''. specialize (HS (S (S k''))). rewrite Ex in HS. exact HS. }
      assert (Ok : Forall (okp d) rest).
      { unfold rest, publish. repeat (apply Forall_app; split).
        - repeat constructor.
        - repeat constructor.
        - apply okp_cleanup.
        - repeat constructor. }
      pose proof (mid_prefix old d n (dbs s old) rest s2 S2 Ok M2 k') as [Mt Mo Mn Mu [Mv Md]].
      destruct (d_cur (exec (firstn k' rest) s2)) as [i'|] eqn:Ed; [|congruence].
      pose proof (I_d _ (S2 k')) as Pd. rewrite Ed in Pd. cbn [points] in Pd. pts Pd.
      exists i', c. split; [reflexivity|]. split; [assumption|].
      destruct (Mt i' c (or_intror eq_refl) Hs) as [->| ->]; [left|right]; split; try reflexivity; assumption. }
    unfold sk. rewrite Ex. destruct k as [|[|k]].
    - exists i, old. cbn. rewrite <- Hsame. repeat split; try assumption. left. now split.
    - exists i, old. cbn. rewrite <- Hsame. repeat split; try assumption. left. now split.
    - exact (T2 k). }
  destruct T as [i' [c [Ed [Hc Hcase]]]].
  assert (R : reopen (crash pick sk) = Some (mem (dbs (crash pick sk) c))).
  { apply (reopen_existing (crash pick sk) i' c Gc); cbn; [exact Ed|now rewrite Hc]. }
  rewrite R. eexists. split; [reflexivity|]. cbn.
  destruct Hcase as [[-> Hdb]|[-> Hdb]]; rewrite Hdb.
  - right. destruct (I_db s HI old). lia.
  - left. cbn. lia.
Qed.
