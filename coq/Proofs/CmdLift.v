(* The command handlers are parametric in the store: two stores related by R whose five primitives agree give the same
   responses and stay related.  Used to show that the key encoding and the bookkeeping keys are invisible. *)
From Verif Require Import Model.Bytes Model.Cmd.

Section CmdInd.
  Variable P : command -> Prop.
  Hypothesis HPut : forall k v prev, P (CPut k v prev).
  Hypothesis HDelete : forall k e prev count, P (CDelete k e prev count).
  Hypothesis HDummy : P CDummy.
  Hypothesis HPutBatch : forall kvs, P (CPutBatch kvs).
  Hypothesis HDeleteBatch : forall ks, P (CDeleteBatch ks).
  Hypothesis HTxn : forall cs su fa, P (CTxn cs su fa).
  Hypothesis HSeq : forall cs, Forall P cs -> P (CSequence cs).
  Fixpoint command_ind' (c : command) : P c :=
    match c with
    | CPut k v prev => HPut k v prev
    | CDelete k e prev count => HDelete k e prev count
    | CDummy => HDummy
    | CPutBatch kvs => HPutBatch kvs
    | CDeleteBatch ks => HDeleteBatch ks
    | CTxn cs su fa => HTxn cs su fa
    | CSequence cs =>
        HSeq cs ((fix go (l : list command) : Forall P l :=
                    match l with
                    | [] => Forall_nil P
                    | x :: r => Forall_cons x (command_ind' x) (go r)
                    end) cs)
    end.
End CmdInd.

Section SeqFold.
  Variable St : Type.
  Variable get : St -> bytes -> option bytes.
  Variable set : St -> bytes -> bytes -> St.
  Variable del : St -> bytes -> St.
  Variable delrange : St -> bytes -> bytes -> St.
  Variable scan : St -> bytes -> bytes -> list (bytes * bytes).
  Notation h := (handle St get set del delrange scan).

  Lemma handle_seq cs : forall s,
    h s (CSequence cs) = let '(s', rs) := seq_fold h s cs in (s', (fsm_ResultSuccess, rs)).
  Proof.
    induction cs as [|c cs IH]; intros s; [reflexivity|].
    cbn [handle seq_fold]. destruct (h s c) as [s1 [v r1]].
    specialize (IH s1). cbn [handle] in IH.
    match goal with |- context [let '(_, _) := ?f s1 cs in _] => destruct (f s1 cs) as [s2 rs2] end.
    destruct (seq_fold h s1 cs) as [s3 rs3]. injection IH as -> ->. reflexivity.
  Qed.
End SeqFold.

Section Lift.
  Variables St1 St2 : Type.
  Variable get1 : St1 -> bytes -> option bytes.
  Variable set1 : St1 -> bytes -> bytes -> St1.
  Variable del1 : St1 -> bytes -> St1.
  Variable delrange1 : St1 -> bytes -> bytes -> St1.
  Variable scan1 : St1 -> bytes -> bytes -> list (bytes * bytes).
  Variable get2 : St2 -> bytes -> option bytes.
  Variable set2 : St2 -> bytes -> bytes -> St2.
  Variable del2 : St2 -> bytes -> St2.
  Variable delrange2 : St2 -> bytes -> bytes -> St2.
  Variable scan2 : St2 -> bytes -> bytes -> list (bytes * bytes).
  Variable R : St1 -> St2 -> Prop.
  Hypothesis Hget : forall s u k, R s u -> get1 s k = get2 u k.
  Hypothesis Hset : forall s u k v, R s u -> R (set1 s k v) (set2 u k v).
  Hypothesis Hdel : forall s u k, R s u -> R (del1 s k) (del2 u k).
  Hypothesis Hdelrange : forall s u lo hi, R s u -> R (delrange1 s lo hi) (delrange2 u lo hi).
  Hypothesis Hscan : forall s u lo hi, R s u -> scan1 s lo hi = scan2 u lo hi.

  Lemma single_lookup_lift s u r : R s u -> single_lookup St1 get1 s r = single_lookup St2 get2 u r.
  Proof. intros H. unfold single_lookup. now rewrite (Hget s u _ H). Qed.

  Lemma iterate_req_lift s u k hi r : R s u -> iterate_req St1 scan1 s k hi r = iterate_req St2 scan2 u k hi r.
  Proof. intros H. unfold iterate_req. now rewrite (Hscan s u _ _ H). Qed.

  Lemma lookup_lift s u r : R s u -> lookup St1 get1 scan1 s r = lookup St2 get2 scan2 u r.
  Proof.
    intros H. unfold lookup, range_lookup. destruct (rq_end r).
    - now rewrite (iterate_req_lift s u _ _ _ H).
    - now apply single_lookup_lift.
  Qed.

  Lemma iterator_lookup_lift s u r : R s u -> iterator_lookup St1 get1 scan1 s r = iterator_lookup St2 get2 scan2 u r.
  Proof.
    intros H. unfold iterator_lookup. destruct (rq_end r).
    - now apply iterate_req_lift.
    - now rewrite (single_lookup_lift s u _ H).
  Qed.

  Lemma handle_put_lift s u p : R s u ->
    R (fst (handle_put St1 get1 set1 s p)) (fst (handle_put St2 get2 set2 u p)) /\
    snd (handle_put St1 get1 set1 s p) = snd (handle_put St2 get2 set2 u p).
  Proof.
    intros H. unfold handle_put; simpl. split; [now apply Hset|].
    now rewrite (single_lookup_lift s u _ H).
  Qed.

  Lemma handle_delete_lift s u d : R s u ->
    R (fst (handle_delete St1 get1 del1 delrange1 scan1 s d)) (fst (handle_delete St2 get2 del2 delrange2 scan2 u d)) /\
    snd (handle_delete St1 get1 del1 delrange1 scan1 s d) = snd (handle_delete St2 get2 del2 delrange2 scan2 u d).
  Proof.
    intros H. unfold handle_delete. rewrite (lookup_lift s u _ H).
    destruct (dl_end d); simpl; split; auto.
  Qed.

  Lemma compare_one_lift s u c : R s u -> compare_one St1 get1 scan1 s c = compare_one St2 get2 scan2 u c.
  Proof.
    intros H. unfold compare_one. destruct (cm_end c).
    - now rewrite (Hscan s u _ _ H).
    - now rewrite (Hget s u _ H).
  Qed.

  Lemma txn_compare_lift s u cs : R s u -> txn_compare St1 get1 scan1 s cs = txn_compare St2 get2 scan2 u cs.
  Proof.
    intros H. unfold txn_compare. induction cs as [|c cs IH]; simpl; [reflexivity|].
    now rewrite (compare_one_lift s u c H), IH.
  Qed.

  Notation ops1 := (txn_ops St1 get1 set1 del1 delrange1 scan1).
  Notation ops2 := (txn_ops St2 get2 set2 del2 delrange2 scan2).

  Lemma txn_ops_lift ops : forall s u, R s u ->
    R (fst (ops1 s ops)) (fst (ops2 u ops)) /\ snd (ops1 s ops) = snd (ops2 u ops).
  Proof.
    induction ops as [|op rest IH]; intros s u H; cbn [txn_ops]; [simpl; auto|].
    destruct op as [r|p|d|].
    - destruct (IH s u H) as [H1 H2].
      destruct (ops1 s rest) as [s' rs], (ops2 u rest) as [u' rs']; simpl in *.
      split; [assumption|]. now rewrite (lookup_lift s u r H), H2.
    - destruct (handle_put_lift s u p H) as [Hp1 Hp2].
      destruct (handle_put St1 get1 set1 s p) as [s1 r1], (handle_put St2 get2 set2 u p) as [u1 r1']; simpl in *.
      destruct (IH s1 u1 Hp1) as [H1 H2].
      destruct (ops1 s1 rest) as [s' rs], (ops2 u1 rest) as [u' rs']; simpl in *.
      simpl; split; [assumption|congruence].
    - destruct (handle_delete_lift s u d H) as [Hp1 Hp2].
      destruct (handle_delete St1 get1 del1 delrange1 scan1 s d) as [s1 r1],
               (handle_delete St2 get2 del2 delrange2 scan2 u d) as [u1 r1']; simpl in *.
      destruct (IH s1 u1 Hp1) as [H1 H2].
      destruct (ops1 s1 rest) as [s' rs], (ops2 u1 rest) as [u' rs']; simpl in *.
      simpl; split; [assumption|congruence].
    - now apply IH.
  Qed.

  Lemma handle_txn_lift s u cs su fa : R s u ->
    R (fst (handle_txn St1 get1 set1 del1 delrange1 scan1 s cs su fa)) (fst (handle_txn St2 get2 set2 del2 delrange2 scan2 u cs su fa)) /\
    snd (handle_txn St1 get1 set1 del1 delrange1 scan1 s cs su fa) = snd (handle_txn St2 get2 set2 del2 delrange2 scan2 u cs su fa).
  Proof.
    intros H. unfold handle_txn. rewrite (txn_compare_lift s u cs H).
    destruct (txn_ops_lift (if txn_compare St2 get2 scan2 u cs then su else fa) s u H) as [H1 H2].
    destruct (ops1 s _) as [s' rs], (ops2 u _) as [u' rs']; simpl in *. split; [assumption|congruence].
  Qed.

  Lemma put_batch_lift kvs : forall s u, R s u ->
    R (fst (put_batch St1 get1 set1 s kvs)) (fst (put_batch St2 get2 set2 u kvs)) /\
    snd (put_batch St1 get1 set1 s kvs) = snd (put_batch St2 get2 set2 u kvs).
  Proof.
    induction kvs as [|[k v] rest IH]; intros s u H; cbn [put_batch]; [simpl; auto|].
    destruct (handle_put_lift s u {| pt_key := k; pt_val := v; pt_prev := false |} H) as [Hp1 Hp2].
    destruct (handle_put St1 get1 set1 s _) as [s1 r1], (handle_put St2 get2 set2 u _) as [u1 r1']; simpl in *.
    destruct (IH s1 u1 Hp1) as [H1 H2].
    destruct (put_batch St1 get1 set1 s1 rest) as [s' rs], (put_batch St2 get2 set2 u1 rest) as [u' rs']; simpl in *.
    simpl; split; [assumption|congruence].
  Qed.

  Lemma delete_batch_lift ks : forall s u, R s u ->
    R (fst (delete_batch St1 get1 del1 delrange1 scan1 s ks)) (fst (delete_batch St2 get2 del2 delrange2 scan2 u ks)) /\
    snd (delete_batch St1 get1 del1 delrange1 scan1 s ks) = snd (delete_batch St2 get2 del2 delrange2 scan2 u ks).
  Proof.
    induction ks as [|k rest IH]; intros s u H; cbn [delete_batch]; [simpl; auto|].
    destruct (handle_delete_lift s u {| dl_key := k; dl_end := None; dl_prev := false; dl_count := false |} H) as [Hp1 Hp2].
    destruct (handle_delete St1 get1 del1 delrange1 scan1 s _) as [s1 r1],
             (handle_delete St2 get2 del2 delrange2 scan2 u _) as [u1 r1']; simpl in *.
    destruct (IH s1 u1 Hp1) as [H1 H2].
    destruct (delete_batch St1 get1 del1 delrange1 scan1 s1 rest) as [s' rs],
             (delete_batch St2 get2 del2 delrange2 scan2 u1 rest) as [u' rs']; simpl in *.
    simpl; split; [assumption|congruence].
  Qed.

  Notation h1 := (handle St1 get1 set1 del1 delrange1 scan1).
  Notation h2 := (handle St2 get2 set2 del2 delrange2 scan2).

  Theorem handle_lift c : forall s u, R s u -> R (fst (h1 s c)) (fst (h2 u c)) /\ snd (h1 s c) = snd (h2 u c).
  Proof.
    induction c as [k v prev|k e prev count| |kvs|ks|cs su fa|cs HF] using command_ind'; intros s u H.
    - cbn [handle].
      destruct (handle_put_lift s u {| pt_key := k; pt_val := v; pt_prev := prev |} H) as [H1 H2].
      destruct (handle_put St1 get1 set1 s _) as [s1 r1], (handle_put St2 get2 set2 u _) as [u1 r1']; simpl in *.
      simpl; split; [assumption|congruence].
    - cbn [handle].
      destruct (handle_delete_lift s u {| dl_key := k; dl_end := e; dl_prev := prev; dl_count := count |} H) as [H1 H2].
      destruct (handle_delete St1 get1 del1 delrange1 scan1 s _) as [s1 r1],
               (handle_delete St2 get2 del2 delrange2 scan2 u _) as [u1 r1']; simpl in *.
      simpl; split; [assumption|congruence].
    - simpl. auto.
    - cbn [handle]. destruct (put_batch_lift kvs s u H) as [H1 H2].
      destruct (put_batch St1 get1 set1 s kvs) as [s1 r1], (put_batch St2 get2 set2 u kvs) as [u1 r1']; simpl in *.
      simpl; split; [assumption|congruence].
    - cbn [handle]. destruct (delete_batch_lift ks s u H) as [H1 H2].
      destruct (delete_batch St1 get1 del1 delrange1 scan1 s ks) as [s1 r1],
               (delete_batch St2 get2 del2 delrange2 scan2 u ks) as [u1 r1']; simpl in *.
      simpl; split; [assumption|congruence].
    - cbn [handle]. destruct (handle_txn_lift s u cs su fa H) as [H1 H2].
      destruct (handle_txn St1 get1 set1 del1 delrange1 scan1 s cs su fa) as [s1 [ok1 r1]],
               (handle_txn St2 get2 set2 del2 delrange2 scan2 u cs su fa) as [u1 [ok2 r2]]; simpl in *.
      split; [assumption|]. injection H2 as -> ->. reflexivity.
    - rewrite !handle_seq.
      assert (HS : forall s u, R s u -> R (fst (seq_fold h1 s cs)) (fst (seq_fold h2 u cs)) /\
                                        snd (seq_fold h1 s cs) = snd (seq_fold h2 u cs)).
      { clear s u H. induction cs as [|c cs IHcs]; intros s u H'; [simpl; auto|].
        inversion HF as [|? ? Hc Hcs]; subst.
        cbn [seq_fold]. destruct (Hc s u H') as [Hc1 Hc2].
        destruct (h1 s c) as [s1 [v1 r1]], (h2 u c) as [u1 [v2 r2]]; simpl in Hc1, Hc2.
        destruct (IHcs Hcs s1 u1 Hc1) as [I1 I2].
        destruct (seq_fold h1 s1 cs) as [s' rs], (seq_fold h2 u1 cs) as [u' rs']; simpl in *.
        split; [assumption|]. injection Hc2 as _ ->. congruence. }
      destruct (HS s u H) as [H1 H2].
      destruct (seq_fold h1 s cs) as [s' rs], (seq_fold h2 u cs) as [u' rs']; simpl in *. split; [assumption|congruence].
  Qed.

  Lemma lookup_txn_lift s u cs su fa : R s u ->
    lookup_txn St1 get1 scan1 s cs su fa = lookup_txn St2 get2 scan2 u cs su fa.
  Proof.
    intros H. unfold lookup_txn. rewrite (txn_compare_lift s u cs H). f_equal.
    apply map_ext. intros op. destruct op; now rewrite (lookup_lift s u _ H).
  Qed.
End Lift.
