From Coq Require Import Lia.
From Verif Require Import Model.Bytes Model.Lease.

Definition seen_of (p : pc) : option (option lrec) :=
  match p with Idle => None | PendSet s _ => Some s | PendDel r => Some (Some r) end.

Record LInv (s : lst) : Prop := {
  i_next : 1 <= nexti s;
  i_ver : forall r, rec s = Some r -> 1 <= lver r < nexti s;
  (* a record a node has read: its version is an old index, and if the store still holds that version it holds that record *)
  i_seen : forall n r, seen_of (pcs s n) = Some (Some r) ->
             1 <= lver r < nexti s /\ (forall x, rec s = Some x -> lver x = lver r -> x = r);
  (* a pending take was justified when decided, and stays justified: time only advances *)
  i_take : forall n seen u, pcs s n = PendSet seen u -> may_take n seen (now s) = true;
  i_del : forall n r, pcs s n = PendDel r -> lid r = n;
  (* an unexpired granted lease is what the store records *)
  i_grant : forall n u, grant s n = Some u -> now s <= u -> exists v, rec s = Some {| lid := n; luntil := u; lver := v |}
}.

Lemma LInv0 : LInv lst0.
Proof. constructor; simpl; try discriminate; try lia; intros; discriminate. Qed.

Lemma may_take_mono n seen t t' : t <= t' -> may_take n seen t = true -> may_take n seen t' = true.
Proof.
  unfold may_take. destruct seen as [r|]; [|reflexivity]. intros Ht H.
  apply orb_true_iff in H. apply orb_true_iff. destruct H as [H|H]; [now left|right].
  apply N.ltb_lt in H. apply N.ltb_lt. lia.
Qed.

Lemma upd_same {A} (f : nat -> A) n v : upd f n v n = v.
Proof. unfold upd. now rewrite Nat.eqb_refl. Qed.
Lemma upd_other {A} (f : nat -> A) n m v : m <> n -> upd f n v m = f m.
Proof. unfold upd. intros H. destruct (Nat.eqb_spec m n); [contradiction|reflexivity]. Qed.

Theorem lexec_inv s a : LInv s -> LInv (fst (lexec s a)).
Proof.
  intros HI. pose proof HI as [Hn Hv Hs Ht Hd Hg]. destruct a as [d|n dur ex|n|n]; cbn [lexec].
  - (* tick *)
    constructor; cbn [fst rec nexti now pcs grant]; auto.
    + intros n seen u Hp. eapply may_take_mono; [|apply (Ht n seen u Hp)]. lia.
    + intros n u Hgr Hle. apply (Hg n u Hgr). lia.
  - (* lease: get + decide *)
    destruct (pcs s n) eqn:Ep; try exact HI.
    destruct (may_take n (rec s) (now s)) eqn:Em; [|exact HI].
    constructor; cbn [fst rec nexti now pcs grant]; auto.
    + intros m r. destruct (Nat.eq_dec m n) as [->|Hne].
      * rewrite upd_same. cbn [seen_of]. intros [= Hr]. split; [apply Hv; exact Hr|].
        intros x Hx _. congruence.
      * rewrite upd_other by exact Hne. apply Hs.
    + intros m seen u. destruct (Nat.eq_dec m n) as [->|Hne].
      * rewrite upd_same. intros [= <- _]. exact Em.
      * rewrite upd_other by exact Hne. apply Ht.
    + intros m r. destruct (Nat.eq_dec m n) as [->|Hne].
      * rewrite upd_same. discriminate.
      * rewrite upd_other by exact Hne. apply Hd.
  - (* return: get + decide *)
    destruct (pcs s n) eqn:Ep; try exact HI.
    destruct (rec s) as [r|] eqn:Er; [|exact HI].
    destruct (Nat.eqb_spec (lid r) n) as [Hl|Hl]; [|exact HI].
    constructor; cbn [fst rec nexti now pcs grant]; auto.
    + intros m r0. destruct (Nat.eq_dec m n) as [->|Hne].
      * rewrite upd_same. cbn [seen_of]. intros [= <-]. split; [apply Hv; reflexivity|].
        intros x Hx _. congruence.
      * rewrite upd_other by exact Hne. apply Hs.
    + intros m seen u. destruct (Nat.eq_dec m n) as [->|Hne].
      * rewrite upd_same. discriminate.
      * rewrite upd_other by exact Hne. apply Ht.
    + intros m r0. destruct (Nat.eq_dec m n) as [->|Hne].
      * rewrite upd_same. intros [= <-]. exact Hl.
      * rewrite upd_other by exact Hne. apply Hd.
  - (* the pending write is applied *)
    destruct (pcs s n) as [|seen u|r] eqn:Ep; [exact HI| |].
    + destruct (cas_ok (rec s) (seen_ver seen)) eqn:Ec.
      * (* lease acquired *)
        constructor; cbn [fst rec nexti now pcs grant].
        -- lia.
        -- intros r [= <-]. simpl. lia.
        -- intros m r. destruct (Nat.eq_dec m n) as [->|Hne]; [rewrite upd_same; discriminate|].
           rewrite upd_other by exact Hne. intros Hse. destruct (Hs m r Hse) as [H1 H2]. split; [lia|].
           intros x [= <-]. simpl. lia.
        -- intros m seen' u'. destruct (Nat.eq_dec m n) as [->|Hne]; [rewrite upd_same; discriminate|].
           rewrite upd_other by exact Hne. apply Ht.
        -- intros m r. destruct (Nat.eq_dec m n) as [->|Hne]; [rewrite upd_same; discriminate|].
           rewrite upd_other by exact Hne. apply Hd.
        -- intros m u'. destruct (Nat.eq_dec m n) as [->|Hne].
           ++ rewrite upd_same. intros [= <-] _. eexists. reflexivity.
           ++ rewrite upd_other by exact Hne. intros Hgr Hle. exfalso.
              (* m holds an unexpired lease, so the store records it; the write of n succeeded only against what n
                 had read, which therefore was m's record - but then n was not entitled to take it *)
              destruct (Hg m u' Hgr Hle) as [v Hrec].
              unfold cas_ok in Ec. rewrite Hrec in Ec. simpl in Ec. apply N.eqb_eq in Ec.
              pose proof (Ht n seen u Ep) as Hmay.
              destruct seen as [r|].
              ** assert (Hse : seen_of (pcs s n) = Some (Some r)) by (rewrite Ep; reflexivity).
                 destruct (Hs n r Hse) as [_ Huniq]. simpl in Ec.
                 specialize (Huniq _ Hrec Ec). subst r.
                 unfold may_take in Hmay. simpl in Hmay. apply orb_true_iff in Hmay. destruct Hmay as [H|H].
                 --- apply Nat.eqb_eq in H. congruence.
                 --- apply N.ltb_lt in H. lia.
              ** simpl in Ec. destruct (Hv _ Hrec) as [H1 _]. simpl in H1. lia.
      * constructor; cbn [fst rec nexti now pcs grant]; auto.
        -- lia.
        -- intros r Hr. specialize (Hv r Hr). lia.
        -- intros m r. destruct (Nat.eq_dec m n) as [->|Hne]; [rewrite upd_same; discriminate|].
           rewrite upd_other by exact Hne. intros Hse. destruct (Hs m r Hse) as [H1 H2]. split; [lia|exact H2].
        -- intros m seen' u'. destruct (Nat.eq_dec m n) as [->|Hne]; [rewrite upd_same; discriminate|].
           rewrite upd_other by exact Hne. apply Ht.
        -- intros m r. destruct (Nat.eq_dec m n) as [->|Hne]; [rewrite upd_same; discriminate|].
           rewrite upd_other by exact Hne. apply Hd.
    + destruct (cas_ok (rec s) (lver r)) eqn:Ec.
      * (* lease returned *)
        constructor; cbn [fst rec nexti now pcs grant].
        -- lia.
        -- discriminate.
        -- intros m r0. destruct (Nat.eq_dec m n) as [->|Hne]; [rewrite upd_same; discriminate|].
           rewrite upd_other by exact Hne. intros Hse. destruct (Hs m r0 Hse) as [H1 H2]. split; [lia|discriminate].
        -- intros m seen' u'. destruct (Nat.eq_dec m n) as [->|Hne]; [rewrite upd_same; discriminate|].
           rewrite upd_other by exact Hne. apply Ht.
        -- intros m r0. destruct (Nat.eq_dec m n) as [->|Hne]; [rewrite upd_same; discriminate|].
           rewrite upd_other by exact Hne. apply Hd.
        -- intros m u'. destruct (Nat.eq_dec m n) as [->|Hne]; [rewrite upd_same; discriminate|].
           rewrite upd_other by exact Hne. intros Hgr Hle. exfalso.
           (* the delete matched what n had read - its own lease - yet the store held m's unexpired lease *)
           destruct (Hg m u' Hgr Hle) as [v Hrec].
           unfold cas_ok in Ec. rewrite Hrec in Ec. simpl in Ec. apply N.eqb_eq in Ec.
           assert (Hse : seen_of (pcs s n) = Some (Some r)) by (rewrite Ep; reflexivity).
           destruct (Hs n r Hse) as [_ Huniq]. specialize (Huniq _ Hrec Ec). subst r.
           pose proof (Hd n _ Ep) as Hl. simpl in Hl. congruence.
      * constructor; cbn [fst rec nexti now pcs grant]; auto.
        -- lia.
        -- intros r0 Hr. specialize (Hv r0 Hr). lia.
        -- intros m r0. destruct (Nat.eq_dec m n) as [->|Hne]; [rewrite upd_same; discriminate|].
           rewrite upd_other by exact Hne. intros Hse. destruct (Hs m r0 Hse) as [H1 H2]. split; [lia|exact H2].
        -- intros m seen' u'. destruct (Nat.eq_dec m n) as [->|Hne]; [rewrite upd_same; discriminate|].
           rewrite upd_other by exact Hne. apply Ht.
        -- intros m r0. destruct (Nat.eq_dec m n) as [->|Hne]; [rewrite upd_same; discriminate|].
           rewrite upd_other by exact Hne. apply Hd.
Qed.

Lemma lrun_inv acts : forall s, LInv s -> LInv (fst (lrun s acts)).
Proof.
  induction acts as [|a r IH]; intros s H; cbn [lrun]; [exact H|].
  pose proof (lexec_inv s a H) as H1. destruct (lexec s a) as [s1 o]. cbn [fst] in H1.
  specialize (IH s1 H1). destruct (lrun s1 r) as [s2 os]. exact IH.
Qed.

(* at most one node holds an unexpired lease, in every reachable state *)
Theorem mutex_inv s : LInv s -> forall n m, holder s n -> holder s m -> n = m.
Proof.
  intros HI n m (u & Hg1 & Hu) (u' & Hg2 & Hu').
  destruct (i_grant s HI n u Hg1 Hu) as [v Hr1]. destruct (i_grant s HI m u' Hg2 Hu') as [v' Hr2].
  congruence.
Qed.

Theorem mutex acts n m : let s := fst (lrun lst0 acts) in holder s n -> holder s m -> n = m.
Proof. intros s. apply mutex_inv. apply lrun_inv, LInv0. Qed.

(* a request succeeds only if, when it was decided, the table was unclaimed, leased to the caller, or the lease expired *)
Theorem grant_condition s n : LInv s ->
  snd (lexec s (AApply n)) = RAcquired ->
  exists seen u, pcs s n = PendSet seen u /\ may_take n seen (now s) = true /\ cas_ok (rec s) (seen_ver seen) = true.
Proof.
  intros HI. cbn [lexec]. destruct (pcs s n) as [|seen u|r] eqn:Ep; try discriminate.
  - destruct (cas_ok (rec s) (seen_ver seen)) eqn:Ec; [|discriminate]. intros _.
    exists seen, u. repeat split; auto. eapply i_take; eauto.
  - destruct (cas_ok (rec s) (lver r)); discriminate.
Qed.

(* of two pending requests that read the same state, at most one write succeeds *)
Theorem race_one_winner s n m seen u seen' u' : LInv s -> n <> m ->
  pcs s n = PendSet seen u -> pcs s m = PendSet seen' u' -> seen_ver seen = seen_ver seen' ->
  snd (lexec s (AApply n)) = RAcquired ->
  snd (lexec (fst (lexec s (AApply n))) (AApply m)) = RFailed.
Proof.
  intros HI Hne Hpn Hpm Hsv. cbn [lexec]. rewrite Hpn.
  destruct (cas_ok (rec s) (seen_ver seen)) eqn:Ec; [|discriminate]. intros _.
  cbn [fst pcs rec nexti]. rewrite upd_other by congruence. rewrite Hpm.
  unfold cas_ok. cbn [lver]. rewrite <- Hsv.
  assert (Hlt : seen_ver seen < nexti s).
  { destruct seen as [r|]; simpl; [|pose proof (i_next s HI); lia].
    assert (Hse : seen_of (pcs s n) = Some (Some r)) by (rewrite Hpn; reflexivity).
    destruct (i_seen s HI n r Hse). lia. }
  replace (nexti s =? seen_ver seen) with false by (symmetry; apply N.eqb_neq; lia). reflexivity.
Qed.

(* returning a lease removes nothing but the caller's own lease: the store record is either untouched or it was the
   caller's own (and is now gone) *)
Theorem return_own s n r : LInv s -> pcs s n = PendDel r ->
  rec (fst (lexec s (AApply n))) = rec s \/
  (rec s = Some r /\ lid r = n /\ rec (fst (lexec s (AApply n))) = None).
Proof.
  intros HI Ep. cbn [lexec]. rewrite Ep.
  destruct (cas_ok (rec s) (lver r)) eqn:Ec; [|left; reflexivity].
  cbn [fst rec]. unfold cas_ok in Ec. destruct (rec s) as [x|] eqn:Er; [|left; reflexivity].
  right. apply N.eqb_eq in Ec.
  assert (Hse : seen_of (pcs s n) = Some (Some r)) by (rewrite Ep; reflexivity).
  destruct (i_seen s HI n r Hse) as [_ Hu]. rewrite (Hu x Er Ec).
  repeat split. eapply i_del; eauto.
Qed.
