(* storage/table/manager.go storedTableName / getTables: the catalogue lives in the metadata store under
   "/tables/<name>"; the listing is the glob "/tables/*" (path.Match: '*' does not cross '/').  For names that are path
   segments the glob selects exactly the table records - not the id sequence "/tables/sys/idseq", not a lease
   "/tables/<name>/lease" - and different names have different keys. *)
From Coq Require Import Lia.
From Verif Require Import Model.Bytes Model.SMap Model.MetaKV.

Definition tables_prefix : bytes := [47; 116; 97; 98; 108; 101; 115; 47].        (* "/tables/" *)
Definition stored_table_name (name : bytes) : bytes := tables_prefix ++ name.     (* fmt.Sprintf("%s%s", keyPrefix, name) *)
Definition tables_pattern : bytes := tables_prefix ++ [star].                     (* keyPrefix + "*" *)
Definition no_slash (s : bytes) : bool := forallb (fun d => negb (d =? slash)) s.

Lemma glob_literal p : Forall (fun c => c <> star) p -> forall q s, glob (p ++ q) (p ++ s) = glob q s.
Proof.
  induction p as [|c p IH]; intros Hp q s; [reflexivity|]. inversion Hp as [|? ? Hc Hp']; subst.
  cbn [app glob]. destruct (N.eqb_spec c star); [contradiction|]. rewrite N.eqb_refl. cbn [andb]. now apply IH.
Qed.
Lemma glob_literal_mismatch p : Forall (fun c => c <> star) p -> forall q s, (length s < length p)%nat -> glob (p ++ q) s = false.
Proof.
  induction p as [|c p IH]; intros Hp q s Hl; [cbn in Hl; lia|]. inversion Hp as [|? ? Hc Hp']; subst.
  cbn [app glob]. destruct (N.eqb_spec c star); [contradiction|]. destruct s as [|d s]; [reflexivity|].
  cbn in Hl. rewrite (IH Hp' q s) by lia. apply andb_false_r.
Qed.

Lemma glob_star s : glob [star] s = no_slash s.
Proof.
  induction s as [|d s IH]; [reflexivity|].
  change (glob [star] (d :: s)) with (glob [] (d :: s) || (negb (d =? slash) && glob [star] s)).
  replace (glob [] (d :: s)) with false by reflexivity. cbn [orb]. rewrite IH. reflexivity.
Qed.

Lemma prefix_literal : Forall (fun c => c <> star) tables_prefix.
Proof. unfold tables_prefix, star. repeat constructor; lia. Qed.

(* the listing pattern selects the record of every table whose name is a path segment ... *)
Theorem listing_selects_tables name : no_slash name = true -> glob tables_pattern (stored_table_name name) = true.
Proof.
  intros H. unfold tables_pattern, stored_table_name. rewrite (glob_literal _ prefix_literal). now rewrite glob_star.
Qed.
(* ... and nothing below a table's name (leases) nor below "sys" (the id sequence) *)
Theorem listing_skips_deeper name rest : glob tables_pattern (stored_table_name (name ++ slash :: rest)) = false.
Proof.
  unfold tables_pattern, stored_table_name. rewrite (glob_literal _ prefix_literal), glob_star.
  unfold no_slash. rewrite forallb_app. cbn [forallb]. rewrite N.eqb_refl. cbn. apply andb_false_r.
Qed.
(* different names, different records *)
Theorem stored_name_injective a b : stored_table_name a = stored_table_name b -> a = b.
Proof. unfold stored_table_name. apply app_inv_head. Qed.
(* the key of a table is never the key of another table's lease or of the id sequence *)
Theorem stored_name_is_a_segment a b rest : no_slash a = true -> stored_table_name a <> stored_table_name (b ++ slash :: rest).
Proof.
  intros Ha E. apply stored_name_injective in E. subst a. unfold no_slash in Ha. rewrite forallb_app in Ha.
  cbn [forallb] in Ha. rewrite N.eqb_refl in Ha. cbn in Ha. now rewrite andb_false_r in Ha.
Qed.
