(* One poll of the replication pipeline (Model/Pipeline.v): the stream of C06 consumed by the worker applies exactly the
   leader's entries after the follower's recorded index, each once and in order, and leaves the recorded index at the
   leader's applied index - i.e. it IS the step [APoll] of Model/Replication.v (C05) with n = applied - r. *)
From Coq Require Import Lia.
From Verif Require Import Model.Pipeline Proofs.LogReaderFacts.

Section Pipe.
  Variables (S C : Type) (app : S -> C -> S) (cmd_of : rcmd -> C).
  Notation applyl := (apply_labelled S C app cmd_of).
  Notation pstream := (propose_stream S C app cmd_of).
  Notation consume := (consume S C app cmd_of).
  Definition cmds (cs : list (rcmd * N)) : list C := map (fun p => cmd_of (fst p)) cs.
  Definition lbl (f : fol S) (cs : list (rcmd * N)) : nat := N.to_nat (snd (last cs (RDummy, N.of_nat (f_lidx S f)))).

  Lemma last_app_ne {A} (a b : list A) d : b <> [] -> last (a ++ b) d = last b d.
  Proof.
    intros Hb. induction a as [|x a IH]; [reflexivity|]. simpl.
    destruct (a ++ b) eqn:E; [|exact IH]. apply app_eq_nil in E. destruct E as [_ E]. contradiction.
  Qed.
  Lemma last_indep {A} (l : list A) d d' : l <> [] -> last l d = last l d'.
  Proof. induction l as [|x l IH]; [congruence|]. intros _. destruct l; [reflexivity|]. simpl in *. apply IH. discriminate. Qed.

  (* however the commands of a message are cut into proposals: all of them are applied, in order, once; the recorded
     index is the label of the last one *)
  Lemma propose_stream_flat sizes : forall cs f,
    f_store S (pstream f cs sizes) = fold_left app (cmds cs) (f_store S f) /\
    f_lidx S (pstream f cs sizes) = match cs with [] => f_lidx S f | _ => lbl f cs end.
  Proof.
    induction sizes as [|k ks IH]; intros cs f; cbn [propose_stream].
    - destruct cs; [split; reflexivity|]. split; reflexivity.
    - destruct cs as [|c cs]; [split; reflexivity|].
      set (whole := c :: cs). set (a := firstn (Datatypes.S k) whole). set (b := skipn (Datatypes.S k) whole).
      assert (Hab : whole = a ++ b) by (symmetry; apply firstn_skipn).
      assert (Ha : a <> []) by (unfold a, whole; simpl; discriminate).
      destruct (IH b (applyl f a)) as [I1 I2]. rewrite I1, I2. cbn [apply_labelled f_store f_lidx].
      split.
      + unfold cmds. rewrite Hab, map_app, fold_left_app. reflexivity.
      + destruct b as [|b0 b'] eqn:Eb.
        * unfold lbl. rewrite Hab, app_nil_r. apply f_equal, f_equal. apply last_indep, Ha.
        * unfold lbl. cbn [apply_labelled f_lidx]. rewrite Hab. rewrite (last_app_ne a (b0 :: b')) by discriminate.
          apply f_equal, f_equal. apply last_indep. discriminate.
  Qed.

  (* ... and over all messages of the call *)
  Lemma consume_flat ms : forall sizes f,
    f_store S (consume f ms sizes) = fold_left app (cmds (cmds_of ms)) (f_store S f) /\
    f_lidx S (consume f ms sizes) = match cmds_of ms with [] => f_lidx S f | _ => lbl f (cmds_of ms) end.
  Proof.
    induction ms as [|m r IH]; intros sizes f; cbn [Pipeline.consume cmds_of]; [split; reflexivity|].
    destruct m as [| |ap cs|ap]; try apply IH.
    destruct (IH (tl sizes) (pstream f cs (hd [] sizes))) as [I1 I2].
    destruct (propose_stream_flat (hd [] sizes) cs f) as [P1 P2].
    rewrite I1, I2, P1, P2. split.
    - unfold cmds. rewrite map_app, fold_left_app. reflexivity.
    - destruct (cmds_of r) as [|x xs] eqn:Er.
      + rewrite app_nil_r. destruct cs; reflexivity.
      + destruct (cs ++ x :: xs) eqn:E; [apply app_eq_nil in E; destruct E; discriminate|]. rewrite <- E.
        unfold lbl. rewrite (last_app_ne cs (x :: xs)) by discriminate.
        apply f_equal, f_equal. apply last_indep. discriminate.
  Qed.
End Pipe.

(* ---------- logs with consecutive indices: every index in range is there, and a full range has the full length ---------- *)
Lemma consec_has m l : consec m l -> forall i, m < i <= m + N.of_nat (length l) -> exists e, In e l /\ eidx e = i.
Proof.
  revert m. induction l as [|e r IH]; intros m Hc i Hi; [simpl in Hi; lia|].
  destruct Hc as [He Hc]. destruct (N.eq_dec i (m + 1)) as [->|Hne].
  - exists e. split; [left; reflexivity|exact He].
  - destruct (IH (m + 1) Hc i) as (x & Hx & Hi'); [simpl length in Hi; lia|]. exists x. split; [right; exact Hx|exact Hi'].
Qed.

Lemma range_full_length l applied F : wf_log l -> applied <= llast l -> marker l < F <= applied + 1 ->
  F + N.of_nat (length (range_entries l F (applied + 1))) = applied + 1.
Proof.
  intros Hwf Happ HF. set (L := applied + 1). set (R := range_entries l F L).
  pose proof (range_consec (lents l) (marker l) F L Hwf ltac:(lia)) as Hc. rewrite <- range_entries_eq in Hc. fold R in Hc.
  pose proof (range_upper l applied F) as Hu. fold L in Hu. fold R in Hu.
  assert (Hle : F + N.of_nat (length R) <= L).
  { destruct (consec_upper _ _ L Hc Hu) as [H|H]; [lia|]. rewrite H. simpl. lia. }
  destruct (N.eq_dec (F + N.of_nat (length R)) L) as [E|Hne]; [exact E|exfalso].
  (* the entry with index F + length R exists in the log and belongs to the range, but lies beyond its last element *)
  set (i := F + N.of_nat (length R)).
  destruct (consec_has _ _ Hwf i) as (e & He & Hi); [unfold llast in Happ; unfold i, L in *; lia|].
  assert (HeR : In e R).
  { unfold R, range_entries. apply filter_In. split; [exact He|].
    rewrite Hi. apply andb_true_iff. split; [apply N.leb_le|apply N.ltb_lt]; unfold i, L in *; lia. }
  pose proof (consec_length _ _ Hc) as Hlen. rewrite Forall_forall in Hlen. specialize (Hlen e HeR).
  rewrite Hi in Hlen. unfold i in Hlen. lia.
Qed.

Lemma last_map_f {A B} (g : A -> B) (l : list A) d : last (map g l) (g d) = g (last l d).
Proof. induction l as [|x l IH]; [reflexivity|]. simpl. destruct l; [reflexivity|]. exact IH. Qed.

Section Poll.
  Variables (S C : Type) (app : S -> C -> S) (cmd_of : rcmd -> C).
  Variable l : rlog.
  Variable applied : N.
  Hypothesis Hwf : wf_log l.
  Hypothesis Happ : applied <= llast l.
  Variable q : cache -> lrange -> (list lentry + qerr) * cache.
  Variable Inv : cache -> Prop.
  Hypothesis Hq : forall c F, Inv c -> 1 <= F -> marker l < F <= applied + 1 \/ F <= marker l ->
     exact_answer l applied F (fst (q c {| rfirst := F; rlast := applied + 1 |})) /\
     Inv (snd (q c {| rfirst := F; rlast := applied + 1 |})).

  Definition ecmd (e : lentry) : C := cmd_of (fst (entry_to_command e)).

  (* ONE POLL.  A follower that has recorded leader index r (not compacted away: marker <= r <= applied) asks for r+1;
     whatever reader serves the stream (cached or not), however the answer is cut into messages and the messages into
     proposals: afterwards the follower has applied exactly the leader's entries r+1 .. applied, each once and in order,
     and records leader index applied *)
  Theorem poll_exact fuel c (f : fol S) (sizes : list (list nat)) :
    let r := f_lidx S f in
    let F := N.of_nat r + 1 in
    Inv c -> marker l < F <= applied + 1 ->
    (length (range_entries l F (applied + 1)) < fuel)%nat ->
    let ms := fst (replicate_loop fuel q c applied {| rfirst := F; rlast := applied + 1 |}) in
    let es := map ecmd (range_entries l F (applied + 1)) in
    consume S C app cmd_of f ms sizes = apply_seq S C app f es (r + length es) /\ (r + length es)%nat = N.to_nat applied.
  Proof.
    intros r F Hc HF Hfuel ms es.
    destruct (stream_exact l applied Hwf Happ q Inv Hq fuel c F Hc HF Hfuel) as [Hcmds _]. fold ms in Hcmds.
    destruct (consume_flat S C app cmd_of ms sizes f) as [H1 H2].
    pose proof (range_full_length l applied F Hwf Happ HF) as Hlen.
    assert (Hes : length es = length (range_entries l F (applied + 1))) by (unfold es; apply map_length).
    assert (Hsum : (r + length es)%nat = N.to_nat applied) by (unfold F in *; lia).
    split; [|exact Hsum].
    destruct (consume S C app cmd_of f ms sizes) as [st li] eqn:Ec. cbn [f_store f_lidx] in H1, H2.
    unfold apply_seq. f_equal.
    - rewrite H1, Hcmds. unfold cmds, es, ecmd. rewrite map_map. reflexivity.
    - rewrite H2, Hcmds. destruct (range_entries l F (applied + 1)) as [|e0 R] eqn:ER.
      + simpl. simpl in Hes. fold r. lia.
      + (* the label of the last command is the index of the last entry of the range, which is applied *)
        set (Rr := e0 :: R) in *. assert (HRne : Rr <> []) by discriminate.
        destruct (map entry_to_command Rr) eqn:EM; [unfold Rr in EM; simpl in EM; discriminate|]. rewrite <- EM.
        unfold lbl. rewrite (last_indep (map entry_to_command Rr) _ (entry_to_command e0)) by (rewrite EM; discriminate).
        rewrite last_map_f. unfold entry_to_command at 1. cbn [snd].
        pose proof (range_consec (lents l) (marker l) F (applied + 1) Hwf ltac:(lia)) as Hcs.
        rewrite <- range_entries_eq, ER in Hcs. fold Rr in Hcs.
        pose proof (consec_firstn_last Rr (F - 1) (length Rr) e0 Hcs) as HL.
        rewrite firstn_all in HL. specialize (HL HRne). rewrite HL.
        unfold F in *. lia.
  Qed.
End Poll.

(* ---------- the other way a follower catches up: snapshot recovery (C07) is the step [ARecover] of C05's model ---------- *)
From Verif Require Import Model.Restore Proofs.RestoreFacts Proofs.SpecFacts Proofs.SMapFacts.

Definition app_cmd (U : umap) (c : command) : umap := fst (s_handle U c).

Lemma state_at_sorted (L : list command) (i : nat) : sorted (state_at umap command app_cmd [] L i).
Proof.
  unfold state_at. generalize (firstn i L). intros l.
  assert (G : forall U, sorted U -> sorted (fold_left app_cmd l U)).
  { induction l as [|c r IH]; intros U HU; simpl; [exact HU|]. apply IH. apply s_handle_sorted. exact HU. }
  apply G. apply sorted_nil.
Qed.

(* The leader streams its table as of its applied index n (one PUT per pair in key order, then a DUMMY declaring n -
   commandSnapshot + SnapshotServer.Stream); the follower loads the stream into a FRESH shard in batches of any size
   (readIntoTable, Manager.Restore).  The follower then holds exactly the state and the index that [ARecover] gives it. *)
Theorem recovery_is_restore (maxInMem : N) (size_of : bytes * bytes -> N) (s : sys umap command) :
  let n := length (s_log umap command s) in
  let captured := state_at umap command app_cmd [] (s_log umap command s) n in
  let f' := s_fol umap command (Replication.step umap command app_cmd [] s (ARecover command)) in
  restored (read_into_table maxInMem (table_stream size_of captured (Some (N.of_nat n)))) = (f_store umap f', N.of_nat (f_lidx umap f')).
Proof.
  intros n captured f'. unfold f'. cbn [Replication.step s_fol f_store f_lidx]. fold n. fold captured.
  apply restore_exact. apply state_at_sorted.
Qed.
