(* The cached log reader answers like the plain one (C06: "the optional log cache never changes this answer, apart from
   where a size limit cuts it"): under the invariant that the cache buffer is one contiguous run of entries of the
   log, every answer of Cached.QueryRaftLog is exact and the invariant is preserved - for every query, also with an end
   older than what the cache has already seen.  Compaction invalidates the cache (Cached.LogCompacted), so cached
   entries are always above the marker. *)
From Coq Require Import Lia.
From Verif Require Import Model.Bytes Model.LogReader Proofs.LogReaderFacts.

Section Runs.
  Variable ent : N -> lentry.
  Hypothesis ent_idx : forall i, eidx (ent i) = i.

  (* k consecutive entries starting at index a *)
  Fixpoint run (a : N) (k : nat) : list lentry :=
    match k with O => [] | S k' => ent a :: run (a + 1) k' end.

  Lemma run_length a k : length (run a k) = k.
  Proof. revert a. induction k as [|k IH]; intros a; cbn; [reflexivity|now rewrite IH]. Qed.
  Lemma run_app a j k : run a (j + k) = run a j ++ run (a + N.of_nat j) k.
  Proof.
    revert a. induction j as [|j IH]; intros a; cbn [run Nat.add app]; [now rewrite N.add_0_r|].
    rewrite IH. do 3 f_equal. lia.
  Qed.
  Lemma run_firstn a j k : firstn j (run a k) = run a (Nat.min j k).
  Proof.
    revert a j. induction k as [|k IH]; intros a j; [now rewrite Nat.min_0_r, firstn_nil|].
    destruct j as [|j]; [reflexivity|]. cbn. now rewrite IH.
  Qed.
  Lemma run_skipn a j k : skipn j (run a k) = run (a + N.of_nat j) (k - j).
  Proof.
    revert a j. induction k as [|k IH]; intros a j; [now rewrite skipn_nil|].
    destruct j as [|j]; [cbn [skipn N.of_nat Nat.sub]; now rewrite N.add_0_r|]. cbn [skipn run Nat.sub]. rewrite IH. f_equal. lia.
  Qed.
  Lemma run_nil a k : run a k = [] <-> k = 0%nat.
  Proof. destruct k; cbn; split; congruence. Qed.
  Lemma run_hd a k : (0 < k)%nat -> exists t, run a k = ent a :: t.
  Proof. destruct k; [lia|]. intros _. eexists. reflexivity. Qed.
  Lemma run_cons_idx a k c t : run a k = c :: t -> eidx c = a.
  Proof. destruct k; cbn; intros H; [discriminate|]. injection H as <- _. apply ent_idx. Qed.
  Lemma run_last a k d : (0 < k)%nat -> eidx (last (run a k) d) = a + N.of_nat k - 1.
  Proof.
    revert a. induction k as [|k IH]; intros a Hk; [lia|]. destruct k as [|k].
    - cbn. rewrite ent_idx. lia.
    - change (run a (S (S k))) with (ent a :: run (a + 1) (S k)).
      assert (E : forall x y (t : list lentry), t <> [] -> last (x :: t) y = last t y) by (intros x y [|? ?] H; [congruence|reflexivity]).
      rewrite E by (cbn; discriminate). rewrite IH by lia. lia.
  Qed.
  Lemma run_rev_hd a k : (0 < k)%nat -> exists t, rev (run a k) = ent (a + N.of_nat k - 1) :: t.
  Proof.
    intros Hk. replace k with ((k - 1) + 1)%nat by lia. rewrite run_app, rev_app_distr. cbn.
    eexists. f_equal. f_equal. lia.
  Qed.

  Lemma smallest_run a k cs : (0 < k)%nat -> smallest {| buf := run a k; csize := cs |} = a.
  Proof. intros H. unfold smallest. cbn. destruct (run_hd a k H) as [t ->]. apply ent_idx. Qed.
  Lemma largest_run a k cs : (0 < k)%nat -> largest {| buf := run a k; csize := cs |} = a + N.of_nat k - 1.
  Proof. intros H. unfold largest. cbn. destruct (run_rev_hd a k H) as [t ->]. apply ent_idx. Qed.

  Lemma find_index_ge t a k : find_index (fun x => t <=? x) (run a k) = Nat.min k (N.to_nat (t - a)).
  Proof.
    revert a. induction k as [|k IH]; intros a; [reflexivity|]. cbn [run find_index]. rewrite ent_idx.
    destruct (N.leb_spec t a); [lia|]. rewrite IH. lia.
  Qed.
  Lemma find_index_gt t a k : find_index (fun x => t <? x) (run a k) = Nat.min k (N.to_nat (t + 1 - a)).
  Proof.
    revert a. induction k as [|k IH]; intros a; [reflexivity|]. cbn [run find_index]. rewrite ent_idx.
    destruct (N.ltb_spec t a); [lia|]. rewrite IH. lia.
  Qed.

  (* the entries of a run inside [lo, hi) *)
  Lemma filter_run lo hi a k :
    filter (inr_b lo hi) (run a k) = run (N.max a lo) (N.to_nat (N.min (a + N.of_nat k) hi - N.max a lo)).
  Proof.
    revert a. induction k as [|k IH]; intros a.
    - cbn. replace (N.to_nat _) with 0%nat by lia. reflexivity.
    - cbn [run filter]. unfold inr_b at 1. rewrite ent_idx, IH.
      destruct (N.leb_spec lo a); destruct (N.ltb_spec a hi); cbn [andb].
      + replace (N.max a lo) with a by lia. replace (N.max (a + 1) lo) with (a + 1) by lia.
        replace (N.to_nat (N.min (a + N.of_nat (S k)) hi - a)) with (S (N.to_nat (N.min (a + 1 + N.of_nat k) hi - (a + 1)))) by lia.
        reflexivity.
      + replace (N.to_nat (N.min (a + 1 + N.of_nat k) hi - N.max (a + 1) lo)) with 0%nat by lia.
        replace (N.to_nat (N.min (a + N.of_nat (S k)) hi - N.max a lo)) with 0%nat by lia. reflexivity.
      + replace (N.max (a + 1) lo) with (N.max a lo) by lia. f_equal. lia.
      + replace (N.max (a + 1) lo) with (N.max a lo) by lia. f_equal. lia.
  Qed.

  (* fixSize keeps a non-empty prefix *)
  Lemma fix_size_run a k mx : (0 < k)%nat -> exists j, (1 <= j <= k)%nat /\ fix_size (run a k) mx = run a j.
  Proof.
    intros Hk. unfold fix_size, fix_size_gen. rewrite run_firstn.
    exists (Nat.min (Nat.max 1 (fix_size_go (run a k) 0 mx)) k). split; [lia|reflexivity].
  Qed.
End Runs.

Section Cached.
  Variable cut : N -> N -> N -> nat.
  Variable ent : N -> lentry.
  Hypothesis ent_idx : forall i, eidx (ent i) = i.
  Notation run := (run ent).
  Variables (m : N) (n : nat).                    (* compaction marker, number of entries above it *)
  Definition lg : rlog := {| marker := m; lents := run (m + 1) n |}.
  Definition lastI : N := m + N.of_nat n.

  (* the cache buffer is one contiguous run of log entries (all above the marker) *)
  Definition CInv (c : cache) : Prop :=
    buf c = [] \/ exists a k, buf c = run a k /\ (0 < k)%nat /\ m + 1 <= a /\ a + N.of_nat k <= lastI + 1.

  Lemma largest_nil cs : largest {| buf := []; csize := cs |} = 0.
  Proof. reflexivity. Qed.

  (* cache.put of a run that continues the cached run (or into an empty cache) *)
  Lemma cput_run c x j :
    CInv c -> (0 < j)%nat -> m + 1 <= x -> x + N.of_nat j <= lastI + 1 ->
    (buf c = [] \/ x = largest c + 1) -> CInv (cput c (run x j)).
  Proof.
    intros HC Hj Hx Hxl Hcont. destruct c as [b cs]. unfold cput.
    destruct (run x j) as [|e0 t0] eqn:E0; [apply run_nil in E0; lia|]. rewrite <- E0. clear e0 t0 E0. cbv zeta. cbn [csize].
    rewrite run_length.
    remember (if (cs <? j)%nat then skipn (j - cs) (run x j) else run x j) as es eqn:Ees0.
    assert (Ees : exists d, (d <= j)%nat /\ es = run (x + N.of_nat d) (j - d) /\ ((d = 0%nat /\ (j <= cs)%nat) \/ (j - d = cs)%nat)).
    { subst es. destruct (Nat.ltb_spec cs j).
      - exists (j - cs)%nat. rewrite run_skipn. split; [lia|split; [reflexivity|lia]].
      - exists 0%nat. rewrite N.add_0_r, Nat.sub_0_r. split; [lia|split; [reflexivity|lia]]. }
    clear Ees0. destruct Ees as [d [Hd [Ees Hdc]]]. subst es.
    destruct HC as [Hb|[a [k [Hb [Hk [Ha Hal]]]]]]; cbn [buf csize] in *.
    - (* empty cache *)
      subst b. cbn [largest buf rev]. cbn [N.eqb]. unfold make_room_and_append. cbn [buf csize length].
      rewrite skipn_nil. assert (E : (if (cs <? length (run (x + N.of_nat d) (j - d)) + 0)%nat then [] else []) = (@nil lentry)) by (destruct (_ <? _)%nat; reflexivity).
      rewrite E. cbn [app buf].
      destruct (j - d)%nat as [|j'] eqn:Ej; [left; reflexivity|].
      right. exists (x + N.of_nat d), (S j'). repeat split; unfold lastI in *; try reflexivity; lia.
    - (* continues the cached run *)
      destruct Hcont as [Hcont|Hcont]; [subst b; destruct (run_hd ent a k Hk) as [t Et]; rewrite Et in Hcont; discriminate|].
      subst b. rewrite (largest_run ent ent_idx a k cs Hk) in *.
      replace (a + N.of_nat k - 1 =? 0) with false by (symmetry; apply N.eqb_neq; lia).
      rewrite find_index_gt by exact ent_idx. rewrite run_length.
      replace (Nat.min (j - d) (N.to_nat (a + N.of_nat k - 1 + 1 - (x + N.of_nat d)))) with 0%nat by lia.
      destruct (j - d)%nat as [|j'] eqn:Ej.
      + cbn. right. exists a, k. repeat split; assumption.
      + cbn [Nat.eqb skipn]. unfold make_room_and_append. cbn [buf csize]. rewrite !run_length.
        set (z := if (cs <? S j' + k)%nat then (S j' + k - cs)%nat else 0%nat).
        assert (Eb : (if (cs <? S j' + k)%nat then skipn (S j' + k - cs) (run a k) else run a k) = run (a + N.of_nat z) (k - z)).
        { unfold z. destruct (_ <? _)%nat; [apply run_skipn|]. now rewrite N.add_0_r, Nat.sub_0_r. }
        rewrite Eb. right.
        destruct Hdc as [[Hd0 Hjc]|Hdcs].
        * (* nothing trimmed: j <= cs, z <= k, the two runs join *)
          subst d. assert (Hz : (z <= k)%nat) by (unfold z; destruct (Nat.ltb_spec cs (S j' + k)); lia).
          exists (a + N.of_nat z), (k - z + S j')%nat. rewrite run_app. split; [cbn [LogReader.buf]; f_equal; f_equal; lia|].
          repeat split; unfold lastI in *; try reflexivity; lia.
        * (* the new entries alone fill the cache: the old buffer is evicted entirely *)
          assert (Hz : z = k) by (unfold z; destruct (Nat.ltb_spec cs (S j' + k)); lia).
          rewrite Hz, Nat.sub_diag. cbn [LogReader.buf app]. change (CacheFacts.run ent (a + N.of_nat k) 0) with (@nil lentry). cbn [app].
          exists (x + N.of_nat d), (S j'). repeat split; unfold lastI in *; try reflexivity; lia.
  Qed.

  Lemma llast_lg : llast lg = lastI.
  Proof. unfold llast, lg, lastI. cbn. now rewrite run_length. Qed.

  Lemma range_lg lo hi : m < lo -> range_entries lg lo hi = run lo (N.to_nat (N.min (lastI + 1) hi - lo)).
  Proof.
    intros H. rewrite range_entries_eq. unfold lg. cbn [lents]. rewrite filter_run by exact ent_idx.
    replace (N.max (m + 1) lo) with lo by lia. f_equal. unfold lastI. lia.
  Qed.

  (* readLog on a range that starts inside the log: a non-empty run from its start *)
  Lemma read_log_in F' L' mx : m < F' -> F' <= lastI -> F' < L' ->
    exists j, (1 <= j <= N.to_nat (N.min (lastI + 1) L' - F'))%nat /\ read_log cut lg {| rfirst := F'; rlast := L' |} mx = inl (run F' j).
  Proof.
    intros H1 H2 H3. unfold read_log. cbn [rfirst rlast]. rewrite llast_lg. cbn [marker lg].
    replace (lastI + 1 =? F') with false by (symmetry; apply N.eqb_neq; lia).
    replace (lastI <? F') with false by (symmetry; apply N.ltb_ge; lia).
    replace (F' <? m + 1) with false by (symmetry; apply N.ltb_ge; lia).
    unfold lib_entries. rewrite range_lg by assumption. rewrite run_firstn.
    eexists. split; [|reflexivity]. lia.
  Qed.
  Lemma read_log_end L' mx : read_log cut lg {| rfirst := lastI + 1; rlast := L' |} mx = inl [].
  Proof. unfold read_log. cbn [rfirst]. rewrite llast_lg. now rewrite N.eqb_refl. Qed.
  Lemma read_log_ahead F' L' mx : F' <= m -> read_log cut lg {| rfirst := F'; rlast := L' |} mx = inr ErrLogAhead.
  Proof.
    intros H. unfold read_log. cbn [rfirst rlast]. rewrite llast_lg. cbn [marker lg]. unfold lastI.
    replace (m + N.of_nat n + 1 =? F') with false by (symmetry; apply N.eqb_neq; lia).
    replace (m + N.of_nat n <? F') with false by (symmetry; apply N.ltb_ge; lia).
    replace (F' <? m + 1) with true by (symmetry; apply N.ltb_lt; lia). reflexivity.
  Qed.

  (* cache.get on a buffer that is a run *)
  Lemma cget_run a k cs F L : (0 < k)%nat -> F < L ->
    cget {| buf := run a k; csize := cs |} {| rfirst := F; rlast := L |} =
    if L <=? a then ([], {| rfirst := F; rlast := L |}, rzero)
    else if a + N.of_nat k - 1 <? F then ([], rzero, {| rfirst := F; rlast := L |})
    else let s := Nat.min k (N.to_nat (F - a)) in
         let e := Nat.min k (N.to_nat (L - a)) in
         (run (a + N.of_nat s) (e - s),
          (if F <? a then {| rfirst := F; rlast := a |} else rzero),
          (if a + N.of_nat k - 1 + 1 <? L then {| rfirst := a + N.of_nat k - 1 + 1; rlast := L |} else rzero)).
  Proof.
    intros Hk HFL. unfold cget, cget_gen. cbn [buf rfirst rlast].
    destruct (run a k) as [|e0 t0] eqn:E0; [apply run_nil in E0; lia|]. rewrite <- E0. clear e0 t0 E0.
    rewrite (smallest_run ent ent_idx a k cs Hk), (largest_run ent ent_idx a k cs Hk).
    destruct (L <=? a) eqn:E1; [reflexivity|]. destruct (a + N.of_nat k - 1 <? F) eqn:E2; [reflexivity|].
    apply N.leb_gt in E1. apply N.ltb_ge in E2.
    rewrite !find_index_ge by exact ent_idx. unfold slice. rewrite run_skipn, run_firstn. cbv zeta.
    set (s := Nat.min k (N.to_nat (F - a))). set (e := Nat.min k (N.to_nat (L - a))).
    replace (Nat.min (e - s) (k - s)) with (e - s)%nat by (unfold e, s; lia).
    destruct (run (a + N.of_nat s) (e - s)) as [|e1 t1] eqn:E3; [apply run_nil in E3; unfold e, s in E3; lia|].
    reflexivity.
  Qed.

  Lemma is_set_true a b : 1 <= a -> 1 <= b -> is_set {| rfirst := a; rlast := b |} = true.
  Proof.
    intros Ha Hb. unfold is_set. cbn. destruct (N.eqb_spec a 0); [lia|]. destruct (N.eqb_spec b 0); [lia|]. reflexivity.
  Qed.

  (* an answer that is a non-empty run from F inside [F, L) is what the contract asks for *)
  Lemma exact_run applied F j : m < F -> F <= applied -> applied <= lastI -> (1 <= j <= N.to_nat (applied + 1 - F))%nat ->
    exact_answer lg applied F (inl (run F j)).
  Proof.
    intros H1 H2 H3 Hj. unfold exact_answer. cbn [marker lg].
    replace (F =? applied + 1) with false by (symmetry; apply N.eqb_neq; lia).
    replace (F <=? m) with false by (symmetry; apply N.leb_gt; lia).
    exists j. split; [lia|]. rewrite range_lg by assumption. rewrite run_firstn. do 2 f_equal. lia.
  Qed.

  Theorem cached_exact c applied F mx :
    CInv c -> 1 <= F -> m <= applied -> applied <= lastI -> (m < F <= applied + 1 \/ F <= m) ->
    exact_answer lg applied F (fst (cached_query cut c lg {| rfirst := F; rlast := applied + 1 |} mx)) /\
    CInv (snd (cached_query cut c lg {| rfirst := F; rlast := applied + 1 |} mx)).
  Proof.
    intros HC H1 Hma Hap HF. set (L := applied + 1) in *.
    unfold cached_query, cached_query_gen, cached_query_gen2. cbn [rfirst rlast].
    destruct (N.eqb_spec F L) as [EFL|NFL].
    { cbn [fst snd]. split; [|exact HC]. unfold exact_answer. fold L. now rewrite EFL, N.eqb_refl. }
    fold (cget c {| rfirst := F; rlast := L |}).
    destruct c as [b cs]. destruct HC as [Hb|[a [k [Hb [Hk [Ha Hal]]]]]]; cbn [buf] in Hb; subst b.
    - (* empty cache: everything comes from the log, and is cached *)
      unfold cget, cget_gen. cbn [buf]. rewrite is_set_true by (unfold L; lia).
      destruct HF as [HF|HF].
      + assert (HFl : F < L) by lia.
        destruct (read_log_in F L mx) as [j [Hj Hr]]; try lia. rewrite Hr.
        destruct (run F j) as [|l0 lr] eqn:El; [apply run_nil in El; lia|]. rewrite <- El.
        cbn [length Nat.eqb fst snd]. split.
        * apply exact_run; unfold L, lastI in *; lia.
        * apply cput_run; [left; reflexivity|lia|lia|unfold L in *; lia|now left].
      + rewrite read_log_ahead by assumption. cbn [fst snd]. split; [|left; reflexivity].
        unfold exact_answer. fold L. cbn [marker lg].
        replace (F =? L) with false by (symmetry; apply N.eqb_neq; assumption).
        replace (F <=? m) with true by (symmetry; apply N.leb_le; assumption). reflexivity.
    - (* the cache holds the run a .. a+k-1 *)
      assert (HCr : CInv {| buf := run a k; csize := cs |}) by (right; exists a, k; repeat split; assumption).
      destruct HF as [HF|HF].
      + assert (HFl : F < L) by lia.
        rewrite cget_run by assumption.
        destruct (N.leb_spec L a) as [HLa|HLa].
        { (* the whole range lies before the cache *)
          rewrite is_set_true by (unfold L; lia).
          destruct (read_log_in F L mx) as [j [Hj Hr]]; try lia. rewrite Hr.
          destruct (run F j) as [|l0 lr] eqn:El; [apply run_nil in El; lia|]. rewrite <- El.
          cbn [buf]. rewrite run_length. replace (k =? 0)%nat with false by (symmetry; apply Nat.eqb_neq; lia).
          cbn [fst snd]. split; [|exact HCr]. apply exact_run; unfold L, lastI in *; lia. }
        destruct (N.ltb_spec (a + N.of_nat k - 1) F) as [HaF|HaF].
        { (* the whole range lies behind the cache *)
          replace (is_set rzero) with false by reflexivity. rewrite is_set_true by (unfold L; lia).
          destruct (read_log_in F L mx) as [j [Hj Hr]]; try lia. rewrite Hr.
          destruct (run F j) as [|l0 lr] eqn:El; [apply run_nil in El; lia|].
          assert (El0 : eidx l0 = F) by exact (run_cons_idx ent ent_idx _ _ _ _ El).
          rewrite <- El. rewrite El0. rewrite (largest_run ent ent_idx a k cs Hk).
          cbn [fst snd]. split; [apply exact_run; unfold L, lastI in *; lia|].
          destruct (N.eqb_spec (F - 1) (a + N.of_nat k - 1)) as [Ec|Ec]; [|exact HCr].
          apply cput_run; [exact HCr|lia|lia|unfold L in *; lia|right; rewrite (largest_run ent ent_idx a k cs Hk); lia]. }
        (* overlap *)
        cbv zeta. set (s := Nat.min k (N.to_nat (F - a))). set (e := Nat.min k (N.to_nat (L - a))).
        assert (Hse : (s < e)%nat) by (unfold s, e; lia).
        assert (HFs : a + N.of_nat s = N.max F a) by (unfold s; lia).
        destruct (N.ltb_spec F a) as [HFa|HFa].
        * (* a gap before the cache has to be read *)
          rewrite is_set_true by lia.
          destruct (read_log_in F a mx) as [j [Hj Hr]]; try lia. rewrite Hr.
          destruct (run F j) as [|l0 lr] eqn:El; [apply run_nil in El; lia|]. rewrite <- El.
          destruct (run (a + N.of_nat s) (e - s)) as [|ce ct] eqn:Ec; [apply run_nil in Ec; lia|].
          assert (Ece : eidx ce = a + N.of_nat s) by exact (run_cons_idx ent ent_idx _ _ _ _ Ec).
          rewrite <- Ec. rewrite Ece. rewrite (run_last ent ent_idx F j l0) by lia.
          cbn [buf]. rewrite run_length. replace (k =? 0)%nat with false by (symmetry; apply Nat.eqb_neq; lia).
          destruct (N.eqb_spec (F + N.of_nat j - 1) (a + N.of_nat s - 1)) as [Ej|Ej]; cbn [fst snd]; (split; [|exact HCr]).
          -- (* the gap was read completely: log entries and cached entries join *)
             assert (Ejoin : run F j ++ run (a + N.of_nat s) (e - s) = run F (j + (e - s))).
             { rewrite run_app. do 2 f_equal. lia. }
             rewrite Ejoin. destruct (fix_size_run ent F (j + (e - s)) mx) as [j' [Hj' Efs]]; [lia|]. unfold fix_size in Efs. rewrite Efs.
             apply exact_run; unfold e, L, lastI in *; lia.
          -- apply exact_run; unfold L, lastI in *; lia.
        * replace (is_set rzero) with false by reflexivity.
          assert (HsF : a + N.of_nat s = F) by lia.
          destruct (N.ltb_spec (a + N.of_nat k - 1 + 1) L) as [HkL|HkL].
          -- (* entries behind the cache have to be read *)
             rewrite is_set_true by lia.
             assert (Hek : e = k) by (unfold e; lia).
             destruct (N.eqb_spec (a + N.of_nat k - 1 + 1) (lastI + 1)) as [Eend|Eend].
             ++ rewrite Eend, read_log_end. cbn [fst snd]. split; [|exact HCr].
                rewrite HsF. destruct (fix_size_run ent F (e - s) mx) as [j' [Hj' Efs]]; [lia|]. unfold fix_size in Efs. rewrite Efs.
                apply exact_run; unfold L, lastI in *; lia.
             ++ destruct (read_log_in (a + N.of_nat k - 1 + 1) L mx) as [j [Hj Hr]]; try (unfold lastI in *; lia). rewrite Hr.
                destruct (run (a + N.of_nat k - 1 + 1) j) as [|l0 lr] eqn:El; [apply run_nil in El; lia|]. rewrite <- El.
                destruct (run (a + N.of_nat s) (e - s)) as [|ce ct] eqn:Ec; [apply run_nil in Ec; lia|]. rewrite <- Ec.
                cbn [fst snd]. split.
                ** rewrite HsF.
                   assert (Ejoin : run F (e - s) ++ run (a + N.of_nat k - 1 + 1) j = run F ((e - s) + j)).
                   { rewrite run_app. do 2 f_equal. lia. }
                   rewrite Ejoin. destruct (fix_size_run ent F ((e - s) + j) mx) as [j' [Hj' Efs]]; [lia|]. unfold fix_size in Efs. rewrite Efs.
                   apply exact_run; unfold L, lastI in *; lia.
                ** apply cput_run; [exact HCr|lia|unfold lastI in *; lia|unfold L in *; lia|right; rewrite (largest_run ent ent_idx a k cs Hk); lia].
          -- (* the whole range is cached *)
             replace (is_set rzero) with false by reflexivity. cbn [fst snd]. split; [|exact HCr].
             rewrite HsF. destruct (fix_size_run ent F (e - s) mx) as [j' [Hj' Efs]]; [lia|]. unfold fix_size in Efs. rewrite Efs.
             apply exact_run; unfold e, L, lastI in *; lia.
      + (* a compacted index: the cached entries are all above the marker, so the log is asked and says so *)
        assert (HFl : F < L) by (unfold L; lia).
        rewrite cget_run by assumption.
        destruct (N.leb_spec L a) as [HLa|HLa].
        { rewrite is_set_true by (unfold L; lia). rewrite read_log_ahead by assumption. cbn [fst snd].
          split; [|exact HCr]. unfold exact_answer. fold L. cbn [marker lg].
          replace (F =? L) with false by (symmetry; apply N.eqb_neq; assumption).
          replace (F <=? m) with true by (symmetry; apply N.leb_le; assumption). reflexivity. }
        replace (a + N.of_nat k - 1 <? F) with false by (symmetry; apply N.ltb_ge; lia).
        cbv zeta. replace (F <? a) with true by (symmetry; apply N.ltb_lt; lia).
        rewrite is_set_true by lia. rewrite read_log_ahead by assumption. cbn [fst snd].
        split; [|exact HCr]. unfold exact_answer. fold L. cbn [marker lg].
        replace (F =? L) with false by (symmetry; apply N.eqb_neq; assumption).
        replace (F <=? m) with true by (symmetry; apply N.leb_le; assumption). reflexivity.
  Qed.
End Cached.

(* ---- from the canonical form back to any well-formed log ---- *)
Definition ent_of (l : rlog) (i : N) : lentry :=
  match find (fun e => eidx e =? i) (lents l) with
  | Some e => e
  | None => {| eidx := i; epay := 0; esz := 0; eenc := false |}
  end.

Lemma ent_of_idx l i : eidx (ent_of l i) = i.
Proof.
  unfold ent_of. destruct (find _ _) as [e|] eqn:E; [|reflexivity].
  apply find_some in E. destruct E as [_ E]. now apply N.eqb_eq in E.
Qed.

Lemma consec_find L : forall m0 e, consec m0 L -> In e L -> find (fun x => eidx x =? eidx e) L = Some e.
Proof.
  induction L as [|x L IH]; intros m0 e Hc Hin; [contradiction|]. cbn [consec] in Hc. destruct Hc as [Hx Hc].
  cbn [find]. destruct Hin as [->|Hin]; [now rewrite N.eqb_refl|].
  pose proof (consec_lower _ _ Hc) as Hl. rewrite Forall_forall in Hl. specialize (Hl e Hin).
  destruct (N.eqb_spec (eidx x) (eidx e)) as [E|E]; [lia|]. now apply (IH (m0 + 1)).
Qed.

Lemma consec_is_run (ent : N -> lentry) L : forall m0, consec m0 L -> (forall e, In e L -> ent (eidx e) = e) ->
  L = run ent (m0 + 1) (length L).
Proof.
  induction L as [|x L IH]; intros m0 Hc He; [reflexivity|]. cbn [consec] in Hc. destruct Hc as [Hx Hc].
  cbn [length run]. f_equal.
  - rewrite <- Hx. symmetry. apply He. now left.
  - apply IH; [assumption|]. intros e Hin. apply He. now right.
Qed.

Lemma wf_is_run l : wf_log l -> lents l = run (ent_of l) (marker l + 1) (length (lents l)).
Proof.
  intros Hwf. apply consec_is_run; [exact Hwf|]. intros e Hin. unfold ent_of.
  now rewrite (consec_find _ _ _ Hwf Hin).
Qed.

(* the invariant in terms of the log itself: the buffer is a contiguous slice of the log's entries *)
Definition cache_ok (l : rlog) (c : cache) : Prop :=
  buf c = [] \/ exists j k, buf c = firstn k (skipn j (lents l)) /\ (0 < k)%nat /\ (j + k <= length (lents l))%nat.

Lemma cache_ok_CInv l c : wf_log l -> (cache_ok l c <-> CInv (ent_of l) (marker l) (length (lents l)) c).
Proof.
  intros Hwf. pose proof (wf_is_run l Hwf) as Er. unfold cache_ok, CInv, lastI. split.
  - intros [H|[j [k [Hb [Hk Hjk]]]]]; [now left|]. right. rewrite Er, run_skipn, run_firstn in Hb.
    exists (marker l + 1 + N.of_nat j), k. replace (Nat.min k (length (lents l) - j)) with k in Hb by lia.
    repeat split; try assumption; lia.
  - intros [H|[a [k [Hb [Hk [Ha Hal]]]]]]; [now left|]. right.
    exists (N.to_nat (a - (marker l + 1))), k. rewrite Er, run_skipn, run_firstn.
    replace (Nat.min k (length (lents l) - N.to_nat (a - (marker l + 1)))) with k by lia.
    replace (marker l + 1 + N.of_nat (N.to_nat (a - (marker l + 1)))) with a by lia.
    repeat split; try assumption; rewrite ?run_length; lia.
Qed.

(* one answer of the cached reader, for any well-formed log *)
Theorem cached_answer_exact cut (l : rlog) c applied F mx :
  wf_log l -> cache_ok l c -> 1 <= F -> marker l <= applied -> applied <= llast l ->
  (marker l < F <= applied + 1 \/ F <= marker l) ->
  exact_answer l applied F (fst (cached_query cut c l {| rfirst := F; rlast := applied + 1 |} mx)) /\
  cache_ok l (snd (cached_query cut c l {| rfirst := F; rlast := applied + 1 |} mx)).
Proof.
  intros Hwf Hc H1 Hm Ha HF. pose proof (wf_is_run l Hwf) as Er.
  assert (El : l = lg (ent_of l) (marker l) (length (lents l))).
  { destruct l as [mk es]. unfold lg. cbn [marker lents] in *. now rewrite <- Er. }
  rewrite (cache_ok_CInv l _ Hwf). rewrite (cache_ok_CInv l c Hwf) in Hc.
  assert (G : exact_answer (lg (ent_of l) (marker l) (length (lents l))) applied F
                (fst (cached_query cut c (lg (ent_of l) (marker l) (length (lents l))) {| rfirst := F; rlast := applied + 1 |} mx)) /\
              CInv (ent_of l) (marker l) (length (lents l))
                (snd (cached_query cut c (lg (ent_of l) (marker l) (length (lents l))) {| rfirst := F; rlast := applied + 1 |} mx))).
  { apply cached_exact; try assumption; try apply ent_of_idx; unfold lastI, llast in *; lia. }
  rewrite <- El in G. exact G.
Qed.

(* the replication stream served through the cached reader is exact (stream_exact instantiated) *)
Theorem cached_stream_exact cut (l : rlog) applied mx :
  wf_log l -> marker l <= applied -> applied <= llast l ->
  forall fuel c F, cache_ok l c -> marker l < F <= applied + 1 ->
  (length (range_entries l F (applied + 1)) < fuel)%nat ->
  let ms := fst (replicate_loop fuel (fun c rg => cached_query cut c l rg mx) c applied {| rfirst := F; rlast := applied + 1 |}) in
  cmds_of ms = map entry_to_command (range_entries l F (applied + 1)) /\
  exists front, ms = front ++ [MUpToDate applied] /\ Forall (fun m => exists cs, m = MCommands applied cs /\ cs <> []) front.
Proof.
  intros Hwf Hm Ha fuel c F Hc HF Hfuel.
  apply (stream_exact l applied Hwf Ha (fun c rg => cached_query cut c l rg mx) (cache_ok l)); try assumption.
  intros c0 F0 Hc0 H1 HF0. now apply cached_answer_exact.
Qed.
