From Coq Require Import Lia.
From Verif Require Import Model.Bytes Model.LogReader.

(* ---------- fixSize ---------- *)
Lemma fix_size_prefix kf es mx : exists r, es = fix_size_gen kf es mx ++ r.
Proof. unfold fix_size_gen. eexists. symmetry. apply firstn_skipn. Qed.

Lemma fix_size_nonempty es mx : es <> [] -> fix_size es mx <> [].
Proof.
  unfold fix_size, fix_size_gen. destruct es as [|e r]; [congruence|]. intros _.
  destruct (Nat.max 1 (fix_size_go (e :: r) 0 mx)) eqn:E; [lia|]. simpl. discriminate.
Qed.

Lemma firstn_is_prefix {A} n (l : list A) : exists r, l = firstn n l ++ r.
Proof. eexists. symmetry. apply firstn_skipn. Qed.

(* ---------- logs with consecutive indices ---------- *)
Fixpoint consec (m : N) (l : list lentry) : Prop :=
  match l with [] => True | e :: r => eidx e = m + 1 /\ consec (m + 1) r end.
Definition wf_log (l : rlog) : Prop := consec (marker l) (lents l).

Definition inr_b (lo hi : N) (e : lentry) : bool := (lo <=? eidx e) && (eidx e <? hi).

Lemma range_entries_eq l lo hi : range_entries l lo hi = filter (inr_b lo hi) (lents l).
Proof. reflexivity. Qed.

Lemma consec_lower m l : consec m l -> Forall (fun e => m < eidx e) l.
Proof.
  revert m; induction l as [|e r IH]; intros m H; constructor.
  - destruct H as [-> _]. lia.
  - destruct H as [_ H]. eapply Forall_impl; [|apply (IH _ H)]. intros x Hx. simpl in Hx. lia.
Qed.

Lemma consec_length m l : consec m l -> Forall (fun e => eidx e <= m + N.of_nat (length l)) l.
Proof.
  revert m; induction l as [|e r IH]; intros m H; constructor.
  - destruct H as [-> _]. simpl length. lia.
  - destruct H as [_ H]. eapply Forall_impl; [|apply (IH _ H)]. intros x Hx. simpl in *. lia.
Qed.

Lemma filter_filter {A} (f g : A -> bool) (l : list A) : filter f (filter g l) = filter (fun x => g x && f x) l.
Proof. induction l as [|a r IH]; simpl; [reflexivity|]. destruct (g a); simpl; [destruct (f a)|]; now rewrite IH. Qed.
Lemma filter_false {A} (l : list A) : filter (fun _ => false) l = [].
Proof. induction l; auto. Qed.
Lemma filter_true {A} (l : list A) : filter (fun _ => true) l = l.
Proof. induction l; simpl; congruence. Qed.

(* the entries of [lo,hi) of a consecutive log are consecutive from lo (when lo is above the marker) *)
Lemma range_consec l : forall m lo hi, consec m l -> m + 1 <= lo -> consec (lo - 1) (filter (inr_b lo hi) l).
Proof.
  induction l as [|e r IH]; intros m lo hi Hc Hlo; [exact I|].
  destruct Hc as [He Hc]. cbn [filter]. unfold inr_b at 1. rewrite He.
  destruct (N.leb_spec lo (m + 1)) as [H1|H1]; cbn [andb].
  - assert (lo = m + 1) by lia. subst lo.
    assert (Er : filter (inr_b (m + 1) hi) r = filter (inr_b (m + 1 + 1) hi) r).
    { apply filter_ext_in. intros x Hx. unfold inr_b.
      pose proof (consec_lower _ _ Hc) as Hl. rewrite Forall_forall in Hl. specialize (Hl x Hx).
      replace (m + 1 <=? eidx x) with true by (symmetry; apply N.leb_le; lia).
      replace (m + 1 + 1 <=? eidx x) with true by (symmetry; apply N.leb_le; lia). reflexivity. }
    destruct (N.ltb_spec (m + 1) hi) as [H2|H2].
    + cbn [consec]. split; [lia|]. rewrite Er.
      replace (m + 1 - 1 + 1) with (m + 1 + 1 - 1) by lia. apply (IH (m + 1)); [exact Hc|lia].
    + rewrite Er. replace (m + 1 - 1) with (m + 1 + 1 - 1 - 1) by lia.
      (* hi <= m+1: nothing of the rest qualifies *)
      assert (E0 : filter (inr_b (m + 1 + 1) hi) r = []).
      { pose proof (consec_lower _ _ Hc) as Hl. rewrite Forall_forall in Hl.
        rewrite (filter_ext_in _ (fun _ => false)); [apply filter_false|].
        intros x Hx. specialize (Hl x Hx). unfold inr_b.
        replace (eidx x <? hi) with false by (symmetry; apply N.ltb_ge; lia). apply andb_false_r. }
      rewrite E0. exact I.
  - apply (IH (m + 1)); [exact Hc|lia].
Qed.

Lemma consec_filter_ge R : forall k n, consec k R ->
  filter (fun e => k + 1 + N.of_nat n <=? eidx e) R = skipn n R.
Proof.
  induction R as [|e r IH]; intros k n Hc; [now destruct n|].
  destruct Hc as [He Hc]. cbn [filter]. rewrite He. destruct n as [|n].
  - replace (k + 1 + N.of_nat 0 <=? k + 1) with true by (symmetry; apply N.leb_le; lia).
    cbn [skipn]. f_equal.
    pose proof (consec_lower _ _ Hc) as Hl.
    rewrite (filter_ext_in _ (fun _ => true)); [apply filter_true|].
    intros x Hx. rewrite Forall_forall in Hl. specialize (Hl x Hx). apply N.leb_le. lia.
  - replace (k + 1 + N.of_nat (S n) <=? k + 1) with false by (symmetry; apply N.leb_gt; lia).
    cbn [skipn]. rewrite <- (IH (k + 1) n Hc). apply filter_ext. intros x. f_equal. lia.
Qed.

Lemma consec_firstn_last R : forall k n d, consec k R -> firstn n R <> [] ->
  eidx (last (firstn n R) d) = k + N.of_nat (length (firstn n R)).
Proof.
  induction R as [|e r IH]; intros k n d Hc Hne; [destruct n; simpl in Hne; congruence|].
  destruct n as [|n]; [simpl in Hne; congruence|]. destruct Hc as [He Hc]. cbn [firstn].
  destruct (firstn n r) as [|e2 r2] eqn:E.
  - simpl. lia.
  - change (last (e :: e2 :: r2) d) with (last (e2 :: r2) d). rewrite <- E.
    rewrite (IH (k + 1) n d Hc) by (rewrite E; discriminate). rewrite E. simpl length. lia.
Qed.

Lemma consec_upper k R hi : consec k R -> Forall (fun e => eidx e < hi) R -> k + N.of_nat (length R) < hi \/ R = [].
Proof.
  revert k; induction R as [|e r IH]; intros k Hc Hf; [now right|]. left.
  destruct Hc as [He Hc]. inversion Hf as [|? ? H1 H2]; subst.
  destruct (IH (k + 1) Hc H2) as [H|H]; [|rewrite H]; simpl length; lia.
Qed.

(* ---------- the reader contract and the replication stream ---------- *)
Section Stream.
  Variable l : rlog.
  Variable applied : N.
  Hypothesis Hwf : wf_log l.
  Hypothesis Happ : applied <= llast l.
  Let L := applied + 1.

  (* what the property demands of one answer for the range [F, applied+1) *)
  Definition exact_answer (F : N) (a : list lentry + qerr) : Prop :=
    if F =? L then a = inl []
    else if F <=? marker l then a = inr ErrLogAhead
    else exists n, (1 <= n)%nat /\ a = inl (firstn n (range_entries l F L)).

  Variable q : cache -> lrange -> (list lentry + qerr) * cache.
  Variable Inv : cache -> Prop.
  Hypothesis q_exact : forall c F, Inv c -> 1 <= F -> marker l < F <= L \/ F <= marker l ->
    exact_answer F (fst (q c {| rfirst := F; rlast := L |})) /\ Inv (snd (q c {| rfirst := F; rlast := L |})).

  Fixpoint cmds_of (ms : list rmsg) : list (rcmd * N) :=
    match ms with
    | MCommands _ cs :: r => cs ++ cmds_of r
    | _ :: r => cmds_of r
    | [] => []
    end.

  Lemma range_upper F : Forall (fun e => eidx e < L) (range_entries l F L).
  Proof.
    unfold range_entries. apply Forall_forall. intros x Hx. apply filter_In in Hx. destruct Hx as [_ Hx].
    apply andb_true_iff in Hx. destruct Hx as [_ Hx]. now apply N.ltb_lt.
  Qed.

  Lemma range_shift F n : marker l < F ->
    range_entries l (F + N.of_nat n) L = skipn n (range_entries l F L).
  Proof.
    intros HF. pose proof (range_consec (lents l) (marker l) F L Hwf ltac:(lia)) as Hc.
    rewrite !range_entries_eq.
    rewrite <- (consec_filter_ge _ (F - 1) n Hc). rewrite filter_filter.
    apply filter_ext. intros x. unfold inr_b.
    destruct (N.leb_spec (F + N.of_nat n) (eidx x)), (N.leb_spec F (eidx x)), (N.leb_spec (F - 1 + 1 + N.of_nat n) (eidx x)),
             (N.ltb_spec (eidx x) L); simpl; try reflexivity; lia.
  Qed.

  Theorem stream_exact : forall fuel c F, Inv c -> marker l < F <= L ->
    (length (range_entries l F L) < fuel)%nat ->
    let ms := fst (replicate_loop fuel q c applied {| rfirst := F; rlast := L |}) in
    cmds_of ms = map entry_to_command (range_entries l F L) /\
    exists front, ms = front ++ [MUpToDate applied] /\ Forall (fun m => exists cs, m = MCommands applied cs /\ cs <> []) front.
  Proof.
    induction fuel as [|fuel IH]; intros c F HI HF Hlen; [lia|].
    cbn [replicate_loop].
    destruct (q_exact c F HI ltac:(lia) (or_introl HF)) as [Hex HI'].
    destruct (q c {| rfirst := F; rlast := L |}) as [a c']. cbn [fst snd] in *.
    unfold exact_answer in Hex.
    pose proof (range_consec (lents l) (marker l) F L Hwf ltac:(lia)) as Hc. rewrite <- range_entries_eq in Hc.
    destruct (N.eqb_spec F L) as [->|HneL].
    - subst a. cbn [fst]. assert (E : range_entries l L L = []).
      { unfold range_entries. rewrite (filter_ext_in _ (fun _ => false)); [apply filter_false|].
        intros x _. destruct (N.leb_spec L (eidx x)), (N.ltb_spec (eidx x) L); simpl; try reflexivity; lia. }
      rewrite E. split; [reflexivity|]. exists []. split; [reflexivity|constructor].
    - replace (F <=? marker l) with false in Hex by (symmetry; apply N.leb_gt; lia).
      destruct Hex as (n & Hn & ->).
      set (R := range_entries l F L) in *.
      destruct (firstn n R) as [|e0 er] eqn:Efn.
      + (* the range is empty although F < L: cannot happen when F <= applied <= last; then the answer is the empty batch *)
        cbn [fst]. assert (R = []) by (destruct R; [reflexivity|destruct n; [lia|discriminate]]).
        rewrite H. split; [reflexivity|]. exists []. split; [reflexivity|constructor].
      + assert (Hne : firstn n R <> []) by (rewrite Efn; discriminate).
        pose proof (consec_firstn_last R (F - 1) n e0 Hc Hne) as Hlast. rewrite Efn in Hlast.
        set (k := length (e0 :: er)) in *.
        assert (Hk : (1 <= k <= length R)%nat).
        { unfold k. rewrite <- Efn, firstn_length. destruct R; [destruct n; discriminate|]. simpl length. lia. }
        assert (Hnext : N.min (eidx (last (e0 :: er) e0) + 1) L = F + N.of_nat k).
        { rewrite Hlast.
          destruct (consec_upper (F - 1) R L Hc (range_upper F)) as [Hu|Hu]; [|rewrite Hu in Hk; simpl in Hk; lia].
          lia. }
        cbn [rlast]. rewrite Hnext.
        assert (HF' : marker l < F + N.of_nat k <= L).
        { destruct (consec_upper (F - 1) R L Hc (range_upper F)) as [Hu|Hu]; [|rewrite Hu in Hk; simpl in Hk; lia]. lia. }
        assert (Hrest : range_entries l (F + N.of_nat k) L = skipn k R) by (apply range_shift; lia).
        specialize (IH c' (F + N.of_nat k) HI' HF').
        rewrite Hrest in IH. rewrite skipn_length in IH. specialize (IH ltac:(lia)). cbn zeta in IH.
        destruct (replicate_loop fuel q c' applied {| rfirst := F + N.of_nat k; rlast := L |}) as [ms c''].
        cbn [fst] in *. destruct IH as [IH1 (front & IH2 & IH3)].
        split.
        * cbn [cmds_of]. rewrite IH1, <- map_app. f_equal.
          assert (He : e0 :: er = firstn k R).
          { unfold k. rewrite <- Efn. rewrite firstn_length.
            destruct (Nat.le_ge_cases n (length R)) as [Hn'|Hn'].
            - now rewrite Nat.min_l by assumption.
            - rewrite Nat.min_r by assumption. now rewrite firstn_all, firstn_all2 by assumption. }
          rewrite He. apply firstn_skipn.
        * exists (MCommands applied (map entry_to_command (e0 :: er)) :: front). split; [now rewrite IH2|].
          constructor; [|exact IH3]. eexists. split; [reflexivity|discriminate].
  Qed.
End Stream.

(* ---------- the uncached reader meets the contract, for every library cut ---------- *)
Theorem simple_exact cut l applied mx F : applied <= llast l -> F <= applied + 1 ->
  exact_answer l applied F (simple_query cut l {| rfirst := F; rlast := applied + 1 |} mx).
Proof.
  intros Ha HF. unfold exact_answer, simple_query; cbn [rfirst rlast].
  destruct (N.eqb_spec F (applied + 1)) as [E|E]; [reflexivity|].
  unfold read_log; cbn [rfirst rlast].
  replace (llast l + 1 =? F) with false by (symmetry; apply N.eqb_neq; lia).
  replace (llast l <? F) with false by (symmetry; apply N.ltb_ge; lia).
  destruct (N.leb_spec F (marker l)) as [H|H].
  - replace (F <? marker l + 1) with true by (symmetry; apply N.ltb_lt; lia). reflexivity.
  - replace (F <? marker l + 1) with false by (symmetry; apply N.ltb_ge; lia).
    exists (Nat.max 1 (cut F (applied + 1) mx)). split; [lia|reflexivity].
Qed.

(* beyond applied+1 the server answers 'leader behind' before asking the reader *)
Lemma replicate_leader_behind fuel (q : cache -> lrange -> (list lentry + qerr) * cache) c applied from : applied + 1 < from ->
  fst (replicate fuel q c applied from) = [MLeaderBehind].
Proof. intros H. unfold replicate. replace (applied + 1 <? from) with true by (symmetry; apply N.ltb_lt; lia). reflexivity. Qed.

Lemma replicate_use_snapshot fuel (q : cache -> lrange -> (list lentry + qerr) * cache) (Inv : cache -> Prop) l c applied from :
  (forall c F, Inv c -> 1 <= F -> marker l < F <= applied + 1 \/ F <= marker l ->
     exact_answer l applied F (fst (q c {| rfirst := F; rlast := applied + 1 |})) /\ Inv (snd (q c {| rfirst := F; rlast := applied + 1 |}))) ->
  Inv c -> 1 <= from -> from <= marker l -> marker l <= applied ->
  fst (replicate (S fuel) q c applied from) = [MUseSnapshot].
Proof.
  intros Hq HI H1 Hf Hm. unfold replicate. replace (applied + 1 <? from) with false by (symmetry; apply N.ltb_ge; lia).
  cbn [replicate_loop]. destruct (Hq c from HI H1 (or_intror Hf)) as [Hex _].
  destruct (q c _) as [a c']. cbn [fst] in *. unfold exact_answer in Hex.
  replace (from =? applied + 1) with false in Hex by (symmetry; apply N.eqb_neq; lia).
  replace (from <=? marker l) with true in Hex by (symmetry; apply N.leb_le; lia). now subst a.
Qed.
