From Coq Require Import Lia.
From Verif Require Import Model.Bytes.

Lemma lex_refl a : lex_compare a a = Eq.
Proof. induction a as [|x a IH]; simpl; [reflexivity|]. now rewrite N.compare_refl. Qed.

Lemma lex_eq a b : lex_compare a b = Eq <-> a = b.
Proof.
  split; [|intros ->; apply lex_refl].
  revert b; induction a as [|x a IH]; intros [|y b]; simpl; try discriminate; [reflexivity|].
  destruct (N.compare_spec x y) as [->|H|H]; try discriminate.
  intros E. f_equal. now apply IH.
Qed.

Lemma lex_antisym a b : lex_compare b a = CompOpp (lex_compare a b).
Proof.
  revert b; induction a as [|x a IH]; intros [|y b]; simpl; try reflexivity.
  rewrite (N.compare_antisym x y). destruct (N.compare x y); simpl; auto.
Qed.

Lemma lex_lt_trans a b c : lex_compare a b = Lt -> lex_compare b c = Lt -> lex_compare a c = Lt.
Proof.
  revert b c; induction a as [|x a IH]; intros [|y b] [|z c]; simpl; try discriminate; auto.
  destruct (N.compare_spec x y) as [->|H1|H1]; try discriminate.
  - destruct (N.compare_spec y z) as [->|H2|H2]; try discriminate; auto.
    apply IH.
  - destruct (N.compare_spec y z) as [->|H2|H2]; try discriminate; intros _ _.
    + destruct (N.compare_spec x z); try lia; auto.
    + destruct (N.compare_spec x z); try lia; auto.
Qed.

Lemma lex_prefix p a b : lex_compare (p ++ a) (p ++ b) = lex_compare a b.
Proof. induction p as [|x p IH]; simpl; [reflexivity|]. now rewrite N.compare_refl. Qed.

Lemma bltb_lt a b : bltb a b = true <-> blt a b.
Proof. unfold bltb, blt. destruct (lex_compare a b); split; congruence. Qed.

Lemma bleb_le a b : bleb a b = true <-> ble a b.
Proof. unfold bleb, ble. destruct (lex_compare a b); split; congruence. Qed.

Lemma beqb_eq a b : beqb a b = true <-> a = b.
Proof. unfold beqb. rewrite <- lex_eq. destruct (lex_compare a b); split; congruence. Qed.

Lemma bleb_bltb a b : bleb a b = negb (bltb b a).
Proof. unfold bleb, bltb. rewrite (lex_antisym a b). destruct (lex_compare a b); reflexivity. Qed.

Lemma lex_le_lt_trans a b c : lex_compare a b <> Gt -> lex_compare b c = Lt -> lex_compare a c = Lt.
Proof.
  intros H1 H2. destruct (lex_compare a b) eqn:E; try congruence.
  - apply lex_eq in E. now subst.
  - eapply lex_lt_trans; eauto.
Qed.

Lemma lex_lt_le_trans a b c : lex_compare a b = Lt -> lex_compare b c <> Gt -> lex_compare a c = Lt.
Proof.
  intros H1 H2. destruct (lex_compare b c) eqn:E; try congruence.
  - apply lex_eq in E. now subst.
  - eapply lex_lt_trans; eauto.
Qed.

Lemma lex_lt_irrefl a : lex_compare a a <> Lt.
Proof. rewrite lex_refl. discriminate. Qed.

Lemma skipn_app_len {A} (l x : list A) : skipn (length l) (l ++ x) = x.
Proof. induction l; simpl; auto. Qed.

Lemma firstn_app_len {A} (l x : list A) : firstn (length l) (l ++ x) = l.
Proof. induction l; simpl; f_equal; auto. Qed.

Lemma le_val_bytes n x : x < 256 ^ N.of_nat n -> le_val (le_bytes n x) = x.
Proof.
  revert x; induction n as [|n IH]; intros x H.
  - simpl in *. lia.
  - cbn [le_bytes le_val]. rewrite IH.
    + pose proof (N.div_mod x 256). lia.
    + rewrite Nnat.Nat2N.inj_succ, N.pow_succ_r' in H.
      apply N.div_lt_upper_bound; lia.
Qed.
