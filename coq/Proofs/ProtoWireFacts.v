From Coq Require Import Lia.
From Verif Require Import Model.Bytes Model.ProtoWire Proofs.BytesFacts.

Lemma varint_roundtrip_S f : forall x rest, x < 128 ^ N.of_nat (S f) ->
  varint_dec (S f) (varint_enc (S f) x ++ rest) = Some (x, rest).
Proof.
  induction f as [|f IH]; intros x rest Hx.
  - change (128 ^ N.of_nat 1) with 128 in Hx. cbn [varint_enc varint_dec].
    replace (x <? 128) with true by (symmetry; apply N.ltb_lt; exact Hx). cbn [app].
    replace (x <? 128) with true by (symmetry; apply N.ltb_lt; exact Hx). reflexivity.
  - remember (S f) as g. cbn [varint_enc varint_dec]. destruct (N.ltb_spec x 128) as [H|H].
    + cbn [app]. apply N.ltb_lt in H. rewrite H. reflexivity.
    + cbn [app].
      pose proof (N.div_mod x 128 ltac:(lia)) as Hdm.
      assert (Hm : x mod 128 < 128) by (apply N.mod_lt; lia).
      assert (Hd : x / 128 < 128 ^ N.of_nat g).
      { rewrite (Nnat.Nat2N.inj_succ g), N.pow_succ_r' in Hx. apply N.div_lt_upper_bound; [lia|exact Hx]. }
      set (m := x mod 128) in *. set (d := x / 128) in *. clearbody m d.
      assert (E : m + 128 <? 128 = false) by (apply N.ltb_ge; lia).
      rewrite E. rewrite IH by exact Hd.
      f_equal. f_equal. lia.
Qed.

Lemma varint_roundtrip f x rest : (1 <= f)%nat -> x < 128 ^ N.of_nat f ->
  varint_dec f (varint_enc f x ++ rest) = Some (x, rest).
Proof. destruct f as [|f]; [lia|]. intros _. apply varint_roundtrip_S. Qed.

Lemma varint_nonempty f x : varint_enc (S f) x <> [].
Proof. cbn [varint_enc]. destruct (x <? 128); discriminate. Qed.

Definition u64 (x : N) : Prop := x < 2 ^ 64.
Lemma u64_fuel x : u64 x -> x < 128 ^ N.of_nat 10.
Proof. unfold u64. intros H. eapply N.lt_le_trans; [exact H|]. vm_compute. discriminate. Qed.

Definition wf_field (f : field) : Prop :=
  0 < fst f /\ fst f < 2 ^ 29 /\
  match snd f with
  | WVarint v => u64 v
  | WFixed64 b => length b = 8%nat
  | WBytes b => u64 (N.of_nat (length b))
  | WFixed32 b => length b = 4%nat
  end.

Lemma take_app n (a rest : bytes) : length a = n -> take n (a ++ rest) = Some (a, rest).
Proof.
  intros <-. unfold take. rewrite app_length.
  replace (length a + length rest <? length a)%nat with false by (symmetry; apply Nat.ltb_ge; lia).
  now rewrite firstn_app_len, skipn_app_len.
Qed.

Lemma tag_split num t : t < 8 -> (num * 8 + t) / 8 = num /\ (num * 8 + t) mod 8 = t.
Proof.
  intros H. split.
  - replace (num * 8 + t) with (t + num * 8) by lia. rewrite N.div_add by lia. rewrite N.div_small by lia. lia.
  - replace (num * 8 + t) with (t + num * 8) by lia. rewrite N.mod_add by lia. apply N.mod_small. lia.
Qed.

Lemma field_roundtrip f rest fuel : wf_field f ->
  msg_dec (S fuel) (field_enc f ++ rest) =
  match msg_dec fuel rest with Some fs => Some (f :: fs) | None => None end.
Proof.
  intros (Hp & Hn & Hv). destruct f as [num v]. cbn [fst snd] in *.
  unfold field_enc. cbn [fst snd]. rewrite <- app_assoc.
  assert (Ht : wtype v < 8) by (destruct v; simpl; lia).
  assert (Htag : num * 8 + wtype v < 128 ^ N.of_nat 10).
  { apply u64_fuel. unfold u64. assert (2 ^ 29 * 8 + 8 <= 2 ^ 64) by (vm_compute; discriminate). nia. }
  cbn [msg_dec].
  destruct (varint_enc 10 (num * 8 + wtype v) ++ _) as [|b0 s0] eqn:Es.
  { exfalso. apply app_eq_nil in Es. destruct Es as [Es _]. now apply (varint_nonempty 9) in Es. }
  rewrite <- Es. clear Es b0 s0.
  rewrite (varint_roundtrip 10 _ _ ltac:(lia) Htag).
  destruct (tag_split num (wtype v) Ht) as [-> ->].
  destruct v as [x|b|b|b]; cbn [wtype].
  - rewrite (varint_roundtrip 10 x rest ltac:(lia) (u64_fuel x Hv)). reflexivity.
  - rewrite (take_app 8 b rest Hv). reflexivity.
  - rewrite <- app_assoc. rewrite (varint_roundtrip 10 _ _ ltac:(lia) (u64_fuel _ Hv)). rewrite Nnat.Nat2N.id.
    rewrite (take_app (length b) b rest eq_refl). reflexivity.
  - rewrite (take_app 4 b rest Hv). reflexivity.
Qed.

(* every message of well-formed fields survives encode/decode unchanged, with the same field order *)
Theorem wire_roundtrip fs : Forall wf_field fs -> forall fuel, (length fs <= fuel)%nat ->
  msg_dec fuel (msg_enc fs) = Some fs.
Proof.
  induction fs as [|f r IH]; intros Hwf fuel Hf.
  - destruct fuel; reflexivity.
  - inversion Hwf as [|? ? H1 H2]; subst. destruct fuel as [|fuel]; [simpl in Hf; lia|].
    unfold msg_enc. cbn [map concat]. fold (msg_enc r).
    rewrite (field_roundtrip f (msg_enc r) fuel H1). rewrite (IH H2 fuel) by (simpl in Hf; lia). reflexivity.
Qed.

(* decoding into a recycled object gives what decoding into a fresh one gives *)
Theorem pooled_decode_independent old1 old2 fuel s : decode_into old1 fuel s = decode_into old2 fuel s.
Proof. reflexivity. Qed.
