(* util/heap: every operation permutes / removes exactly one element; Pop removes the root (C11). *)
From Coq Require Import Lia Permutation.
From Verif Require Import Model.Bytes Model.Heap.

Section Facts.
  Variable A : Type.
  Variable less : A -> A -> bool.
  Variable dflt : A.
  Notation hnth := (hnth A dflt).
  Notation set_nth := (set_nth A).
  Notation swap := (swap A dflt).

  Lemma set_nth_length l : forall i x, length (set_nth l i x) = length l.
  Proof. induction l as [|y r IH]; intros [|i] x; simpl; auto. Qed.

  Lemma swap_length l i j : length (swap l i j) = length l.
  Proof. unfold swap. now rewrite !set_nth_length. Qed.

  Lemma hnth_set_nth_same l : forall i x, (i < length l)%nat -> hnth (set_nth l i x) i = x.
  Proof. unfold Heap.hnth. induction l as [|y r IH]; intros [|i] x H; simpl in *; try lia; auto. apply IH. lia. Qed.

  Lemma hnth_set_nth_other l : forall i j x, i <> j -> hnth (set_nth l i x) j = hnth l j.
  Proof.
    unfold Heap.hnth. induction l as [|y r IH]; intros [|i] [|j] x H; simpl; try reflexivity; try congruence.
    apply IH. congruence.
  Qed.

  Lemma set_nth_perm l : forall j a, (j < length l)%nat -> Permutation (hnth l j :: set_nth l j a) (a :: l).
  Proof.
    unfold Heap.hnth. induction l as [|y r IH]; intros [|j] a H; simpl in *; try lia.
    - apply perm_swap.
    - specialize (IH j a ltac:(lia)).
      eapply perm_trans; [apply perm_swap|]. eapply perm_trans; [apply perm_skip, IH|]. apply perm_swap.
  Qed.

  Lemma swap_perm l i j : (i < length l)%nat -> (j < length l)%nat -> Permutation (swap l i j) l.
  Proof.
    intros Hi Hj. unfold swap.
    destruct (Nat.eq_dec i j) as [->|Hne].
    - (* same index: two writes of the element itself *)
      assert (E : forall l k, (k < length l)%nat -> set_nth l k (hnth l k) = l).
      { clear. unfold Heap.hnth. induction l as [|y r IH]; intros [|k] H; simpl in *; try lia; auto. f_equal. apply IH. lia. }
      rewrite E by assumption. rewrite E by assumption. apply Permutation_refl.
    - set (l1 := set_nth l i (hnth l j)).
      assert (H1 : Permutation (hnth l i :: l1) (hnth l j :: l)) by (apply set_nth_perm; assumption).
      assert (H2 : Permutation (hnth l1 j :: set_nth l1 j (hnth l i)) (hnth l i :: l1)).
      { apply set_nth_perm. unfold l1. now rewrite set_nth_length. }
      assert (E : hnth l1 j = hnth l j) by (unfold l1; apply hnth_set_nth_other; assumption).
      rewrite E in H2. apply (Permutation_cons_inv (a := hnth l j)).
      eapply perm_trans; [exact H2|exact H1].
  Qed.

  Lemma up_perm fuel : forall l j, (j < length l)%nat -> Permutation (up A less dflt fuel l j) l.
  Proof.
    induction fuel as [|f IH]; intros l j Hj; cbn [up]; [apply Permutation_refl|].
    destruct ((((j - 1) / 2) =? j)%nat || negb (less (hnth l j) (hnth l ((j - 1) / 2)))); [apply Permutation_refl|].
    assert (Hi : ((j - 1) / 2 < length l)%nat).
    { assert ((j - 1) / 2 <= j - 1)%nat by (apply Nat.div_le_upper_bound; lia). lia. }
    eapply perm_trans; [apply IH; now rewrite swap_length|]. now apply swap_perm.
  Qed.

  Lemma down_go_perm fuel : forall l i n, (n <= length l)%nat -> (i < length l)%nat ->
    Permutation (fst (down_go A less dflt fuel l i n)) l.
  Proof.
    induction fuel as [|f IH]; intros l i n Hn Hi; cbn [down_go]; [apply Permutation_refl|].
    destruct (Nat.leb_spec n (2 * i + 1)) as [H|H]; [apply Permutation_refl|].
    set (j := if ((2 * i + 1 + 1 <? n)%nat && less (hnth l (2 * i + 1 + 1)) (hnth l (2 * i + 1)))%bool then (2 * i + 1 + 1)%nat else (2 * i + 1)%nat).
    assert (Hj : (j < n)%nat).
    { unfold j. destruct (Nat.ltb_spec (2 * i + 1 + 1) n); simpl; [destruct (less _ _)|]; lia. }
    destruct (negb (less (hnth l j) (hnth l i))); [apply Permutation_refl|].
    eapply perm_trans; [apply IH; rewrite swap_length; lia|]. apply swap_perm; lia.
  Qed.

  (* down(i, n) never touches positions >= n *)
  Lemma down_go_above fuel : forall l i n k, (i < n)%nat -> (n <= k)%nat ->
    hnth (fst (down_go A less dflt fuel l i n)) k = hnth l k.
  Proof.
    induction fuel as [|f IH]; intros l i n k Hi Hk; cbn [down_go]; [reflexivity|].
    destruct (Nat.leb_spec n (2 * i + 1)) as [H|H]; [reflexivity|].
    set (j := if ((2 * i + 1 + 1 <? n)%nat && less (hnth l (2 * i + 1 + 1)) (hnth l (2 * i + 1)))%bool then (2 * i + 1 + 1)%nat else (2 * i + 1)%nat).
    assert (Hj : (j < n)%nat).
    { unfold j. destruct (Nat.ltb_spec (2 * i + 1 + 1) n); simpl; [destruct (less _ _)|]; lia. }
    destruct (negb (less (hnth l j) (hnth l i))); [reflexivity|].
    rewrite IH by lia. unfold Heap.swap. rewrite !hnth_set_nth_other by lia. reflexivity.
  Qed.

  Lemma down_go_length fuel : forall l i n, length (fst (down_go A less dflt fuel l i n)) = length l.
  Proof.
    induction fuel as [|f IH]; intros l i n; cbn [down_go]; [reflexivity|].
    destruct (n <=? 2 * i + 1)%nat; [reflexivity|].
    match goal with |- context [negb ?b] => destruct (negb b) end; [reflexivity|].
    now rewrite IH, swap_length.
  Qed.

  Lemma down_fst l i n : fst (down A less dflt l i n) = fst (down_go A less dflt (length l) l i n).
  Proof. unfold down. destruct (down_go A less dflt (length l) l i n). reflexivity. Qed.

  Lemma push_perm l x : Permutation (push A less dflt l x) (x :: l).
  Proof.
    unfold push. eapply perm_trans; [apply up_perm; rewrite app_length; simpl; lia|].
    apply Permutation_sym, Permutation_cons_append.
  Qed.

  Lemma split_last (l : list A) : forall n, length l = S n -> l = firstn n l ++ [hnth l n].
  Proof.
    unfold Heap.hnth. induction l as [|y t IH]; intros n Hl; simpl in Hl; [lia|].
    destruct n as [|n].
    - destruct t; simpl in *; [reflexivity|lia].
    - simpl. f_equal. apply IH. lia.
  Qed.

  (* Pop removes exactly the root *)
  Lemma pop_spec l x l' : pop A less dflt l = Some (x, l') ->
    exists r, l = x :: r /\ Permutation l' r.
  Proof.
    unfold pop. destruct l as [|a r]; [discriminate|]. intros [= <- <-].
    set (l := a :: r). set (n := (length l - 1)%nat).
    assert (Hn : (n < length l)%nat) by (unfold n, l; simpl; lia).
    set (l1 := swap l 0 n). rewrite down_fst.
    set (l2 := fst (down_go A less dflt (length l1) l1 0 n)).
    assert (Hlen : length l2 = length l) by (unfold l2; rewrite down_go_length; unfold l1; apply swap_length).
    assert (Hp : Permutation l2 l).
    { unfold l2. destruct (Nat.eq_dec n 0) as [Hz|Hz].
      - rewrite Hz. destruct (length l1); simpl; unfold l1; rewrite Hz; apply swap_perm; lia.
      - eapply perm_trans; [apply down_go_perm; unfold l1; rewrite swap_length; lia|]. apply swap_perm; lia. }
    assert (Hroot : hnth l2 n = a).
    { unfold l2. destruct (Nat.eq_dec n 0) as [Hz|Hz].
      - (* single element *)
        assert (r = []) by (unfold n, l in Hz; simpl in Hz; destruct r; [reflexivity|simpl in Hz; lia]). subst r.
        reflexivity.
      - rewrite down_go_above by lia. unfold l1, Heap.swap.
        rewrite hnth_set_nth_same by (rewrite set_nth_length; lia). reflexivity. }
    change (length r - 0)%nat with n. fold l1. fold l2.
    exists r. split; [rewrite Hroot; reflexivity|].
    (* l2 = firstn n l2 ++ [hnth l2 n] *)
    assert (Hsplit : l2 = firstn n l2 ++ [hnth l2 n]).
    { apply split_last. rewrite Hlen. unfold n, l. simpl. lia. }
    rewrite Hroot in Hsplit.
    apply (Permutation_cons_inv (a := a)).
    eapply perm_trans; [apply Permutation_cons_append|]. rewrite <- Hsplit. exact Hp.
  Qed.

  Lemma heapify_go_perm k : forall l, Permutation (heapify_go A less dflt k l) l.
  Proof.
    induction k as [|k IH]; intros l; cbn [heapify_go]; [apply Permutation_refl|].
    eapply perm_trans; [apply IH|]. rewrite down_fst.
    destruct (Nat.lt_ge_cases k (length l)) as [H|H].
    - apply down_go_perm; lia.
    - (* index beyond the slice: the first test of the loop ends it *)
      destruct (length l) eqn:E; [apply Permutation_refl|]. cbn [down_go].
      replace (S n <=? 2 * k + 1)%nat with true by (symmetry; apply Nat.leb_le; lia). apply Permutation_refl.
  Qed.

  Lemma heapify_perm l : Permutation (heapify A less dflt l) l.
  Proof. apply heapify_go_perm. Qed.
End Facts.
