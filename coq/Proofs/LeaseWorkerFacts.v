(* replication/worker.go lease routine over the lease protocol: a worker's [leased] flag is set only while the node's
   last finished LeaseTable call succeeded, and then the node's grant in the store is the one that call obtained.
   Together with C15's mutual exclusion: two workers with the flag set can coexist only if one of them is past the end
   of the lease its last call obtained (its routine missed the renewal deadline: 3 of the 4 lease intervals of slack). *)
From Coq Require Import Lia.
From Verif Require Import Model.Bytes Model.Lease Model.LeaseWorker Proofs.LeaseFacts.

(* which nodes run a worker; the other actors (WOther) are the remaining nodes and the clock *)
Definition node_of (a : action) : option nat :=
  match a with ATick _ => None | ALease n _ _ => Some n | AReturn n => Some n | AApply n => Some n end.
Definition wf_action (isw : nat -> bool) (a : waction) : Prop :=
  match a with
  | WOther b => match node_of b with Some m => isw m = false | None => True end
  | WCall n _ => isw n = true
  | WApply n => isw n = true
  | WErr n => isw n = true
  end.

Record WInv (isw : nat -> bool) (s : wst) : Prop := {
  w_base : LInv (base s);
  w_flag : forall n, isw n = true -> flag s n = true -> exists u, lastok s n = Some u /\ grant (base s) n = Some u
}.

Lemma WInv0 isw : WInv isw wst0.
Proof. constructor; [exact LInv0|]. intros n _ H. discriminate. Qed.

(* an operation of node m, or a tick, leaves every other node's grant alone *)
Lemma lexec_grant_other s a n : node_of a <> Some n -> grant (fst (lexec s a)) n = grant s n.
Proof.
  intros H. destruct a as [d|m dur e|m|m]; cbn [lexec].
  - reflexivity.
  - destruct (pcs s m); try reflexivity. destruct (may_take m (rec s) (now s)); reflexivity.
  - destruct (pcs s m); try reflexivity. destruct (rec s) as [r|]; try reflexivity. destruct (Nat.eqb (lid r) m); reflexivity.
  - assert (Hne : n <> m) by (intro E; apply H; cbn; now subst).
    destruct (pcs s m) as [|seen u|r]; try reflexivity.
    + destruct (cas_ok (rec s) (seen_ver seen)); cbn [fst grant]; [now apply upd_other|reflexivity].
    + destruct (cas_ok (rec s) (lver r)); cbn [fst grant]; [now apply upd_other|reflexivity].
Qed.

(* LeaseTable's read-and-decide step never touches a grant *)
Lemma lexec_lease_grant s n dur e m : grant (fst (lexec s (ALease n dur e))) m = grant s m.
Proof. cbn [lexec]. destruct (pcs s n); try reflexivity. destruct (may_take n (rec s) (now s)); reflexivity. Qed.

Theorem wexec_inv isw s a : WInv isw s -> wf_action isw a -> WInv isw (wexec s a).
Proof.
  intros [HB HF] Hwf. destruct a as [b|n dur|n|n]; unfold wexec; cbn [wexec_gen].
  - (* somebody else, or the clock *)
    constructor; cbn [base flag lastok]; [apply lexec_inv, HB|].
    intros n Hn Hfl. destruct (HF n Hn Hfl) as (u & H1 & H2). exists u. split; [exact H1|].
    rewrite lexec_grant_other; [exact H2|]. cbn [wf_action] in Hwf. destruct (node_of b) as [m|]; [|discriminate].
    intros [= ->]. congruence.
  - (* the routine's tick: read and decide *)
    pose proof (lexec_inv (base s) (ALease n dur false) HB) as HB'.
    pose proof (lexec_lease_grant (base s) n dur false) as HG.
    destruct (lexec (base s) (ALease n dur false)) as [b r] eqn:E. cbn [fst] in HB', HG.
    assert (Hkeep : WInv isw {| base := b; flag := flag s; lastok := lastok s |}).
    { constructor; cbn [base flag lastok]; [exact HB'|]. intros m Hm Hfl. destruct (HF m Hm Hfl) as (u & H1 & H2).
      exists u. split; [exact H1|]. now rewrite HG. }
    destruct r; try exact Hkeep.
    constructor; cbn [set_worker base flag lastok]; [exact HB'|].
    intros m Hm Hfl. destruct (Nat.eqb_spec m n) as [->|Hne].
    + rewrite upd_same in Hfl. discriminate.
    + rewrite upd_other in Hfl by exact Hne. destruct (HF m Hm Hfl) as (u & H1 & H2).
      exists u. rewrite upd_other by exact Hne. split; [exact H1|]. now rewrite HG.
  - (* the write is applied, the call returns *)
    destruct (pcs (base s) n) as [|seen u|r] eqn:Ep; try (constructor; assumption).
    pose proof (lexec_inv (base s) (AApply n) HB) as HB'.
    assert (HGo : forall m, m <> n -> grant (fst (lexec (base s) (AApply n))) m = grant (base s) m).
    { intros m Hne. apply lexec_grant_other. cbn. intros [= E]. now apply Hne. }
    assert (HGn : snd (lexec (base s) (AApply n)) = RAcquired -> grant (fst (lexec (base s) (AApply n))) n = Some u).
    { cbn [lexec]. rewrite Ep. destruct (cas_ok (rec (base s)) (seen_ver seen)); cbn [fst snd grant]; [intros _; apply upd_same|discriminate]. }
    destruct (lexec (base s) (AApply n)) as [b r] eqn:E. cbn [fst snd] in HB', HGo, HGn.
    assert (Hfail : WInv isw (set_worker s b n false None)).
    { constructor; cbn [set_worker base flag lastok]; [exact HB'|].
      intros m Hm Hfl. destruct (Nat.eqb_spec m n) as [->|Hne].
      - rewrite upd_same in Hfl. discriminate.
      - rewrite upd_other in Hfl by exact Hne. destruct (HF m Hm Hfl) as (u0 & H1 & H2).
        exists u0. rewrite upd_other by exact Hne. split; [exact H1|]. now rewrite HGo. }
    destruct r; try exact Hfail.
    constructor; cbn [set_worker base flag lastok]; [exact HB'|].
    intros m Hm Hfl. destruct (Nat.eqb_spec m n) as [->|Hne].
    + exists u. rewrite upd_same. split; [reflexivity|]. now apply HGn.
    + rewrite upd_other in Hfl by exact Hne. destruct (HF m Hm Hfl) as (u0 & H1 & H2).
      exists u0. rewrite upd_other by exact Hne. split; [exact H1|]. now rewrite HGo.
  - (* the call fails with another error: the flag is cleared *)
    constructor; cbn [set_worker base flag lastok]; [exact HB|].
    intros m Hm Hfl. destruct (Nat.eqb_spec m n) as [->|Hne].
    + rewrite upd_same in Hfl. discriminate.
    + rewrite upd_other in Hfl by exact Hne. destruct (HF m Hm Hfl) as (u0 & H1 & H2).
      exists u0. rewrite upd_other by exact Hne. auto.
Qed.

Theorem wrun_inv isw acts : forall s, WInv isw s -> Forall (wf_action isw) acts -> WInv isw (wrun s acts).
Proof.
  unfold wrun, wrun_gen. induction acts as [|a r IH]; intros s HI Hf; [exact HI|].
  inversion Hf as [|? ? Ha Hr]; subst. cbn [fold_left]. apply IH; [|exact Hr]. now apply wexec_inv.
Qed.

(* a worker whose flag is set and that is still within the lease its last call obtained does hold the lease *)
Theorem flag_holder isw s n u : WInv isw s -> isw n = true -> flag s n = true -> lastok s n = Some u ->
  now (base s) <= u -> holder (base s) n.
Proof.
  intros HI Hn Hfl Hl Ht. destruct (w_flag isw s HI n Hn Hfl) as (u0 & H1 & H2).
  rewrite Hl in H1. injection H1 as <-. exists u. auto.
Qed.

(* two workers with the flag set: the same node, or one of them is past the end of the lease it last obtained *)
Theorem flags_exclusive isw s n m : WInv isw s -> isw n = true -> isw m = true ->
  flag s n = true -> flag s m = true ->
  n = m \/ (exists u, lastok s n = Some u /\ u < now (base s)) \/ (exists u, lastok s m = Some u /\ u < now (base s)).
Proof.
  intros HI Hn Hm Fn Fm.
  destruct (w_flag isw s HI n Hn Fn) as (un & Ln & Gn). destruct (w_flag isw s HI m Hm Fm) as (um & Lm & Gm).
  destruct (N.ltb_spec un (now (base s))) as [Hlate|Hin]; [right; left; eauto|].
  destruct (N.ltb_spec um (now (base s))) as [Hlate|Hin']; [right; right; eauto|].
  left. apply (mutex_inv (base s) (w_base isw s HI)); [exists un|exists um]; auto.
Qed.

(* whatever went before: after a call that did not return nil the flag is down *)
Theorem flag_down_after_failure s n : flag (wexec s (WErr n)) n = false.
Proof. unfold wexec; cbn [wexec_gen set_worker flag]. apply upd_same. Qed.
Theorem flag_down_after_refusal s n dur b : lexec (base s) (ALease n dur false) = (b, RRefused) ->
  flag (wexec s (WCall n dur)) n = false.
Proof. intros E. unfold wexec; cbn [wexec_gen]. rewrite E. cbn [set_worker flag]. apply upd_same. Qed.
