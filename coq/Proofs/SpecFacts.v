(* Facts about the plain-sorted-map specification and about batching (C01, C02, C03, C09, C10). *)
From Coq Require Import Lia Sorted.
From Verif Require Import Model.Bytes Model.SMap Model.KeyEnc Model.Cmd Model.Fsm Model.Spec.
From Verif Require Import Proofs.BytesFacts Proofs.SMapFacts Proofs.CmdLift Proofs.FsmRefine.

(* ---------- the content is always a strictly sorted map (no duplicate keys) ---------- *)
Theorem s_handle_sorted c U : sorted U -> sorted (fst (s_handle U c)).
Proof.
  intros H.
  pose proof (handle_lift umap umap p_get p_set p_del p_delrange p_scan p_get p_set p_del p_delrange p_scan
                (fun a b => a = b /\ sorted a)) as L.
  destruct (L) with (c := c) (s := U) (u := U) as [[_ Hs] _]; auto.
  - intros s u k [-> _]. reflexivity.
  - intros s u k v [-> Hs]. split; [reflexivity|]. now apply sset_sorted.
  - intros s u k [-> Hs]. split; [reflexivity|]. now apply sdel_sorted.
  - intros s u lo hi [-> Hs]. split; [reflexivity|]. now apply filter_sorted.
  - intros s u lo hi [-> _]. reflexivity.
Qed.

Lemma spec_entries_sorted es : forall st, sorted (content st) -> sorted (content (fst (spec_entries st es))).
Proof.
  induction es as [|e r IH]; intros st H; cbn [spec_entries]; [exact H|].
  unfold spec_entry at 1. pose proof (s_handle_sorted (e_cmd e) (content st) H) as Hs.
  destruct (s_handle (content st) (e_cmd e)) as [c' [val rs]]. cbn [fst] in Hs.
  match goal with |- context [spec_entries ?s r] => specialize (IH s Hs); destruct (spec_entries s r) as [st2 os] end.
  exact IH.
Qed.

(* ---------- range scans of the specification ---------- *)
Theorem p_scan_spec U lo hi k v : sorted U ->
  (In (k, v) (p_scan U lo hi) <-> sget U k = Some v /\ p_in lo hi k = true).
Proof.
  intros Hs. unfold p_scan. rewrite filter_In. cbn [fst]. rewrite <- (sget_in _ U k v Hs). tauto.
Qed.

Theorem p_scan_ascending U lo hi : sorted U -> StronglySorted blt (map fst (p_scan U lo hi)).
Proof. intros Hs. apply sorted_keys_ascending. now apply filter_sorted. Qed.

(* an explicit upper end: the keys k with lo <= k < hi; the wildcard: every key >= lo *)
Lemma p_in_explicit lo hi k : hi <> wildcard -> p_in lo hi k = bleb lo k && bltb k hi.
Proof. intros H. unfold p_in. replace (beqb hi wildcard) with false; [reflexivity|]. symmetry. now apply beqb_neq. Qed.
Lemma p_in_wildcard lo k : p_in lo wildcard k = bleb lo k.
Proof. unfold p_in. rewrite beqb_refl. simpl. apply andb_true_r. Qed.
Lemma p_in_inverted lo hi k : hi <> wildcard -> bleb hi lo = true -> p_in lo hi k = false.
Proof.
  intros Hw Hi. rewrite p_in_explicit by assumption.
  destruct (bleb lo k) eqn:E1; [|reflexivity]. simpl.
  apply bleb_le in Hi, E1. unfold bltb. destruct (lex_compare k hi) eqn:E; try reflexivity.
  exfalso. apply E1. rewrite lex_antisym. 
  assert (lex_compare k lo = Lt) by (eapply lex_lt_le_trans; eauto). now rewrite H.
Qed.

(* ---------- composition: entries, operations ---------- *)
Lemma spec_entries_app a : forall st b,
  spec_entries st (a ++ b) =
  let '(st1, o1) := spec_entries st a in let '(st2, o2) := spec_entries st1 b in (st2, o1 ++ o2).
Proof.
  induction a as [|e r IH]; intros st b; cbn [app spec_entries].
  - destruct (spec_entries st b); reflexivity.
  - destruct (spec_entry st e) as [st1 o]. rewrite IH.
    destruct (spec_entries st1 r) as [st2 o2]. destruct (spec_entries st2 b) as [st3 o3]. reflexivity.
Qed.

Section Ops.
  Variable St : Type.
  Variable get : St -> bytes -> option bytes.
  Variable set : St -> bytes -> bytes -> St.
  Variable del : St -> bytes -> St.
  Variable delrange : St -> bytes -> bytes -> St.
  Variable scan : St -> bytes -> bytes -> list (bytes * bytes).
  Notation ops := (txn_ops St get set del delrange scan).

  (* operations run in order, each on the state left by the earlier ones; one response per set operation *)
  Lemma txn_ops_app a : forall s b,
    ops s (a ++ b) = let '(s1, r1) := ops s a in let '(s2, r2) := ops s1 b in (s2, r1 ++ r2).
  Proof.
    induction a as [|op r IH]; intros s b; cbn [app txn_ops].
    - destruct (ops s b); reflexivity.
    - destruct op as [q|p|d|].
      + rewrite IH. destruct (ops s r) as [s1 r1]. destruct (ops s1 b) as [s2 r2]. reflexivity.
      + destruct (handle_put St get set s p) as [s0 r0]. rewrite IH.
        destruct (ops s0 r) as [s1 r1]. destruct (ops s1 b) as [s2 r2]. reflexivity.
      + destruct (handle_delete St get del delrange scan s d) as [s0 r0]. rewrite IH.
        destruct (ops s0 r) as [s1 r1]. destruct (ops s1 b) as [s2 r2]. reflexivity.
      + apply IH.
  Qed.

  Definition op_set (o : request_op) : bool := match o with OUnset => false | _ => true end.
  Lemma txn_ops_length l : forall s, length (snd (ops s l)) = length (filter op_set l).
  Proof.
    induction l as [|op r IH]; intros s; cbn [txn_ops filter]; [reflexivity|].
    destruct op as [q|p|d|]; cbn [op_set].
    - specialize (IH s). destruct (ops s r). simpl in *. now rewrite IH.
    - destruct (handle_put St get set s p) as [s0 r0]. specialize (IH s0). destruct (ops s0 r). simpl in *. now rewrite IH.
    - destruct (handle_delete St get del delrange scan s d) as [s0 r0]. specialize (IH s0). destruct (ops s0 r). simpl in *. now rewrite IH.
    - apply IH.
  Qed.

  (* a transaction made of range reads only: state untouched, answers = the read-only path *)
  Definition all_ranges (l : list request_op) : bool := forallb (fun o => match o with ORange _ => true | _ => false end) l.

  Lemma txn_ops_readonly l : forall s, all_ranges l = true ->
    ops s l = (s, map (fun op => RRange (match op with ORange r => lookup St get scan s r
                                                      | _ => lookup St get scan s (plain_req [] None false) end)) l).
  Proof.
    induction l as [|op r IH]; intros s H; cbn [txn_ops map]; [reflexivity|].
    cbn [all_ranges forallb] in H. apply andb_true_iff in H. destruct H as [H1 H2].
    destruct op; try discriminate. fold (all_ranges r) in H2. rewrite (IH s H2). reflexivity.
  Qed.

  Theorem txn_readonly_agrees s cs su fa : all_ranges su = true -> all_ranges fa = true ->
    handle_txn St get set del delrange scan s cs su fa = (s, lookup_txn St get scan s cs su fa).
  Proof.
    intros H1 H2. unfold handle_txn, lookup_txn.
    destruct (txn_compare St get scan s cs); [rewrite (txn_ops_readonly su s H1)|rewrite (txn_ops_readonly fa s H2)]; reflexivity.
  Qed.

  (* exactly one branch is executed, chosen by the conjunction of the predicates on the state before *)
  Theorem txn_branch s cs su fa :
    handle_txn St get set del delrange scan s cs su fa =
    let ok := txn_compare St get scan s cs in
    (fst (ops s (if ok then su else fa)), (ok, snd (ops s (if ok then su else fa)))).
  Proof. unfold handle_txn. destruct (ops s _); reflexivity. Qed.
End Ops.

(* ---------- the predicate semantics on the plain map ---------- *)
Definition holds (U : umap) (c : compare) : Prop :=
  match cm_end c with
  | None => exists v, sget U (cm_key c) = Some v /\ cmp_single c v = true
  | Some hi => (exists kv, In kv (p_scan U (cm_key c) hi)) /\
               (forall k v, In (k, v) (p_scan U (cm_key c) hi) -> cmp_single c v = true)
  end.

Lemma compare_one_holds U c : compare_one umap p_get p_scan U c = true <-> holds U c.
Proof.
  unfold compare_one, holds, p_get. destruct (cm_end c) as [hi|].
  - destruct (p_scan U (cm_key c) hi) as [|kv r] eqn:E.
    + split; [discriminate|]. intros [[kv []] _].
    + rewrite forallb_forall. split.
      * intros H. split; [exists kv; now left|]. intros k v Hin. apply (H (k, v) Hin).
      * intros [_ H] [k v] Hin. apply (H k v Hin).
  - destruct (sget U (cm_key c)) as [v|].
    + split; [intros H; eauto|]. intros (v' & [= <-] & H). exact H.
    + split; [discriminate|]. intros (v' & E & _). discriminate.
Qed.

Theorem txn_compare_holds U cs : txn_compare umap p_get p_scan U cs = true <-> Forall (holds U) cs.
Proof.
  unfold txn_compare. rewrite forallb_forall, Forall_forall.
  split; intros H c Hc; apply compare_one_holds, H, Hc.
Qed.

(* the stored value is on the LEFT of the comparison; an unset target only checks existence *)
Lemma cmp_single_spec c v :
  cmp_single c v = match cm_value c with
                   | None => true
                   | Some t => match cm_result c with
                               | CEq => beqb v t
                               | CNe => negb (beqb v t)
                               | CGt => bltb t v
                               | CLt => bltb v t
                               end
                   end.
Proof.
  unfold cmp_single. destruct (cm_value c) as [t|]; [|reflexivity].
  destruct (cm_result c); try reflexivity.
  unfold bltb. rewrite (lex_antisym v t). destruct (lex_compare v t); reflexivity.
Qed.

(* ---------- batching (C03) ---------- *)
(* a log cut into consecutive apply batches; results concatenated *)
Fixpoint run_batches (s : store) (bs : list (list entry)) : store * list result :=
  match bs with
  | [] => (s, [])
  | b :: r => let '(s1, o, _) := Update s b in let '(s2, os) := run_batches s1 r in (s2, o ++ os)
  end.

Definition after_log (st : spec_state) (od : option N) (log : list entry) : option N :=
  match batch_leader log with Some l => Some l | None => od end.

Lemma batch_leader_app a b :
  batch_leader (a ++ b) = match batch_leader b with Some l => Some l | None => batch_leader a end.
Proof.
  unfold batch_leader. rewrite fold_left_app.
  rewrite <- !fold_leader_fl. rewrite (fold_leader_batch b). unfold batch_leader. now rewrite <- fold_leader_fl.
Qed.

Theorem run_batches_refines bs : forall ol od st,
  Forall (fun b => b <> []) bs -> bs <> [] ->
  applied st = dflt ol -> leader st = dflt od ->
  let st' := fst (spec_entries st (concat bs)) in
  run_batches (repr (content st) ol od) bs =
  (repr (content st') (Some (applied st')) (after_log st od (concat bs)), snd (spec_entries st (concat bs))).
Proof.
  induction bs as [|b r IH]; intros ol od st Hne Hnn Ha Hl; [congruence|].
  inversion Hne as [|? ? Hb Hr]; subst.
  cbn [run_batches concat].
  destruct (Update_refines (content st) ol od b st Hb eq_refl Ha Hl) as (od' & HUp & Hl' & Hod').
  cbn zeta in HUp, Hl'. rewrite HUp.
  rewrite spec_entries_app. unfold spec_apply in *.
  destruct (spec_entries st b) as [st1 o1] eqn:E1. cbn [fst snd] in *.
  assert (Hod1 : od' = after_log st od b) by exact Hod'.
  destruct r as [|b2 r'].
  - cbn [run_batches concat]. rewrite !app_nil_r. cbn [spec_entries fst snd]. rewrite ?app_nil_r.
    rewrite <- Hod1. reflexivity.
  - assert (Hnn' : b2 :: r' <> []) by discriminate.
    specialize (IH (Some (applied st1)) od' st1 Hr Hnn' eq_refl Hl').
    cbn zeta in IH. rewrite IH.
    destruct (spec_entries st1 (concat (b2 :: r'))) as [st2 o2]. cbn [fst snd].
    f_equal. f_equal. unfold after_log. rewrite batch_leader_app.
    rewrite Hod1. unfold after_log. destruct (batch_leader (concat (b2 :: r'))); reflexivity.
Qed.
