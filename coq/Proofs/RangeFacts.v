(* iter.go iterate: paging is lossless, counts are exact, 'more' is truthful (C09). *)
From Coq Require Import Lia.
From Verif Require Import Model.Bytes Model.ProtoSize Model.Cmd.

Section IterFacts.
  Variable P : Type.
  Variable ksz vsz : P -> N.
  Variable maxSize : N.
  Notation loop := (iter_loop P ksz vsz maxSize).
  Notation iter := (iterate P ksz vsz maxSize).
  Notation chunk := (chunk P).

  (* the pairs a read with this limit returns, when i of them were already consumed *)
  Definition takeZ (limit i : Z) (ps : list P) : list P :=
    if (limit <=? 0)%Z then ps else firstn (Z.to_nat (limit - i)) ps.

  Definition all_items (cs : list chunk) : list P := concat (map ch_items cs).
  Definition total_count (cs : list chunk) : Z := fold_right (fun c a => (ch_count c + a)%Z) 0%Z cs.

  Lemma takeZ_stop limit ps : (0 < limit)%Z -> takeZ limit limit ps = [].
  Proof. intros H. unfold takeZ. destruct (Z.leb_spec limit 0); [lia|]. now rewrite Z.sub_diag. Qed.

  Lemma takeZ_step limit i p ps : (0 <= i)%Z -> ((i =? limit)%Z && negb (limit =? 0)%Z = false) ->
    (limit <= 0 \/ i < limit)%Z -> takeZ limit i (p :: ps) = p :: takeZ limit (i + 1) ps.
  Proof.
    intros Hi _ Hl. unfold takeZ. destruct (Z.leb_spec limit 0); [reflexivity|].
    replace (Z.to_nat (limit - i)) with (S (Z.to_nat (limit - (i + 1)))) by lia. reflexivity.
  Qed.

  Lemma stop_cases limit i : (0 <= i)%Z -> (limit <= 0 \/ i <= limit)%Z ->
    ((i =? limit)%Z && negb (limit =? 0)%Z = true /\ (0 < limit)%Z /\ i = limit) \/
    ((i =? limit)%Z && negb (limit =? 0)%Z = false /\ (limit <= 0 \/ i < limit)%Z).
  Proof.
    intros Hi Hl. destruct (Z.eqb_spec i limit) as [->|Hne]; destruct (Z.eqb_spec limit 0) as [->|Hz]; simpl.
    - right. split; [reflexivity|lia].
    - left. repeat split; lia.
    - right. split; [reflexivity|lia].
    - right. split; [reflexivity|lia].
  Qed.

  (* ---- lossless paging ---- *)
  Lemma loop_items m limit ps : m <> MCount -> forall i cur cnt, (0 <= i)%Z -> (limit <= 0 \/ i <= limit)%Z ->
    all_items (loop m limit ps i cur cnt) = cur ++ takeZ limit i ps.
  Proof.
    intros Hm. induction ps as [|p rest IH]; intros i cur cnt Hi Hl; cbn [iter_loop].
    - unfold all_items, takeZ; simpl. destruct (limit <=? 0)%Z; [|rewrite firstn_nil]; now rewrite !app_nil_r.
    - destruct (stop_cases limit i Hi Hl) as [(E & Hpos & ->)|(E & Hlt)]; rewrite E.
      + rewrite takeZ_stop by assumption. unfold all_items; simpl. now rewrite !app_nil_r.
      + rewrite (takeZ_step limit i p rest Hi E Hlt).
        set (cut := maxSize <=? resp_size P ksz vsz m cur cnt + sf P ksz vsz m p).
        assert (Hcur : forall c0, (match m with MCount => c0 | _ => c0 ++ [p] end) = c0 ++ [p]) by (destruct m; congruence).
        rewrite Hcur.
        destruct rest as [|q rest'].
        * unfold takeZ. replace (if (limit <=? 0)%Z then [] else firstn (Z.to_nat (limit - (i + 1))) []) with (@nil P)
            by (destruct (limit <=? 0)%Z; [reflexivity|now rewrite firstn_nil]).
          destruct cut; unfold all_items; simpl; rewrite ?app_nil_r; reflexivity.
        * unfold all_items. rewrite map_app, concat_app. fold (all_items (loop m limit (q :: rest') (i + 1)%Z
            ((if cut then [] else cur) ++ [p]) ((if cut then 0 else cnt) + 1)%Z)).
          rewrite IH by lia.
          destruct cut; simpl; rewrite ?app_nil_r; [reflexivity|]. now rewrite <- app_assoc.
  Qed.

  Theorem paging_lossless m limit ps : m <> MCount -> all_items (iter m limit ps) = takeZ limit 0 ps.
  Proof.
    intros Hm. unfold iterate. destruct ps as [|p rest].
    - unfold all_items, takeZ; simpl. destruct (limit <=? 0)%Z; [reflexivity|now rewrite firstn_nil].
    - rewrite (loop_items m limit (p :: rest) Hm 0%Z [] 0%Z) by lia. reflexivity.
  Qed.

  (* ---- counts ---- *)
  Lemma total_count_app a b : total_count (a ++ b) = (total_count a + total_count b)%Z.
  Proof. induction a as [|c a IH]; simpl; [reflexivity|]. rewrite IH. lia. Qed.

  Lemma loop_counts m limit ps : forall i cur cnt, (0 <= i)%Z -> (limit <= 0 \/ i <= limit)%Z ->
    total_count (loop m limit ps i cur cnt) = (cnt + Z.of_nat (length (takeZ limit i ps)))%Z.
  Proof.
    induction ps as [|p rest IH]; intros i cur cnt Hi Hl; cbn [iter_loop].
    - unfold takeZ. destruct (limit <=? 0)%Z; [|rewrite firstn_nil]; cbn [total_count fold_right ch_count length app]; lia.
    - destruct (stop_cases limit i Hi Hl) as [(E & Hpos & ->)|(E & Hlt)]; rewrite E.
      + rewrite takeZ_stop by assumption. cbn [total_count fold_right ch_count length app]. lia.
      + rewrite (takeZ_step limit i p rest Hi E Hlt).
        set (cut := maxSize <=? resp_size P ksz vsz m cur cnt + sf P ksz vsz m p).
        destruct rest as [|q rest'].
        * unfold takeZ. replace (if (limit <=? 0)%Z then [] else firstn (Z.to_nat (limit - (i + 1))) []) with (@nil P)
            by (destruct (limit <=? 0)%Z; [reflexivity|now rewrite firstn_nil]).
          destruct cut; cbn [total_count fold_right ch_count length app]; lia.
        * rewrite total_count_app, IH by lia. destruct cut; cbn [total_count fold_right ch_count length app]; lia.
  Qed.

  Theorem count_exact m limit ps : total_count (iter m limit ps) = Z.of_nat (length (takeZ limit 0 ps)).
  Proof.
    unfold iterate. destruct ps as [|p rest].
    - unfold takeZ. destruct (limit <=? 0)%Z; [|rewrite firstn_nil]; reflexivity.
    - rewrite (loop_counts m limit (p :: rest) 0%Z [] 0%Z) by lia. lia.
  Qed.

  (* in every chunk the count is the number of pairs it carries (keys-only and full reads) *)
  Lemma loop_chunk_counts m limit ps : m <> MCount -> forall i cur cnt, cnt = Z.of_nat (length cur) ->
    Forall (fun c => ch_count c = Z.of_nat (length (ch_items c))) (loop m limit ps i cur cnt).
  Proof.
    intros Hm. induction ps as [|p rest IH]; intros i cur cnt Hc; cbn [iter_loop].
    - constructor; [exact Hc|constructor].
    - destruct ((i =? limit)%Z && negb (limit =? 0)%Z); [constructor; [exact Hc|constructor]|].
      set (cut := maxSize <=? resp_size P ksz vsz m cur cnt + sf P ksz vsz m p).
      assert (Hcur : forall c0, (match m with MCount => c0 | _ => c0 ++ [p] end) = c0 ++ [p]) by (destruct m; congruence).
      rewrite Hcur.
      assert (Hn : ((if cut then 0 else cnt) + 1)%Z = Z.of_nat (length ((if cut then [] else cur) ++ [p]))).
      { rewrite app_length. destruct cut; simpl; lia. }
      assert (Hpre : Forall (fun c => ch_count c = Z.of_nat (length (ch_items c)))
                       (if cut then [ {| ch_items := cur; ch_count := cnt; ch_more := true |} ] else [])).
      { destruct cut; constructor; [exact Hc|constructor]. }
      destruct rest as [|q rest'].
      + apply Forall_app. split; [exact Hpre|]. constructor; [exact Hn|constructor].
      + apply Forall_app. split; [exact Hpre|]. apply IH. exact Hn.
  Qed.

  Theorem chunk_counts m limit ps : m <> MCount ->
    Forall (fun c => ch_count c = Z.of_nat (length (ch_items c))) (iter m limit ps).
  Proof.
    intros Hm. unfold iterate. destruct ps as [|p rest].
    - constructor; [reflexivity|constructor].
    - now apply loop_chunk_counts.
  Qed.

  (* count-only reads carry no pairs *)
  Lemma loop_count_only limit ps : forall i cur cnt, cur = [] ->
    Forall (fun c => ch_items c = []) (loop MCount limit ps i cur cnt).
  Proof.
    induction ps as [|p rest IH]; intros i cur cnt ->; cbn [iter_loop].
    - constructor; [reflexivity|constructor].
    - destruct ((i =? limit)%Z && negb (limit =? 0)%Z); [constructor; [reflexivity|constructor]|].
      set (cut := maxSize <=? _).
      assert (Hpre : Forall (fun c : chunk => ch_items c = [])
                       (if cut then [ {| ch_items := []; ch_count := cnt; ch_more := true |} ] else [])).
      { destruct cut; constructor; [reflexivity|constructor]. }
      assert (Hc : (if cut then @nil P else []) = []) by (destruct cut; reflexivity).
      destruct rest as [|q rest']; apply Forall_app; (split; [exact Hpre|]).
      + constructor; [simpl; exact Hc|constructor].
      + apply IH. exact Hc.
  Qed.

  (* ---- the 'more' flag ---- *)
  (* every chunk but the last is flagged; the last is flagged exactly when pairs of the range remain *)
  Definition more_ok (remain : bool) (cs : list chunk) : Prop :=
    exists front lastc, cs = front ++ [lastc] /\ Forall (fun c => ch_more c = true) front /\ ch_more lastc = remain.

  Definition remains (limit i : Z) (ps : list P) : bool :=
    (0 <? limit)%Z && (limit - i <? Z.of_nat (length ps))%Z.

  Lemma more_ok_cons c cs r : ch_more c = true -> more_ok r cs -> more_ok r (c :: cs).
  Proof.
    intros Hc (front & lastc & -> & Hf & Hl). exists (c :: front), lastc. repeat split; auto.
  Qed.

  Lemma loop_more m limit ps : forall i cur cnt, (0 <= i)%Z -> (limit <= 0 \/ i <= limit)%Z ->
    more_ok (remains limit i ps) (loop m limit ps i cur cnt).
  Proof.
    induction ps as [|p rest IH]; intros i cur cnt Hi Hl; cbn [iter_loop].
    - exists [], {| ch_items := cur; ch_count := cnt; ch_more := false |}. repeat split; [constructor|].
      unfold remains; simpl. destruct (0 <? limit)%Z eqn:E; simpl; [|reflexivity].
      apply Z.ltb_lt in E. symmetry. apply Z.ltb_ge. lia.
    - destruct (stop_cases limit i Hi Hl) as [(E & Hpos & ->)|(E & Hlt)]; rewrite E.
      + exists [], {| ch_items := cur; ch_count := cnt; ch_more := true |}. repeat split; [constructor|].
        unfold remains. cbn [length ch_more]. symmetry. apply andb_true_iff. split; [now apply Z.ltb_lt|apply Z.ltb_lt; lia].
      + set (cut := maxSize <=? resp_size P ksz vsz m cur cnt + sf P ksz vsz m p).
        assert (Hrem : remains limit i (p :: rest) = remains limit (i + 1) rest).
        { unfold remains. cbn [length]. destruct (0 <? limit)%Z eqn:E0; cbn [andb]; [|reflexivity].
          apply Z.ltb_lt in E0. rewrite Nat2Z.inj_succ.
          destruct (Z.ltb_spec (limit - i) (Z.succ (Z.of_nat (length rest))));
          destruct (Z.ltb_spec (limit - (i + 1)) (Z.of_nat (length rest))); try reflexivity; lia. }
        rewrite Hrem.
        assert (G : forall tl, more_ok (remains limit (i + 1) rest) tl ->
                      more_ok (remains limit (i + 1) rest)
                        ((if cut then [ {| ch_items := cur; ch_count := cnt; ch_more := true |} ] else []) ++ tl)).
        { intros tl Htl. destruct cut; simpl; [apply more_ok_cons; [reflexivity|exact Htl]|exact Htl]. }
        destruct rest as [|q rest'].
        * apply G. eexists [], _. repeat split; [constructor|].
          unfold remains; simpl. destruct (0 <? limit)%Z eqn:E0; simpl; [|reflexivity].
          apply Z.ltb_lt in E0. symmetry. apply Z.ltb_ge. lia.
        * apply G. apply IH; lia.
  Qed.

  Theorem more_exact m limit ps : more_ok (remains limit 0 ps) (iter m limit ps).
  Proof.
    unfold iterate. destruct ps as [|p rest].
    - exists [], {| ch_items := []; ch_count := 0%Z; ch_more := false |}. repeat split; [constructor|].
      unfold remains; simpl. destruct (0 <? limit)%Z eqn:E; simpl; [|reflexivity].
      apply Z.ltb_lt in E. symmetry. apply Z.ltb_ge. lia.
    - apply loop_more; lia.
  Qed.

  (* 'more' of the last chunk is true exactly when pairs of the range remain beyond those returned *)
  Lemma remains_spec limit ps : remains limit 0 ps = true <-> (length (takeZ limit 0 ps) < length ps)%nat.
  Proof.
    unfold remains, takeZ. rewrite Z.sub_0_r.
    destruct (Z.leb_spec limit 0) as [H|H].
    - replace (0 <? limit)%Z with false by (symmetry; apply Z.ltb_ge; lia). simpl. split; [discriminate|lia].
    - replace (0 <? limit)%Z with true by (symmetry; apply Z.ltb_lt; lia). simpl.
      rewrite firstn_length. rewrite Z.ltb_lt. lia.
  Qed.

  (* the pairs returned are a prefix of the range, at most 'limit' of them *)
  Lemma takeZ_prefix limit ps : exists rest, ps = takeZ limit 0 ps ++ rest.
  Proof.
    unfold takeZ. destruct (limit <=? 0)%Z.
    - exists []. now rewrite app_nil_r.
    - exists (skipn (Z.to_nat (limit - 0)) ps). now rewrite firstn_skipn.
  Qed.
  Lemma takeZ_limit limit ps : (0 < limit)%Z -> (Z.of_nat (length (takeZ limit 0 ps)) <= limit)%Z.
  Proof.
    intros H. unfold takeZ. destruct (Z.leb_spec limit 0); [lia|]. rewrite firstn_length. lia.
  Qed.
  Lemma takeZ_all limit ps : (limit <= 0 \/ Z.of_nat (length ps) <= limit)%Z -> takeZ limit 0 ps = ps.
  Proof.
    intros H. unfold takeZ. destruct (Z.leb_spec limit 0); [reflexivity|]. apply firstn_all2. lia.
  Qed.

  (* the unary read is the first message of the streamed read *)
  Lemma loop_nonempty m limit ps : forall i cur cnt, loop m limit ps i cur cnt <> [].
  Proof.
    induction ps as [|p rest IH]; intros i cur cnt; cbn [iter_loop]; [discriminate|].
    destruct ((i =? limit)%Z && negb (limit =? 0)%Z); [discriminate|].
    assert (G : forall (pre tl : list chunk), tl <> [] -> pre ++ tl <> []).
    { intros pre tl H E. apply app_eq_nil in E. destruct E. contradiction. }
    destruct rest as [|q rest']; apply G; [discriminate|apply IH].
  Qed.

  Lemma iterate_nonempty m limit ps : iter m limit ps <> [].
  Proof. unfold iterate. destruct ps as [|p rest]; [discriminate|apply loop_nonempty]. Qed.
End IterFacts.
