From Coq Require Import Lia.
From Verif Require Import Model.Bytes Model.Auth Proofs.BytesFacts Proofs.SMapFacts.

Lemma beqb_true_eq a b : beqb a b = true -> a = b.
Proof. apply beqb_eq. Qed.

Lemma cut_space_spec l : forall a b, cut_space l = Some (a, b) -> l = a ++ 32 :: b /\ ~ In 32 a.
Proof.
  induction l as [|c r IH]; intros a b H; [discriminate|]. simpl in H.
  destruct (N.eqb_spec c 32) as [->|Hc].
  - injection H as <- <-. split; [reflexivity|intros []].
  - destruct (cut_space r) as [[a' b']|] eqn:E; [|discriminate]. injection H as <- <-.
    destruct (IH a' b' eq_refl) as [-> Hn]. split; [reflexivity|]. intros [H|H]; [congruence|contradiction].
Qed.

(* with a token configured, a call is let through only if the header is "<scheme> <token>" with scheme = bearer
   (any letter case) and EXACTLY the configured token after the first space *)
Theorem token_required token header : token <> [] -> auth_func token header = true ->
  exists scheme, header = Some (scheme ++ 32 :: token) /\ eq_fold scheme bearer = true /\ ~ In 32 scheme.
Proof.
  intros Hne H. unfold auth_func in H. destruct token as [|t0 tr]; [congruence|].
  unfold auth_from_md in H. destruct header as [val|]; [|discriminate]. destruct val as [|v0 vr]; [discriminate|].
  destruct (cut_space (v0 :: vr)) as [[scheme tok]|] eqn:Ec; [|discriminate].
  destruct (eq_fold scheme bearer) eqn:Es; [|discriminate].
  apply beqb_true_eq in H. subst tok. exists scheme.
  destruct (cut_space_spec _ _ _ Ec) as [-> Hn]. auto.
Qed.

(* no header, or any other token (prefix, suffix, different case, ...) is refused *)
Corollary wrong_token_refused token scheme t : token <> [] -> t <> token -> ~ In 32 scheme ->
  auth_func token (Some (scheme ++ 32 :: t)) = false.
Proof.
  intros Hne Ht Hs. destruct (auth_func token (Some (scheme ++ 32 :: t))) eqn:E; [|reflexivity]. exfalso.
  destruct (token_required token _ Hne E) as (s' & Hh & _ & Hs'). injection Hh as Hh.
  (* both decompositions cut at the first space *)
  assert (G : forall a b x y, ~ In 32 a -> ~ In 32 b -> a ++ 32 :: x = b ++ 32 :: y -> x = y).
  { clear. induction a as [|c a IH]; intros [|d b] x y Ha Hb Heq; simpl in *.
    - congruence.
    - injection Heq as E _. exfalso. apply Hb. left. now symmetry.
    - injection Heq as E _. exfalso. apply Ha. now left.
    - injection Heq as E Heq. apply (IH b x y); auto. }
  apply Ht. exact (G scheme s' t token Hs Hs' Hh).
Qed.

Theorem missing_header_refused token : token <> [] -> auth_func token None = false.
Proof. destruct token; [congruence|reflexivity]. Qed.

Theorem no_token_configured_allows header : auth_func [] header = true.
Proof. reflexivity. Qed.

(* other services are unaffected: without an override the default (allow all) decides *)
Theorem token_scope header : intercept None header = true.
Proof. reflexivity. Qed.
Theorem token_scope_override tok header : intercept (Some tok) header = auth_func tok header.
Proof. reflexivity. Qed.

(* ---- TLS ---- *)
Theorem tls_requires o mode vp : server_config o = Cfg mode vp ->
  (o_trusted_ca o = true \/ o_client_cert_auth o = true -> mode = RequireAndVerifyClientCert) /\
  (vp = true <-> o_allowed_cn o <> [] \/ o_allowed_hostname o <> []).
Proof.
  unfold server_config. destruct (o_allowed_cn o) as [|c cn], (o_allowed_hostname o) as [|h hn]; intros [= <- <-]; split.
  - intros [H|H]; rewrite H; simpl; [reflexivity|now rewrite orb_true_r].
  - split; [discriminate|intros [H|H]; congruence].
  - intros [H|H]; rewrite H; simpl; [reflexivity|now rewrite orb_true_r].
  - split; [intros _; right; discriminate|reflexivity].
  - intros [H|H]; rewrite H; simpl; [reflexivity|now rewrite orb_true_r].
  - split; [intros _; left; discriminate|reflexivity].
Qed.

Theorem tls_mutually_exclusive o : o_allowed_cn o <> [] -> o_allowed_hostname o <> [] -> server_config o = CfgError.
Proof. unfold server_config. destruct (o_allowed_cn o), (o_allowed_hostname o); congruence. Qed.

(* with a trusted CA and an allowed CN: accepted only with a certificate that chains to the CA and whose leaf (of the
   first verified chain) carries exactly that CN; with an allowed hostname: valid for that hostname *)
Theorem tls_cn o presented chains_ok leaves : o_trusted_ca o = true -> o_allowed_cn o <> [] -> o_allowed_hostname o = [] ->
  accepts o presented chains_ok leaves = true ->
  presented = true /\ chains_ok = true /\ exists l r, leaves = l :: r /\ l_cn l = o_allowed_cn o.
Proof.
  intros Hca Hcn Hhn. unfold accepts, server_config. rewrite Hhn, Hca.
  destruct (o_allowed_cn o) as [|c cn] eqn:Ecn; [congruence|]. simpl.
  intros H. apply andb_true_iff in H. destruct H as [H1 H2]. apply andb_true_iff in H1. destruct H1 as [-> ->].
  repeat split. unfold verify_peer in H2. rewrite Hhn, Ecn in H2.
  destruct leaves as [|l r]; [discriminate|]. exists l, r. split; [reflexivity|]. symmetry. now apply beqb_true_eq.
Qed.

Theorem tls_hostname o presented chains_ok leaves : o_trusted_ca o = true -> o_allowed_cn o = [] -> o_allowed_hostname o <> [] ->
  accepts o presented chains_ok leaves = true ->
  presented = true /\ chains_ok = true /\ exists l r, leaves = l :: r /\ l_valid_for l (o_allowed_hostname o) = true.
Proof.
  intros Hca Hcn Hhn. unfold accepts, server_config. rewrite Hcn, Hca.
  destruct (o_allowed_hostname o) as [|h hn] eqn:Ehn; [congruence|]. simpl.
  intros H. apply andb_true_iff in H. destruct H as [H1 H2]. apply andb_true_iff in H1. destruct H1 as [-> ->].
  repeat split. unfold verify_peer in H2. rewrite Ehn in H2.
  destruct leaves as [|l r]; [discriminate|]. exists l, r. split; [reflexivity|exact H2].
Qed.
