From Coq Require Import Lia.
From Verif Require Import Model.Bytes Model.KeyEnc Proofs.BytesFacts.

Lemma hdr_len : length hdr = N.to_nat key_headerLen.
Proof. reflexivity. Qed.

Lemma hdr_head : exists t, hdr = key_V1 :: t.
Proof. eexists; reflexivity. Qed.

Lemma encode_len ty k : length (encode ty k) = (N.to_nat key_headerLen + 1 + length k)%nat.
Proof. unfold encode. rewrite app_length, hdr_len. simpl. lia. Qed.

(* decoding what the encoder wrote; the quirk: an EMPTY user key decodes to the zero key *)
Lemma decode_encode ty k : k <> [] -> decode_bytes (encode ty k) = inl (ty, k).
Proof.
  intros Hk. unfold decode_bytes.
  rewrite encode_len.
  replace (N.of_nat (N.to_nat key_headerLen + 1 + length k) <? key_headerLen) with false
    by (symmetry; apply N.ltb_ge; lia).
  unfold encode. rewrite <- hdr_len, skipn_app_len.
  destruct hdr_head as [t Ht]. rewrite Ht. cbn [app].
  rewrite N.eqb_refl.
  destruct k; [congruence|reflexivity].
Qed.

Lemma decode_encode_empty ty : decode_bytes (encode ty []) = inl (key_TypeUnknown, []).
Proof. reflexivity. Qed.

Lemma decode_stream_encode ty k :
  (length k < N.to_nat (key_V1KeyLen - key_headerLen))%nat -> decode_stream (encode ty k) = inl (ty, k).
Proof.
  intros Hk. unfold decode_stream.
  rewrite encode_len.
  replace (N.of_nat (N.to_nat key_headerLen + 1 + length k) <? key_headerLen) with false
    by (symmetry; apply N.ltb_ge; lia).
  unfold encode. rewrite <- hdr_len, firstn_app_len, skipn_app_len.
  change (existsb (fun b : N => negb (b =? 0)) (tl hdr)) with false. cbv iota.
  destruct hdr_head as [t Ht]. rewrite Ht. rewrite N.eqb_refl.
  rewrite firstn_all2 by (cbn [length]; lia). reflexivity.
Qed.

Lemma encode_inj ty a b : encode ty a = encode ty b -> a = b.
Proof. unfold encode. intros H. apply app_inv_head in H. congruence. Qed.

Lemma encode_order ty a b : lex_compare (encode ty a) (encode ty b) = lex_compare a b.
Proof. unfold encode. rewrite lex_prefix. simpl. now rewrite N.compare_refl. Qed.

Lemma encode_type_order t1 t2 a b : t1 < t2 -> lex_compare (encode t1 a) (encode t2 b) = Lt.
Proof.
  intros H. unfold encode. rewrite lex_prefix. simpl.
  destruct (N.compare_spec t1 t2); try lia; reflexivity.
Qed.

Lemma wildcard_upper_eq :
  wildcard_upper = encode (key_TypeUser + 1) (repeat 0 (N.to_nat key_LatestMaxKeyLen)).
Proof. vm_compute. reflexivity. Qed.

Lemma wildcard_covers_all_user_keys k : blt (enc k) wildcard_upper.
Proof. rewrite wildcard_upper_eq. apply encode_type_order. lia. Qed.

Lemma low_wildcard_is_minimum k : k <> [] -> ble [0] k.
Proof.
  destruct k as [|x k]; [congruence|]. intros _. unfold ble. simpl.
  destruct x; [destruct k|]; discriminate.
Qed.

Lemma range_bounds_agree lo hi k :
  in_bounds (enc lo, enc hi) (enc k) = bleb lo k && bltb k hi.
Proof. unfold in_bounds, bleb, bltb, enc; cbn [fst snd]. now rewrite !encode_order. Qed.

Definition sys_name (s : bytes) : bytes := skipn (N.to_nat key_headerLen + 1) s.

Lemma sysLocalIndex_enc : sysLocalIndex = encode key_TypeSystem (sys_name sysLocalIndex).
Proof. reflexivity. Qed.
Lemma sysLeaderIndex_enc : sysLeaderIndex = encode key_TypeSystem (sys_name sysLeaderIndex).
Proof. reflexivity. Qed.

Lemma user_lt_system : key_TypeUser < key_TypeSystem.
Proof. reflexivity. Qed.

Lemma sys_above_user n k : blt (enc k) (encode key_TypeSystem n).
Proof. apply encode_type_order, user_lt_system. Qed.

Lemma sys_outside_bounds n lo hi :
  bltb (encode key_TypeSystem n) wildcard_upper = false ->
  in_bounds (bounds lo hi) (encode key_TypeSystem n) = false.
Proof.
  intros Hw. unfold in_bounds, bounds; cbn [fst snd].
  destruct (beqb hi wildcard).
  - rewrite Hw. apply andb_false_r.
  - pose proof (sys_above_user n hi) as H. unfold blt in H.
    unfold bltb at 1. rewrite lex_antisym, H. simpl. rewrite ?andb_false_r. reflexivity.
Qed.

Lemma sys_keys_outside_user_ranges lo hi :
  in_bounds (bounds lo hi) sysLocalIndex = false /\ in_bounds (bounds lo hi) sysLeaderIndex = false.
Proof.
  split.
  - rewrite sysLocalIndex_enc. apply sys_outside_bounds. vm_compute. reflexivity.
  - rewrite sysLeaderIndex_enc. apply sys_outside_bounds. vm_compute. reflexivity.
Qed.

Lemma enc_ne_sys k : enc k <> sysLocalIndex /\ enc k <> sysLeaderIndex.
Proof.
  split; intros E.
  - pose proof (sys_above_user (sys_name sysLocalIndex) k) as H. rewrite <- sysLocalIndex_enc, <- E in H.
    unfold blt in H. now rewrite lex_refl in H.
  - pose proof (sys_above_user (sys_name sysLeaderIndex) k) as H. rewrite <- sysLeaderIndex_enc, <- E in H.
    unfold blt in H. now rewrite lex_refl in H.
Qed.

Lemma sys_keys_decode_system :
  decode_bytes sysLocalIndex = inl (key_TypeSystem, sys_name sysLocalIndex) /\
  decode_bytes sysLeaderIndex = inl (key_TypeSystem, sys_name sysLeaderIndex) /\
  sysLocalIndex <> sysLeaderIndex.
Proof. repeat split; try reflexivity. discriminate. Qed.

(* every key inside user bounds that is an encoded user key decodes back to a user key *)
Lemma user_reads_decode_user k : k <> [] -> decode_bytes (enc k) = inl (key_TypeUser, k).
Proof. apply decode_encode. Qed.

(* incr is the strict successor bound for prefix scans: every string that extends l is below incr l,
   provided l does not consist of 0xFF bytes only (used for wildcard_upper only through vm_compute) *)
Lemma incr_aux_len l : length (fst (incr_aux l)) = length l.
Proof.
  induction l as [|x r IH]; simpl; [reflexivity|].
  destruct (incr_aux r) as [r' c]; simpl in *. destruct c; simpl; lia.
Qed.
