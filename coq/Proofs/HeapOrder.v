(* util/heap: the ORDER invariant of the slice-backed binary heap.  [heap_ok l]: no element is smaller than its parent
   ((i-1)/2).  Push, Pop, New (Floyd's heapify) establish / preserve it, and it makes the root a minimum - which is what
   the notification queue needs to release every waiter whose revision is reached (C11). *)
From Coq Require Import Lia Permutation.
From Coq Require Import ZArith ZifyNat.
From Verif Require Import Model.Bytes Model.Heap Proofs.HeapFacts.
Ltac Zify.zify_post_hook ::= Z.div_mod_to_equations.

Section Order.
  Variable A : Type.
  Variable less : A -> A -> bool.
  Variable dflt : A.
  Notation hnth := (hnth A dflt).
  Notation swap := (swap A dflt).
  Definition le (x y : A) : bool := negb (less y x).
  (* [less] is the strict part of a total preorder *)
  Hypothesis le_trans : forall x y z, le x y = true -> le y z = true -> le x z = true.
  Hypothesis less_le : forall x y, less x y = true -> le x y = true.

  Lemma le_refl x : le x x = true.
  Proof. unfold le. destruct (less x x) eqn:E; [|reflexivity]. pose proof (less_le x x E) as H. unfold le in H. rewrite E in H. discriminate. Qed.

  Definition par (i : nat) : nat := ((i - 1) / 2)%nat.
  Lemma par_lt i : (0 < i)%nat -> (par i < i)%nat.
  Proof. unfold par. intros H. lia. Qed.

  (* the first n slots form a heap *)
  Definition heap_at (l : list A) (n : nat) : Prop :=
    forall i, (0 < i < n)%nat -> le (hnth l (par i)) (hnth l i) = true.
  Definition heap_ok (l : list A) : Prop := heap_at l (length l).

  Lemma hnth_swap l i j k : (i < length l)%nat -> (j < length l)%nat ->
    hnth (swap l i j) k = if Nat.eqb k j then hnth l i else if Nat.eqb k i then hnth l j else hnth l k.
  Proof.
    intros Hi Hj. unfold Heap.swap.
    destruct (Nat.eqb_spec k j) as [->|Hkj].
    - apply hnth_set_nth_same. now rewrite set_nth_length.
    - rewrite hnth_set_nth_other by congruence.
      destruct (Nat.eqb_spec k i) as [->|Hki]; [now apply hnth_set_nth_same|].
      apply hnth_set_nth_other. congruence.
  Qed.

  (* ---- up: the heap property may fail only between j and its parent ---- *)
  Lemma up_ok fuel : forall l j, (j < length l)%nat -> (j <= fuel)%nat ->
    (forall i, (0 < i < length l)%nat -> i <> j -> le (hnth l (par i)) (hnth l i) = true) ->
    (forall c, (0 < j)%nat -> (c < length l)%nat -> (0 < c)%nat -> par c = j -> le (hnth l (par j)) (hnth l c) = true) ->
    heap_ok (up A less dflt fuel l j).
  Proof.
    induction fuel as [|f IH]; intros l j Hj Hf Ha Hb.
    - cbn [up]. intros i Hi. apply Ha; lia.
    - cbn [up]. fold (par j).
      destruct (Nat.eqb_spec (par j) j) as [E|E].
      { cbn [orb]. intros i Hi. apply Ha; [assumption|]. unfold par in E. lia. }
      cbn [orb]. destruct (less (hnth l j) (hnth l (par j))) eqn:El; cbn [negb].
      2:{ intros i Hi. destruct (Nat.eq_dec i j) as [->|Hne]; [|now apply Ha]. unfold le. now rewrite El. }
      assert (Hj0 : (0 < j)%nat) by (unfold par in E; lia).
      pose proof (par_lt j Hj0) as Hp.
      assert (Hsl : length (swap l (par j) j) = length l) by apply swap_length.
      apply IH; rewrite ?Hsl; try lia.
      + (* every other position is in order after the swap *)
        intros i Hi Hne. rewrite !hnth_swap by lia.
        destruct (Nat.eqb_spec i j) as [->|Hij].
        * (* i = j: its parent now holds the old l[j], it holds the old l[par j] *)
          replace (par j =? j)%nat with false by (symmetry; apply Nat.eqb_neq; lia). rewrite Nat.eqb_refl.
          now apply less_le.
        * destruct (Nat.eqb_spec i (par j)) as [Hip|Hip]; [contradiction|].
          destruct (Nat.eqb_spec (par i) j) as [Hpj|Hpj].
          -- (* a child of j: its parent now holds the old l[par j] *)
             apply Hb; try lia.
          -- destruct (Nat.eqb_spec (par i) (par j)) as [Hpp|Hpp].
             ++ (* a sibling of j: its parent now holds the old l[j] *)
                apply le_trans with (hnth l (par j)); [now apply less_le|]. rewrite <- Hpp. apply Ha; lia.
             ++ apply Ha; lia.
      + (* the children of the new position are in order with its parent *)
        intros c Hpj0 Hc Hc0 Hpc. rewrite !hnth_swap by lia.
        assert (Hpp : (par (par j) < par j)%nat) by (apply par_lt; assumption).
        replace (par (par j) =? j)%nat with false by (symmetry; apply Nat.eqb_neq; lia).
        replace (par (par j) =? par j)%nat with false by (symmetry; apply Nat.eqb_neq; lia).
        assert (Hgp : le (hnth l (par (par j))) (hnth l (par j)) = true) by (apply Ha; lia).
        destruct (Nat.eqb_spec c j) as [->|Hcj]; [exact Hgp|].
        replace (c =? par j)%nat with false by (symmetry; apply Nat.eqb_neq; unfold par in *; lia).
        apply le_trans with (hnth l (par j)); [exact Hgp|]. rewrite <- Hpc. apply Ha; lia.
  Qed.

  Lemma hnth_app_l l x i : (i < length l)%nat -> hnth (l ++ [x]) i = hnth l i.
  Proof. intros H. unfold Heap.hnth. now apply app_nth1. Qed.

  Theorem push_ok l x : heap_ok l -> heap_ok (push A less dflt l x).
  Proof.
    intros H. unfold push. rewrite app_length. cbn [length]. apply up_ok; rewrite ?app_length; cbn [length]; try lia.
    - intros i Hi Hne. rewrite !hnth_app_l by (unfold par; lia). apply H. lia.
    - intros c Hj0 Hc _ Hpc. unfold par in Hpc. lia.
  Qed.

  (* ---- down: within the first n slots, the heap property may fail only between i and its children; only edges whose
     parent is at or below lo are considered (lo = 0: the whole heap; lo = i: the subtree rooted at i) ---- *)
  Lemma down_go_ok fuel : forall l i n lo, (n <= length l)%nat -> (i < n)%nat -> (n <= i + fuel)%nat ->
    (forall k, (0 < k < n)%nat -> par k <> i -> (lo <= par k)%nat -> le (hnth l (par k)) (hnth l k) = true) ->
    (forall c, (0 < i)%nat -> (lo <= par i)%nat -> (0 < c < n)%nat -> par c = i -> le (hnth l (par i)) (hnth l c) = true) ->
    forall k, (0 < k < n)%nat -> (lo <= par k)%nat ->
      le (hnth (fst (down_go A less dflt fuel l i n)) (par k)) (hnth (fst (down_go A less dflt fuel l i n)) k) = true.
  Proof.
    induction fuel as [|f IH]; intros l i n lo Hn Hi Hf Ha Hb k Hk Hlo.
    - cbn [down_go fst]. apply Ha; try assumption. unfold par. lia.
    - cbn [down_go]. destruct (Nat.leb_spec n (2 * i + 1)) as [Hc|Hc].
      { cbn [fst]. apply Ha; try assumption. unfold par. lia. }
      set (j1 := (2 * i + 1)%nat) in *.
      set (j := if ((j1 + 1 <? n)%nat && less (hnth l (j1 + 1)) (hnth l j1))%bool then (j1 + 1)%nat else j1).
      (* j is a child of i inside the prefix and no larger than the other child *)
      assert (Hj : (j < n)%nat /\ par j = i /\ (j = j1 \/ j = (j1 + 1)%nat) /\
                   (forall s, (s = j1 \/ s = (j1 + 1)%nat) -> (s < n)%nat -> le (hnth l j) (hnth l s) = true)).
      { unfold j. destruct (Nat.ltb_spec (j1 + 1) n) as [H2|H2]; cbn [andb].
        - destruct (less (hnth l (j1 + 1)) (hnth l j1)) eqn:El.
          + repeat split; try (unfold par, j1; lia). intros s [->| ->] _; [now apply less_le|apply le_refl].
          + repeat split; try (unfold par, j1; lia). intros s [->| ->] _; [apply le_refl|unfold le; now rewrite El].
        - repeat split; try (unfold par, j1; lia). intros s [->| ->] Hs; [apply le_refl|lia]. }
      destruct Hj as [Hjn [Hpj [Hjc Hjmin]]]. clearbody j.
      destruct (less (hnth l j) (hnth l i)) eqn:El; cbn [negb].
      2:{ (* i is not larger than its smaller child: the heap property holds everywhere *)
          cbn [fst]. destruct (Nat.eq_dec (par k) i) as [Hpk|Hpk]; [|now apply Ha].
          assert (Hks : k = j1 \/ k = (j1 + 1)%nat) by (unfold par, j1 in *; lia).
          rewrite Hpk. apply le_trans with (hnth l j); [unfold le; now rewrite El|]. apply Hjmin; [assumption|lia]. }
      assert (Hsl : length (swap l i j) = length l) by apply swap_length.
      apply (IH (swap l i j) j n lo); rewrite ?Hsl; try lia; try assumption.
      + intros k' Hk' Hpk' Hlo'. rewrite !hnth_swap by lia.
        destruct (Nat.eqb_spec k' j) as [->|Hkj].
        * (* the swapped child: its parent i now holds the old l[j] *)
          rewrite Hpj. replace (i =? j)%nat with false by (symmetry; apply Nat.eqb_neq; unfold par in Hpj; lia).
          rewrite Nat.eqb_refl. now apply less_le.
        * destruct (Nat.eqb_spec (par k') j) as [E|E]; [contradiction|].
          destruct (Nat.eqb_spec k' i) as [->|Hki].
          -- (* i itself: it now holds the old l[j], its parent is unchanged *)
             replace (par i =? i)%nat with false by (symmetry; apply Nat.eqb_neq; unfold par; lia).
             apply Hb; try lia; rewrite Hpj in *; lia.
          -- destruct (Nat.eqb_spec (par k') i) as [Hpi|Hpi].
             ++ (* the other child of i: its parent now holds the old l[j] *)
                apply Hjmin; [unfold par, j1 in *; lia|lia].
             ++ apply Ha; assumption.
      + intros c Hj0 Hloj Hc0 Hpc. rewrite !hnth_swap by lia.
        rewrite Hpj. replace (i =? j)%nat with false by (symmetry; apply Nat.eqb_neq; unfold par in Hpj; lia).
        rewrite Nat.eqb_refl.
        replace (c =? j)%nat with false by (symmetry; apply Nat.eqb_neq; unfold par in Hpc; lia).
        replace (c =? i)%nat with false by (symmetry; apply Nat.eqb_neq; unfold par in Hpc, Hpj; lia).
        rewrite <- Hpc. apply Ha; try lia; rewrite Hpc; unfold par in Hpj; lia.
  Qed.

  (* the root is a minimum *)
  Theorem peek_min l : heap_ok l -> forall i, (i < length l)%nat -> le (hnth l 0) (hnth l i) = true.
  Proof.
    intros H i. induction i as [i IH] using lt_wf_ind. intros Hi. destruct i as [|i]; [apply le_refl|].
    apply le_trans with (hnth l (par (S i))); [apply IH; [apply par_lt; lia|pose proof (par_lt (S i)); lia]|].
    apply H. lia.
  Qed.

  Lemma hnth_firstn l n k : (k < n)%nat -> hnth (firstn n l) k = hnth l k.
  Proof.
    unfold Heap.hnth. revert n k. induction l as [|x l IH]; intros [|n] [|k] H; cbn; try lia; try reflexivity.
    apply IH. lia.
  Qed.

  Theorem pop_ok l x l' : heap_ok l -> pop A less dflt l = Some (x, l') -> heap_ok l'.
  Proof.
    intros H Hp. unfold pop in Hp. destruct l as [|y r] eqn:E; [discriminate|]. rewrite <- E in *.
    assert (Hlen : (0 < length l)%nat) by (rewrite E; cbn; lia). clear y r E.
    injection Hp as _ <-. rewrite down_fst, swap_length.
    set (n := (length l - 1)%nat). set (l1 := swap l 0 n).
    assert (Hl1 : length l1 = length l) by apply swap_length.
    set (l2 := fst (down_go A less dflt (length l) l1 0 n)).
    assert (Hl2 : length l2 = length l) by (unfold l2; rewrite down_go_length; exact Hl1).
    unfold heap_ok, heap_at. rewrite firstn_length, Hl2. replace (Nat.min n (length l)) with n by (unfold n; lia).
    intros k Hk. rewrite !hnth_firstn by (pose proof (par_lt k); lia).
    destruct (Nat.eq_dec n 0) as [Hn0|Hn0]; [lia|].
    unfold l2. apply (down_go_ok (length l) l1 0 n 0); rewrite ?Hl1; unfold n in *; try lia.
    - intros k' Hk' Hpk' _. unfold l1. rewrite !hnth_swap by lia.
      replace (k' =? length l - 1)%nat with false by (symmetry; apply Nat.eqb_neq; lia).
      replace (k' =? 0)%nat with false by (symmetry; apply Nat.eqb_neq; lia).
      replace (par k' =? length l - 1)%nat with false by (symmetry; apply Nat.eqb_neq; pose proof (par_lt k'); lia).
      replace (par k' =? 0)%nat with false by (symmetry; apply Nat.eqb_neq; lia).
      apply H. lia.
  Qed.

  (* Floyd's heapify: after the nodes k, k+1, ... have been sifted down, every edge whose parent is at or above k is in order *)
  Lemma heapify_go_ok k : forall l, (k <= length l)%nat ->
    (forall c, (0 < c < length l)%nat -> (k <= par c)%nat -> le (hnth l (par c)) (hnth l c) = true) ->
    heap_ok (heapify_go A less dflt k l).
  Proof.
    induction k as [|k IH]; intros l Hk H.
    - cbn [heapify_go]. intros c Hc. apply H; lia.
    - cbn [heapify_go]. rewrite down_fst.
      assert (Hlen : length (fst (down_go A less dflt (length l) l k (length l))) = length l) by apply down_go_length.
      apply IH; rewrite ?Hlen; [lia|].
      intros c Hc Hpc. apply (down_go_ok (length l) l k (length l) k); try lia.
      + intros k' Hk' Hne Hlo. apply H; [assumption|lia].
      + intros c' Hk0 Hlo. pose proof (par_lt k Hk0). lia.
  Qed.
  Theorem heapify_ok l : heap_ok (heapify A less dflt l).
  Proof.
    unfold heapify. apply heapify_go_ok.
    - apply Nat.div_le_upper_bound; lia.
    - intros c Hc Hp. unfold par in Hp. lia.
  Qed.
End Order.
