(* storage/queue.go: every table's waiter heap keeps the order invariant through Add, notifications and sweeps, and a
   notification at leader index r leaves no waiter with revision <= r behind (promptness of C11). *)
From Coq Require Import Lia Permutation.
From Verif Require Import Model.Bytes Model.Heap Model.Queue Proofs.HeapFacts Proofs.HeapOrder.

Notation hok := (heap_ok item lessi ditem).

Lemma lei_trans x y z : le item lessi x y = true -> le item lessi y z = true -> le item lessi x z = true.
Proof. unfold le, lessi. destruct (N.ltb_spec (it_rev y) (it_rev x)); destruct (N.ltb_spec (it_rev z) (it_rev y)); destruct (N.ltb_spec (it_rev z) (it_rev x)); cbn; intros; try reflexivity; try discriminate; lia. Qed.
Lemma lessi_le x y : lessi x y = true -> le item lessi x y = true.
Proof. unfold le, lessi. destruct (N.ltb_spec (it_rev x) (it_rev y)); destruct (N.ltb_spec (it_rev y) (it_rev x)); cbn; intros; try reflexivity; try discriminate; lia. Qed.
Lemma lei_rev x y : le item lessi x y = true <-> it_rev x <= it_rev y.
Proof. unfold le, lessi. destruct (N.ltb_spec (it_rev y) (it_rev x)); cbn; split; intros; try reflexivity; try discriminate; lia. Qed.

Lemma In_hnth (l : list item) x : In x l -> exists i, (i < length l)%nat /\ hnth item ditem l i = x.
Proof. intros H. destruct (In_nth l x ditem H) as [i [Hi E]]. exists i. split; assumption. Qed.

(* the root has the smallest revision *)
Lemma root_min h e : hok h -> peek item h = Some e -> forall x, In x h -> it_rev e <= it_rev x.
Proof.
  intros Hh Hp x Hx. destruct h as [|e0 r]; [discriminate|]. cbn in Hp. injection Hp as <-.
  destruct (In_hnth _ _ Hx) as [i [Hi <-]]. apply lei_rev.
  exact (peek_min item lessi ditem lei_trans lessi_le (e0 :: r) Hh i Hi).
Qed.

Lemma pop_length h x h' : pop item lessi ditem h = Some (x, h') -> length h = S (length h').
Proof.
  intros Hp. destruct (pop_spec item lessi ditem h x h' Hp) as [r [-> Hperm]]. cbn. f_equal. symmetry.
  now apply Permutation_length.
Qed.

(* a notification at [rev] that does not get stuck leaves an ordered heap all of whose waiters wait for more *)
Theorem notify_complete canc rev fuel : forall h cs ans h' cs' ans', (length h <= fuel)%nat -> hok h ->
  notify_loop fuel canc rev h cs ans = (Fine, h', cs', ans') ->
  hok h' /\ forall x, In x h' -> rev < it_rev x.
Proof.
  induction fuel as [|f IH]; intros h cs ans h' cs' ans' Hlen Hh Hr.
  - cbn in Hr. injection Hr as <- _ _. destruct h; [|cbn in Hlen; lia]. split; [assumption|]. intros x [].
  - cbn [notify_loop] in Hr. destruct (peek item h) as [e|] eqn:Ep; [|discriminate].
    destruct (canc (it_id e)).
    + destruct (send_err cs (it_id e)) as [cs1|]; [|discriminate].
      destruct (pop item lessi ditem h) as [[x h1]|] eqn:Epop; [|discriminate].
      eapply (IH h1); [pose proof (pop_length _ _ _ Epop); lia| |exact Hr].
      exact (pop_ok item lessi ditem lei_trans lessi_le h x h1 Hh Epop).
    + destruct (it_rev e <=? rev) eqn:Er.
      * destruct (cget cs (it_id e)); try discriminate;
          (destruct (pop item lessi ditem h) as [[x h1]|] eqn:Epop; [|discriminate];
           eapply (IH h1); [pose proof (pop_length _ _ _ Epop); lia| |exact Hr];
           exact (pop_ok item lessi ditem lei_trans lessi_le h x h1 Hh Epop)).
      * injection Hr as <- _ _. split; [assumption|]. intros x Hx. apply N.leb_gt in Er.
        pose proof (root_min h e Hh Ep x Hx). lia.
Qed.

(* ---- all tables ---- *)
Definition all_heaps_ok (s : qstate) : Prop := forall t, hok (hget (heaps s) t).

Lemma hok_nil : hok [].
Proof. intros i Hi. cbn in Hi. lia. Qed.

Lemma hget_hset hs t h t' : hget (hset hs t h) t' = if t =? t' then h else hget hs t'.
Proof.
  induction hs as [|[k h0] r IH]; cbn.
  - destruct (N.eqb_spec t t'); reflexivity.
  - destruct (N.eqb_spec k t) as [->|Hkt]; cbn.
    + destruct (N.eqb_spec t t'); reflexivity.
    + destruct (N.eqb_spec k t') as [->|Hkt'].
      * destruct (N.eqb_spec t t'); [congruence|reflexivity].
      * exact IH.
Qed.

(* a sweep that does not get stuck re-heapifies every table *)
Lemma sweep_all_ok canc : forall hs cs ans hs' cs' ans', sweep_all canc hs cs ans = (Fine, hs', cs', ans') ->
  forall t, hok (hget hs' t).
Proof.
  induction hs as [|[k h] r IH]; intros cs ans hs' cs' ans' Hs t.
  - cbn in Hs. injection Hs as <- _ _. apply hok_nil.
  - cbn [sweep_all] in Hs. destruct (sweep_scan canc h cs ans) as [[[o live] cs1] ans1].
    destruct o; try discriminate.
    destruct (sweep_all canc r cs1 ans1) as [[[o2 r'] cs2] ans2] eqn:E2. injection Hs as -> <- _ _.
    cbn [hget]. destruct (k =? t); [apply (heapify_ok item lessi ditem lei_trans lessi_le)|].
    exact (IH _ _ _ _ _ E2 t).
Qed.

Theorem step_heaps_ok s e o s' r : all_heaps_ok s -> step s e = (o, s', r) -> o = Fine -> all_heaps_ok s'.
Proof.
  intros Hs He Ho. subst o. destruct e; cbn [step] in He.
  - (* Add *) injection He as <- _. intros t. cbn [heaps]. rewrite hget_hset. destruct (table =? t); [|apply Hs].
    apply (push_ok item lessi ditem lei_trans lessi_le). apply Hs.
  - injection He as <- _. exact Hs.
  - (* Notify *)
    destruct (notify_loop _ _ _ _ _ _) as [[[o h'] cs'] ans'] eqn:En. injection He as -> <- _.
    intros t. cbn [heaps]. rewrite hget_hset. destruct (table =? t); [|apply Hs].
    exact (proj1 (notify_complete _ _ _ _ _ _ _ _ _ (le_n _) (Hs table) En)).
  - (* Sweep *)
    destruct (sweep_all _ _ _ _) as [[[o hs'] cs'] ans'] eqn:Es. injection He as -> <- _.
    intros t. cbn [heaps]. exact (sweep_all_ok _ _ _ _ _ _ _ Es t).
  - injection He as <- _. exact Hs.
  - injection He as <- _. exact Hs.
Qed.

Lemma all_heaps_ok0 : all_heaps_ok q0.
Proof. intros t. apply hok_nil. Qed.

(* every state reached by a run whose events all completed has ordered heaps *)
Theorem run_heaps_ok es : forall s, all_heaps_ok s -> Forall (fun o => o = Fine) (fst (run s es)) -> all_heaps_ok (snd (run s es)).
Proof.
  induction es as [|e es IH]; intros s Hs Hf; [exact Hs|].
  cbn [run] in *. destruct (step s e) as [[o s'] r] eqn:Est. destruct o.
  - destruct (run s' es) as [os s''] eqn:Er. cbn [fst snd] in *. inversion Hf as [|? ? _ Hf']; subst.
    specialize (IH s' (step_heaps_ok _ _ _ _ _ Hs Est eq_refl)). rewrite Er in IH. exact (IH Hf').
  - cbn in Hf. inversion Hf as [|? ? Hb _]; discriminate.
  - cbn in Hf. inversion Hf as [|? ? Hb _]; discriminate.
Qed.

(* promptness: after a completed notification of leader index r for a table, nobody in that table's queue still waits
   for a revision <= r *)
Theorem notify_prompt s t rev s' r : all_heaps_ok s -> step s (ENotify t rev) = (Fine, s', r) ->
  forall x, In x (hget (heaps s') t) -> rev < it_rev x.
Proof.
  intros Hs He. cbn [step] in He.
  destruct (notify_loop _ _ _ _ _ _) as [[[o h'] cs'] ans'] eqn:En. injection He as -> <- _.
  cbn [heaps]. rewrite hget_hset, N.eqb_refl.
  exact (proj2 (notify_complete _ _ _ _ _ _ _ _ _ (le_n _) (Hs t) En)).
Qed.
