From Coq Require Import Lia Permutation.
From Verif Require Import Model.Bytes Model.Catalogue.

Definition cur (s : cst) : N := match c_seq s with Some (v, _) => v | None => start_id end.
(* the id a program has drawn from the sequence and not yet handed to (or lost for) a table *)
Definition ids_of (p : cpc) : list N :=
  match p with CCreate3 _ id => [id] | CRest3 _ _ _ id => [id] | CRest4 _ id => [id] | CRest5 _ id _ => [id] | _ => [] end.
(* the value and version of the sequence a program has read and is about to write back *)
Definition seqread (p : cpc) : option (N * N) :=
  match p with CCreate2 _ v w => Some (v, w) | CRest2 _ _ _ v w => Some (v, w) | _ => None end.
Definition pending_ids (l : list cpc) : list N := flat_map ids_of l.
Definition all_ids (s : cst) : list N := c_created s ++ pending_ids (c_pcs s).

Lemma set_pc_perm l : forall m q,
  Permutation (ids_of (get_pc l m) ++ pending_ids (set_pc l m q)) ((if (m <? length l)%nat then ids_of q else []) ++ pending_ids l).
Proof.
  unfold get_pc. induction l as [|x r IH]; intros m q.
  - destruct m; simpl; apply Permutation_refl.
  - destruct m as [|m]; cbn [set_pc nth pending_ids flat_map length].
    + change ((0 <? S (length r))%nat) with true. cbn iota.
      rewrite !app_assoc. apply Permutation_app_tail. apply Permutation_app_comm.
    + replace (S m <? S (length r))%nat with (m <? length r)%nat by reflexivity.
      specialize (IH m q). fold (pending_ids (set_pc r m q)). fold (pending_ids r).
      eapply perm_trans; [apply Permutation_app_swap_app|].
      eapply perm_trans; [apply Permutation_app_head, IH|]. apply Permutation_app_swap_app.
Qed.

Lemma in_set_pc l : forall m q p, In p (set_pc l m q) -> p = q \/ In p l.
Proof.
  induction l as [|x r IH]; intros [|m] q p H; simpl in *; auto.
  - destruct H; auto.
  - destruct H as [H|H]; [auto|]. destruct (IH m q p H); auto.
Qed.

Lemma get_pc_in l m : get_pc l m <> CIdle -> In (get_pc l m) l /\ (m < length l)%nat.
Proof.
  unfold get_pc. revert m; induction l as [|x r IH]; intros [|m] H; simpl in *; try congruence; auto.
  - split; [auto|lia].
  - destruct (IH m H). split; [auto|lia].
Qed.

Definition seq_ok (s : cst) (v w : N) : Prop :=
  w < c_next s /\ start_id <= v <= cur s /\ (forall x, c_seq s = Some (x, w) -> x = v) /\ (c_seq s = None -> v = start_id).

Record CInv (s : cst) : Prop := {
  j_next : 1 <= c_next s;
  j_seq : forall v w, c_seq s = Some (v, w) -> 1 <= w < c_next s /\ start_id < v;
  j_tabv : forall n r w, tget (c_tabs s) n = Some (r, w) -> 1 <= w < c_next s;
  j_c2 : forall p v w, In p (c_pcs s) -> seqread p = Some (v, w) -> seq_ok s v w;
  j_ids : forall id, In id (all_ids s) -> start_id < id <= cur s;
  j_nodup : NoDup (all_ids s)
}.

Lemma pending_idle k : pending_ids (repeat CIdle k) = [].
Proof. induction k; auto. Qed.

Lemma CInv0 k : CInv (cst0 k).
Proof.
  constructor; simpl; try discriminate; try lia.
  - intros p v w H. apply repeat_spec in H. subst p. discriminate.
  - unfold all_ids; simpl. rewrite pending_idle. intros id [].
  - unfold all_ids; simpl. rewrite pending_idle. constructor.
Qed.

Lemma tget_tset l k v k' : tget (tset l k v) k' = if k =? k' then Some v else tget l k'.
Proof.
  unfold tset. simpl. destruct (k =? k') eqn:E; [reflexivity|].
  induction l as [|[k0 v0] r IH]; simpl; [reflexivity|].
  destruct (N.eqb_spec k0 k) as [->|Hne]; [now rewrite E|].
  simpl. destruct (k0 =? k'); auto.
Qed.
Lemma tget_tdel l k k' : tget (tdel l k) k' = if k =? k' then None else tget l k'.
Proof.
  induction l as [|[k0 v0] r IH]; simpl; [now destruct (k =? k')|].
  destruct (N.eqb_spec k0 k) as [->|Hne].
  - rewrite IH. destruct (N.eqb_spec k k'); reflexivity.
  - simpl. destruct (N.eqb_spec k0 k'); [|exact IH]. subst. destruct (N.eqb_spec k k'); [congruence|reflexivity].
Qed.

(* created and pending ids when one program counter changes (all other fields are irrelevant to all_ids) *)
Lemma all_ids_change (s s' : cst) m q extra :
  c_pcs s' = set_pc (c_pcs s) m q -> c_created s' = extra ++ c_created s -> (m < length (c_pcs s))%nat ->
  Permutation (ids_of (get_pc (c_pcs s) m) ++ all_ids s') (extra ++ ids_of q ++ all_ids s).
Proof.
  intros Hp Hc Hm. unfold all_ids. rewrite Hp, Hc.
  pose proof (set_pc_perm (c_pcs s) m q) as P. apply Nat.ltb_lt in Hm. rewrite Hm in P.
  set (A := ids_of (get_pc (c_pcs s) m)) in *. set (B := pending_ids (set_pc (c_pcs s) m q)) in *.
  set (C := ids_of q) in *. set (D := pending_ids (c_pcs s)) in *.
  eapply perm_trans; [apply Permutation_app_swap_app|].
  eapply perm_trans; [apply Permutation_app_head, P|].
  rewrite <- !app_assoc. apply Permutation_app_head. apply Permutation_app_swap_app.
Qed.

(* ... and when the program's ids are split into dropped ones, ones handed to a table (extra) and ones kept (q) *)
Lemma all_ids_shrink (s s' : cst) m q extra dropped :
  c_pcs s' = set_pc (c_pcs s) m q -> c_created s' = extra ++ c_created s -> (m < length (c_pcs s))%nat ->
  Permutation (ids_of (get_pc (c_pcs s) m)) (dropped ++ extra ++ ids_of q) ->
  Permutation (dropped ++ all_ids s') (all_ids s).
Proof.
  intros Hp Hc Hm P2. pose proof (all_ids_change s s' m q extra Hp Hc Hm) as P1.
  apply (Permutation_app_inv_l (extra ++ ids_of q)).
  eapply perm_trans; [apply Permutation_app_swap_app|].
  replace (dropped ++ (extra ++ ids_of q) ++ all_ids s') with ((dropped ++ extra ++ ids_of q) ++ all_ids s') by (now rewrite <- !app_assoc).
  eapply perm_trans; [apply Permutation_app_tail, Permutation_sym, P2|].
  eapply perm_trans; [exact P1|]. rewrite <- app_assoc. apply Permutation_refl.
Qed.

Lemma NoDup_app_r {A} (a b : list A) : NoDup (a ++ b) -> NoDup b.
Proof. induction a as [|x a IH]; intros H; [exact H|]. simpl in H. inversion H; subst. now apply IH. Qed.

Lemma shrink_facts (A' A dropped : list N) (hi : N) :
  Permutation (dropped ++ A') A -> (forall id, In id A -> start_id < id <= hi) -> NoDup A ->
  (forall id, In id A' -> start_id < id <= hi) /\ NoDup A'.
Proof.
  intros P Hi Hn. split.
  - intros id H. apply Hi. eapply Permutation_in; [exact P|]. apply in_or_app. now right.
  - apply (Permutation_NoDup (Permutation_sym P)) in Hn. now apply NoDup_app_r in Hn.
Qed.

(* (A) only the program counter of one manager changes: it may drop ids it held, it may not invent any *)
Lemma inv_pc s m q dropped : CInv s -> (m < length (c_pcs s))%nat ->
  Permutation (ids_of (get_pc (c_pcs s) m)) (dropped ++ ids_of q) ->
  (forall v w, seqread q = Some (v, w) -> seq_ok s v w) ->
  CInv (with_pc s m q).
Proof.
  intros [Hn Hs Ht H2 Hids Hnd] Hm P Hq.
  pose proof (all_ids_shrink s (with_pc s m q) m q [] dropped eq_refl eq_refl Hm P) as Psh.
  destruct (shrink_facts _ _ _ (cur s) Psh Hids Hnd) as [Hids' Hnd'].
  constructor; cbn [with_pc c_next c_seq c_tabs c_pcs]; auto.
  intros p v w Hin Hsr. apply in_set_pc in Hin. destruct Hin as [-> |Hin]; [now apply Hq|]. exact (H2 p v w Hin Hsr).
Qed.

(* (B) one store write to a table record (or a failed compare-and-set, or a delete): the log index advances, every
   record of the new table list is an old one or carries the new version *)
Lemma inv_write s m q tabs' extra dropped : CInv s -> (m < length (c_pcs s))%nat ->
  Permutation (ids_of (get_pc (c_pcs s) m)) (dropped ++ extra ++ ids_of q) ->
  seqread q = None ->
  (forall n r w, tget tabs' n = Some (r, w) -> tget (c_tabs s) n = Some (r, w) \/ w = c_next s) ->
  CInv {| c_seq := c_seq s; c_tabs := tabs'; c_next := c_next s + 1; c_pcs := set_pc (c_pcs s) m q; c_created := extra ++ c_created s |}.
Proof.
  intros [Hn Hs Ht H2 Hids Hnd] Hm P Hq Htab.
  match goal with |- CInv ?x => pose proof (all_ids_shrink s x m q extra dropped eq_refl eq_refl Hm P) as Psh end.
  destruct (shrink_facts _ _ _ (cur s) Psh Hids Hnd) as [Hids' Hnd'].
  constructor; cbn [c_next c_seq c_tabs c_pcs].
  - lia.
  - intros v w Hv. specialize (Hs v w Hv). lia.
  - intros n r w Hr. destruct (Htab n r w Hr) as [H| ->]; [specialize (Ht n r w H); lia|lia].
  - intros p v w Hin Hsr. apply in_set_pc in Hin. destruct Hin as [-> |Hin]; [congruence|].
    destruct (H2 p v w Hin Hsr) as (A & B & C & D). unfold seq_ok, cur; cbn [c_next c_seq]. fold (cur s).
    repeat split; auto; lia.
  - exact Hids'.
  - exact Hnd'.
Qed.

(* (C) the id sequence is advanced by a successful compare-and-set: the new id is above every id handed out so far *)
Lemma inv_seq s m q v w : CInv s -> (m < length (c_pcs s))%nat ->
  In (get_pc (c_pcs s) m) (c_pcs s) -> seqread (get_pc (c_pcs s) m) = Some (v, w) -> cas_seq s w = true ->
  ids_of (get_pc (c_pcs s) m) = [] -> ids_of q = [v + 1] -> seqread q = None ->
  CInv {| c_seq := Some (v + 1, c_next s); c_tabs := c_tabs s; c_next := c_next s + 1; c_pcs := set_pc (c_pcs s) m q; c_created := c_created s |}.
Proof.
  intros [Hn Hs Ht H2 Hids Hnd] Hm Hin Hsr Ec Hold Hq Hqs.
  destruct (H2 _ v w Hin Hsr) as (Hw & Hvc & Huniq & Hnone).
  assert (Hcur : v = cur s).
  { unfold cas_seq in Ec. unfold cur. destruct (c_seq s) as [[x w0]|] eqn:Es.
    - apply N.eqb_eq in Ec. subst w0. symmetry. now apply Huniq.
    - now apply Hnone. }
  match goal with |- CInv ?x => pose proof (all_ids_change s x m q [] eq_refl eq_refl Hm) as P end.
  rewrite Hold, Hq in P. cbn [app] in P.
  constructor; cbn [c_next c_seq c_tabs c_pcs].
  - lia.
  - intros v0 w0 [= <- <-]. lia.
  - intros n r w0 Hr. specialize (Ht n r w0 Hr). lia.
  - intros p v0 w0 Hin0 Hsr0. apply in_set_pc in Hin0. destruct Hin0 as [-> |Hin0]; [congruence|].
    destruct (H2 p v0 w0 Hin0 Hsr0) as (A & B & C & D). unfold seq_ok, cur; cbn [c_next c_seq].
    split; [lia|]. split; [lia|]. split; [intros x [= <- E]; lia|discriminate].
  - intros id Hin0. apply (Permutation_in _ P) in Hin0. unfold cur; cbn [c_seq].
    destruct Hin0 as [<-|Hin0]; [lia|]. specialize (Hids id Hin0). lia.
  - eapply Permutation_NoDup; [apply Permutation_sym; exact P|]. constructor; [|exact Hnd].
    intro Hin0. specialize (Hids _ Hin0). lia.
Qed.

Lemma tset_tabs s name rv n r w : tget (tset (c_tabs s) name (rv, c_next s)) n = Some (r, w) ->
  tget (c_tabs s) n = Some (r, w) \/ w = c_next s.
Proof. rewrite tget_tset. destruct (name =? n); [intros [= _ <-]; now right|now left]. Qed.
Lemma tdel_tabs s name n r w : tget (tdel (c_tabs s) name) n = Some (r, w) ->
  tget (c_tabs s) n = Some (r, w) \/ w = c_next s.
Proof. rewrite tget_tdel. destruct (name =? n); [discriminate|now left]. Qed.

Theorem cexec_inv s a : CInv s -> CInv (fst (cexec s a)).
Proof.
  intros HI.
  assert (Hseqnow : forall v w, c_seq s = Some (v, w) -> seq_ok s v w).
  { intros v w Es. destruct (j_seq s HI v w Es). unfold seq_ok, cur. rewrite Es. repeat split; try lia.
    - intros x [= ->]. reflexivity.
    - discriminate. }
  assert (Hseqnone : c_seq s = None -> seq_ok s start_id 0).
  { intros Es. pose proof (j_next s HI). unfold seq_ok, cur. rewrite Es. repeat split; try lia. discriminate. }
  destruct a as [m name|m name|m name|m|m|m]; cbn [cexec].
  - (* Create: Exists *)
    destruct (get_pc (c_pcs s) m) eqn:Ep; try exact HI.
    destruct (tget (c_tabs s) name); [exact HI|]. cbn [fst].
    destruct (Nat.ltb_spec m (length (c_pcs s))) as [Hm|Hm].
    + apply (inv_pc s m _ []); [exact HI|assumption|rewrite Ep; apply Permutation_refl|discriminate].
    + replace (with_pc s m (CCreate1 name)) with s; [exact HI|].
      destruct s; unfold with_pc; cbn. f_equal. clear -Hm. revert m Hm. induction c_pcs as [|x r IH]; intros [|m] Hm; cbn in *; try reflexivity; try lia. f_equal. apply IH. lia.
  - (* Delete: Get *)
    destruct (get_pc (c_pcs s) m) eqn:Ep; try exact HI.
    destruct (tget (c_tabs s) name) as [[r ver]|]; [|exact HI]. cbn [fst].
    destruct (Nat.ltb_spec m (length (c_pcs s))) as [Hm|Hm].
    + apply (inv_pc s m _ []); [exact HI|assumption|rewrite Ep; apply Permutation_refl|discriminate].
    + replace (with_pc s m (CDelete1 name ver)) with s; [exact HI|].
      destruct s; unfold with_pc; cbn. f_equal. clear -Hm. revert m Hm. induction c_pcs as [|x r0 IH]; intros [|m] Hm; cbn in *; try reflexivity; try lia. f_equal. apply IH. lia.
  - (* Restore: Get *)
    destruct (get_pc (c_pcs s) m) eqn:Ep; try exact HI.
    assert (G : forall q, ids_of q = [] -> seqread q = None -> CInv (with_pc s m q)).
    { intros q Hq1 Hq2. destruct (Nat.ltb_spec m (length (c_pcs s))) as [Hm|Hm].
      - apply (inv_pc s m _ []); [exact HI|assumption|rewrite Ep, Hq1; apply Permutation_refl|rewrite Hq2; discriminate].
      - replace (with_pc s m q) with s; [exact HI|].
        destruct s; unfold with_pc; cbn. f_equal. clear -Hm. revert m Hm. induction c_pcs as [|x r0 IH]; intros [|m] Hm; cbn in *; try reflexivity; try lia. f_equal. apply IH. lia. }
    destruct (tget (c_tabs s) name) as [[r ver]|]; cbn [fst]; apply G; reflexivity.
  - (* the stream of a restore breaks off *)
    destruct (get_pc (c_pcs s) m) as [| | | | | | | |name id|] eqn:Ep; try exact HI. cbn [fst].
    destruct (get_pc_in (c_pcs s) m ltac:(rewrite Ep; discriminate)) as [Hin Hlt].
    apply (inv_pc s m _ [id]); [exact HI|assumption|rewrite Ep; apply Permutation_refl|discriminate].
  - (* the next store operation of a running program *)
    destruct (get_pc (c_pcs s) m) as [|name|name v ver|name id|name ver|name r ver|name r ver v sver|name r ver id|name id|name id ver] eqn:Ep; try exact HI;
      (destruct (get_pc_in (c_pcs s) m ltac:(rewrite Ep; discriminate)) as [Hin Hlt]).
    + (* create: read the sequence *)
      cbn [fst]. destruct (c_seq s) as [[v ver]|] eqn:Es.
      * apply (inv_pc s m _ []); [exact HI|assumption|rewrite Ep; apply Permutation_refl|]. intros v0 w [= <- <-]. now apply Hseqnow.
      * apply (inv_pc s m _ []); [exact HI|assumption|rewrite Ep; apply Permutation_refl|]. intros v0 w [= <- <-]. now apply Hseqnone.
    + (* create: advance the sequence *)
      destruct (cas_seq s ver) eqn:Ec; cbn [fst].
      * apply (inv_seq s m _ v ver); [exact HI|assumption|exact Hin|rewrite Ep; reflexivity|exact Ec|rewrite Ep; reflexivity|reflexivity|reflexivity].
      * apply (inv_write s m CIdle (c_tabs s) [] []); [exact HI|assumption|rewrite Ep; apply Permutation_refl|reflexivity|intros n r w Hr; now left].
    + (* create: write the record with version 0 *)
      destruct (cas_tab s name 0) eqn:Ec; cbn [fst].
      * apply (inv_write s m CIdle _ [id] []); [exact HI|assumption|rewrite Ep; apply Permutation_refl|reflexivity|apply tset_tabs].
      * apply (inv_write s m CIdle (c_tabs s) [] [id]); [exact HI|assumption|rewrite Ep; apply Permutation_refl|reflexivity|intros n r w Hr; now left].
    + (* delete the record *)
      destruct (cas_tab s name ver) eqn:Ec; cbn [fst].
      * apply (inv_write s m CIdle _ [] []); [exact HI|assumption|rewrite Ep; apply Permutation_refl|reflexivity|apply tdel_tabs].
      * apply (inv_write s m CIdle (c_tabs s) [] []); [exact HI|assumption|rewrite Ep; apply Permutation_refl|reflexivity|intros n r w Hr; now left].
    + (* restore: read the sequence *)
      cbn [fst]. destruct (c_seq s) as [[v sver]|] eqn:Es.
      * apply (inv_pc s m _ []); [exact HI|assumption|rewrite Ep; apply Permutation_refl|]. intros v0 w [= <- <-]. now apply Hseqnow.
      * apply (inv_pc s m _ []); [exact HI|assumption|rewrite Ep; apply Permutation_refl|]. intros v0 w [= <- <-]. now apply Hseqnone.
    + (* restore: advance the sequence *)
      destruct (cas_seq s sver) eqn:Ec; cbn [fst].
      * apply (inv_seq s m _ v sver); [exact HI|assumption|exact Hin|rewrite Ep; reflexivity|exact Ec|rewrite Ep; reflexivity|reflexivity|reflexivity].
      * apply (inv_write s m CIdle (c_tabs s) [] []); [exact HI|assumption|rewrite Ep; apply Permutation_refl|reflexivity|intros n r0 w Hr; now left].
    + (* restore: register the recovery shard in the record *)
      destruct (cas_tab s name ver) eqn:Ec; cbn [fst].
      * apply (inv_write s m (CRest4 name id) _ [] []); [exact HI|assumption|rewrite Ep; apply Permutation_refl|reflexivity|apply tset_tabs].
      * apply (inv_write s m CIdle (c_tabs s) [] [id]); [exact HI|assumption|rewrite Ep; apply Permutation_refl|reflexivity|intros n r0 w Hr; now left].
    + (* restore: stream loaded, read the record again *)
      destruct (tget (c_tabs s) name) as [[r ver]|]; cbn [fst].
      * apply (inv_pc s m _ []); [exact HI|assumption|rewrite Ep; apply Permutation_refl|discriminate].
      * apply (inv_pc s m _ [id]); [exact HI|assumption|rewrite Ep; apply Permutation_refl|discriminate].
    + (* restore: switch the table to the recovery shard *)
      destruct (cas_tab s name ver) eqn:Ec; cbn [fst].
      * apply (inv_write s m CIdle _ [id] []); [exact HI|assumption|rewrite Ep; apply Permutation_refl|reflexivity|apply tset_tabs].
      * apply (inv_write s m CIdle (c_tabs s) [] [id]); [exact HI|assumption|rewrite Ep; apply Permutation_refl|reflexivity|intros n r w Hr; now left].
  - destruct (get_pc (c_pcs s) m); exact HI.
Qed.

Lemma crun_inv acts : forall s, CInv s -> CInv (fst (crun s acts)).
Proof.
  induction acts as [|a r IH]; intros s H; cbn [crun]; [exact H|].
  pose proof (cexec_inv s a H) as H1. destruct (cexec s a) as [s1 o]. cbn [fst] in H1.
  specialize (IH s1 H1). destruct (crun s1 r) as [s2 os]. exact IH.
Qed.

Lemma NoDup_app_l {A} (a b : list A) : NoDup (a ++ b) -> NoDup a.
Proof.
  induction a as [|x a IH]; intros H; [constructor|]. simpl in H. inversion H as [|? ? Hx Hr]; subst.
  constructor; [|now apply IH]. intro Hin. apply Hx. apply in_or_app. now left.
Qed.

(* ids of created tables are pairwise distinct and above the range start, for every interleaving of every number of
   managers: an id is never assigned twice, also not after deletes and re-creations *)
Theorem ids_never_reused k acts :
  let s := fst (crun (cst0 k) acts) in NoDup (c_created s) /\ forall id, In id (c_created s) -> start_id < id <= cur s.
Proof.
  intros s. pose proof (crun_inv acts (cst0 k) (CInv0 k)) as HI. fold s in HI. split.
  - pose proof (j_nodup s HI) as H. unfold all_ids in H. now apply NoDup_app_l in H.
  - intros id Hin. apply (j_ids s HI). unfold all_ids. apply in_or_app. now left.
Qed.

(* a freshly created table's id is above every id created before *)
Theorem created_id_fresh s m name id : CInv s -> get_pc (c_pcs s) m = CCreate3 name id ->
  ~ In id (c_created s).
Proof.
  intros HI Ep Hin. destruct (get_pc_in (c_pcs s) m ltac:(rewrite Ep; discriminate)) as [Hin' _]. rewrite Ep in Hin'.
  assert (Hp : In id (pending_ids (c_pcs s))).
  { unfold pending_ids. apply in_flat_map. exists (CCreate3 name id). split; [exact Hin'|now left]. }
  pose proof (j_nodup s HI) as H0. unfold all_ids in H0.
  induction (c_created s) as [|x r IH]; [contradiction|].
  simpl in H0. inversion H0 as [|? ? Hx Hr]; subst. destruct Hin as [-> |Hin].
  - apply Hx. apply in_or_app. now right.
  - now apply IH.
Qed.

(* the same for any program that holds a drawn id - in particular a running Restore, also when the record it started
   from already carried a recovery id left behind by an interrupted attempt: the id it will give the table was never
   given to a table before *)
Theorem held_id_fresh s m id : CInv s -> In id (ids_of (get_pc (c_pcs s) m)) -> ~ In id (c_created s).
Proof.
  intros HI Hid Hin.
  assert (Hne : get_pc (c_pcs s) m <> CIdle) by (intro E; rewrite E in Hid; contradiction).
  destruct (get_pc_in (c_pcs s) m Hne) as [Hin' _].
  assert (Hp : In id (pending_ids (c_pcs s))).
  { unfold pending_ids. apply in_flat_map. exists (get_pc (c_pcs s) m). split; assumption. }
  pose proof (j_nodup s HI) as H0. unfold all_ids in H0.
  induction (c_created s) as [|x r IH]; [contradiction|].
  simpl in H0. inversion H0 as [|? ? Hx Hr]; subst. destruct Hin as [-> |Hin].
  - apply Hx. apply in_or_app. now right.
  - now apply IH.
Qed.

(* an id drawn from the sequence (by a creation or a restore) is greater than every id drawn before *)
Theorem drawn_id_above s m v w : CInv s -> In (get_pc (c_pcs s) m) (c_pcs s) ->
  seqread (get_pc (c_pcs s) m) = Some (v, w) -> cas_seq s w = true ->
  forall id, In id (all_ids s) -> id < v + 1.
Proof.
  intros HI Hin Hsr Ec id Hid. destruct (j_c2 s HI _ v w Hin Hsr) as (Hw & Hvc & Huniq & Hnone).
  assert (Hcur : v = cur s).
  { unfold cas_seq in Ec. unfold cur. destruct (c_seq s) as [[x w0]|] eqn:Es.
    - apply N.eqb_eq in Ec. subst w0. symmetry. now apply Huniq.
    - now apply Hnone. }
  pose proof (j_ids s HI id Hid). lia.
Qed.

Lemma get_set_pc l : forall m q, (m < length l)%nat -> get_pc (set_pc l m q) m = q.
Proof. unfold get_pc. induction l as [|x r IH]; intros [|m] q H; cbn in *; try lia; [reflexivity|]. apply IH. lia. Qed.
Lemma set_pc_length l : forall m q, length (set_pc l m q) = length l.
Proof. induction l as [|x r IH]; intros [|m] q; cbn; auto. Qed.
Lemma set_set_pc l : forall m q q', set_pc (set_pc l m q) m q' = set_pc l m q'.
Proof. induction l as [|x r IH]; intros [|m] q q'; cbn; auto. f_equal. apply IH. Qed.

(* the last step of a restore: the table is switched to the recovery shard, whose id becomes the table's id *)
Theorem restore_switch s m name id ver : get_pc (c_pcs s) m = CRest5 name id ver -> cas_tab s name ver = true ->
  snd (cexec s (AStep m)) = CRRestored id /\
  tget (c_tabs (fst (cexec s (AStep m)))) name = Some ({| t_cluster := id; t_recover := 0 |}, c_next s) /\
  c_created (fst (cexec s (AStep m))) = id :: c_created s.
Proof. intros Ep Ec. cbn [cexec]. rewrite Ep, Ec. cbn [fst snd c_tabs c_created]. rewrite tget_tset, N.eqb_refl. auto. Qed.

(* ---- a restore that nobody disturbs ---- *)
Definition sver_of (s : cst) : N := match c_seq s with Some (_, w) => w | None => 0 end.
Lemma cas_seq_now s : cas_seq s (sver_of s) = true.
Proof. unfold cas_seq, sver_of. destruct (c_seq s) as [[v w]|]; [apply N.eqb_refl|reflexivity]. Qed.

Lemma rstep1 s m name r ver : get_pc (c_pcs s) m = CRest1 name r ver ->
  cexec s (AStep m) = (with_pc s m (CRest2 name r ver (cur s) (sver_of s)), CRNone).
Proof. intros Ep. cbn [cexec]. rewrite Ep. unfold cur, sver_of. destruct (c_seq s) as [[v w]|]; reflexivity. Qed.

Lemma rstep2 s m name r ver v sv : v = cur s -> sv = sver_of s -> get_pc (c_pcs s) m = CRest2 name r ver v sv ->
  cexec s (AStep m) = ({| c_seq := Some (cur s + 1, c_next s); c_tabs := c_tabs s; c_next := c_next s + 1;
                         c_pcs := set_pc (c_pcs s) m (CRest3 name r ver (cur s + 1)); c_created := c_created s |}, CRNone).
Proof. intros -> -> Ep. cbn [cexec]. rewrite Ep, cas_seq_now. reflexivity. Qed.

Lemma rstep3 s m name r ver id : get_pc (c_pcs s) m = CRest3 name r ver id -> cas_tab s name ver = true ->
  cexec s (AStep m) = ({| c_seq := c_seq s; c_tabs := tset (c_tabs s) name ({| t_cluster := t_cluster r; t_recover := id |}, c_next s);
                         c_next := c_next s + 1; c_pcs := set_pc (c_pcs s) m (CRest4 name id); c_created := c_created s |}, CRNone).
Proof. intros Ep Ec. cbn [cexec]. rewrite Ep, Ec. reflexivity. Qed.

Lemma rstep4 s m name id r ver : get_pc (c_pcs s) m = CRest4 name id -> tget (c_tabs s) name = Some (r, ver) ->
  cexec s (AStep m) = (with_pc s m (CRest5 name id ver), CRNone).
Proof. intros Ep Et. cbn [cexec]. rewrite Ep, Et. reflexivity. Qed.

Lemma rstep5 s m name id ver : get_pc (c_pcs s) m = CRest5 name id ver -> cas_tab s name ver = true ->
  cexec s (AStep m) = ({| c_seq := c_seq s; c_tabs := tset (c_tabs s) name ({| t_cluster := id; t_recover := 0 |}, c_next s);
                         c_next := c_next s + 1; c_pcs := set_pc (c_pcs s) m CIdle; c_created := id :: c_created s |}, CRRestored id).
Proof. intros Ep Ec. cbn [cexec]. rewrite Ep, Ec. reflexivity. Qed.

Lemma crun_cons s a r : crun s (a :: r) = let '(s1, o) := cexec s a in let '(s2, os) := crun s1 r in (s2, o :: os).
Proof. reflexivity. Qed.

Ltac pcs Hm := unfold with_pc; cbn [c_pcs c_seq c_tabs c_next c_created]; rewrite ?set_set_pc; now apply get_set_pc.

(* sequentially (nobody else acting in between) a restore always succeeds and gives the table the next id of the
   sequence - whether the table exists, does not exist, or carries the recovery id of an interrupted attempt *)
Theorem restore_alone s m name : (m < length (c_pcs s))%nat -> get_pc (c_pcs s) m = CIdle ->
  exists s', crun s [ARestore m name; AStep m; AStep m; AStep m; AStep m; AStep m] =
               (s', [CRNone; CRNone; CRNone; CRNone; CRNone; CRRestored (cur s + 1)]) /\
             tget (c_tabs s') name = Some ({| t_cluster := cur s + 1; t_recover := 0 |}, c_next s + 2) /\
             c_created s' = (cur s + 1) :: c_created s.
Proof.
  intros Hm Ep.
  assert (G : forall r ver, cas_tab s name ver = true ->
    exists s', crun (with_pc s m (CRest1 name r ver)) [AStep m; AStep m; AStep m; AStep m; AStep m] =
               (s', [CRNone; CRNone; CRNone; CRNone; CRRestored (cur s + 1)]) /\
             tget (c_tabs s') name = Some ({| t_cluster := cur s + 1; t_recover := 0 |}, c_next s + 2) /\
             c_created s' = (cur s + 1) :: c_created s).
  { intros r ver Hcas.
    cbn [crun].
    rewrite (rstep1 _ m name r ver) by (pcs Hm).
    erewrite (rstep2 _ m name r ver (cur s) (sver_of s)); [|reflexivity|reflexivity|].
    2:{ pcs Hm. }
    cbn [with_pc c_pcs c_seq c_tabs c_next c_created]. 
    erewrite (rstep3 _ m name r ver (cur s + 1)).
    2:{ pcs Hm. }
    2:{ exact Hcas. }
    cbn [c_pcs c_seq c_tabs c_next c_created].
    erewrite (rstep4 _ m name (cur s + 1)).
    2:{ pcs Hm. }
    2:{ unfold with_pc; cbn [c_tabs]. rewrite tget_tset, N.eqb_refl. reflexivity. }
    cbn [with_pc c_pcs c_seq c_tabs c_next c_created].
    erewrite (rstep5 _ m name (cur s + 1)).
    2:{ pcs Hm. }
    2:{ unfold cas_tab, with_pc. cbn [c_tabs]. rewrite tget_tset, N.eqb_refl. apply N.eqb_refl. }
    eexists. split; [reflexivity|]. unfold with_pc. cbn [c_tabs c_created c_next]. rewrite tget_tset, N.eqb_refl.
    split; [|reflexivity]. do 2 f_equal. lia. }
  rewrite crun_cons. cbn [cexec]. rewrite Ep.
  destruct (tget (c_tabs s) name) as [[r ver]|] eqn:Et.
  - destruct (G r ver) as (s' & E & H1 & H2); [unfold cas_tab; rewrite Et; apply N.eqb_refl|].
    rewrite E. exists s'. auto.
  - destruct (G {| t_cluster := 0; t_recover := 0 |} 0) as (s' & E & H1 & H2); [unfold cas_tab; now rewrite Et|].
    rewrite E. exists s'. auto.
Qed.

(* of racing creations of one name at most one succeeds: once the record exists, the other's write with version 0 fails *)
Theorem race_second_create_fails s m name id r w : CInv s ->
  get_pc (c_pcs s) m = CCreate3 name id -> tget (c_tabs s) name = Some (r, w) ->
  snd (cexec s (AStep m)) = CRExists.
Proof.
  intros HI Ep Hr. cbn [cexec]. rewrite Ep. unfold cas_tab. rewrite Hr.
  destruct (j_tabv s HI name r w Hr) as [H1 _].
  replace (w =? 0) with false by (symmetry; apply N.eqb_neq; lia). reflexivity.
Qed.

(* deleting succeeds only if the table exists - also for racing deletions of one name: the version a deletion read
   from the record is positive, and once the record is gone a write with that version is refused (an absent key has
   version 0) *)
Theorem delete_reads_positive s m name r ver : CInv s -> get_pc (c_pcs s) m = CIdle -> tget (c_tabs s) name = Some (r, ver) ->
  fst (cexec s (ADelete m name)) = with_pc s m (CDelete1 name ver) /\ 1 <= ver.
Proof.
  intros HI Ep Et. cbn [cexec]. rewrite Ep, Et. split; [reflexivity|]. destruct (j_tabv s HI name r ver Et). assumption.
Qed.
Theorem race_second_delete_fails s m name ver : get_pc (c_pcs s) m = CDelete1 name ver -> ver <> 0 ->
  tget (c_tabs s) name = None -> snd (cexec s (AStep m)) = CRFailed /\ c_tabs (fst (cexec s (AStep m))) = c_tabs s.
Proof.
  intros Ep Hv Et. cbn [cexec]. rewrite Ep. unfold cas_tab. rewrite Et.
  destruct (N.eqb_spec ver 0); [contradiction|]. split; reflexivity.
Qed.
(* ... and a restore that lost its table to a deletion cannot bring the record back with the version it read *)
Theorem restore_after_delete_fails s m name r ver id : get_pc (c_pcs s) m = CRest3 name r ver id -> ver <> 0 ->
  tget (c_tabs s) name = None -> snd (cexec s (AStep m)) = CRFailed /\ c_tabs (fst (cexec s (AStep m))) = c_tabs s.
Proof.
  intros Ep Hv Et. cbn [cexec]. rewrite Ep. unfold cas_tab. rewrite Et.
  destruct (N.eqb_spec ver 0); [contradiction|]. split; reflexivity.
Qed.

(* sequentially (no other manager acting in between) a creation succeeds iff the name is absent: an existing name is
   refused at the first operation; for an absent name each of the three following operations succeeds as long as
   nobody else changed what it read *)
Theorem create_existing_refused s m name rv : get_pc (c_pcs s) m = CIdle -> tget (c_tabs s) name = Some rv ->
  snd (cexec s (ACreate m name)) = CRExists.
Proof. intros Ep Et. cbn [cexec]. now rewrite Ep, Et. Qed.

Theorem create_step_seq_ok s m name v ver : get_pc (c_pcs s) m = CCreate2 name v ver ->
  (c_seq s = Some (v, ver) \/ (c_seq s = None /\ ver = 0)) ->
  exists s', cexec s (AStep m) = (s', CRNone) /\ c_pcs s' = set_pc (c_pcs s) m (CCreate3 name (v + 1)) /\ c_tabs s' = c_tabs s.
Proof.
  intros Ep Hs. cbn [cexec]. rewrite Ep. unfold cas_seq.
  destruct Hs as [Hs|[Hs ->]]; rewrite Hs; [rewrite N.eqb_refl|]; eexists; repeat split.
Qed.

Theorem create_step_record_ok s m name id : get_pc (c_pcs s) m = CCreate3 name id -> tget (c_tabs s) name = None ->
  snd (cexec s (AStep m)) = CRCreated id.
Proof. intros Ep Et. cbn [cexec]. rewrite Ep. unfold cas_tab. now rewrite Et. Qed.

(* listing reflects precisely the records present *)
Theorem listing_exact s m name : get_pc (c_pcs s) m = CIdle ->
  forall l, snd (cexec s (AList m)) = CRList l ->
  (In name (map fst l) <-> exists rv, In (name, rv) (c_tabs s)).
Proof.
  intros Ep l. cbn [cexec]. rewrite Ep. intros [= <-]. rewrite map_map. simpl. split.
  - intros H. apply in_map_iff in H. destruct H as ([n rv] & <- & Hin). eauto.
  - intros [rv Hin]. apply in_map_iff. exists (name, rv). auto.
Qed.

(* ---- diffTables ---- *)
Lemma memN_in x l : memN x l = true <-> In x l.
Proof.
  unfold memN. rewrite existsb_exists. split.
  - intros (y & Hy & E). apply N.eqb_eq in E. now subst.
  - intros H. exists x. split; [exact H|apply N.eqb_refl].
Qed.

Theorem diff_exact tabs running id :
  (In id (to_start tabs running) <-> In id (catalogued_ids tabs) /\ ~ In id running /\ start_id < id) /\
  (In id (to_stop tabs running) <-> In id running /\ ~ In id (catalogued_ids tabs) /\ start_id < id).
Proof.
  unfold to_start, to_stop. rewrite !filter_In, !andb_true_iff, !negb_true_iff, !N.ltb_lt.
  split; split.
  - intros (H1 & H2 & H3). repeat split; auto. intro H. apply memN_in in H. congruence.
  - intros (H1 & H2 & H3). repeat split; auto. destruct (memN id running) eqn:E; [|reflexivity]. apply memN_in in E. contradiction.
  - intros (H1 & H2 & H3). repeat split; auto. intro H. apply memN_in in H. congruence.
  - intros (H1 & H2 & H3). repeat split; auto. destruct (memN id (catalogued_ids tabs)) eqn:E; [|reflexivity]. apply memN_in in E. contradiction.
Qed.

(* operations on one table never change the content of another (one state machine per shard id) *)
Theorem family_isolation {V} (f : family V) id v j : j <> id -> fam_update f id v j = f j.
Proof. intros H. unfold fam_update. destruct (N.eqb_spec j id); [contradiction|reflexivity]. Qed.
