From Coq Require Import Lia Permutation.
From Verif Require Import Model.Bytes Model.Catalogue.

Definition cur (s : cst) : N := match c_seq s with Some (v, _) => v | None => start_id end.
Definition ids_of (p : cpc) : list N := match p with CCreate3 _ id => [id] | _ => [] end.
Definition pending_ids (l : list cpc) : list N := flat_map ids_of l.
Definition all_ids (s : cst) : list N := c_created s ++ pending_ids (c_pcs s).

Lemma set_pc_perm l : forall m q,
  Permutation (ids_of (get_pc l m) ++ pending_ids (set_pc l m q)) ((if (m <? length l)%nat then ids_of q else []) ++ pending_ids l).
Proof.
  unfold get_pc. induction l as [|x r IH]; intros m q.
  - destruct m; simpl; apply Permutation_refl.
  - destruct m as [|m]; cbn [set_pc nth pending_ids flat_map length].
    + simpl. apply Permutation_app_comm || idtac.
      rewrite !app_assoc. apply Permutation_app_tail. apply Permutation_app_comm.
    + replace (S m <? S (length r))%nat with (m <? length r)%nat by reflexivity.
      specialize (IH m q). fold (pending_ids (set_pc r m q)). fold (pending_ids r).
      eapply perm_trans; [apply Permutation_app_swap_app|].
      eapply perm_trans; [apply Permutation_app_head, IH|]. apply Permutation_app_swap_app.
Qed.

Lemma in_set_pc l : forall m q p, In p (set_pc l m q) -> p = q \/ In p l.
Proof.
  induction l as [|x r IH]; intros [|m] q p H; simpl in *; auto.
  - destruct H; auto.
  - destruct H as [H|H]; [auto|]. destruct (IH m q p H); auto.
Qed.

Lemma get_pc_in l m : get_pc l m <> CIdle -> In (get_pc l m) l /\ (m < length l)%nat.
Proof.
  unfold get_pc. revert m; induction l as [|x r IH]; intros [|m] H; simpl in *; try congruence; auto.
  - split; [auto|lia].
  - destruct (IH m H). split; [auto|lia].
Qed.

Record CInv (s : cst) : Prop := {
  j_next : 1 <= c_next s;
  j_seq : forall v w, c_seq s = Some (v, w) -> 1 <= w < c_next s /\ start_id < v;
  j_tabv : forall n r w, tget (c_tabs s) n = Some (r, w) -> 1 <= w < c_next s;
  j_c2 : forall n v w, In (CCreate2 n v w) (c_pcs s) ->
           w < c_next s /\ start_id <= v <= cur s /\ (forall x, c_seq s = Some (x, w) -> x = v) /\ (c_seq s = None -> v = start_id);
  j_ids : forall id, In id (all_ids s) -> start_id < id <= cur s;
  j_nodup : NoDup (all_ids s)
}.

Lemma pending_idle k : pending_ids (repeat CIdle k) = [].
Proof. induction k; auto. Qed.

Lemma CInv0 k : CInv (cst0 k).
Proof.
  constructor; simpl; try discriminate; try lia.
  - intros n v w H. apply repeat_spec in H. discriminate.
  - unfold all_ids; simpl. rewrite pending_idle. intros id [].
  - unfold all_ids; simpl. rewrite pending_idle. constructor.
Qed.

Lemma tget_tset l k v k' : tget (tset l k v) k' = if k =? k' then Some v else tget l k'.
Proof.
  unfold tset. simpl. destruct (k =? k') eqn:E; [reflexivity|].
  induction l as [|[k0 v0] r IH]; simpl; [reflexivity|].
  destruct (N.eqb_spec k0 k) as [->|Hne]; [now rewrite E|].
  simpl. destruct (k0 =? k'); auto.
Qed.
Lemma tget_tdel l k k' : tget (tdel l k) k' = if k =? k' then None else tget l k'.
Proof.
  induction l as [|[k0 v0] r IH]; simpl; [now destruct (k =? k')|].
  destruct (N.eqb_spec k0 k) as [->|Hne].
  - rewrite IH. destruct (N.eqb_spec k k'); reflexivity.
  - simpl. destruct (N.eqb_spec k0 k'); [|exact IH]. subst. destruct (N.eqb_spec k k'); [congruence|reflexivity].
Qed.

(* created and pending ids when one program counter changes (all other fields are irrelevant to all_ids) *)
Lemma all_ids_change (s s' : cst) m q extra :
  c_pcs s' = set_pc (c_pcs s) m q -> c_created s' = extra ++ c_created s -> (m < length (c_pcs s))%nat ->
  Permutation (ids_of (get_pc (c_pcs s) m) ++ all_ids s') (extra ++ ids_of q ++ all_ids s).
Proof.
  intros Hp Hc Hm. unfold all_ids. rewrite Hp, Hc.
  pose proof (set_pc_perm (c_pcs s) m q) as P. apply Nat.ltb_lt in Hm. rewrite Hm in P.
  set (A := ids_of (get_pc (c_pcs s) m)) in *. set (B := pending_ids (set_pc (c_pcs s) m q)) in *.
  set (C := ids_of q) in *. set (D := pending_ids (c_pcs s)) in *.
  (* A ++ (extra ++ created) ++ B  ~  extra ++ C ++ created ++ D *)
  eapply perm_trans; [apply Permutation_app_swap_app|].
  eapply perm_trans; [apply Permutation_app_head, P|].
  rewrite <- !app_assoc. apply Permutation_app_head. apply Permutation_app_swap_app.
Qed.

Theorem cexec_inv s a : CInv s -> CInv (fst (cexec s a)).
Proof.
  intros HI. pose proof HI as [Hn Hs Ht H2 Hids Hnd].
  (* a change of one program counter that creates / consumes no id and touches nothing else *)
  assert (Hstep_pc : forall m q, get_pc (c_pcs s) m <> CIdle \/ True -> ids_of (get_pc (c_pcs s) m) = [] -> ids_of q = [] ->
            (forall n v w, q = CCreate2 n v w -> w < c_next s /\ start_id <= v <= cur s /\ (forall x, c_seq s = Some (x, w) -> x = v) /\ (c_seq s = None -> v = start_id)) ->
            CInv (with_pc s m q)).
  { intros m q _ Hold Hq Hq2.
    assert (Hp : Permutation (all_ids (with_pc s m q)) (all_ids s)).
    { pose proof (set_pc_perm (c_pcs s) m q) as P. rewrite Hold, Hq in P.
      replace (if (m <? length (c_pcs s))%nat then [] else @nil N) with (@nil N) in P by (destruct (m <? length (c_pcs s))%nat; reflexivity).
      simpl in P. unfold all_ids, with_pc; cbn [c_created c_pcs]. now apply Permutation_app_head. }
    constructor; cbn [with_pc c_next c_seq c_tabs c_pcs]; auto.
    - intros n v w Hin. apply in_set_pc in Hin. destruct Hin as [E|Hin]; [apply (Hq2 n v w); now symmetry|now apply (H2 n)].
    - intros id Hin. change (cur (with_pc s m q)) with (cur s). apply (Hids id). eapply Permutation_in; [exact Hp|exact Hin].
    - eapply Permutation_NoDup; [apply Permutation_sym; exact Hp|exact Hnd]. }
  destruct a as [m name|m name|m|m]; cbn [cexec].
  - destruct (get_pc (c_pcs s) m) eqn:Ep; try exact HI.
    destruct (tget (c_tabs s) name); [exact HI|]. cbn [fst].
    apply Hstep_pc; [auto|rewrite Ep; reflexivity|reflexivity|discriminate].
  - destruct (get_pc (c_pcs s) m) eqn:Ep; try exact HI.
    destruct (tget (c_tabs s) name) as [[r ver]|]; [|exact HI]. cbn [fst].
    apply Hstep_pc; [auto|rewrite Ep; reflexivity|reflexivity|discriminate].
  - destruct (get_pc (c_pcs s) m) as [|name|name v ver|name id|name ver] eqn:Ep; try exact HI.
    + (* read the sequence *)
      cbn [fst]. destruct (c_seq s) as [[v ver]|] eqn:Es.
      * apply Hstep_pc; [auto|rewrite Ep; reflexivity|reflexivity|].
        intros n v0 w [= _ <- <-]. destruct (Hs v ver eq_refl). repeat split; try lia.
        -- unfold cur. rewrite Es. lia.
        -- intros x Hx. congruence.
        -- discriminate.
      * apply Hstep_pc; [auto|rewrite Ep; reflexivity|reflexivity|].
        intros n v0 w [= _ <- <-]. repeat split; try lia.
        -- unfold cur. rewrite Es. lia.
        -- discriminate.
    + (* advance the sequence *)
      destruct (get_pc_in (c_pcs s) m ltac:(rewrite Ep; discriminate)) as [Hin Hlt]. rewrite Ep in Hin.
      destruct (H2 name v ver Hin) as (Hw & Hvc & Huniq & Hnone).
      destruct (cas_seq s ver) eqn:Ec; cbn [fst].
      * (* success: the new id v+1 is above every id handed out so far *)
        assert (Hcur : v = cur s).
        { unfold cas_seq in Ec. unfold cur. destruct (c_seq s) as [[x w]|] eqn:Es.
          - apply N.eqb_eq in Ec. subst w. symmetry. now apply Huniq.
          - now apply Hnone. }
        set (s' := {| c_seq := Some (v + 1, c_next s); c_tabs := c_tabs s; c_next := c_next s + 1;
                      c_pcs := set_pc (c_pcs s) m (CCreate3 name (v + 1)); c_created := c_created s |}).
        assert (Hp : Permutation (all_ids s') ((v + 1) :: all_ids s)).
        { pose proof (all_ids_change s s' m (CCreate3 name (v + 1)) [] eq_refl eq_refl Hlt) as P.
          rewrite Ep in P. simpl in P. exact P. }
        unfold s' in *; clear s'; constructor; cbn [c_next c_seq c_tabs c_pcs].
        -- lia.
        -- intros v0 w [= <- <-]. lia.
        -- intros n r w Hr. specialize (Ht n r w Hr). lia.
        -- intros n v0 w Hin0. apply in_set_pc in Hin0. destruct Hin0 as [E|Hin0]; [discriminate|].
           destruct (H2 n v0 w Hin0) as (A & B & C & D). split; [lia|]. split; [unfold cur; cbn [c_seq]; lia|]. split.
           ++ intros x [= <- E]. lia.
           ++ discriminate.
        -- intros id Hin0. apply (Permutation_in _ Hp) in Hin0. unfold cur; cbn [c_seq].
           destruct Hin0 as [<-|Hin0]; [lia|]. specialize (Hids id Hin0). lia.
        -- eapply Permutation_NoDup; [apply Permutation_sym; exact Hp|]. constructor; [|exact Hnd].
           intro Hin0. specialize (Hids _ Hin0). lia.
      * set (s' := {| c_seq := c_seq s; c_tabs := c_tabs s; c_next := c_next s + 1;
                      c_pcs := set_pc (c_pcs s) m CIdle; c_created := c_created s |}).
        assert (Hp : Permutation (all_ids s') (all_ids s)).
        { pose proof (all_ids_change s s' m CIdle [] eq_refl eq_refl Hlt) as P. rewrite Ep in P. simpl in P. exact P. }
        unfold s' in *; clear s'; constructor; cbn [c_next c_seq c_tabs c_pcs].
        -- lia.
        -- intros v0 w Hv0. specialize (Hs v0 w Hv0). lia.
        -- intros n r w Hr. specialize (Ht n r w Hr). lia.
        -- intros n v0 w Hin0. apply in_set_pc in Hin0. destruct Hin0 as [E|Hin0]; [discriminate|].
           destruct (H2 n v0 w Hin0) as (A & B & C & D). split; [lia|]. auto.
        -- intros id Hin0. apply (Permutation_in _ Hp) in Hin0. apply (Hids id Hin0).
        -- eapply Permutation_NoDup; [apply Permutation_sym; exact Hp|exact Hnd].
    + (* write the record with version 0 *)
      destruct (get_pc_in (c_pcs s) m ltac:(rewrite Ep; discriminate)) as [Hin Hlt].
      destruct (cas_tab s name 0) eqn:Ec; cbn [fst].
      * set (s' := {| c_seq := c_seq s; c_tabs := tset (c_tabs s) name ({| t_cluster := id; t_recover := 0 |}, c_next s);
                      c_next := c_next s + 1; c_pcs := set_pc (c_pcs s) m CIdle; c_created := id :: c_created s |}).
        assert (Hp : Permutation (all_ids s') (all_ids s)).
        { pose proof (all_ids_change s s' m CIdle [id] eq_refl eq_refl Hlt) as P. rewrite Ep in P. simpl in P.
          apply Permutation_cons_inv in P. exact P. }
        unfold s' in *; clear s'; constructor; cbn [c_next c_seq c_tabs c_pcs].
        -- lia.
        -- intros v0 w Hv0. specialize (Hs v0 w Hv0). lia.
        -- intros n r w. rewrite tget_tset. destruct (name =? n); [intros [= <- <-]; lia|].
           intros Hr. specialize (Ht n r w Hr). lia.
        -- intros n v0 w Hin0. apply in_set_pc in Hin0. destruct Hin0 as [E|Hin0]; [discriminate|].
           destruct (H2 n v0 w Hin0) as (A & B & C & D). split; [lia|]. auto.
        -- intros id0 Hin0. apply (Permutation_in _ Hp) in Hin0. apply (Hids id0 Hin0).
        -- eapply Permutation_NoDup; [apply Permutation_sym; exact Hp|exact Hnd].
      * set (s' := {| c_seq := c_seq s; c_tabs := c_tabs s; c_next := c_next s + 1;
                      c_pcs := set_pc (c_pcs s) m CIdle; c_created := c_created s |}).
        assert (Hp : Permutation (id :: all_ids s') (all_ids s)).
        { pose proof (all_ids_change s s' m CIdle [] eq_refl eq_refl Hlt) as P. rewrite Ep in P. simpl in P. exact P. }
        unfold s' in *; clear s'; constructor; cbn [c_next c_seq c_tabs c_pcs].
        -- lia.
        -- intros v0 w Hv0. specialize (Hs v0 w Hv0). lia.
        -- intros n r w Hr. specialize (Ht n r w Hr). lia.
        -- intros n v0 w Hin0. apply in_set_pc in Hin0. destruct Hin0 as [E|Hin0]; [discriminate|].
           destruct (H2 n v0 w Hin0) as (A & B & C & D). split; [lia|]. auto.
        -- intros id0 Hin0. apply (Hids id0). eapply Permutation_in; [exact Hp|now right].
        -- apply (Permutation_NoDup (Permutation_sym Hp)) in Hnd. now inversion Hnd.
    + (* delete the record *)
      destruct (get_pc_in (c_pcs s) m ltac:(rewrite Ep; discriminate)) as [Hin Hlt].
      destruct (cas_tab s name ver) eqn:Ec; cbn [fst].
      * set (s' := {| c_seq := c_seq s; c_tabs := tdel (c_tabs s) name; c_next := c_next s + 1;
                      c_pcs := set_pc (c_pcs s) m CIdle; c_created := c_created s |}).
        assert (Hp : Permutation (all_ids s') (all_ids s)).
        { pose proof (all_ids_change s s' m CIdle [] eq_refl eq_refl Hlt) as P. rewrite Ep in P. simpl in P. exact P. }
        unfold s' in *; clear s'; constructor; cbn [c_next c_seq c_tabs c_pcs].
        -- lia.
        -- intros v0 w Hv0. specialize (Hs v0 w Hv0). lia.
        -- intros n r w. rewrite tget_tdel. destruct (name =? n); [discriminate|].
           intros Hr. specialize (Ht n r w Hr). lia.
        -- intros n v0 w Hin0. apply in_set_pc in Hin0. destruct Hin0 as [E|Hin0]; [discriminate|].
           destruct (H2 n v0 w Hin0) as (A & B & C & D). split; [lia|]. auto.
        -- intros id0 Hin0. apply (Permutation_in _ Hp) in Hin0. apply (Hids id0 Hin0).
        -- eapply Permutation_NoDup; [apply Permutation_sym; exact Hp|exact Hnd].
      * set (s' := {| c_seq := c_seq s; c_tabs := c_tabs s; c_next := c_next s + 1;
                      c_pcs := set_pc (c_pcs s) m CIdle; c_created := c_created s |}).
        assert (Hp : Permutation (all_ids s') (all_ids s)).
        { pose proof (all_ids_change s s' m CIdle [] eq_refl eq_refl Hlt) as P. rewrite Ep in P. simpl in P. exact P. }
        unfold s' in *; clear s'; constructor; cbn [c_next c_seq c_tabs c_pcs].
        -- lia.
        -- intros v0 w Hv0. specialize (Hs v0 w Hv0). lia.
        -- intros n r w Hr. specialize (Ht n r w Hr). lia.
        -- intros n v0 w Hin0. apply in_set_pc in Hin0. destruct Hin0 as [E|Hin0]; [discriminate|].
           destruct (H2 n v0 w Hin0) as (A & B & C & D). split; [lia|]. auto.
        -- intros id0 Hin0. apply (Permutation_in _ Hp) in Hin0. apply (Hids id0 Hin0).
        -- eapply Permutation_NoDup; [apply Permutation_sym; exact Hp|exact Hnd].
  - destruct (get_pc (c_pcs s) m); exact HI.
Qed.

Lemma crun_inv acts : forall s, CInv s -> CInv (fst (crun s acts)).
Proof.
  induction acts as [|a r IH]; intros s H; cbn [crun]; [exact H|].
  pose proof (cexec_inv s a H) as H1. destruct (cexec s a) as [s1 o]. cbn [fst] in H1.
  specialize (IH s1 H1). destruct (crun s1 r) as [s2 os]. exact IH.
Qed.

Lemma NoDup_app_l {A} (a b : list A) : NoDup (a ++ b) -> NoDup a.
Proof.
  induction a as [|x a IH]; intros H; [constructor|]. simpl in H. inversion H as [|? ? Hx Hr]; subst.
  constructor; [|now apply IH]. intro Hin. apply Hx. apply in_or_app. now left.
Qed.

(* ids of created tables are pairwise distinct and above the range start, for every interleaving of every number of
   managers: an id is never assigned twice, also not after deletes and re-creations *)
Theorem ids_never_reused k acts :
  let s := fst (crun (cst0 k) acts) in NoDup (c_created s) /\ forall id, In id (c_created s) -> start_id < id <= cur s.
Proof.
  intros s. pose proof (crun_inv acts (cst0 k) (CInv0 k)) as HI. fold s in HI. split.
  - pose proof (j_nodup s HI) as H. unfold all_ids in H. now apply NoDup_app_l in H.
  - intros id Hin. apply (j_ids s HI). unfold all_ids. apply in_or_app. now left.
Qed.

(* a freshly created table's id is above every id created before *)
Theorem created_id_fresh s m name id : CInv s -> get_pc (c_pcs s) m = CCreate3 name id ->
  ~ In id (c_created s).
Proof.
  intros HI Ep Hin. destruct (get_pc_in (c_pcs s) m ltac:(rewrite Ep; discriminate)) as [Hin' _]. rewrite Ep in Hin'.
  assert (Hp : In id (pending_ids (c_pcs s))).
  { unfold pending_ids. apply in_flat_map. exists (CCreate3 name id). split; [exact Hin'|now left]. }
  pose proof (j_nodup s HI) as H0. unfold all_ids in H0.
  induction (c_created s) as [|x r IH]; [contradiction|].
  simpl in H0. inversion H0 as [|? ? Hx Hr]; subst. destruct Hin as [->|Hin].
  - apply Hx. apply in_or_app. now right.
  - now apply IH.
Qed.

(* of racing creations of one name at most one succeeds: once the record exists, the other's write with version 0 fails *)
Theorem race_second_create_fails s m name id r w : CInv s ->
  get_pc (c_pcs s) m = CCreate3 name id -> tget (c_tabs s) name = Some (r, w) ->
  snd (cexec s (AStep m)) = CRExists.
Proof.
  intros HI Ep Hr. cbn [cexec]. rewrite Ep. unfold cas_tab. rewrite Hr.
  destruct (j_tabv s HI name r w Hr) as [H1 _].
  replace (w =? 0) with false by (symmetry; apply N.eqb_neq; lia). reflexivity.
Qed.

(* sequentially (no other manager acting in between) a creation succeeds iff the name is absent: an existing name is
   refused at the first operation; for an absent name each of the three following operations succeeds as long as
   nobody else changed what it read *)
Theorem create_existing_refused s m name rv : get_pc (c_pcs s) m = CIdle -> tget (c_tabs s) name = Some rv ->
  snd (cexec s (ACreate m name)) = CRExists.
Proof. intros Ep Et. cbn [cexec]. now rewrite Ep, Et. Qed.

Theorem create_step_seq_ok s m name v ver : get_pc (c_pcs s) m = CCreate2 name v ver ->
  (c_seq s = Some (v, ver) \/ c_seq s = None) ->
  exists s', cexec s (AStep m) = (s', CRNone) /\ c_pcs s' = set_pc (c_pcs s) m (CCreate3 name (v + 1)) /\ c_tabs s' = c_tabs s.
Proof.
  intros Ep Hs. cbn [cexec]. rewrite Ep. unfold cas_seq.
  destruct Hs as [Hs|Hs]; rewrite Hs; [rewrite N.eqb_refl|]; eexists; repeat split.
Qed.

Theorem create_step_record_ok s m name id : get_pc (c_pcs s) m = CCreate3 name id -> tget (c_tabs s) name = None ->
  snd (cexec s (AStep m)) = CRCreated id.
Proof. intros Ep Et. cbn [cexec]. rewrite Ep. unfold cas_tab. now rewrite Et. Qed.

(* listing reflects precisely the records present *)
Theorem listing_exact s m name : get_pc (c_pcs s) m = CIdle ->
  forall l, snd (cexec s (AList m)) = CRList l ->
  (In name (map fst l) <-> exists rv, In (name, rv) (c_tabs s)).
Proof.
  intros Ep l. cbn [cexec]. rewrite Ep. intros [= <-]. rewrite map_map. simpl. split.
  - intros H. apply in_map_iff in H. destruct H as ([n rv] & <- & Hin). eauto.
  - intros [rv Hin]. apply in_map_iff. exists (name, rv). auto.
Qed.

(* ---- diffTables ---- *)
Lemma memN_in x l : memN x l = true <-> In x l.
Proof.
  unfold memN. rewrite existsb_exists. split.
  - intros (y & Hy & E). apply N.eqb_eq in E. now subst.
  - intros H. exists x. split; [exact H|apply N.eqb_refl].
Qed.

Theorem diff_exact tabs running id :
  (In id (to_start tabs running) <-> In id (catalogued_ids tabs) /\ ~ In id running /\ start_id < id) /\
  (In id (to_stop tabs running) <-> In id running /\ ~ In id (catalogued_ids tabs) /\ start_id < id).
Proof.
  unfold to_start, to_stop. rewrite !filter_In, !andb_true_iff, !negb_true_iff, !N.ltb_lt.
  split; split.
  - intros (H1 & H2 & H3). repeat split; auto. intro H. apply memN_in in H. congruence.
  - intros (H1 & H2 & H3). repeat split; auto. destruct (memN id running) eqn:E; [|reflexivity]. apply memN_in in E. contradiction.
  - intros (H1 & H2 & H3). repeat split; auto. intro H. apply memN_in in H. congruence.
  - intros (H1 & H2 & H3). repeat split; auto. destruct (memN id (catalogued_ids tabs)) eqn:E; [|reflexivity]. apply memN_in in E. contradiction.
Qed.

(* operations on one table never change the content of another (one state machine per shard id) *)
Theorem family_isolation {V} (f : family V) id v j : j <> id -> fam_update f id v j = f j.
Proof. intros H. unfold fam_update. destruct (N.eqb_spec j id); [contradiction|reflexivity]. Qed.
