(* Every message of a streamed range read stays below the transport limit (C09). *)
From Coq Require Import Lia ZifyN ZifyNat.
From Verif Require Import Model.Bytes Model.ProtoSize Model.Cmd.

Lemma varint_fuel_bound f x : 1 <= varint_size_fuel f x <= N.of_nat f + 1.
Proof.
  revert x; induction f as [|f IH]; intros x; cbn [varint_size_fuel]; [simpl; lia|].
  rewrite Nnat.Nat2N.inj_succ.
  destruct (x <? 128); [lia|]. specialize (IH (x / 128)).
  generalize dependent (varint_size_fuel f (x / 128)). intros v Hv. lia.
Qed.
Lemma varint_bound x : 1 <= varint_size x <= 11.
Proof. unfold varint_size. pose proof (varint_fuel_bound 10 x) as H. change (N.of_nat 10) with 10 in H. lia. Qed.

Lemma bytes_field_bound l : bytes_field_size l <= l + 12.
Proof. unfold bytes_field_size. destruct (l =? 0); [lia|]. pose proof (varint_bound l). lia. Qed.
Lemma msg_field_bound l : msg_field_size l <= l + 12.
Proof. unfold msg_field_size. pose proof (varint_bound l). lia. Qed.

Definition items_size (l : list N) : N := fold_right (fun x acc => msg_field_size x + acc) 0 l.
Definition count_part (c : N) : N := if c =? 0 then 0 else 1 + varint_size c.
Lemma range_resp_size_eq l c : range_resp_size l c = items_size l + count_part c.
Proof. reflexivity. Qed.
Lemma items_size_app l x : items_size (l ++ [x]) = items_size l + msg_field_size x.
Proof. induction l as [|y l IH]; simpl; [lia|]. unfold items_size in *. simpl. rewrite IH. lia. Qed.
Lemma count_part_bound c : count_part c <= 12.
Proof. unfold count_part. destruct (c =? 0); [lia|]. pose proof (varint_bound c). lia. Qed.

Section Bound.
  Variable P : Type.
  Variable ksz vsz : P -> N.
  Variable maxSize : N.
  Variable pairMax : N.      (* bound on len(key)+len(value) of a stored pair *)
  Notation loop := (iter_loop P ksz vsz maxSize).
  Notation rsz := (resp_size P ksz vsz).

  Definition bnd : N := N.max maxSize pairMax + 48.

  Lemma item_size_bound m p : item_size P ksz vsz m p <= sf P ksz vsz m p + 24.
  Proof.
    unfold item_size, sf, kv_size. destruct m.
    - pose proof (bytes_field_bound (ksz p)). pose proof (bytes_field_bound (vsz p)). lia.
    - pose proof (bytes_field_bound (ksz p)). unfold bytes_field_size at 2. simpl. lia.
    - lia.
  Qed.

  Lemma rsz_grow m cur cnt p cnt' :
    rsz m (cur ++ [p]) cnt' <= rsz m cur cnt + sf P ksz vsz m p + 48.
  Proof.
    unfold resp_size. rewrite map_app, !range_resp_size_eq. simpl map. rewrite items_size_app.
    pose proof (msg_field_bound (item_size P ksz vsz m p)). pose proof (item_size_bound m p).
    pose proof (count_part_bound (Z.to_N cnt')). lia.
  Qed.

  Lemma rsz_count_only cur cnt : rsz MCount cur cnt <= items_size (map (fun _ => 0) cur) + 12.
  Proof.
    unfold resp_size. rewrite range_resp_size_eq. pose proof (count_part_bound (Z.to_N cnt)).
    replace (map (item_size P ksz vsz MCount) cur) with (map (fun _ : P => 0) cur) by reflexivity. lia.
  Qed.

  Lemma loop_sizes m limit ps : (forall p, In p ps -> sf P ksz vsz m p <= pairMax) ->
    forall i cur cnt, rsz m cur cnt <= bnd -> (m = MCount -> cur = []) ->
    Forall (fun c => rsz m (ch_items c) (ch_count c) <= bnd) (loop m limit ps i cur cnt).
  Proof.
    intros Hps. induction ps as [|p rest IH]; intros i cur cnt Hcur Hc; cbn [iter_loop].
    - constructor; [exact Hcur|constructor].
    - destruct ((i =? limit)%Z && negb (limit =? 0)%Z); [constructor; [exact Hcur|constructor]|].
      destruct (N.leb_spec maxSize (rsz m cur cnt + sf P ksz vsz m p)) as [Hcut|Hno].
      + (* cut: the response under construction is sent, a new one starts with p *)
        set (cur' := match m with MCount => [] | _ => [] ++ [p] end).
        assert (Hnew : rsz m cur' (0 + 1) <= bnd).
        { unfold cur'. destruct m.
          - pose proof (rsz_grow MFull [] 0%Z p (0 + 1)%Z) as G.
            assert (rsz MFull [] 0 = 0) by reflexivity. specialize (Hps p (or_introl eq_refl)). unfold bnd. lia.
          - pose proof (rsz_grow MKeys [] 0%Z p (0 + 1)%Z) as G.
            assert (rsz MKeys [] 0 = 0) by reflexivity. specialize (Hps p (or_introl eq_refl)). unfold bnd. lia.
          - unfold resp_size. rewrite range_resp_size_eq. pose proof (count_part_bound (Z.to_N (0 + 1))).
            simpl map. unfold items_size, bnd. cbn [fold_right]. lia. }
        destruct rest as [|q rest']; cbn [app].
        * constructor; [exact Hcur|]. constructor; [exact Hnew|constructor].
        * constructor; [exact Hcur|]. apply IH; [intros x Hx; apply Hps; now right|exact Hnew|].
          intros ->. reflexivity.
      + (* no cut: size before + estimate < maxSize *)
        set (cur' := match m with MCount => cur | _ => cur ++ [p] end).
        assert (Hnew : rsz m cur' (cnt + 1) <= bnd).
        { unfold cur'. destruct m.
          - pose proof (rsz_grow MFull cur cnt p (cnt + 1)%Z). unfold bnd. lia.
          - pose proof (rsz_grow MKeys cur cnt p (cnt + 1)%Z). unfold bnd. lia.
          - rewrite (Hc eq_refl). unfold resp_size. rewrite range_resp_size_eq.
            pose proof (count_part_bound (Z.to_N (cnt + 1))). simpl map. unfold items_size, bnd. cbn [fold_right]. lia. }
        destruct rest as [|q rest']; cbn [app].
        * constructor; [exact Hnew|constructor].
        * apply IH; [intros x Hx; apply Hps; now right|exact Hnew|].
          intros ->. unfold cur'. now apply Hc.
  Qed.

  Theorem chunk_sizes m limit ps : (forall p, In p ps -> sf P ksz vsz m p <= pairMax) ->
    Forall (fun c => rsz m (ch_items c) (ch_count c) <= bnd) (iterate P ksz vsz maxSize m limit ps).
  Proof.
    intros H. unfold iterate. destruct ps as [|p rest].
    - constructor; [|constructor]. cbn [ch_items ch_count]. unfold resp_size, bnd. rewrite range_resp_size_eq.
      cbn [map items_size fold_right]. pose proof (count_part_bound (Z.to_N 0)). lia.
    - apply loop_sizes; [exact H| |reflexivity]. unfold resp_size, bnd. rewrite range_resp_size_eq.
      cbn [map items_size fold_right]. pose proof (count_part_bound (Z.to_N 0)). lia.
  Qed.
End Bound.
