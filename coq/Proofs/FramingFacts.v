From Coq Require Import Lia.
From Verif Require Import Model.Bytes Model.Framing Proofs.BytesFacts.

Lemma le_bytes_length n x : length (le_bytes n x) = n.
Proof. revert x; induction n; intros x; simpl; auto. Qed.

Definition msg_ok (m : bytes) : Prop := N.of_nat (length m) < 2 ^ 64.

(* reading back what was written: the same messages with the same boundaries (zero-length writes are skipped) *)
Theorem unframe_frame ms : Forall msg_ok ms -> forall fuel, (length ms <= fuel)%nat ->
  unframe fuel (frame ms) = Some (filter (fun m => negb (Nat.eqb (length m) 0)) ms).
Proof.
  induction ms as [|m r IH]; intros Hok fuel Hf.
  - destruct fuel; reflexivity.
  - inversion Hok as [|? ? Hm Hr]; subst. unfold frame. cbn [map concat filter].
    destruct m as [|b m'].
    + cbn [frame1 app length Nat.eqb negb]. apply (IH Hr). simpl in Hf. lia.
    + set (m := b :: m') in *. fold (frame r).
      assert (Hfr : frame1 m = le_bytes 8 (N.of_nat (length m)) ++ m) by reflexivity.
      rewrite Hfr. replace (negb (Nat.eqb (length m) 0)) with true by reflexivity.
      destruct fuel as [|fuel]; [simpl in Hf; lia|].
      set (s := (le_bytes 8 (N.of_nat (length m)) ++ m) ++ frame r).
      assert (Hs : s = le_bytes 8 (N.of_nat (length m)) ++ (m ++ frame r)) by (unfold s; now rewrite app_assoc).
      assert (Hne : s <> []) by (rewrite Hs; simpl; discriminate).
      cbn [unframe]. destruct s as [|s0 s'] eqn:Es; [congruence|]. rewrite <- Es in *. clear Es.
      assert (H8 : firstn 8 s = le_bytes 8 (N.of_nat (length m))).
      { rewrite Hs. rewrite <- (le_bytes_length 8 (N.of_nat (length m))) at 1. apply firstn_app_len. }
      assert (Hsk : skipn 8 s = m ++ frame r).
      { rewrite Hs. rewrite <- (le_bytes_length 8 (N.of_nat (length m))) at 1. apply skipn_app_len. }
      assert (Hlen : (8 <= length s)%nat) by (rewrite Hs, app_length, le_bytes_length; lia).
      replace (length s <? 8)%nat with false by (symmetry; apply Nat.ltb_ge; lia).
      rewrite H8, Hsk. rewrite (le_val_bytes 8 _ Hm). rewrite Nnat.Nat2N.id.
      replace (length (m ++ frame r) <? length m)%nat with false by (symmetry; apply Nat.ltb_ge; rewrite app_length; lia).
      rewrite skipn_app_len, firstn_app_len. rewrite (IH Hr fuel) by (simpl in Hf; lia). reflexivity.
Qed.

(* wherever the chunk boundaries fall, the receiver reassembles the same byte stream *)
Theorem unchunk_chunks sizes : forall s, unchunk (chunks sizes s) = s.
Proof.
  unfold unchunk. induction sizes as [|n r IH]; intros s; destruct s as [|b s']; cbn [chunks]; try reflexivity.
  - simpl. now rewrite app_nil_r.
  - destruct n as [|n]; [apply IH|]. cbn [concat]. rewrite IH. apply firstn_skipn.
Qed.

(* hence: frames survive any chunking *)
Theorem framing_roundtrip ms sizes : Forall msg_ok ms ->
  unframe (length ms) (unchunk (chunks sizes (frame ms))) = Some (filter (fun m => negb (Nat.eqb (length m) 0)) ms).
Proof. intros H. rewrite unchunk_chunks. now apply unframe_frame. Qed.

(* with a compressor below the frames: any pair with the round-trip property *)
Section Compressed.
  Variable compress decompress : bytes -> bytes.
  Hypothesis roundtrip : forall s, decompress (compress s) = s.
  Theorem compressed_framing_roundtrip ms sizes : Forall msg_ok ms ->
    unframe (length ms) (decompress (unchunk (chunks sizes (compress (frame ms))))) =
    Some (filter (fun m => negb (Nat.eqb (length m) 0)) ms).
  Proof. intros H. rewrite unchunk_chunks, roundtrip. now apply unframe_frame. Qed.
End Compressed.
