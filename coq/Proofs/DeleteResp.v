(* The response of a range delete that asks for the previous pairs is computed by rangeLookup, i.e. it is the FIRST
   PAGE of the chunked iteration.  It equals the plain map's answer (all deleted pairs, their number) exactly when no
   size cut happens; a count without pairs is always exact.  The deviation for larger ranges is a known finding. *)
From Verif Require Import Model.Bytes Model.SMap Model.KeyEnc Model.ProtoSize Model.Cmd Model.Spec.
From Verif Require Import Generated.Constants Proofs.RangeSize.
From Coq Require Import Lia ZArith.

Section NoCut.
  Variable P : Type.
  Variables ksz vsz : P -> N.
  Variable maxSize : N.
  Notation iter_loop := (iter_loop P ksz vsz maxSize).
  Notation resp_size := (resp_size P ksz vsz).
  Notation sf := (sf P ksz vsz).

  (* no size cut along the way: every pair still fits into the response under construction *)
  Fixpoint nocut (m : mode) (ps : list P) (cur : list P) (cnt : Z) : bool :=
    match ps with
    | [] => true
    | p :: rest =>
        negb (maxSize <=? resp_size m cur cnt + sf m p) &&
        nocut m rest (match m with MCount => cur | _ => cur ++ [p] end) (cnt + 1)%Z
    end.

  Lemma loop_nocut m : forall ps i cur cnt, ps <> [] -> nocut m ps cur cnt = true ->
    iter_loop m 0%Z ps i cur cnt =
    [ {| ch_items := match m with MCount => cur | _ => cur ++ ps end;
         ch_count := (cnt + Z.of_nat (length ps))%Z; ch_more := false |} ].
  Proof.
    induction ps as [|p rest IH]; intros i cur cnt Hne Hnc; [contradiction|].
    cbn [nocut] in Hnc. apply andb_prop in Hnc as [Hc Hr]. apply negb_true_iff in Hc.
    cbn [Cmd.iter_loop]. rewrite andb_false_r. rewrite Hc. cbn [app].
    destruct rest as [|q rest'].
    - cbn [length]. reflexivity.
    - rewrite IH by (assumption || discriminate). f_equal. f_equal.
      + destruct m; try reflexivity; now rewrite <- app_assoc.
      + cbn [length]. lia.
  Qed.

  Lemma iterate_nocut m ps : nocut m ps [] 0%Z = true ->
    iterate P ksz vsz maxSize m 0%Z ps =
    [ {| ch_items := match m with MCount => [] | _ => ps end; ch_count := Z.of_nat (length ps); ch_more := false |} ].
  Proof.
    intros H. destruct ps as [|p rest]; [destruct m; reflexivity|]. unfold iterate. rewrite loop_nocut by (assumption || discriminate).
    reflexivity.
  Qed.

  (* a pure count never cuts (sizeCountOnly is 0 and an empty response is a few bytes) *)
  Lemma nocut_count ps : 12 < maxSize -> forall cnt, nocut MCount ps [] cnt = true.
  Proof.
    intros Hm. induction ps as [|p rest IH]; intros cnt; [reflexivity|]. cbn [nocut]. rewrite IH, andb_true_r.
    apply negb_true_iff, N.leb_gt. unfold Cmd.resp_size, Cmd.sf. cbn [map]. rewrite range_resp_size_eq. cbn.
    pose proof (count_part_bound (Z.to_N cnt)). lia.
  Qed.
End NoCut.

Definition nocut_pairs := nocut (bytes * bytes) pair_ksz pair_vsz fsm_maxRangeSize.

(* range delete on the plain map, previous pairs requested: the response is the plain map's whenever nothing is cut *)
Theorem delete_prev_exact (U : umap) (lo hi : bytes) (cnt : bool) :
  nocut_pairs MFull (p_scan U lo hi) [] 0%Z = true ->
  snd (handle_delete umap p_get p_del p_delrange p_scan U {| dl_key := lo; dl_end := Some hi; dl_prev := true; dl_count := cnt |})
  = RDel (Z.of_nat (length (p_scan U lo hi))) (p_scan U lo hi).
Proof.
  intros H. unfold handle_delete. cbn [dl_prev dl_count dl_end dl_key orb snd]. unfold lookup, plain_req. cbn [rq_end].
  unfold range_lookup, iterate_req, req_mode. cbn [rq_keys_only rq_count_only rq_key rq_limit].
  rewrite andb_false_r. unfold nocut_pairs in H. rewrite (iterate_nocut _ _ _ _ MFull _ H). reflexivity.
Qed.

(* a count without pairs is exact for every range, however large *)
Theorem delete_count_exact (U : umap) (lo hi : bytes) :
  snd (handle_delete umap p_get p_del p_delrange p_scan U {| dl_key := lo; dl_end := Some hi; dl_prev := false; dl_count := true |})
  = RDel (Z.of_nat (length (p_scan U lo hi))) [].
Proof.
  unfold handle_delete. cbn [dl_prev dl_count dl_end dl_key orb snd negb andb]. unfold lookup, plain_req. cbn [rq_end].
  unfold range_lookup, iterate_req, req_mode. cbn [rq_keys_only rq_count_only rq_key rq_limit].
  rewrite (iterate_nocut _ _ _ _ MCount); [reflexivity|]. apply nocut_count. reflexivity.
Qed.

(* with a cut the first page is a strict part: three pairs of 20 bytes under a page limit of 50 *)
Example delete_prev_pages_refuted :
  let ps := [([1], repeat 7 19); ([2], repeat 7 19); ([3], repeat 7 19)]%N in
  let first := hd {| ch_items := []; ch_count := 0; ch_more := false |}%Z
                  (iterate (bytes * bytes) pair_ksz pair_vsz 50 MFull 0%Z ps) in
  ch_count first = 2%Z /\ ch_more first = true /\ length (ch_items first) = 2%nat /\ length ps = 3%nat.
Proof. vm_compute. repeat split. Qed.
