From Coq Require Import Lia.
From Verif Require Import Model.Bytes Model.Validate.

Ltac cases := repeat match goal with |- context [if ?b then _ else _] => destruct b eqn:? end.

Theorem range_rejections r :
  ((rr_limit r < 0)%Z -> range_status r = SInvalidArgument) /\
  ((0 <= rr_limit r)%Z -> rr_keys_only r = true -> rr_count_only r = true -> range_status r = SInvalidArgument) /\
  (range_status r = SOk -> (0 <= rr_limit r)%Z /\ (rr_keys_only r && rr_count_only r = false) /\
     (rr_min_mod r <= 0 /\ rr_max_mod r <= 0 /\ rr_min_create r <= 0 /\ rr_max_create r <= 0)%Z /\
     rr_table_len r <> 0 /\ rr_key_len r <> 0 /\ rr_table_known r = true /\ rr_key_len r <= key_limit /\ rr_end_len r <= key_limit) /\
  ((0 <= rr_limit r)%Z -> rr_keys_only r && rr_count_only r = false ->
     (0 < rr_min_mod r \/ 0 < rr_max_mod r \/ 0 < rr_min_create r \/ 0 < rr_max_create r)%Z -> range_status r = SUnimplemented).
Proof.
  unfold range_status. repeat split; intros.
  - replace (rr_limit r <? 0)%Z with true by (symmetry; apply Z.ltb_lt; lia). reflexivity.
  - replace (rr_limit r <? 0)%Z with false by (symmetry; apply Z.ltb_ge; lia). rewrite H0, H1. reflexivity.
  - revert H. cases; try discriminate. intros _. apply Z.ltb_ge in Heqb. exact Heqb.
  - revert H. cases; try discriminate. reflexivity.
  - revert H. cases; try discriminate. intros _. apply Z.ltb_ge in Heqb1. exact Heqb1.
  - revert H. cases; try discriminate. intros _. apply Z.ltb_ge in Heqb2. exact Heqb2.
  - revert H. cases; try discriminate. intros _. apply Z.ltb_ge in Heqb3. exact Heqb3.
  - revert H. cases; try discriminate. intros _. apply Z.ltb_ge in Heqb4. exact Heqb4.
  - revert H. cases; try discriminate. intros _. now apply N.eqb_neq.
  - revert H. cases; try discriminate. intros _. now apply N.eqb_neq.
  - revert H. cases; try discriminate. intros _. now destruct (rr_table_known r).
  - revert H. cases; try discriminate. intros _. apply N.ltb_ge in Heqb8. exact Heqb8.
  - revert H. cases; try discriminate. intros _. apply N.ltb_ge in Heqb9. exact Heqb9.
  - replace (rr_limit r <? 0)%Z with false by (symmetry; apply Z.ltb_ge; lia). rewrite H0.
    destruct H1 as [H1|[H1|[H1|H1]]]; apply Z.ltb_lt in H1; cases; congruence.
Qed.

Theorem put_accepts_only_within_limits r : put_status r = SOk ->
  pr_table_len r <> 0 /\ 0 < pr_key_len r <= key_limit /\ pr_val_len r <= val_limit /\ pr_table_known r = true.
Proof.
  unfold put_status. cases; try discriminate. intros _.
  apply N.eqb_neq in Heqb, Heqb0. apply N.ltb_ge in Heqb2, Heqb3. destruct (pr_table_known r); [|discriminate].
  repeat split; auto; lia.
Qed.

Theorem del_accepts_only_within_limits r : del_status r = SOk ->
  dr_table_len r <> 0 /\ 0 < dr_key_len r <= key_limit /\ dr_table_known r = true.
Proof.
  unfold del_status. cases; try discriminate. intros _.
  apply N.eqb_neq in Heqb, Heqb0. apply N.ltb_ge in Heqb2. destruct (dr_table_known r); [|discriminate].
  repeat split; auto; lia.
Qed.

(* the same limits hold on every path that can create a record, operations nested in a transaction included *)
Theorem txn_limits_on_every_path r : txn_status r = SOk ->
  forall o k v, In o (tr_ops r) -> In (k, v) (creates o) -> 0 < k <= key_limit /\ v <= val_limit.
Proof.
  unfold txn_status. cases; try discriminate. intros _ o k v Ho Hc.
  rewrite forallb_forall in Heqb1. specialize (Heqb1 o Ho). destruct o; simpl in Hc; try contradiction.
  destruct Hc as [[= <- <-]|[]]. simpl in Heqb1.
  apply andb_true_iff in Heqb1. destruct Heqb1 as [H1 H3]. apply andb_true_iff in H1. destruct H1 as [H1 H2].
  apply negb_true_iff, N.eqb_neq in H1. apply N.leb_le in H2, H3. lia.
Qed.

Theorem status_classes :
  (forall r, pr_table_len r = 0 \/ pr_key_len r = 0 -> put_status r = SInvalidArgument) /\
  (forall r, dr_table_len r = 0 \/ dr_key_len r = 0 -> del_status r = SInvalidArgument) /\
  (forall r, tr_table_len r = 0 -> txn_status r = SInvalidArgument) /\
  (forall r, pr_table_len r <> 0 -> pr_key_len r <> 0 -> pr_table_known r = false -> put_status r = SNotFound) /\
  (forall r, dr_table_len r <> 0 -> dr_key_len r <> 0 -> dr_table_known r = false -> del_status r = SNotFound) /\
  (forall r, tr_table_len r <> 0 -> tr_table_known r = false -> txn_status r = SNotFound) /\
  (forall r, tb_name_len r = 0 -> create_status r = SInvalidArgument /\ delete_status r = SInvalidArgument) /\
  follower_table_mutation_status = SUnimplemented.
Proof.
  repeat split; intros.
  - unfold put_status. destruct H as [H|H]; rewrite H; simpl; [reflexivity|destruct (pr_table_len r =? 0); reflexivity].
  - unfold del_status. destruct H as [H|H]; rewrite H; simpl; [reflexivity|destruct (dr_table_len r =? 0); reflexivity].
  - unfold txn_status. now rewrite H.
  - unfold put_status. apply N.eqb_neq in H, H0. now rewrite H, H0, H1.
  - unfold del_status. apply N.eqb_neq in H, H0. now rewrite H, H0, H1.
  - unfold txn_status. apply N.eqb_neq in H. now rewrite H, H0.
  - unfold create_status. now rewrite H.
  - unfold delete_status. now rewrite H.
Qed.

(* ---- the read path of transactions ---- *)
Lemma is_range_spec o : is_range o = true <-> exists k e, o = TRange k e.
Proof. destruct o; cbn; split; try discriminate; eauto; intros (k & e & H); discriminate. Qed.
Theorem readonly_only_ranges succ fail : is_readonly succ fail = true ->
  forall o, In o (succ ++ fail) -> exists k e, o = TRange k e.
Proof.
  unfold is_readonly. rewrite andb_true_iff, !forallb_forall. intros [Hs Hf] o Hin. apply is_range_spec.
  apply in_app_or in Hin. destruct Hin; auto.
Qed.
(* in particular: no operation with an empty oneof, no put, no delete ever reaches the read path, and the read path
   creates no record *)
Corollary readonly_no_unset succ fail : is_readonly succ fail = true -> ~ In TUnset (succ ++ fail).
Proof. intros H Hin. destruct (readonly_only_ranges _ _ H _ Hin) as (k & e & E). discriminate. Qed.
Corollary readonly_creates_nothing succ fail : is_readonly succ fail = true -> flat_map creates (succ ++ fail) = [].
Proof.
  intros H. assert (G : forall l, (forall o, In o l -> exists k e, o = TRange k e) -> flat_map creates l = []).
  { induction l as [|o l IH]; intros Hl; [reflexivity|]. cbn [flat_map].
    destruct (Hl o (or_introl eq_refl)) as (k & e & ->). cbn. apply IH. intros o' Ho'. apply Hl. now right. }
  apply G. exact (readonly_only_ranges _ _ H).
Qed.
Theorem not_readonly_has_other succ fail : is_readonly succ fail = false ->
  exists o, In o (succ ++ fail) /\ is_range o = false.
Proof.
  unfold is_readonly. intros H. apply andb_false_iff in H.
  assert (G : forall l, forallb is_range l = false -> exists o, In o l /\ is_range o = false).
  { induction l as [|o l IH]; cbn; [discriminate|]. destruct (is_range o) eqn:E; cbn.
    - intros Hl. destruct (IH Hl) as (o' & Hin & Ho'). exists o'. auto.
    - intros _. exists o. auto. }
  destruct H as [H|H]; destruct (G _ H) as (o & Hin & Ho); exists o; split; auto; apply in_or_app; auto.
Qed.

(* ---- address schemes: an endpoint speaks TLS exactly for the schemes https and unixs ---- *)
Theorem secure_schemes s : secure s = true <-> s = SchHttps \/ s = SchUnixs.
Proof. destruct s; cbn; split; try discriminate; auto; intros [H|H]; discriminate. Qed.
Theorem unix_schemes s : unix_socket s = true <-> s = SchUnix \/ s = SchUnixs.
Proof. destruct s; cbn; split; try discriminate; auto; intros [H|H]; discriminate. Qed.
