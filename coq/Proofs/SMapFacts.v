From Coq Require Import Lia Sorted.
From Verif Require Import Model.Bytes Model.SMap Proofs.BytesFacts.

Section Facts.
  Variable V : Type.
  Notation smap := (smap V).
  Implicit Types s : smap.

  Definition klt (a b : bytes * V) : Prop := blt (fst a) (fst b).
  Definition sorted (s : smap) : Prop := StronglySorted klt s.

  Lemma sorted_nil : sorted [].
  Proof. constructor. Qed.

  Lemma sorted_inv a s : sorted (a :: s) -> sorted s /\ Forall (klt a) s.
  Proof. intros H. inversion H; subst. auto. Qed.

  Lemma beqb_refl k : beqb k k = true.
  Proof. now apply beqb_eq. Qed.

  Lemma beqb_sym a b : beqb a b = beqb b a.
  Proof.
    destruct (beqb a b) eqn:E; symmetry.
    - apply beqb_eq in E. subst. apply beqb_refl.
    - destruct (beqb b a) eqn:E2; [|reflexivity]. apply beqb_eq in E2. subst. now rewrite beqb_refl in E.
  Qed.

  Lemma beqb_neq a b : beqb a b = false <-> a <> b.
  Proof. rewrite <- beqb_eq. destruct (beqb a b); split; congruence. Qed.

  Lemma blt_neq a b : blt a b -> beqb b a = false.
  Proof.
    intros H. apply beqb_neq. intros ->. unfold blt in H. now rewrite lex_refl in H.
  Qed.

  (* ---- sget / sset ---- *)
  Lemma sget_sset s k v k' : sget (sset s k v) k' = if beqb k' k then Some v else sget s k'.
  Proof.
    induction s as [|[k0 v0] r IH]; simpl.
    - reflexivity.
    - destruct (lex_compare k k0) eqn:E; simpl.
      + apply lex_eq in E. subst k0. destruct (beqb k' k); reflexivity.
      + destruct (beqb k' k); reflexivity.
      + rewrite IH. destruct (beqb k' k0) eqn:E0; [|reflexivity].
        apply beqb_eq in E0. subst k0.
        destruct (beqb k' k) eqn:E1; [|reflexivity].
        apply beqb_eq in E1. subst k'. now rewrite lex_refl in E.
  Qed.

  Lemma Forall_klt_sset a s k v : Forall (klt a) s -> blt (fst a) k -> Forall (klt a) (sset s k v).
  Proof.
    intros H Hk. induction s as [|[k0 v0] r IH]; simpl.
    - constructor; [exact Hk|constructor].
    - inversion H; subst. destruct (lex_compare k k0); constructor; auto.
  Qed.

  Lemma sset_sorted s k v : sorted s -> sorted (sset s k v).
  Proof.
    induction s as [|[k0 v0] r IH]; intros H; simpl.
    - constructor; constructor.
    - apply sorted_inv in H. destruct H as [Hr Hf].
      destruct (lex_compare k k0) eqn:E.
      + apply lex_eq in E. subst k0. constructor; assumption.
      + constructor; [constructor; assumption|].
        constructor; [exact E|].
        eapply Forall_impl; [|exact Hf]. intros [k1 v1] H1. unfold klt in *; simpl in *.
        eapply lex_lt_trans; eassumption.
      + constructor; [apply IH, Hr|]. apply Forall_klt_sset; [exact Hf|].
        unfold blt; simpl. rewrite lex_antisym, E. reflexivity.
  Qed.

  (* ---- membership vs sget under sortedness ---- *)
  Lemma sget_above a s : Forall (klt a) s -> sget s (fst a) = None.
  Proof.
    induction s as [|[k0 v0] r IH]; intros H; simpl; [reflexivity|].
    inversion H; subst. rewrite (beqb_sym (fst a) k0), (blt_neq (fst a) k0) by assumption. auto.
  Qed.

  Lemma sget_in s k v : sorted s -> (sget s k = Some v <-> In (k, v) s).
  Proof.
    induction s as [|[k0 v0] r IH]; intros H; simpl.
    - split; [discriminate|contradiction].
    - apply sorted_inv in H. destruct H as [Hr Hf].
      destruct (beqb k k0) eqn:E.
      + apply beqb_eq in E. subst k0. split.
        * intros [= ->]. now left.
        * intros [[= ->]|Hin]; [reflexivity|].
          exfalso. rewrite Forall_forall in Hf. specialize (Hf _ Hin). unfold klt, blt in Hf; simpl in Hf.
          now rewrite lex_refl in Hf.
      + rewrite (IH Hr). split; [auto|]. intros [[= -> ->]|Hin]; [|assumption].
        now rewrite beqb_refl in E.
  Qed.

  (* ---- sdel ---- *)
  Lemma sget_sdel s k k' : sorted s -> sget (sdel s k) k' = if beqb k' k then None else sget s k'.
  Proof.
    induction s as [|[k0 v0] r IH]; intros H; simpl.
    - destruct (beqb k' k); reflexivity.
    - apply sorted_inv in H. destruct H as [Hr Hf].
      destruct (beqb k k0) eqn:E.
      + apply beqb_eq in E. subst k0.
        destruct (beqb k' k) eqn:E1; [|reflexivity].
        apply beqb_eq in E1. subst k'. apply (sget_above (k, v0) r Hf).
      + simpl. rewrite (IH Hr). destruct (beqb k' k0) eqn:E0; [|reflexivity].
        apply beqb_eq in E0. subst k0. rewrite beqb_sym, E. reflexivity.
  Qed.

  Lemma Forall_klt_sdel a s k : Forall (klt a) s -> Forall (klt a) (sdel s k).
  Proof.
    induction s as [|[k0 v0] r IH]; intros H; simpl; [constructor|].
    inversion H; subst. destruct (beqb k k0); [assumption|constructor; auto].
  Qed.

  Lemma sdel_sorted s k : sorted s -> sorted (sdel s k).
  Proof.
    induction s as [|[k0 v0] r IH]; intros H; simpl; [constructor|].
    apply sorted_inv in H. destruct H as [Hr Hf].
    destruct (beqb k k0); [assumption|]. constructor; [apply IH, Hr|apply Forall_klt_sdel, Hf].
  Qed.

  (* ---- filter ---- *)
  Lemma Forall_filter {A} (P : A -> Prop) f (l : list A) : Forall P l -> Forall P (filter f l).
  Proof. induction 1; simpl; [constructor|]. destruct (f x); [constructor|]; auto. Qed.

  Lemma filter_sorted f (s : smap) : sorted s -> sorted (filter f s).
  Proof.
    induction s as [|a r IH]; intros H; simpl; [constructor|].
    apply sorted_inv in H. destruct H as [Hr Hf].
    destruct (f a); [constructor; [apply IH, Hr|apply Forall_filter, Hf]|apply IH, Hr].
  Qed.

  Lemma sget_filter (f : bytes -> bool) (s : smap) k :
    sorted s -> sget (filter (fun kv => f (fst kv)) s) k = if f k then sget s k else None.
  Proof.
    induction s as [|[k0 v0] r IH]; intros H; simpl.
    - destruct (f k); reflexivity.
    - apply sorted_inv in H. destruct H as [Hr Hf].
      destruct (f k0) eqn:F0; simpl.
      + destruct (beqb k k0) eqn:E.
        * apply beqb_eq in E. subst k0. now rewrite F0.
        * auto.
      + rewrite (IH Hr). destruct (beqb k k0) eqn:E; [|reflexivity].
        apply beqb_eq in E. subst k0. rewrite F0. reflexivity.
  Qed.

  Lemma sscan_sorted s lo hi : sorted s -> sorted (sscan s lo hi).
  Proof. apply filter_sorted. Qed.
  Lemma sdelrange_sorted s lo hi : sorted s -> sorted (sdelrange s lo hi).
  Proof. apply filter_sorted. Qed.

  Lemma sget_sscan s lo hi k : sorted s -> sget (sscan s lo hi) k = if in_range lo hi k then sget s k else None.
  Proof. intros H. unfold sscan. now rewrite (sget_filter (in_range lo hi)). Qed.
  Lemma sget_sdelrange s lo hi k : sorted s -> sget (sdelrange s lo hi) k = if in_range lo hi k then None else sget s k.
  Proof.
    intros H. unfold sdelrange. rewrite (sget_filter (fun k => negb (in_range lo hi k))) by assumption.
    destruct (in_range lo hi k); reflexivity.
  Qed.

  (* ---- canonical form: sorted maps with the same lookups are equal ---- *)
  Lemma sorted_ext (s1 s2 : smap) : sorted s1 -> sorted s2 -> (forall k, sget s1 k = sget s2 k) -> s1 = s2.
  Proof.
    revert s2. induction s1 as [|[k1 v1] r1 IH]; intros [|[k2 v2] r2] H1 H2 Hext.
    - reflexivity.
    - specialize (Hext k2). simpl in Hext. now rewrite beqb_refl in Hext.
    - specialize (Hext k1). simpl in Hext. now rewrite beqb_refl in Hext.
    - apply sorted_inv in H1. destruct H1 as [Hr1 Hf1]. apply sorted_inv in H2. destruct H2 as [Hr2 Hf2].
      assert (Hk : k1 = k2).
      { destruct (lex_compare k1 k2) eqn:E.
        - now apply lex_eq.
        - (* k1 < k2: k1 absent from s2 *)
          pose proof (Hext k1) as Hx. simpl in Hx. rewrite beqb_refl in Hx.
          assert (beqb k1 k2 = false) by (apply beqb_neq; intros ->; now rewrite lex_refl in E).
          rewrite H in Hx.
          assert (Forall (klt (k1, v1)) r2).
          { eapply Forall_impl; [|exact Hf2]. intros [k v] Hlt. unfold klt, blt in *; simpl in *.
            eapply lex_lt_trans; eassumption. }
          pose proof (sget_above (k1, v1) r2 H0) as Ha. simpl in Ha. rewrite Ha in Hx. discriminate.
        - pose proof (Hext k2) as Hx. simpl in Hx. rewrite beqb_refl in Hx.
          assert (E' : lex_compare k2 k1 = Lt) by (rewrite lex_antisym, E; reflexivity).
          assert (beqb k2 k1 = false) by (apply beqb_neq; intros ->; now rewrite lex_refl in E').
          rewrite H in Hx.
          assert (Forall (klt (k2, v2)) r1).
          { eapply Forall_impl; [|exact Hf1]. intros [k v] Hlt. unfold klt, blt in *; simpl in *.
            eapply lex_lt_trans; eassumption. }
          pose proof (sget_above (k2, v2) r1 H0) as Ha. simpl in Ha. rewrite Ha in Hx. discriminate. }
      subst k2.
      assert (v1 = v2).
      { specialize (Hext k1). simpl in Hext. rewrite beqb_refl in Hext. congruence. }
      subst v2. f_equal. apply IH; try assumption.
      intros k. specialize (Hext k). simpl in Hext.
      destruct (beqb k k1) eqn:E; [|assumption].
      apply beqb_eq in E. subst k.
      pose proof (sget_above (k1, v1) r1 Hf1) as Ha1. pose proof (sget_above (k1, v1) r2 Hf2) as Ha2.
      simpl in Ha1, Ha2. now rewrite Ha1, Ha2.
  Qed.

  Lemma sset_sset_same s k v v' : sset (sset s k v) k v' = sset s k v'.
  Proof.
    induction s as [|[k0 v0] r IH]; simpl.
    - now rewrite lex_refl.
    - destruct (lex_compare k k0) eqn:E; simpl; rewrite ?lex_refl, ?E; try reflexivity. now rewrite IH.
  Qed.

  (* keys of a sorted map are pairwise distinct and ascending *)
  Lemma sorted_keys_ascending s : sorted s -> StronglySorted blt (map fst s).
  Proof.
    induction 1 as [|a r Hs IH Hf]; simpl; constructor; [assumption|].
    rewrite Forall_forall in *. intros k Hk. apply in_map_iff in Hk. destruct Hk as (x & <- & Hx). now apply Hf.
  Qed.
End Facts.

Arguments sorted {V}.
