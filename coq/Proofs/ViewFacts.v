From Coq Require Import Lia Permutation.
From Verif Require Import Model.Bytes Model.View.

(* ---------- component R: (replicas, config-change index) ---------- *)

Definition consR (a b : N * N) : Prop := snd a = snd b -> fst a = fst b.

Definition bestR (c : N * N) (us : list (N * N)) (r : N * N) : Prop :=
  In r (c :: us) /\ forall x, In x (c :: us) -> snd x <= snd r.

Lemma mergeR_cases c u : mergeR c u = c /\ snd u <= snd c \/ mergeR c u = u /\ snd c < snd u.
Proof. unfold mergeR. destruct (N.ltb_spec (snd c) (snd u)); [right|left]; split; auto. Qed.

Lemma mergeR_ge c u : snd c <= snd (mergeR c u) /\ snd u <= snd (mergeR c u).
Proof. destruct (mergeR_cases c u) as [[E H]|[E H]]; rewrite E; lia. Qed.

Lemma foldR_best us : forall c, bestR c us (fold_left mergeR us c).
Proof.
  induction us as [|u us IH]; intros c; cbn [fold_left].
  - split; [left; reflexivity|]. intros x [<-|[]]. lia.
  - destruct (IH (mergeR c u)) as [Hin Hmax]. split.
    + destruct Hin as [E|Hin]; [|right; right; exact Hin].
      destruct (mergeR_cases c u) as [[Ec _]|[Eu _]].
      * left. congruence.
      * right; left. congruence.
    + intros x [<-|[<-|Hx]].
      * specialize (Hmax (mergeR c u) (or_introl eq_refl)). pose proof (mergeR_ge c u). lia.
      * specialize (Hmax (mergeR c u) (or_introl eq_refl)). pose proof (mergeR_ge c u). lia.
      * apply Hmax. right; exact Hx.
Qed.

Lemma bestR_unique c us vs r1 r2 :
  (forall x, In x (c :: us) <-> In x (c :: vs)) ->
  (forall a b, In a (c :: us) -> In b (c :: us) -> consR a b) ->
  bestR c us r1 -> bestR c vs r2 -> r1 = r2.
Proof.
  intros Hset Hcons [I1 M1] [I2 M2].
  assert (snd r1 = snd r2).
  { apply N.le_antisymm; [apply M2, Hset, I1 | apply M1, Hset, I2]. }
  destruct r1, r2; simpl in *. f_equal; [|assumption].
  apply (Hcons _ _ I1 (proj2 (Hset _) I2)). assumption.
Qed.

(* ---------- component L: (leader, term) ---------- *)

Definition lful (p : N * N) : bool := negb (fst p =? noLeader).
Definition consL (a b : N * N) : Prop := lful a = true -> lful b = true -> snd a = snd b -> fst a = fst b.

Definition bestL (c : N * N) (us : list (N * N)) (r : N * N) : Prop :=
  In r (c :: us) /\
  (forall x, In x (c :: us) -> lful x = true -> lful r = true /\ snd x <= snd r) /\
  (lful r = false -> r = c).

Lemma mergeL_cases c u :
  (mergeL c u = u /\ lful u = true /\ (lful c = false \/ snd c < snd u)) \/
  (mergeL c u = c /\ (lful u = false \/ (lful c = true /\ snd u <= snd c))).
Proof.
  unfold mergeL, lful.
  destruct (fst u =? noLeader); simpl; [right; split; auto|].
  destruct (fst c =? noLeader); simpl; [left; auto|].
  destruct (N.ltb_spec (snd c) (snd u)); [left; auto|right; auto].
Qed.

Lemma foldL_best us : forall c, bestL c us (fold_left mergeL us c).
Proof.
  induction us as [|u us IH]; intros c; cbn [fold_left].
  - split; [left; reflexivity|]. split; [|reflexivity].
    intros x [<-|[]] H. split; [assumption|lia].
  - destruct (IH (mergeL c u)) as (Hin & Hmax & Hnone).
    set (r := fold_left mergeL us (mergeL c u)) in *.
    assert (Hm : lful (mergeL c u) = true -> lful r = true /\ snd (mergeL c u) <= snd r)
      by (apply Hmax; left; reflexivity).
    split; [|split].
    + destruct Hin as [E|Hin]; [|right; right; exact Hin].
      destruct (mergeL_cases c u) as [[Eu _]|[Ec _]].
      * right; left. congruence.
      * left. congruence.
    + intros x [<-|[<-|Hx]] Hx1.
      * destruct (mergeL_cases c u) as [(Eu & Hu & [Hc|Hlt])|(Ec & _)].
        -- congruence.
        -- rewrite Eu in Hm. destruct (Hm Hu). split; [assumption|lia].
        -- rewrite Ec in Hm. apply Hm; assumption.
      * destruct (mergeL_cases c u) as [(Eu & Hu & _)|(Ec & [Hu|[Hc Hle]])].
        -- rewrite Eu in Hm. apply Hm; assumption.
        -- congruence.
        -- rewrite Ec in Hm. destruct (Hm Hc). split; [assumption|lia].
      * apply Hmax; [right; exact Hx|assumption].
    + intros Hr. specialize (Hnone Hr).
      destruct (mergeL_cases c u) as [(Eu & Hu & _)|(Ec & _)].
      * rewrite Hnone, Eu in Hr. congruence.
      * congruence.
Qed.

Lemma bestL_unique c us vs r1 r2 :
  (forall x, In x (c :: us) <-> In x (c :: vs)) ->
  (forall a b, In a (c :: us) -> In b (c :: us) -> consL a b) ->
  bestL c us r1 -> bestL c vs r2 -> r1 = r2.
Proof.
  intros Hset Hcons (I1 & M1 & N1) (I2 & M2 & N2).
  destruct (lful r1) eqn:L1.
  - destruct (M2 r1 (proj1 (Hset _) I1) L1) as [L2 Hle2].
    destruct (M1 r2 (proj2 (Hset _) I2) L2) as [_ Hle1].
    assert (snd r1 = snd r2) by lia.
    destruct r1, r2; simpl in *. f_equal; [|assumption].
    apply (Hcons _ _ I1 (proj2 (Hset _) I2)); assumption.
  - destruct (lful r2) eqn:L2.
    + destruct (M1 r2 (proj2 (Hset _) I2) L2). congruence.
    + rewrite N1, N2; auto.
Qed.

(* ---------- the record-level merge ---------- *)

Lemma projR_merge c u : projR (merge c u) = mergeR (projR c) (projR u).
Proof. unfold merge, projR; simpl. now destruct (mergeR _ _). Qed.
Lemma projL_merge c u : projL (merge c u) = mergeL (projL c) (projL u).
Proof. unfold merge, projL; simpl. now destruct (mergeL _ _). Qed.

Lemma projR_fold us : forall c, projR (fold_left merge us c) = fold_left mergeR (map projR us) (projR c).
Proof. induction us as [|u us IH]; intros c; simpl; [reflexivity|]. now rewrite IH, projR_merge. Qed.
Lemma projL_fold us : forall c, projL (fold_left merge us c) = fold_left mergeL (map projL us) (projL c).
Proof. induction us as [|u us IH]; intros c; simpl; [reflexivity|]. now rewrite IH, projL_merge. Qed.

Lemma sview_eq a b : projR a = projR b -> projL a = projL b -> a = b.
Proof. destruct a, b; unfold projR, projL; simpl. congruence. Qed.

(* Raft's guarantees about the updates a node can ever see for one shard *)
Definition consistent (vs : list sview) : Prop :=
  forall a b, In a vs -> In b vs -> consR (projR a) (projR b) /\ consL (projL a) (projL b).

Lemma in_map_cons {A B} (f : A -> B) c us y : In y (f c :: map f us) -> exists x, In x (c :: us) /\ y = f x.
Proof.
  intros [<-|H]; [exists c; split; [left|]; reflexivity|].
  apply in_map_iff in H. destruct H as (x & <- & Hx). exists x. split; [right; assumption|reflexivity].
Qed.

Lemma set_map {A B} (f : A -> B) c us vs :
  (forall x, In x (c :: us) <-> In x (c :: vs)) ->
  forall y, In y (f c :: map f us) <-> In y (f c :: map f vs).
Proof.
  intros H y. change (In y (map f (c :: us)) <-> In y (map f (c :: vs))).
  rewrite !in_map_iff. split; intros (x & E & Hx); exists x; (split; [assumption|apply H; assumption]).
Qed.

(* The merged view is determined by the SET of updates seen: order, repetition and grouping are irrelevant *)
Theorem fold_set_determined c us vs :
  (forall x, In x (c :: us) <-> In x (c :: vs)) -> consistent (c :: us) ->
  fold_left merge us c = fold_left merge vs c.
Proof.
  intros Hset Hcons. apply sview_eq.
  - rewrite !projR_fold.
    eapply bestR_unique; [apply (set_map projR), Hset| |apply foldR_best|apply foldR_best].
    intros a b Ha Hb. apply in_map_cons in Ha, Hb. destruct Ha as (x & Hx & ->), Hb as (y & Hy & ->).
    apply (Hcons x y Hx Hy).
  - rewrite !projL_fold.
    eapply bestL_unique; [apply (set_map projL), Hset| |apply foldL_best|apply foldL_best].
    intros a b Ha Hb. apply in_map_cons in Ha, Hb. destruct Ha as (x & Hx & ->), Hb as (y & Hy & ->).
    apply (Hcons x y Hx Hy).
Qed.

Theorem fold_perm c us vs : Permutation us vs -> consistent (c :: us) -> fold_left merge us c = fold_left merge vs c.
Proof.
  intros Hp. apply fold_set_determined. intros x. split; (intros [E|H]; [left; exact E|right]).
  - exact (Permutation_in x Hp H).
  - exact (Permutation_in x (Permutation_sym Hp) H).
Qed.

Theorem fold_dup c us : consistent (c :: us) -> fold_left merge (us ++ us) c = fold_left merge us c.
Proof.
  intros H. symmetry. apply fold_set_determined; [|assumption].
  intros x. simpl. rewrite in_app_iff. tauto.
Qed.

(* what is retained *)
Theorem fold_result c us :
  let r := fold_left merge us c in
  (exists x, In x (c :: us) /\ projR r = projR x) /\ (forall x, In x (c :: us) -> cci x <= cci r) /\
  (exists x, In x (c :: us) /\ projL r = projL x) /\
  (forall x, In x (c :: us) -> leader x <> noLeader -> leader r <> noLeader /\ term x <= term r) /\
  (leader r = noLeader -> projL r = projL c).
Proof.
  intros r. subst r.
  pose proof (foldR_best (map projR us) (projR c)) as [IR MR]. rewrite <- projR_fold in *.
  pose proof (foldL_best (map projL us) (projL c)) as (IL & ML & NL). rewrite <- projL_fold in *.
  assert (LF : forall v, lful (projL v) = true <-> leader v <> noLeader).
  { intros v. unfold lful, projL; simpl. destruct (N.eqb_spec (leader v) noLeader); simpl; split; congruence. }
  repeat split.
  - apply in_map_cons in IR. destruct IR as (x & Hx & E). eauto.
  - intros x Hx. apply (MR (projR x)). change (In (projR x) (map projR (c :: us))). now apply in_map.
  - apply in_map_cons in IL. destruct IL as (x & Hx & E). eauto.
  - apply LF. refine (proj1 (ML (projL x) _ _)); [|now apply LF].
    change (In (projL x) (map projL (c :: us))). now apply in_map.
  - refine (proj2 (ML (projL x) _ _)); [|now apply LF].
    change (In (projL x) (map projL (c :: us))). now apply in_map.
  - intros H. apply NL. destruct (lful _) eqn:E; [|reflexivity]. apply LF in E. contradiction.
Qed.

(* ---------- never regressing ---------- *)

Definition okL (v : sview) : Prop := leader v = noLeader -> term v = 0.

Lemma zero_ok : okL zero.
Proof. intros _. reflexivity. Qed.

Lemma leader_merge c u : leader (merge c u) = fst (mergeL (projL c) (projL u)).
Proof. reflexivity. Qed.
Lemma term_merge c u : term (merge c u) = snd (mergeL (projL c) (projL u)).
Proof. reflexivity. Qed.

Lemma lful_leader v : lful (projL v) = true <-> leader v <> noLeader.
Proof. unfold lful, projL; simpl. destruct (N.eqb_spec (leader v) noLeader); simpl; split; congruence. Qed.
Lemma lful_noleader v : lful (projL v) = false <-> leader v = noLeader.
Proof. unfold lful, projL; simpl. destruct (N.eqb_spec (leader v) noLeader); simpl; split; congruence. Qed.

Lemma merge_ok c u : okL c -> okL (merge c u).
Proof.
  unfold okL. intros H. rewrite leader_merge, term_merge.
  destruct (mergeL_cases (projL c) (projL u)) as [(Eu & Hu & _)|(Ec & _)].
  - rewrite Eu. simpl. intros Hl. apply lful_leader in Hu. contradiction.
  - rewrite Ec. simpl. exact H.
Qed.

Lemma fold_ok us : forall c, okL c -> okL (fold_left merge us c).
Proof. induction us as [|u us IH]; intros c H; simpl; [assumption|]. apply IH, merge_ok, H. Qed.

Lemma merge_term_monotone c u : okL c -> term c <= term (merge c u).
Proof.
  intros H. rewrite term_merge.
  destruct (mergeL_cases (projL c) (projL u)) as [(Eu & Hu & Hc)|(Ec & _)].
  - rewrite Eu. simpl. destruct Hc as [Hc|Hlt]; [|simpl in Hlt; lia].
    apply lful_noleader in Hc. rewrite (H Hc). lia.
  - rewrite Ec. simpl. lia.
Qed.

Lemma fold_term_monotone us : forall c, okL c -> term c <= term (fold_left merge us c).
Proof.
  induction us as [|u us IH]; intros c H; simpl; [lia|].
  etransitivity; [apply (merge_term_monotone c u H)|]. apply IH, merge_ok, H.
Qed.

(* an update with no leader, or with a term that is not newer, never replaces a known leader *)
Lemma merge_keeps_leader c u :
  leader c <> noLeader -> (leader u = noLeader \/ term u <= term c) ->
  leader (merge c u) = leader c /\ term (merge c u) = term c.
Proof.
  intros Hc Hu. rewrite leader_merge, term_merge.
  destruct (mergeL_cases (projL c) (projL u)) as [(Eu & Hlu & Hcc)|(Ec & _)].
  - exfalso. apply lful_leader in Hlu.
    destruct Hu as [Hu|Hu]; [contradiction|].
    destruct Hcc as [Hcc|Hcc]; [apply lful_noleader in Hcc; contradiction|simpl in Hcc; lia].
  - rewrite Ec. auto.
Qed.

(* a known leader is never forgotten *)
Lemma merge_leader_stays c u : leader c <> noLeader -> leader (merge c u) <> noLeader.
Proof.
  intros Hc. rewrite leader_merge.
  destruct (mergeL_cases (projL c) (projL u)) as [(Eu & Hlu & _)|(Ec & _)].
  - rewrite Eu. simpl. now apply lful_leader.
  - rewrite Ec. exact Hc.
Qed.

(* ---------- the shard map ---------- *)

Definition for_shard (id : N) (us : list (N * sview)) : list sview :=
  map snd (filter (fun u => fst u =? id) us).

Lemma update_shard us : forall f id, update f us id = fold_left merge (for_shard id us) (f id).
Proof.
  unfold update, for_shard.
  induction us as [|u us IH]; intros f id; cbn [fold_left filter]; [reflexivity|].
  rewrite IH. unfold update1, upd.
  rewrite (N.eqb_sym (fst u) id).
  destruct (N.eqb_spec id (fst u)) as [->|Hne]; reflexivity.
Qed.

Lemma for_shard_perm id us vs : Permutation us vs -> Permutation (for_shard id us) (for_shard id vs).
Proof.
  intros H. unfold for_shard. apply Permutation_map.
  induction H; simpl.
  - constructor.
  - destruct (fst x =? id); [constructor|]; assumption.
  - destruct (fst x =? id), (fst y =? id); try apply Permutation_refl. apply perm_swap.
  - etransitivity; eassumption.
Qed.

Theorem update_order_independent f us vs id :
  Permutation us vs -> consistent (f id :: for_shard id us) -> update f us id = update f vs id.
Proof.
  intros Hp Hc. rewrite !update_shard. apply fold_perm; [apply for_shard_perm, Hp|assumption].
Qed.

Theorem update_split f us vs id : update (update f us) vs id = update f (us ++ vs) id.
Proof. unfold update. now rewrite fold_left_app. Qed.

(* a node's view after any sequence of events - its Raft event listener, the memberlist join/leave/update callbacks,
   the push/pull delegate - each of which folds one list of updates (the node's own Raft information or a peer's view)
   into the view (storage/cluster/cluster.go): the view of all these updates delivered at once *)
Theorem events_fold (events : list (list (N * sview))) : forall f id,
  fold_left update events f id = update f (concat events) id.
Proof.
  induction events as [|e r IH]; intros f id; [reflexivity|].
  cbn [fold_left concat]. rewrite IH. apply update_split.
Qed.
(* hence member events change nothing by themselves: two nodes that saw the same updates - in any order, split over
   any events - have the same view *)
Theorem events_order_independent (ev1 ev2 : list (list (N * sview))) f id :
  Permutation (concat ev1) (concat ev2) -> consistent (f id :: for_shard id (concat ev1)) ->
  fold_left update ev1 f id = fold_left update ev2 f id.
Proof. intros Hp Hc. rewrite !events_fold. now apply update_order_independent. Qed.

Theorem update_term_monotone f us id : okL (f id) -> term (f id) <= term (update f us id) /\ okL (update f us id).
Proof. intros H. rewrite update_shard. split; [apply fold_term_monotone|apply fold_ok]; assumption. Qed.

(* merging a peer's already-merged view (gossip push/pull) adds nothing beyond the peer's updates:
   the receiving view is the same as if it had received those updates itself *)
Theorem merge_remote_view c us vs :
  consistent (zero :: c :: us ++ vs) ->
  merge (fold_left merge us c) (fold_left merge vs zero) = fold_left merge (us ++ vs) c.
Proof.
  intros Hc.
  assert (HcR : forall a b, In a (projR zero :: projR c :: map projR (us ++ vs)) ->
                            In b (projR zero :: projR c :: map projR (us ++ vs)) -> consR a b).
  { intros a b Ha Hb. change (In a (map projR (zero :: c :: us ++ vs))) in Ha.
    change (In b (map projR (zero :: c :: us ++ vs))) in Hb.
    apply in_map_iff in Ha, Hb. destruct Ha as (x & <- & Hx), Hb as (y & <- & Hy). apply (Hc x y Hx Hy). }
  assert (HcL : forall a b, In a (projL zero :: projL c :: map projL (us ++ vs)) ->
                            In b (projL zero :: projL c :: map projL (us ++ vs)) -> consL a b).
  { intros a b Ha Hb. change (In a (map projL (zero :: c :: us ++ vs))) in Ha.
    change (In b (map projL (zero :: c :: us ++ vs))) in Hb.
    apply in_map_iff in Ha, Hb. destruct Ha as (x & <- & Hx), Hb as (y & <- & Hy). apply (Hc x y Hx Hy). }
  apply sview_eq.
  - rewrite projR_merge, !projR_fold, map_app.
    pose proof (foldR_best (map projR us) (projR c)) as [I1 M1].
    pose proof (foldR_best (map projR vs) (projR zero)) as [I2 M2].
    pose proof (foldR_best (map projR us ++ map projR vs) (projR c)) as [I3 M3].
    set (a := fold_left mergeR (map projR us) (projR c)) in *.
    set (b := fold_left mergeR (map projR vs) (projR zero)) in *.
    set (r := fold_left mergeR (map projR us ++ map projR vs) (projR c)) in *.
    assert (Hz : snd (projR zero) <= snd r) by (simpl; lia).
    assert (Hin : forall x, In x (projR c :: map projR us) \/ In x (projR zero :: map projR vs) ->
                            In x (projR zero :: projR c :: map projR (us ++ vs))).
    { intros x [[<-|H]|[<-|H]]; simpl; rewrite ?map_app, ?in_app_iff; auto. }
    assert (Hr : In r (projR zero :: projR c :: map projR (us ++ vs))).
    { right. rewrite map_app. exact I3. }
    assert (Hmax : forall x, In x (projR c :: map projR us) \/ In x (projR zero :: map projR vs) -> snd x <= snd r).
    { intros x [[<-|H]|[<-|H]]; try exact Hz; apply M3; simpl; rewrite ?in_app_iff; auto. }
    destruct (mergeR_cases a b) as [[E Hle]|[E Hlt]]; rewrite E.
    + assert (snd a = snd r).
      { apply N.le_antisymm; [apply Hmax; auto|].
        destruct I3 as [<-|I3]; [apply M1; left; reflexivity|].
        apply in_app_iff in I3. destruct I3 as [I3|I3]; [apply M1; right; assumption|].
        etransitivity; [apply M2; right; exact I3|exact Hle]. }
      destruct a as [a1 a2], r as [r1 r2]; simpl in *. f_equal; [|assumption].
      apply (HcR (a1, a2) (r1, r2)); [apply Hin; auto|exact Hr|assumption].
    + assert (snd b = snd r).
      { apply N.le_antisymm; [apply Hmax; auto|].
        destruct I3 as [<-|I3]; [specialize (M1 (projR c) (or_introl eq_refl)); lia|].
        apply in_app_iff in I3. destruct I3 as [I3|I3]; [specialize (M1 r (or_intror I3)); lia|].
        apply M2; right; exact I3. }
      destruct b as [b1 b2], r as [r1 r2]; simpl in *. f_equal; [|assumption].
      apply (HcR (b1, b2) (r1, r2)); [apply Hin; auto|exact Hr|assumption].
  - rewrite projL_merge, !projL_fold, map_app.
    pose proof (foldL_best (map projL us) (projL c)) as (I1 & M1 & N1).
    pose proof (foldL_best (map projL vs) (projL zero)) as (I2 & M2 & N2).
    pose proof (foldL_best (map projL us ++ map projL vs) (projL c)) as (I3 & M3 & N3).
    set (a := fold_left mergeL (map projL us) (projL c)) in *.
    set (b := fold_left mergeL (map projL vs) (projL zero)) in *.
    set (r := fold_left mergeL (map projL us ++ map projL vs) (projL c)) in *.
    assert (Hin : forall x, In x (projL c :: map projL us) \/ In x (projL zero :: map projL vs) ->
                            In x (projL zero :: projL c :: map projL (us ++ vs))).
    { intros x [[<-|H]|[<-|H]]; simpl; rewrite ?map_app, ?in_app_iff; auto. }
    assert (Hr : In r (projL zero :: projL c :: map projL (us ++ vs))).
    { right. rewrite map_app. exact I3. }
    assert (Hzero : lful (projL zero) = false) by reflexivity.
    assert (Hmax : forall x, In x (projL c :: map projL us) \/ In x (projL zero :: map projL vs) ->
                             lful x = true -> lful r = true /\ snd x <= snd r).
    { intros x [[<-|H]|[<-|H]] Hx; try congruence; apply M3; auto; simpl; rewrite ?in_app_iff; auto. }
    assert (Hr_src : In r (projL c :: map projL us) \/ In r (map projL vs)).
    { destruct I3 as [<-|I3]; [left; left; reflexivity|]. apply in_app_iff in I3.
      destruct I3; [left; right; assumption|right; assumption]. }
    destruct (mergeL_cases a b) as [(E & Hb & Hab)|(E & Hab)]; rewrite E.
    + (* takes b *)
      destruct (Hmax b (or_intror I2) Hb) as [Lr Hbr].
      assert (snd b = snd r).
      { apply N.le_antisymm; [assumption|].
        destruct Hr_src as [Hs|Hs].
        - destruct (M1 r Hs Lr) as [La Hra]. destruct Hab as [Hab|Hab]; [congruence|lia].
        - apply (M2 r (or_intror Hs) Lr). }
      destruct b as [b1 b2], r as [r1 r2]; simpl in *. f_equal; [|assumption].
      apply (HcL (b1, b2) (r1, r2)); [apply Hin; auto|exact Hr|assumption|assumption|assumption].
    + (* keeps a *)
      destruct (Bool.bool_dec (lful r) true) as [Lr|Lr]; [|apply Bool.not_true_is_false in Lr].
      * assert (La : lful a = true).
        { destruct Hr_src as [Hs|Hs]; [apply (M1 r Hs Lr)|].
          destruct (M2 r (or_intror Hs) Lr) as [Lb _]. destruct Hab as [Hab|[La _]]; congruence. }
        destruct (Hmax a (or_introl I1) La) as [_ Har].
        assert (snd a = snd r).
        { apply N.le_antisymm; [assumption|].
          destruct Hr_src as [Hs|Hs]; [apply (M1 r Hs Lr)|].
          destruct (M2 r (or_intror Hs) Lr) as [Lb Hrb]. destruct Hab as [Hab|[_ Hba]]; [congruence|lia]. }
        destruct a as [a1 a2], r as [r1 r2]; simpl in *. f_equal; [|assumption].
        apply (HcL (a1, a2) (r1, r2)); [apply Hin; auto|exact Hr|assumption|assumption|assumption].
      * rewrite (N3 Lr). apply N1.
        destruct (Bool.bool_dec (lful a) true) as [La|La]; [|now apply Bool.not_true_is_false in La].
        destruct (Hmax a (or_introl I1) La). congruence.
Qed.
