(* Correspondence runner for the table state machine (C01, C02, C03, C09, C10). *)
From Verif Require Import Model.Bytes Model.Obs Model.SMap Model.KeyEnc Model.Cmd Model.Fsm Model.Spec.

Definition okv (p : bytes * bytes) : obs := OL [obytes (fst p); obytes (snd p)].
Definition orange (r : range_resp) : obs := OL [OL (map okv (rr_kvs r)); obool (rr_more r); ON (rr_count r)].
Definition oresp (r : response_op) : obs :=
  match r with
  | RRange r => OL [ON 0%Z; orange r]
  | RPut prev => OL [ON 1%Z; oopt okv prev]
  | RDel d kvs => OL [ON 2%Z; ON d; OL (map okv kvs)]
  end.
Definition oresult (r : result) : obs :=
  OL [oN (r_value r); obool (r_data r); (if r_data r then oN (r_rev r) else ON 0%Z); OL (map oresp (r_resps r))].

Definition oout (o : out) : obs :=
  match o with
  | OutApply rs n => OL [OL (map oresult rs); oN n]
  | OutRead r => orange r
  | OutIter rs => OL (map orange rs)
  | OutTxn ok rs => OL [obool ok; OL (map oresp rs)]
  | OutIndex a b => OL [oN a; oN b]
  end.

Record fcase := { f_steps : list step; f_impl : obs }.
Definition fsm_model (c : fcase) : obs := OL (map oout (fsm_steps [] (f_steps c))).
Definition fsm_spec (c : fcase) : obs := OL (map oout (spec_steps spec_init (f_steps c))).
Definition fsm_check (c : fcase) : bool := obs_eqb (fsm_model c) (f_impl c).
Definition fsm_spec_check (c : fcase) : bool := obs_eqb (fsm_spec c) (f_impl c).

(* short constructors for the generated case files *)
Definition rq (k : bytes) (e : option bytes) (lim : Z) (ko co : bool) : range_req :=
  {| rq_key := k; rq_end := e; rq_limit := lim; rq_keys_only := ko; rq_count_only := co |}.
Definition pq (k v : bytes) (prev : bool) : put_req := {| pt_key := k; pt_val := v; pt_prev := prev |}.
Definition dq (k : bytes) (e : option bytes) (prev cnt : bool) : del_req :=
  {| dl_key := k; dl_end := e; dl_prev := prev; dl_count := cnt |}.
Definition cmpq (r : cmp_result) (k : bytes) (e : option bytes) (v : option bytes) : compare :=
  {| cm_result := r; cm_key := k; cm_end := e; cm_value := v |}.
Definition ent (i : N) (l : option N) (c : command) : entry := {| e_index := i; e_leader := l; e_cmd := c |}.

(* ---- size cuts: the chunking loop on (key length, value length) pairs, compared with the real iterator on
   tables holding megabyte values ---- *)
Record szcase := { z_pairs : list (N * N); z_mode : mode; z_limit : Z; z_impl : obs }.
Definition ochunk (c : chunk (N * N)) : obs := OL [onat (length (ch_items c)); ON (ch_count c); obool (ch_more c)].
Definition sz_model (c : szcase) : obs :=
  OL (map ochunk (iterate (N * N) fst snd fsm_maxRangeSize (z_mode c) (z_limit c) (z_pairs c))).
Definition sz_check (c : szcase) : bool := obs_eqb (sz_model c) (z_impl c).
