From Verif Require Import Model.Bytes Model.Obs Model.Replication Model.Reconcile.

(* a case: the leader's log entries as shipped (canonical command bytes replaced by dictionary ids), the follower
   table's own log (its proposals, commands by the same ids), the leader index the follower ended with *)
Record c05case := { r_leader : list N; r_props : list (fprop N); r_final : N }.
Definition pseq (t : option N) (cs : list N) : fprop N := PSeq N (option_map N.to_nat t) cs.
Definition prestore (t : option N) : fprop N := PRestore N (option_map N.to_nat t).
Definition pother (t : option N) : fprop N := POther N (option_map N.to_nat t).
Definition c05_model (c : c05case) : obs :=
  match follows N N.eqb (r_leader c) 0 (r_props c) with
  | Some fin => OL [onat fin]
  | None => OL []
  end.
Definition c05_check (c : c05case) : bool := obs_eqb (c05_model c) (OL [oN (r_final c)]).

(* the table set: the leader's listing, the follower's tables before, the follower's tables once it has settled *)
Record rccase := { rc_leader : list N; rc_follower : list N; rc_impl : obs }.
Fixpoint ins_sorted (a : N) (l : list N) : list N :=
  match l with [] => [a] | b :: r => if a =? b then l else if a <? b then a :: l else b :: ins_sorted a r end.
Definition rc_model (c : rccase) : obs := OL (map oN (fold_right ins_sorted [] (reconcile (rc_leader c) (rc_follower c)))).
Definition rc_check (c : rccase) : bool := obs_eqb (rc_model c) (rc_impl c).
