(* Correspondence runner for the key-value API end to end (Model/Api.v): request sequences sent to a real
   regattaserver.KVServer over a real storage.Engine; the model and the plain-map specification answer the same
   requests, given the log positions the implementation reported for its proposals. *)
From Verif Require Import Model.Bytes Model.Obs Model.SMap Model.KeyEnc Model.Cmd Model.Fsm Model.Spec Model.Validate Model.Api.
From Verif Require Import Run.FsmRun.

(* gRPC status codes *)
Definition ostatus (s : status) : obs :=
  ON (match s with SOk => 0 | SInvalidArgument => 3 | SNotFound => 5 | SFailedPrecondition => 9 | SUnimplemented => 12 end)%Z.
Definition oapi (o : api_resp) : obs :=
  match o with
  | PErr s => OL [ON 0%Z; ostatus s]
  | PRange r => OL [ON 1%Z; orange r]
  | PIter rs => OL [ON 2%Z; OL (map orange rs)]
  | PPut p rev => OL [ON 3%Z; oopt okv p; oN rev]
  | PDel n kvs rev => OL [ON 4%Z; ON n; OL (map okv kvs); oN rev]
  | PTxn ok rs rev => OL [ON 5%Z; obool ok; OL (map oresp rs); oN rev]
  end.

Record acase := { a_tables : list bytes; a_reqs : list (N * api_req); a_impl : obs }.
Definition api_model (c : acase) : obs := OL (map oapi (snd (impl_run (fresh_impl (a_tables c)) (a_reqs c)))).
Definition api_spec (c : acase) : obs := OL (map oapi (snd (spec_run (fresh_spec (a_tables c)) (a_reqs c)))).
Definition api_check (c : acase) : bool := obs_eqb (api_model c) (a_impl c).
Definition api_spec_check (c : acase) : bool := obs_eqb (api_spec c) (a_impl c).

Definition flt (a b c d : Z) : filters := {| fl_min_mod := a; fl_max_mod := b; fl_min_create := c; fl_max_create := d |}.
Definition nofl : filters := flt 0 0 0 0.
