From Verif Require Import Model.Bytes Model.Obs Model.ProtoWire.

(* a message as a tree of fields: nested messages are encoded recursively into byte fields *)
Inductive pfield :=
| PVar (num v : N)
| PBytes (num : N) (b : bytes)
| PFix64 (num : N) (b : bytes)
| PFix32 (num : N) (b : bytes)
| PMsg (num : N) (fs : list pfield).

Fixpoint penc (f : pfield) : field :=
  match f with
  | PVar n v => (n, WVarint v)
  | PBytes n b => (n, WBytes b)
  | PFix64 n b => (n, WFixed64 b)
  | PFix32 n b => (n, WFixed32 b)
  | PMsg n fs => (n, WBytes (concat (map (fun x => field_enc (penc x)) fs)))
  end.

Record c18case := { p_fields : list pfield; p_impl : obs }.
(* the model's bytes for the message, and the model decoding Go's bytes back to the top-level fields *)
Definition ofield (f : field) : obs :=
  match snd f with
  | WVarint v => OL [oN (fst f); ON 0%Z; oN v]
  | WFixed64 b => OL [oN (fst f); ON 1%Z; obytes b]
  | WBytes b => OL [oN (fst f); ON 2%Z; obytes b]
  | WFixed32 b => OL [oN (fst f); ON 5%Z; obytes b]
  end.
Definition c18_model (c : c18case) : obs :=
  let fs := map penc (p_fields c) in
  let bs := msg_enc fs in
  OL [obytes bs; match msg_dec (S (length fs)) bs with Some fs' => OL (map ofield fs') | None => ON (-1)%Z end].
Definition c18_check (c : c18case) : bool := obs_eqb (c18_model c) (p_impl c).
