(* Correspondence runner for the follower node (Model/Forward.v): scripts of writes through the real ForwardingKVServer,
   leader activity, replication progress, apply-path reports and cancellations against the real notification queue; the
   observable is the set of calls that were answered without error by the end of the script. *)
From Verif Require Import Model.Bytes Model.Obs Model.Replication Model.Queue Model.Forward.

Definition fapp (s : list nat) (c : nat) : list nat := c :: s.
Definition fact_n := fact nat.
Definition fw_run (acts : list fact_n) : node (list nat) nat := frun (list nat) nat fapp [] 1 (node0 (list nat) nat []) acts.

Fixpoint insert_nat (x : nat) (l : list nat) : list nat :=
  match l with [] => [x] | y :: r => if Nat.leb x y then x :: l else y :: insert_nat x r end.
Definition sort_nat (l : list nat) : list nat := fold_right insert_nat [] l.

Definition acked_ids (n : node (list nat) nat) : list nat :=
  sort_nat (map fst (filter (fun p => match snd p with AOk => true | AErr => false end) (answers (n_q _ _ n)))).

Record fwcase := { fw_acts : list fact_n; fw_impl : obs }.
Definition fw_model (c : fwcase) : obs :=
  let n := fw_run (fw_acts c) in OL [OL (map onat (acked_ids n)); onat (lidx _ _ n); onat (length (s_log _ _ (n_sys _ _ n)))].
Definition fw_check (c : fwcase) : bool := obs_eqb (fw_model c) (fw_impl c).

(* short constructors for the generated case files *)
Definition fwrite (id c : nat) : fact_n := FWrite nat id c.
Definition fleader (c : nat) : fact_n := FRepl nat (ALeader nat c).
Definition fcompact (m : nat) : fact_n := FRepl nat (ACompact nat m).
Definition fpoll (n : nat) : fact_n := FRepl nat (APoll nat n []).
Definition frecover : fact_n := FRepl nat (ARecover nat).
Definition fnotify : fact_n := FNotify nat.
Definition flate (r : nat) : fact_n := FLateNotify nat r.
Definition fcancel (id : nat) : fact_n := FQueue nat (ECancel id).
Definition flen : fact_n := FQueue nat (ELen 1).
