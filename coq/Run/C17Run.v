From Verif Require Import Model.Bytes Model.Obs Model.Auth Model.Validate.
Record tokcase := { k_token : bytes; k_override : bool; k_header : option bytes; k_impl : obs }.
Definition tok_model (c : tokcase) : obs := obool (intercept (if k_override c then Some (k_token c) else None) (k_header c)).
Definition tok_check (c : tokcase) : bool := obs_eqb (tok_model c) (k_impl c).

(* TLS: options, whether a certificate was presented / chains to the CA, CN and hostname validity of the leaf *)
Record tlscase := { s_opts : tls_opts; s_presented : bool; s_chains : bool; s_cn : bytes; s_host_ok : bool; s_impl : obs }.
Definition tls_model (c : tlscase) : obs :=
  match server_config (s_opts c) with
  | CfgError => ON (-1)%Z
  | _ => obool (accepts (s_opts c) (s_presented c) (s_chains c)
                  (if s_presented c && s_chains c then [ {| l_cn := s_cn c; l_valid_for := fun _ => s_host_ok c |} ] else []))
  end.
Definition tls_check (c : tlscase) : bool := obs_eqb (tls_model c) (s_impl c).

(* address schemes: observed (secure, unix socket) of cmd.resolveURL *)
Record urlcase := { u_scheme : scheme; u_impl : obs }.
Definition url_model (c : urlcase) : obs := OL [obool (secure (u_scheme c)); obool (unix_socket (u_scheme c))].
Definition url_check (c : urlcase) : bool := obs_eqb (url_model c) (u_impl c).
