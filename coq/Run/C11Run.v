From Verif Require Import Model.Bytes Model.Obs Model.Heap Model.Queue.

(* callers are blocked on their channel: whatever is sent is read at once *)
Definition read_all (s : qstate) : qstate :=
  {| heaps := heaps s; chans := map (fun kc => match snd kc with ChFull => (fst kc, ChEmpty) | c => (fst kc, c) end) (chans s);
     cancelled := cancelled s; answers := answers s |}.

Fixpoint run_obs (s : qstate) (es : list event) : list obs * qstate :=
  match es with
  | [] => ([], s)
  | e :: r =>
      match step s e with
      | (Fine, s', out) =>
          let '(os, s'') := run_obs (read_all s') r in
          (match out with Some n => onat n :: os | None => os end, s'')
      | (Blocked _, s', _) => ([ON (-1)%Z], s')
      | (Panicked, s', _) => ([ON (-2)%Z], s')
      end
  end.

Definition oans (a : nat * answer) : obs := OL [onat (fst a); ON (match snd a with AOk => 0 | AErr => 1 end)%Z].
(* answers sorted by waiter id (the implementation's goroutines report in no particular order) *)
Fixpoint ins_ans (a : nat * answer) (l : list (nat * answer)) : list (nat * answer) :=
  match l with [] => [a] | b :: r => if (fst a <=? fst b)%nat then a :: l else b :: ins_ans a r end.
Definition sort_ans (l : list (nat * answer)) := fold_right ins_ans [] l.

Record c11case := { q_events : list event; q_impl : obs }.
Definition c11_model (c : c11case) : obs :=
  let '(os, s) := run_obs q0 (q_events c) in OL [OL os; OL (map oans (sort_ans (answers s)))].
Definition c11_check (c : c11case) : bool := obs_eqb (c11_model c) (q_impl c).

(* util/heap directly *)
Inductive hop := HPush (x : N) | HPop | HRemove (i : nat) | HFix (i : nat) (newval : N) | HNew (xs : list N).
Definition nless (a b : N) : bool := a <? b.
Fixpoint run_hops (h : list N) (ops : list hop) : list obs :=
  match ops with
  | [] => [OL (map oN h)]
  | HPush x :: r => run_hops (push N nless 0 h x) r
  | HPop :: r => match pop N nless 0 h with Some (x, h') => oN x :: run_hops h' r | None => [ON (-2)%Z] end
  | HRemove i :: r => match remove N nless 0 h i with Some (x, h') => oN x :: run_hops h' r | None => [ON (-2)%Z] end
  | HFix i v :: r => run_hops (fix_at N nless 0 (set_nth N h i v) i) r
  | HNew xs :: r => run_hops (heapify N nless 0 xs) r
  end.
Record hcase := { h_ops : list hop; h_impl : obs }.
Definition h_model (c : hcase) : obs := OL (run_hops [] (h_ops c)).
Definition h_check (c : hcase) : bool := obs_eqb (h_model c) (h_impl c).
