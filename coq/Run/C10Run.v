From Verif Require Import Model.Bytes Model.Obs Model.Linear.

(* one read on a real three-replica table: the replica it was sent to had applied lc_applied entries of the table's log
   when lc_committed were committed, the write the read asks for is entry number lc_acked (acknowledged before the read
   started).  lc_impl: 0 = no answer before the deadline, 1 = answered with the record, 2 = answered without it. *)
Record lcase := { lc_txn : bool; lc_lin : bool; lc_leader : bool; lc_applied : nat; lc_committed : nat; lc_acked : nat; lc_impl : Z }.
Definition l_path (c : lcase) : read_path := if lc_txn c then engine_txn_path (lc_leader c) else engine_range_path (lc_lin c) (lc_leader c).
Definition l_model (c : lcase) : obs :=
  ON (if (lc_acked c <=? serve_at (l_path c) (lc_applied c) (lc_committed c))%nat then 1 else 2)%Z.
Definition l_check (c : lcase) : bool := (lc_impl c =? 0)%Z || obs_eqb (l_model c) (ON (lc_impl c)).
