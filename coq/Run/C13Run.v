From Verif Require Import Model.Bytes Model.Obs Model.SMap Model.MetaKV.

Definition opair (p : pair) : obs := OL [OB (pk p); OB (pv p); oN (pver p)].

Inductive mquery := QGet (k : bytes) | QExists (k : bytes) | QAll (p : bytes) | QAllValues (p : bytes)
                  | QList (p : bytes) | QListDir (p : bytes).

Definition run_query (s : mstore) (q : mquery) : obs :=
  match q with
  | QGet k => oopt opair (mget s k)
  | QExists k => obool (mexists s k)
  | QAll p => OL (map opair (mgetall s p))
  | QAllValues p => OL (map OB (mgetallvalues s p))
  | QList p => OL (map OB (mlist s p))
  | QListDir p => OL (map OB (mlistdir s p))
  end.

(* a step of a scenario: an apply batch, a query, or snapshot+recover into a fresh instance *)
Inductive mstep := SBatch (es : list mentry) | SQuery (q : mquery) | SSnap.

Fixpoint run_steps (s : mstore) (st : list mstep) : list obs :=
  match st with
  | [] => []
  | SBatch es :: r => let '(s', os) := mrun s es in
                      OL (map (fun o => OL [oN (fst o); opair (snd o)]) os) :: run_steps s' r
  | SQuery q :: r => run_query s q :: run_steps s r
  | SSnap :: r => ON 0%Z :: run_steps (mrecover [] (msnapshot s)) r
  end.

Record c13case := { m_steps : list mstep; m_impl : obs }.
Definition c13_model (c : c13case) : obs := OL (run_steps [] (m_steps c)).
Definition c13_check (c : c13case) : bool := obs_eqb (c13_model c) (m_impl c).
Definition me (i : N) (op : mop) (k v : bytes) (ver : N) : mentry :=
  {| me_index := i; me_op := op; me_key := k; me_val := v; me_ver := ver |}.
