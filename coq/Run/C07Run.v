From Verif Require Import Model.Bytes Model.Obs Model.SMap Model.Cmd Model.Spec Model.Framing Model.Restore Model.BackupGate.

Definition okv2 (p : bytes * bytes) : obs := OL [obytes (fst p); obytes (snd p)].

(* a restore: the captured content, the declared index (None = backup file), message sizes as the implementation
   measured them, the in-memory-log-size setting; observed: restored content and leader index *)
Record c07case := { r_content : list (bytes * bytes); r_final : option N; r_sizes : list N; r_maxinmem : N; r_impl : obs }.

Definition stream_of (c : c07case) : list smsg :=
  map (fun x => {| m_size := snd x; m_kv := Some (fst x); m_leader := None |}) (combine (r_content c) (r_sizes c))
  ++ match r_final c with Some i => [ {| m_size := 8; m_kv := None; m_leader := Some i |} ] | None => [] end.

Definition c07_model (c : c07case) : obs :=
  let '(U, li) := restored (read_into_table (r_maxinmem c) (stream_of c)) in
  OL [OL (map okv2 U); oN li].
Definition c07_check (c : c07case) : bool := obs_eqb (c07_model c) (r_impl c).

(* framing: messages, chunk sizes; observed: messages read back *)
Record frcase := { fr_msgs : list bytes; fr_sizes : list nat; fr_impl : obs }.
Definition fr_model (c : frcase) : obs :=
  match unframe (length (fr_msgs c)) (unchunk (chunks (fr_sizes c) (frame (fr_msgs c)))) with
  | Some ms => OL (map obytes ms)
  | None => ON (-1)%Z
  end.
Definition fr_check (c : frcase) : bool := obs_eqb (fr_model c) (fr_impl c).

(* the manifest gate of the backup client: per manifest position whether the file found matches its checksum;
   observed: whether the run reported success, and per table whether its content was replaced *)
Record bgcase := { bg_matches : list bool; bg_impl : obs }.
Definition bg_model (c : bgcase) : obs :=
  OL [obool (forallb (fun b => b) (bg_matches c)); OL (map obool (uploaded_flags (bg_matches c)))].
Definition bg_check (c : bgcase) : bool := obs_eqb (bg_model c) (bg_impl c).
