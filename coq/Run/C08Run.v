From Verif Require Import Model.Bytes Model.Obs Model.SMap Model.KeyEnc Model.Cmd Model.Fsm Model.Snapshot Run.FsmRun.

(* a case: the batches the saver applied before PrepareSnapshot; the first 8 bytes of the stream it produced and its
   format; what the receiver shows after the install: [full range read; applied and leader index] *)
Record c08case := { x_pre : list (list entry); x_hdr : bytes; x_fmt : N; x_impl : obs }.
Definition full_range : range_req := rq [0] (Some [0]) 0 false false.
Definition fmt_of (n : N) : sfmt := if n =? 0 then FSnapshot else FCheckpoint.
Definition c08_model (c : c08case) : obs :=
  let outs := fsm_steps [] (map SApply (x_pre c) ++ [SRead full_range; SIndex]) in
  OL [OL (map oout (skipn (length (x_pre c)) outs)); OB (snap_header (fmt_of (x_fmt c)))].
Definition c08_check (c : c08case) : bool := obs_eqb (c08_model c) (OL [x_impl c; OB (x_hdr c)]).
