From Verif Require Import Model.Bytes Model.Obs Model.Lease.

Definition ores (r : aresult) : list obs :=
  match r with
  | RNone => []
  | RAcquired => [ON 1%Z]
  | RRefused => [ON 2%Z]
  | RFailed => [ON 3%Z]
  | RReturned b => [OL [obool b]]
  end.

Record c15case := { a_acts : list action; a_impl : obs }.
Definition c15_model (c : c15case) : obs :=
  let '(s, rs) := lrun lst0 (a_acts c) in
  OL [OL (concat (map ores rs)); oopt (fun r => onat (lid r)) (rec s)].
Definition c15_check (c : c15case) : bool := obs_eqb (c15_model c) (a_impl c).
