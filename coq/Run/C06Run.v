From Verif Require Import Model.Bytes Model.Obs Model.LogReader.

Definition le (i p s : N) (enc : bool) : lentry := {| eidx := i; epay := p; esz := s; eenc := enc |}.

Inductive lstep :=
| LAppend (es : list lentry)
| LCompact (m : N)                         (* log compacted up to m; LogCompacted event drops the cache *)
| LQuery (f l mx : N)                      (* Simple and Cached QueryRaftLog on [f,l) *)
| LReplicate (from applied mx : N).        (* LogServer.Replicate through the cached reader *)

Definition cut_of (tbl : list (N * N * N * nat)) (lo hi mx : N) : nat :=
  match find (fun x => let '(a, b, c, _) := x in (a =? lo) && (b =? hi) && (c =? mx)) tbl with
  | Some (_, n) => n
  | None => 0%nat
  end.

Definition oentry (e : lentry) : obs := OL [oN (eidx e); oN (epay e)].
Definition oans (a : list lentry + qerr) : obs :=
  match a with
  | inl es => OL (map oentry es)
  | inr ErrLogBehind => ON (-1)%Z
  | inr ErrLogAhead => ON (-2)%Z
  end.
Definition ocmd (c : rcmd * N) : obs := match fst c with RCmd p => OL [oN p; oN (snd c)] | RDummy => OL [ON (-1)%Z; oN (snd c)] end.
Definition omsg (m : rmsg) : obs :=
  match m with
  | MLeaderBehind => ON (-1)%Z
  | MUseSnapshot => ON (-2)%Z
  | MCommands a cs => OL [oN a; OL (map ocmd cs)]
  | MUpToDate a => OL [oN a]
  end.

Definition compact (l : rlog) (m : N) : rlog :=
  {| marker := m; lents := filter (fun e => m <? eidx e) (lents l) |}.

Fixpoint run_lsteps (cut : N -> N -> N -> nat) (l : rlog) (c : cache) (st : list lstep) : list obs :=
  match st with
  | [] => []
  | LAppend es :: r => run_lsteps cut {| marker := marker l; lents := lents l ++ es |} c r
  | LCompact m :: r => run_lsteps cut (compact l m) {| buf := []; csize := csize c |} r
  | LQuery f la mx :: r =>
      let rg := {| rfirst := f; rlast := la |} in
      let '(a, c') := cached_query cut c l rg mx in
      OL [oans (simple_query cut l rg mx); oans a] :: run_lsteps cut l c' r
  | LReplicate from applied mx :: r =>
      let '(ms, c') := replicate 1000 (fun c rg => cached_query cut c l rg mx) c applied from in
      OL (map omsg ms) :: run_lsteps cut l c' r
  end.

Record c06case := { l_marker : N; l_csize : nat; l_cuts : list (N * N * N * nat); l_steps : list lstep; l_impl : obs }.
Definition c06_model (c : c06case) : obs :=
  OL (run_lsteps (cut_of (l_cuts c)) {| marker := l_marker c; lents := [] |} {| buf := []; csize := l_csize c |} (l_steps c)).
Definition c06_check (c : c06case) : bool := obs_eqb (c06_model c) (l_impl c).
