From Verif Require Import Model.Bytes Model.Obs Model.View.

Definition oview (v : sview) : obs := OL [oN (replicas v); oN (cci v); oN (leader v); oN (term v)].

(* a case: several update calls (each a list of (shard id, view)), the ids to observe, what the implementation reports *)
Record c19case := { v_calls : list (list (N * sview)); v_ids : list N; v_impl : obs }.

Definition mkv (r c l t : N) : sview := {| replicas := r; cci := c; leader := l; term := t |}.

Definition c19_model (c : c19case) : obs :=
  let f := fold_left update (v_calls c) empty_map in
  OL (map (fun id => oview (f id)) (v_ids c)).
Definition c19_check (c : c19case) : bool := obs_eqb (c19_model c) (v_impl c).
