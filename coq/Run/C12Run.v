(* Correspondence runner for C12: what the model computes for one input, as an observable tree. *)
From Verif Require Import Model.Bytes Model.Obs Model.KeyEnc.

Definition okerr (e : kerr) : obs :=
  ON (match e with ErrMissingKeyHeader => 1 | ErrUnknownKeyVersion => 2 | ErrMalformedKeyHeader => 3 | ErrMissingKeyType => 4 end)%Z.

Definition odec (r : (N * bytes) + kerr) : obs :=
  match r with
  | inl (t, k) => OL [oN t; obytes k]
  | inr e => okerr e
  end.

Definition ocmp (c : comparison) : obs := ON (match c with Lt => -1 | Eq => 0 | Gt => 1 end)%Z.

Record c12case := { c_k : bytes; c_k2 : bytes; c_impl : obs }.

(* k, k2 are arbitrary byte strings; they are used as user keys, as bounds and as raw stored keys *)
Definition c12_model (k k2 : bytes) : obs :=
  OL [ obytes (enc k);                              (* fsm.encodeUserKey *)
       odec (decode_bytes (enc k));             (* key.DecodeBytes of it *)
       odec (decode_stream (enc k));            (* key.Decoder.Decode of it *)
       odec (decode_bytes k);                   (* key.DecodeBytes of arbitrary raw bytes *)
       odec (decode_stream k);                  (* key.Decoder.Decode of arbitrary raw bytes *)
       obytes (incr k);                             (* fsm.incrementRightmostByte *)
       obytes (fst (bounds k k2)); obytes (snd (bounds k k2));   (* fsm.iterOptionsForBounds *)
       ocmp (lex_compare k k2);                 (* bytes.Compare *)
       ocmp (lex_compare (enc k) (enc k2));
       obool (in_bounds (bounds k k2) sysLocalIndex);
       obool (in_bounds (bounds k k2) sysLeaderIndex);
       obool (in_bounds (bounds k2 wildcard) (enc k)) ].

Definition c12_check (c : c12case) : bool := obs_eqb (c12_model (c_k c) (c_k2 c)) (c_impl c).
Definition c12_show (c : c12case) : obs := c12_model (c_k c) (c_k2 c).
