From Verif Require Import Model.Bytes Model.Obs Model.Catalogue Model.MetaKV Proofs.CatalogueKeys.

Fixpoint ins_pair (a : N * N) (l : list (N * N)) : list (N * N) :=
  match l with [] => [a] | b :: r => if fst a <=? fst b then a :: l else b :: ins_pair a r end.
Definition ocres (r : cresult) : list obs :=
  match r with
  | CRNone => []
  | CRCreated id => [OL [ON 1%Z; oN id]]
  | CRExists => [ON 2%Z]
  | CRFailed => [ON 3%Z]
  | CRDeleted => [ON 4%Z]
  | CRNotFound => [ON 5%Z]
  | CRRestored id => [OL [ON 7%Z; oN id]]
  | CRList l => [OL (ON 6%Z :: map (fun p => OL [oN (fst p); oN (snd p)]) (fold_right ins_pair [] l))]
  end.
Record c14case := { g_managers : nat; g_acts : list caction; g_impl : obs }.
Definition c14_model (c : c14case) : obs := OL (concat (map ocres (snd (crun (cst0 (g_managers c)) (g_acts c))))).
Definition c14_check (c : c14case) : bool := obs_eqb (c14_model c) (g_impl c).

(* diffTables *)
Record dcase := { d_tabs : list trec; d_running : list N; d_impl : obs }.
Fixpoint ins_n (a : N) (l : list N) : list N := match l with [] => [a] | b :: r => if a =? b then l else if a <? b then a :: l else b :: ins_n a r end.
Definition sortu (l : list N) := fold_right ins_n [] l.
Definition d_model (c : dcase) : obs :=
  OL [OL (map oN (sortu (to_start (d_tabs c) (d_running c)))); OL (map oN (sortu (to_stop (d_tabs c) (d_running c))))].
Definition d_check (c : dcase) : bool := obs_eqb (d_model c) (d_impl c).

(* where a table's record lives and whether the listing selects it *)
Record kcase := { kc_name : bytes; kc_impl : obs }.
Definition k_model (c : kcase) : obs :=
  OL [obytes (stored_table_name (kc_name c)); obool (glob tables_pattern (stored_table_name (kc_name c)))].
Definition k_check (c : kcase) : bool := obs_eqb (k_model c) (kc_impl c).
