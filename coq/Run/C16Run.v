From Verif Require Import Model.Bytes Model.Obs Model.Validate.
Definition ostatus (s : status) : obs :=
  ON (match s with SOk => 0 | SInvalidArgument => 3 | SUnimplemented => 12 | SNotFound => 5 | SFailedPrecondition => 9 end)%Z.
Inductive vreq := VRange (r : range_rq) | VPut (r : put_rq) | VDel (r : del_rq) | VTxn (r : txn_rq)
                | VCreate (r : tab_rq) | VDelete (r : tab_rq) | VFollowerMutation.
Definition vstatus (q : vreq) : status :=
  match q with
  | VRange r => range_status r | VPut r => put_status r | VDel r => del_status r | VTxn r => txn_status r
  | VCreate r => create_status r | VDelete r => delete_status r | VFollowerMutation => follower_table_mutation_status
  end.
Record c16case := { v_req : vreq; v_impl : obs }.
Definition c16_model (c : c16case) : obs := ostatus (vstatus (v_req c)).
Definition c16_check (c : c16case) : bool := obs_eqb (c16_model c) (v_impl c).
Definition mkrange t known k e lim ko co a b c d : range_rq :=
  {| rr_table_len := t; rr_table_known := known; rr_key_len := k; rr_end_len := e; rr_limit := lim; rr_keys_only := ko;
     rr_count_only := co; rr_min_mod := a; rr_max_mod := b; rr_min_create := c; rr_max_create := d |}.

(* the read path: the operation kinds of the two branches; observed: TxnRequest.IsReadonly *)
Record rocase := { ro_succ : list txn_op; ro_fail : list txn_op; ro_impl : obs }.
Definition ro_model (c : rocase) : obs := obool (is_readonly (ro_succ c) (ro_fail c)).
Definition ro_check (c : rocase) : bool := obs_eqb (ro_model c) (ro_impl c).
