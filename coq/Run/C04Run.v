From Verif Require Import Model.Bytes Model.Obs Model.DirProto.

(* RemoveAll of the leftover directories happens in directory-listing order: compare runs of removals as sets *)
Fixpoint ins_rm (d : nat) (l : list prim) : list prim :=
  match l with
  | PRemoveDb x :: t => if Nat.leb d x then PRemoveDb d :: l else PRemoveDb x :: ins_rm d t
  | _ => PRemoveDb d :: l
  end.
Fixpoint canon (l : list prim) : list prim :=
  match l with
  | [] => []
  | PRemoveDb d :: t => ins_rm d (canon t)
  | p :: t => p :: canon t
  end.

Definition oprim (p : prim) : obs :=
  match p with
  | PMkDb d => OL [ON 1; onat d] | PSyncDir => OL [ON 2] | PCreateUpd => OL [ON 3] | PWriteUpd d => OL [ON 4; onat d]
  | PSyncUpd => OL [ON 5] | PRename => OL [ON 6] | PRemoveUpd => OL [ON 7] | PRemoveDb d => OL [ON 8; onat d]
  | PDbApply d => OL [ON 9; onat d] | PDbFlush d => OL [ON 10; onat d] | PDbLoad d n => OL [ON 11; onat d; onat n]
  | PSetLive None => OL [ON 12] | PSetLive (Some d) => OL [ON 12; onat d] | PAck n => OL [ON 13; onat n] | PFail => OL [ON 14]
  end%Z.

(* a case: eras of (operations, primitive steps completed before the crash); whether the first era ran to its end
   without a crash; what the implementation did: [OL [trace of the first era (removal runs sorted); what the final
   reopen reported = number of whole batches visible, absent = Open failed]] *)
Record c04case := { k_eras : list (list hop * nat); k_full : bool; k_impl : obs }.

Definition picks : list nat := [0; 1; 2; 3; 4; 5; 6; 7; 8]%nat.
Definition mk_eras (p1 p2 : nat) (l : list (list hop * nat)) : list era :=
  match l with
  | [] => []
  | (o, k) :: t => {| e_ops := o; e_crash := k; e_pick := fun _ => p1 |} ::
                   map (fun ok => {| e_ops := fst ok; e_crash := snd ok; e_pick := fun _ => p2 |}) t
  end.
Definition impl_trace (c : c04case) : obs := match k_impl c with OL [t; _] => t | _ => OL [] end.
Definition impl_out (c : c04case) : obs := match k_impl c with OL [_; o] => o | _ => ON (-1) end.
Definition model_out (c : c04case) (p1 p2 : nat) : obs := oopt onat (reopen (run_eras (mk_eras p1 p2 (k_eras c)))).
(* the survival oracle is not observable: the model must admit the implementation's outcome for some choice *)
Definition find_pick (c : c04case) : option (nat * nat) :=
  find (fun p => obs_eqb (model_out c (fst p) (snd p)) (impl_out c)) (list_prod picks picks).
Definition c04_trace_model (c : c04case) : obs :=
  if k_full c then match k_eras c with (o, _) :: _ => OL (map oprim (canon (trace_gen true o st0))) | [] => OL [] end
  else impl_trace c.
Definition c04_model (c : c04case) : obs :=
  OL [c04_trace_model c; match find_pick c with Some (p1, p2) => model_out c p1 p2 | None => model_out c 0 0 end].
Definition c04_check (c : c04case) : bool := obs_eqb (c04_model c) (k_impl c).

(* constructors with nat-scoped arguments for the generated case files *)
Definition era_of (o : list hop) (k : nat) : list hop * nat := (o, k).
