(* storage/cluster/view.go: mergeShardInfo, shardView.update.  The membership (a Go map) is abstracted to
   a label of type N: the merge only ever copies it wholesale. *)
From Verif Require Export Model.Bytes Generated.Constants.

Record sview := { replicas : N; cci : N; leader : N; term : N }.

Definition noLeader : N := cluster_noLeader.

(* mergeShardInfo acts on two independent components *)
Definition mergeR (cur upd : N * N) : N * N :=            (* (replicas, config change index) *)
  if snd cur <? snd upd then upd else cur.
Definition mergeL (cur upd : N * N) : N * N :=            (* (leader, term) *)
  if negb (fst upd =? noLeader) && ((fst cur =? noLeader) || (snd cur <? snd upd)) then upd else cur.

Definition projR (v : sview) : N * N := (replicas v, cci v).
Definition projL (v : sview) : N * N := (leader v, term v).

Definition merge (cur upd : sview) : sview :=
  let r := mergeR (projR cur) (projR upd) in
  let l := mergeL (projL cur) (projL upd) in
  {| replicas := fst r; cci := snd r; leader := fst l; term := snd l |}.

(* dragonboat.ShardView{ShardID: id}: what update starts from for an unknown shard *)
Definition zero : sview := {| replicas := 0; cci := 0; leader := 0; term := 0 |}.

(* shardView.update over the shard map (a missing entry is the zero view) *)
Definition smap := N -> sview.
Definition empty_map : smap := fun _ => zero.
Definition upd (f : smap) (id : N) (v : sview) : smap := fun j => if j =? id then v else f j.
Definition update1 (f : smap) (u : N * sview) : smap := upd f (fst u) (merge (f (fst u)) (snd u)).
Definition update (f : smap) (us : list (N * sview)) : smap := fold_left update1 us f.
