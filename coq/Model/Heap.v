(* util/heap/heap.go: the slice-backed binary heap (New, Push, Pop, Peek, Fix, Remove, up, down), loops by fuel. *)
From Verif Require Export Model.Bytes.

Section Heap.
  Variable A : Type.
  Variable less : A -> A -> bool.
  Variable dflt : A.

  Definition hnth (l : list A) (i : nat) : A := nth i l dflt.
  Fixpoint set_nth (l : list A) (i : nat) (x : A) : list A :=
    match l, i with
    | [], _ => []
    | _ :: r, O => x :: r
    | y :: r, S i' => y :: set_nth r i' x
    end.
  Definition swap (l : list A) (i j : nat) : list A := set_nth (set_nth l i (hnth l j)) j (hnth l i).

  (* up(j): Go's (j-1)/2 with j = 0 gives 0 = j, which ends the loop *)
  Fixpoint up (fuel : nat) (l : list A) (j : nat) : list A :=
    match fuel with
    | O => l
    | S f =>
        let i := ((j - 1) / 2)%nat in
        if (i =? j)%nat || negb (less (hnth l j) (hnth l i)) then l
        else up f (swap l i j) i
    end.

  (* down(i0, n): returns the slice and whether the element moved *)
  Fixpoint down_go (fuel : nat) (l : list A) (i n : nat) : list A * nat :=
    match fuel with
    | O => (l, i)
    | S f =>
        let j1 := (2 * i + 1)%nat in
        if (n <=? j1)%nat then (l, i)
        else
          let j := if (j1 + 1 <? n)%nat && less (hnth l (j1 + 1)) (hnth l j1) then (j1 + 1)%nat else j1 in
          if negb (less (hnth l j) (hnth l i)) then (l, i)
          else down_go f (swap l i j) j n
    end.
  Definition down (l : list A) (i n : nat) : list A * bool :=
    let '(l', i') := down_go (length l) l i n in (l', (i <? i')%nat).

  Definition push (l : list A) (x : A) : list A :=
    let l' := l ++ [x] in up (length l') l' (length l' - 1).

  (* Pop: the removed element is Slice[0]; None stands for the panic on an empty slice *)
  Definition pop (l : list A) : option (A * list A) :=
    match l with
    | [] => None
    | _ =>
        let n := (length l - 1)%nat in
        let l1 := swap l 0 n in
        let l2 := fst (down l1 0 n) in
        Some (hnth l2 n, firstn n l2)
    end.
  Definition peek (l : list A) : option A := match l with [] => None | x :: _ => Some x end.

  (* New: Floyd's heapify, for i := n/2-1 down to 0 *)
  Fixpoint heapify_go (k : nat) (l : list A) : list A :=
    match k with
    | O => l
    | S k' => heapify_go k' (fst (down l k' (length l)))
    end.
  Definition heapify (l : list A) : list A := heapify_go (length l / 2) l.

  Definition fix_at (l : list A) (i : nat) : list A :=
    let '(l', moved) := down l i (length l) in if moved then l' else up (length l) l' i.

  Definition remove (l : list A) (i : nat) : option (A * list A) :=
    match l with
    | [] => None
    | _ =>
        let n := (length l - 1)%nat in
        if (n =? i)%nat then Some (hnth l n, firstn n l)
        else
          let l1 := swap l i n in
          let '(l2, moved) := down l1 i n in
          let l3 := if moved then l2 else up (length l) l2 i in
          Some (hnth l3 n, firstn n l3)
    end.
End Heap.
