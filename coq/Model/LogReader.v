(* storage/logreader (logreader.go, cache.go) and regattaserver/replication.go LogServer.Replicate.
   dragonboat's ReadonlyLogReader is modelled by its contract: GetRange = (marker+1, last); Entries lo hi max returns
   ErrCompacted below the marker and otherwise SOME non-empty prefix of the entries in [lo,hi) - where the library
   cuts is its own business, so the cut is an oracle and every theorem holds for every oracle. *)
From Verif Require Export Model.Bytes.

(* eidx: Raft index; epay: the command carried (abstract); esz: Entry.SizeUpperLimit(); eenc: Type = EncodedEntry *)
Record lentry := { eidx : N; epay : N; esz : N; eenc : bool }.
Record lrange := { rfirst : N; rlast : N }.             (* right half-open [rfirst, rlast) *)
Definition rzero : lrange := {| rfirst := 0; rlast := 0 |}.
Definition is_set (r : lrange) : bool := negb (rfirst r =? 0) && negb (rlast r =? 0).

(* ---- cache.go ---- *)
Record cache := { buf : list lentry; csize : nat }.
Definition smallest (c : cache) : N := match buf c with [] => 0 | e :: _ => eidx e end.
Definition largest (c : cache) : N := match rev (buf c) with [] => 0 | e :: _ => eidx e end.

(* findIndex over a sorted slice: position of the first entry satisfying a monotone predicate *)
Fixpoint find_index (f : N -> bool) (l : list lentry) : nat :=
  match l with [] => 0%nat | e :: r => if f (eidx e) then 0%nat else S (find_index f r) end.

Definition make_room_and_append (c : cache) (es : list lentry) : cache :=
  let n := (length es + length (buf c))%nat in
  let b := if (csize c <? n)%nat then skipn (n - csize c) (buf c) else buf c in
  {| buf := b ++ es; csize := csize c |}.

Definition cput (c : cache) (es : list lentry) : cache :=
  match es with
  | [] => c
  | _ =>
      let es := if (csize c <? length es)%nat then skipn (length es - csize c) es else es in
      let mx := largest c in
      if mx =? 0 then make_room_and_append c es
      else let i := find_index (fun x => mx <? x) es in
           if (i =? length es)%nat then c else make_room_and_append c (skipn i es)
  end.

Definition slice (l : list lentry) (s e : nat) : list lentry := firstn (e - s) (skipn s l).

(* cache.get: cached entries of the range, the sub-range to read before them, the sub-range to read after them *)
(* [below_is_miss]: a range ending exactly at the smallest cached index is a miss (the tree as repaired); false = the
   original comparison (smallest > LastIndex), see Mutants/LogReaderMutants.v *)
Definition cget_gen (below_is_miss : bool) (c : cache) (r : lrange) : list lentry * lrange * lrange :=
  match buf c with
  | [] => ([], r, rzero)
  | _ =>
      if (if below_is_miss then rlast r <=? smallest c else rlast r <? smallest c) then ([], r, rzero)
      else if largest c <? rfirst r then ([], rzero, r)
      else
        let s := find_index (fun x => rfirst r <=? x) (buf c) in
        let e := find_index (fun x => rlast r <=? x) (buf c) in
        let es := slice (buf c) s e in
        match es with
        | [] => ([], rzero, rzero)
        | _ =>
            let pre := if rfirst r <? smallest c then {| rfirst := rfirst r; rlast := smallest c |} else rzero in
            let app := if largest c + 1 <? rlast r then {| rfirst := largest c + 1; rlast := rlast r |} else rzero in
            (es, pre, app)
        end
  end.
Definition cget := cget_gen true.

(* ---- the Raft log as the reader sees it ---- *)
Record rlog := { marker : N; lents : list lentry }.     (* lents: entries marker+1 .. last, ascending and consecutive *)
Definition llast (l : rlog) : N := marker l + N.of_nat (length (lents l)).
Definition range_entries (l : rlog) (lo hi : N) : list lentry :=
  filter (fun e => (lo <=? eidx e) && (eidx e <? hi)) (lents l).

Inductive qerr := ErrLogBehind | ErrLogAhead.

Section Reader.
  Variable cut : N -> N -> N -> nat.      (* how many entries the library returns for (lo, hi, maxSize); at least one is forced *)

  Definition lib_entries (l : rlog) (lo hi mx : N) : list lentry :=
    firstn (Nat.max 1 (cut lo hi mx)) (range_entries l lo hi).

  (* readLog *)
  Definition read_log (l : rlog) (r : lrange) (mx : N) : list lentry + qerr :=
    let rF := marker l + 1 in
    let rL := llast l in
    if rL + 1 =? rfirst r then inl []
    else if rL <? rfirst r then inr ErrLogBehind
    else if rfirst r <? rF then inr ErrLogAhead
    else inl (lib_entries l (rfirst r) (rlast r) mx).

  (* fixSize: the longest prefix whose cumulative size stays below maxSize - but never less than one entry
     (keep_first = the repaired code; false = the code before the repair, see Mutants/LogReaderMutants.v) *)
  Fixpoint fix_size_go (es : list lentry) (acc mx : N) : nat :=
    match es with
    | [] => 0%nat
    | e :: r => if mx <=? acc + esz e then 0%nat else S (fix_size_go r (acc + esz e) mx)
    end.
  Definition fix_size_gen (keep_first : bool) (es : list lentry) (mx : N) : list lentry :=
    let n := fix_size_go es 0 mx in
    firstn (if keep_first then Nat.max 1 n else n) es.
  Definition fix_size := fix_size_gen true.

  (* Simple.QueryRaftLog *)
  Definition simple_query (l : rlog) (r : lrange) (mx : N) : list lentry + qerr :=
    if rfirst r =? rlast r then inl [] else read_log l r mx.

  (* Cached.QueryRaftLog *)
  Definition cached_query_gen2 (keep_first below_is_miss : bool) (c : cache) (l : rlog) (r : lrange) (mx : N) : (list lentry + qerr) * cache :=
    let fx := fix_size_gen keep_first in
    if rfirst r =? rlast r then (inl [], c) else
    let '(ces, pre, app) := cget_gen below_is_miss c r in
    if is_set pre then
      match read_log l pre mx with
      | inr e => (inr e, c)
      | inl [] => (inl (fx ces mx), c)
      | inl ((l0 :: lr) as le) =>
          match ces with
          | ce :: _ =>
              if eidx (last le l0) =? eidx ce - 1 then (inl (fx (le ++ ces) mx), c)
              else (inl le, if (length (buf c) =? 0)%nat then cput c le else c)
          | [] => (inl le, if (length (buf c) =? 0)%nat then cput c le else c)
          end
      end
    else if is_set app then
      match read_log l app mx with
      | inr e => (inr e, c)
      | inl [] => (inl (fx ces mx), c)
      | inl ((l0 :: _) as le) =>
          match ces with
          | _ :: _ => (inl (fx (ces ++ le) mx), cput c le)
          | [] => (inl le, if eidx l0 - 1 =? largest c then cput c le else c)
          end
      end
    else (inl (fx ces mx), c).
  Definition cached_query_gen (keep_first : bool) := cached_query_gen2 keep_first true.
  Definition cached_query := cached_query_gen true.

  (* ---- LogServer.Replicate ---- *)
  Inductive rcmd := RCmd (payload : N) | RDummy.
  Inductive rmsg :=
  | MLeaderBehind
  | MUseSnapshot
  | MCommands (applied : N) (cmds : list (rcmd * N))    (* each command with its own leader index *)
  | MUpToDate (applied : N).

  Definition entry_to_command (e : lentry) : rcmd * N := (if eenc e then RCmd (epay e) else RDummy, eidx e).

  (* q: the log reader service as a state transformer on the cache (Simple ignores it) *)
  Fixpoint replicate_loop (fuel : nat) (q : cache -> lrange -> (list lentry + qerr) * cache)
           (c : cache) (applied : N) (r : lrange) : list rmsg * cache :=
    match fuel with
    | O => ([], c)
    | S f =>
        match q c r with
        | (inr ErrLogBehind, c') => ([MLeaderBehind], c')
        | (inr ErrLogAhead, c') => ([MUseSnapshot], c')
        | (inl [], c') => ([MUpToDate applied], c')
        | (inl ((e0 :: er) as es), c') =>
            let next := eidx (last es e0) + 1 in
            let r' := {| rfirst := N.min next (rlast r); rlast := rlast r |} in
            let '(ms, c'') := replicate_loop f q c' applied r' in
            (MCommands applied (map entry_to_command es) :: ms, c'')
        end
    end.

  Definition replicate (fuel : nat) (q : cache -> lrange -> (list lentry + qerr) * cache)
             (c : cache) (applied from : N) : list rmsg * cache :=
    if applied + 1 <? from then ([MLeaderBehind], c)
    else replicate_loop fuel q c applied {| rfirst := from; rlast := applied + 1 |}.
End Reader.
