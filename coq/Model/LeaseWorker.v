(* replication/worker.go, the lease routine of worker.Start: every lease interval the worker of node n calls
   engine.LeaseTable(table, 4 * interval) and sets its [leased] flag to "the call returned nil"; the replication routine
   acts only while the flag is set.  Layered over Model.Lease: a call is the store operations ALease / AApply of the
   node, or it fails with another error (proposal timed out, metadata shard unreachable) - then nothing is known about
   the write, which may still be applied later. *)
From Verif Require Export Model.Lease.

Record wst := {
  base : lst;
  flag : nat -> bool;                 (* worker.leased *)
  lastok : nat -> option N            (* ghost: lease end obtained by the node's last finished call, None if it did not succeed *)
}.

Inductive waction :=
| WOther (a : action)                 (* a store operation of anybody (other nodes' calls, returns), or time passing *)
| WCall (n : nat) (dur : N)           (* the routine's tick: LeaseTable reads the lease and decides *)
| WApply (n : nat)                    (* ... its write is applied and the call returns *)
| WErr (n : nat).                     (* ... or the call returns an error other than 'not acquired' *)

Definition set_worker (s : wst) (b : lst) (n : nat) (f : bool) (l : option N) : wst :=
  {| base := b; flag := upd (flag s) n f; lastok := upd (lastok s) n l |}.

(* [keep_on_error]: the seeded variant that leaves the flag alone when the call fails with an error *)
Definition wexec_gen (keep_on_error : bool) (s : wst) (a : waction) : wst :=
  match a with
  | WOther b => {| base := fst (lexec (base s) b); flag := flag s; lastok := lastok s |}
  | WCall n dur =>
      match lexec (base s) (ALease n dur false) with
      | (b, RRefused) => set_worker s b n false None            (* ErrLeaseNotAcquired *)
      | (b, _) => {| base := b; flag := flag s; lastok := lastok s |}
      end
  | WApply n =>
      match pcs (base s) n with
      | PendSet _ u =>
          match lexec (base s) (AApply n) with
          | (b, RAcquired) => set_worker s b n true (Some u)
          | (b, _) => set_worker s b n false None               (* version mismatch *)
          end
      | _ => s
      end
  | WErr n =>
      if keep_on_error then {| base := base s; flag := flag s; lastok := upd (lastok s) n None |}
      else set_worker s (base s) n false None
  end.
Definition wexec := wexec_gen false.

Definition wst0 : wst := {| base := lst0; flag := fun _ => false; lastok := fun _ => None |}.
Definition wrun_gen (k : bool) (s : wst) (acts : list waction) : wst := fold_left (wexec_gen k) acts s.
Definition wrun := wrun_gen false.

(* the workers do not return leases (ReturnTable is not called by the lease routine), other callers may *)
Definition no_return_by (n : nat) (a : waction) : Prop :=
  match a with WOther (AReturn m) => m <> n | WOther (AApply m) => m <> n | WOther (ALease m _ _) => m <> n | _ => True end.
