(* Request validation of the key-value and tables API: regattaserver/kv.go (KVServer.Range/IterateRange/Put/
   DeleteRange/Txn), storage/table/table.go (ActiveTable.Range/Put/Delete/Txn), regattaserver/tables.go.
   A request is reduced to exactly the features the validators inspect; the outcome is the gRPC status class,
   decided BEFORE anything is proposed to the log (so a rejected request has no effect). *)
From Verif Require Export Model.Bytes Generated.Constants.

Inductive status := SOk | SInvalidArgument | SUnimplemented | SNotFound | SFailedPrecondition.

Definition key_limit : N := key_LatestVersionLen.
Definition val_limit : N := table_MaxValueLen.

Record range_rq := {
  rr_table_len : N; rr_table_known : bool; rr_key_len : N; rr_end_len : N; rr_limit : Z;
  rr_keys_only : bool; rr_count_only : bool;
  rr_min_mod : Z; rr_max_mod : Z; rr_min_create : Z; rr_max_create : Z }.

(* KVServer.Range / IterateRange, then Engine (table lookup), then ActiveTable.Range *)
Definition range_status (r : range_rq) : status :=
  if (rr_limit r <? 0)%Z then SInvalidArgument
  else if rr_keys_only r && rr_count_only r then SInvalidArgument
  else if (0 <? rr_min_mod r)%Z then SUnimplemented
  else if (0 <? rr_max_mod r)%Z then SUnimplemented
  else if (0 <? rr_min_create r)%Z then SUnimplemented
  else if (0 <? rr_max_create r)%Z then SUnimplemented
  else if rr_table_len r =? 0 then SInvalidArgument
  else if rr_key_len r =? 0 then SInvalidArgument
  else if negb (rr_table_known r) then SNotFound
  else if key_limit <? rr_key_len r then SFailedPrecondition
  else if key_limit <? rr_end_len r then SFailedPrecondition
  else SOk.

Record put_rq := { pr_table_len : N; pr_table_known : bool; pr_key_len : N; pr_val_len : N }.
Definition put_status (r : put_rq) : status :=
  if pr_table_len r =? 0 then SInvalidArgument
  else if pr_key_len r =? 0 then SInvalidArgument
  else if negb (pr_table_known r) then SNotFound
  else if key_limit <? pr_key_len r then SFailedPrecondition
  else if val_limit <? pr_val_len r then SFailedPrecondition
  else SOk.

Record del_rq := { dr_table_len : N; dr_table_known : bool; dr_key_len : N }.
Definition del_status (r : del_rq) : status :=
  if dr_table_len r =? 0 then SInvalidArgument
  else if dr_key_len r =? 0 then SInvalidArgument
  else if negb (dr_table_known r) then SNotFound
  else if key_limit <? dr_key_len r then SFailedPrecondition
  else SOk.

(* operations nested in a transaction: the same limits (ActiveTable.Txn validates them before proposing) *)
Inductive txn_op := TRange (key_len end_len : N) | TPut (key_len val_len : N) | TDel (key_len end_len : N) | TUnset.
Definition op_ok (o : txn_op) : bool :=
  match o with
  | TRange k e => (k <=? key_limit) && (e <=? key_limit)
  | TPut k v => negb (k =? 0) && (k <=? key_limit) && (v <=? val_limit)
  | TDel k e => negb (k =? 0) && (k <=? key_limit) && (e <=? key_limit)
  | TUnset => true
  end.
Record txn_rq := { tr_table_len : N; tr_table_known : bool; tr_ops : list txn_op }.
Definition txn_status (r : txn_rq) : status :=
  if tr_table_len r =? 0 then SInvalidArgument
  else if negb (tr_table_known r) then SNotFound
  else if forallb op_ok (tr_ops r) then SOk
  else SFailedPrecondition.

(* regattapb.TxnRequest.IsReadonly: a transaction takes the read path (no proposal, served from a snapshot of the
   state machine) only when EVERY operation of both branches is a range read *)
Definition is_range (o : txn_op) : bool := match o with TRange _ _ => true | _ => false end.
Definition is_readonly (succ fail : list txn_op) : bool := forallb is_range succ && forallb is_range fail.

(* cmd.resolveURL: what the scheme of a configured address means *)
Inductive scheme := SchHttp | SchHttps | SchUnix | SchUnixs | SchOther.
Definition secure (s : scheme) : bool := match s with SchHttps | SchUnixs => true | _ => false end.
Definition unix_socket (s : scheme) : bool := match s with SchUnix | SchUnixs => true | _ => false end.

(* the records a request can create *)
Definition creates (o : txn_op) : list (N * N) := match o with TPut k v => [(k, v)] | _ => [] end.

(* tables API: leader (TablesServer) and follower (ReadonlyTablesServer) *)
Record tab_rq := { tb_name_len : N; tb_has_slash : bool; tb_exists : bool }.
Definition create_status (r : tab_rq) : status :=
  if tb_name_len r =? 0 then SInvalidArgument
  else if tb_has_slash r then SInvalidArgument
  else if tb_exists r then SInvalidArgument else SOk.
Definition delete_status (r : tab_rq) : status :=
  if tb_name_len r =? 0 then SInvalidArgument
  else if tb_has_slash r then SInvalidArgument
  else if tb_exists r then SOk else SInvalidArgument.
Definition follower_table_mutation_status : status := SUnimplemented.
