(* A follower node serving writes: regattaserver/kv.go ForwardingKVServer.{Put,DeleteRange,Txn} (forward the request to
   the leader cluster, take the revision of its answer, wait on the notification queue for that revision), the
   replication worker that brings the leader's log to the node's copy of the table (Model/Replication.v), the apply
   path that reports the copy's leader index to the queue after each apply call (fsm.Update -> AppliedIndexListener ->
   IndexNotificationQueue.Notify), and the queue itself (Model/Queue.v, the real event loop with its heap).
   One table; [n_wait] is a ghost record of who waits for which revision of which command. *)
From Verif Require Export Model.Replication Model.Queue.

Section Fwd.
  Variables (S C : Type) (app : S -> C -> S) (init : S).
  Variable tbl : N.                                   (* the table's key in the queue *)

  Record node := { n_sys : sys S C; n_q : qstate; n_wait : list (nat * (nat * C)) }.
  Definition node0 : node := {| n_sys := sys0 S C init; n_q := q0; n_wait := [] |}.

  Definition qstep (q : qstate) (e : event) : qstate := snd (fst (Queue.step q e)).
  Definition lidx (n : node) : nat := f_lidx S (s_fol S C (n_sys n)).

  Inductive fact :=
  | FWrite (id : nat) (c : C)      (* a write through this node: the leader appends c, answers its log index as revision, the call waits *)
  | FRepl (a : act C)              (* anything else that happens to leader log and follower copy: other writers, compaction, polls, recovery *)
  | FNotify                        (* the apply path reports the copy's current leader index *)
  | FLateNotify (r : nat)          (* an earlier report delivered late (the value reported then was at most the current one) *)
  | FQueue (e : event).            (* cancellation, periodic sweep, a caller reading its channel, statistics *)

  Definition fstep (n : node) (a : fact) : node :=
    match a with
    | FWrite id c =>
        let s' := Replication.step S C app init (n_sys n) (ALeader C c) in
        let rev := length (s_log S C s') in
        {| n_sys := s'; n_q := qstep (n_q n) (EAdd id tbl (N.of_nat rev)); n_wait := (id, (rev, c)) :: n_wait n |}
    | FRepl a => {| n_sys := Replication.step S C app init (n_sys n) a; n_q := n_q n; n_wait := n_wait n |}
    | FNotify => {| n_sys := n_sys n; n_q := qstep (n_q n) (ENotify tbl (N.of_nat (lidx n))); n_wait := n_wait n |}
    | FLateNotify r => {| n_sys := n_sys n; n_q := qstep (n_q n) (ENotify tbl (N.of_nat (Nat.min r (lidx n)))); n_wait := n_wait n |}
    | FQueue e =>
        match e with
        | EAdd _ _ _ | ENotify _ _ => n
        | _ => {| n_sys := n_sys n; n_q := qstep (n_q n) e; n_wait := n_wait n |}
        end
    end.

  (* what the guarantee assumes of a history: replication acts on the copy's current leader index (C05's guard, C15),
     and every call has its own waiter *)
  Fixpoint ok_run (n : node) (acts : list fact) : Prop :=
    match acts with
    | [] => True
    | a :: r =>
        match a with
        | FWrite id _ => ~ In id (map fst (n_wait n))
        | FRepl x => guarded C x = true
        | _ => True
        end /\ ok_run (fstep n a) r
    end.
  Definition frun (n : node) (acts : list fact) : node := fold_left fstep acts n.

  (* the call of waiter id has been answered without error *)
  Definition acked (n : node) (id : nat) : Prop := In (id, AOk) (answers (n_q n)).
End Fwd.
