(* replication/snapshot/snapshot.go: snapshotFile.Write/Read (8-byte little-endian length prefix per message,
   zero-length writes skipped, snappy stream underneath) and Writer/Reader (chunking of the raw file bytes). *)
From Verif Require Export Model.Bytes.

(* snapshotFile.Write for each message, into the (compressing) writer *)
Definition frame1 (m : bytes) : bytes := match m with [] => [] | _ => le_bytes 8 (N.of_nat (length m)) ++ m end.
Definition frame (ms : list bytes) : bytes := concat (map frame1 ms).

(* snapshotFile.Read repeatedly until EOF; fuel = an upper bound on the number of messages.
   None = the stream ends inside a length prefix or inside a message (io.ErrUnexpectedEOF) *)
Fixpoint unframe (fuel : nat) (s : bytes) : option (list bytes) :=
  match s with
  | [] => Some []
  | _ =>
      match fuel with
      | O => None
      | S f =>
          if (length s <? 8)%nat then None
          else
            let n := N.to_nat (le_val (firstn 8 s)) in
            let rest := skipn 8 s in
            if (length rest <? n)%nat then None
            else match unframe f (skipn n rest) with
                 | Some ms => Some (firstn n rest :: ms)
                 | None => None
                 end
      end
  end.

(* snapshot.Writer: the byte stream cut into chunks; the reader buffer decides where (any positive sizes) *)
Fixpoint chunks (sizes : list nat) (s : bytes) : list bytes :=
  match s with
  | [] => []
  | _ =>
      match sizes with
      | [] => [s]
      | O :: r => chunks r s
      | n :: r => firstn n s :: chunks r (skipn n s)
      end
  end.
(* snapshot.Reader / io.Copy on the receiving side *)
Definition unchunk (cs : list bytes) : bytes := concat cs.
