(* The abstract specification the properties speak about: a plain sorted map from user keys to values on which
   the commands of Model/Cmd.v act one after another, plus the two indices. *)
From Verif Require Export Model.Bytes Model.SMap Model.KeyEnc Model.Cmd.

Definition umap := smap bytes.

Definition p_get (s : umap) (k : bytes) : option bytes := sget s k.
Definition p_set (s : umap) (k v : bytes) : umap := sset s k v.
Definition p_del (s : umap) (k : bytes) : umap := sdel s k.
(* [lo, hi), where hi = "\0" means no upper end *)
Definition p_in (lo hi k : bytes) : bool := bleb lo k && (beqb hi wildcard || bltb k hi).
Definition p_delrange (s : umap) (lo hi : bytes) : umap := filter (fun kv => negb (p_in lo hi (fst kv))) s.
Definition p_scan (s : umap) (lo hi : bytes) : list (bytes * bytes) := filter (fun kv => p_in lo hi (fst kv)) s.

Definition s_handle := handle umap p_get p_set p_del p_delrange p_scan.
Definition s_lookup := lookup umap p_get p_scan.
Definition s_iterator_lookup := iterator_lookup umap p_get p_scan.
Definition s_lookup_txn := lookup_txn umap p_get p_scan.

(* the table as the property describes it: content, applied index, recorded leader index (0 = none) *)
Record spec_state := { content : umap; applied : N; leader : N }.
Definition spec_init : spec_state := {| content := []; applied := 0; leader := 0 |}.

(* commands applied one after another; an entry's revision is its log index *)
Definition spec_entry (st : spec_state) (e : entry) : spec_state * result :=
  let '(c', (val, rs)) := s_handle (content st) (e_cmd e) in
  ({| content := c'; applied := e_index e;
      leader := match e_leader e with Some l => l | None => leader st end |},
   (* the result (revision + responses) is reported for every command that has responses and for every transaction *)
   {| r_value := val; r_rev := e_index e; r_resps := rs;
      r_data := is_txn (e_cmd e) || match rs with [] => false | _ => true end |}).
Fixpoint spec_entries (st : spec_state) (es : list entry) : spec_state * list result :=
  match es with
  | [] => (st, [])
  | e :: r => let '(st1, o) := spec_entry st e in let '(st2, os) := spec_entries st1 r in (st2, o :: os)
  end.
(* the index announced to waiters after an apply call: the last leader index carried by an entry of the call,
   the applied index if none carried one *)
Definition batch_leader (es : list entry) : option N :=
  fold_left (fun acc e => match e_leader e with Some l => Some l | None => acc end) es None.
Definition spec_apply (st : spec_state) (es : list entry) : spec_state * out :=
  let '(st', rs) := spec_entries st es in
  (st', OutApply rs (match batch_leader es with Some l => l | None => applied st' end)).

Fixpoint spec_steps (st : spec_state) (steps : list step) : list out :=
  match steps with
  | [] => []
  | SApply es :: r => let '(st', o) := spec_apply st es in o :: spec_steps st' r
  | SRead q :: r => OutRead (s_lookup (content st) q) :: spec_steps st r
  | SIter q :: r => OutIter (s_iterator_lookup (content st) q) :: spec_steps st r
  | STxnRO cs su fa :: r => (let '(ok, rs) := s_lookup_txn (content st) cs su fa in OutTxn ok rs) :: spec_steps st r
  | SIndex :: r => OutIndex (applied st) (leader st) :: spec_steps st r
  | SReopen :: r => OutIndex (applied st) (leader st) :: spec_steps st r
  end.
Fixpoint spec_final (st : spec_state) (steps : list step) : spec_state :=
  match steps with
  | [] => st
  | SApply es :: r => spec_final (fst (spec_apply st es)) r
  | _ :: r => spec_final st r
  end.
