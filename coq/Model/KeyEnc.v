(* storage/table/key (key.go, v1.go) and the bound construction of storage/table/fsm (iter.go, fsm.go).
   Go anchors: key.Encoder.Encode / keyV1.Encode, key.DecodeBytes / v1DecodeRaw, key.Decoder.Decode / keyV1.Decode,
   fsm.encodeUserKey, fsm.incrementRightmostByte, fsm.prependByte, fsm.iterOptionsForBounds,
   fsm.sysLocalIndex, fsm.sysLeaderIndex, fsm.maxUserKey, fsm.wildcard. *)
From Verif Require Export Model.Bytes Generated.Constants.

(* the 4-byte header: version byte followed by zero padding *)
Definition hdr : bytes := key_V1 :: repeat 0 (N.to_nat key_headerLen - 1).

Definition encode (ty : N) (k : bytes) : bytes := hdr ++ ty :: k.
Definition enc (k : bytes) : bytes := encode key_TypeUser k.

Inductive kerr := ErrMissingKeyHeader | ErrUnknownKeyVersion | ErrMalformedKeyHeader | ErrMissingKeyType.

(* key.DecodeBytes + v1DecodeRaw: no padding check, and a body of length <= 1 yields the zero key *)
Definition decode_bytes (raw : bytes) : (N * bytes) + kerr :=
  if N.of_nat (length raw) <? key_headerLen then inr ErrMissingKeyHeader
  else match raw with
       | v :: _ =>
           if v =? key_V1 then
             match skipn (N.to_nat key_headerLen) raw with
             | t :: (_ :: _) as k => inl (t, k)
             | _ => inl (key_TypeUnknown, [])
             end
           else inr ErrUnknownKeyVersion
       | [] => inr ErrMissingKeyHeader
       end.

(* key.Decoder.Decode + keyV1.Decode: padding checked, body limited to keyV1BodyLen bytes *)
Definition decode_stream (raw : bytes) : (N * bytes) + kerr :=
  if N.of_nat (length raw) <? key_headerLen then inr ErrMissingKeyHeader
  else
    let h := firstn (N.to_nat key_headerLen) raw in
    if existsb (fun b => negb (b =? 0)) (tl h) then inr ErrMalformedKeyHeader
    else match h with
         | v :: _ =>
             if v =? key_V1 then
               match firstn (N.to_nat (key_V1KeyLen - key_headerLen)) (skipn (N.to_nat key_headerLen) raw) with
               | [] => inr ErrMissingKeyType
               | t :: k => inl (t, k)
               end
             else inr ErrUnknownKeyVersion
         | [] => inr ErrUnknownKeyVersion
         end.

(* fsm.incrementRightmostByte (bytes wrap modulo 256; a carry out of the first byte prepends 1) *)
Fixpoint incr_aux (l : bytes) : bytes * bool :=
  match l with
  | [] => ([], true)
  | x :: r =>
      let '(r', c) := incr_aux r in
      if c then (let y := (x + 1) mod 256 in (y :: r', y =? 0)) else (x :: r', false)
  end.
Definition incr (l : bytes) : bytes :=
  match l with
  | [] => []
  | _ => let '(l', c) := incr_aux l in if c then 1 :: l' else l'
  end.

Definition maxUserKey : bytes := enc (repeat 255 (N.to_nat key_LatestMaxKeyLen)).
Definition wildcard : bytes := fsm_wildcard.
Definition wildcard_upper : bytes := incr maxUserKey.
Definition sysLocalIndex : bytes := fsm_sysLocalIndex.
Definition sysLeaderIndex : bytes := fsm_sysLeaderIndex.

(* fsm.iterOptionsForBounds: (LowerBound, UpperBound); a nil/empty high bound is simply encoded *)
Definition bounds (lo hi : bytes) : bytes * bytes :=
  (enc lo, if beqb hi wildcard then wildcard_upper else enc hi).

(* membership of a stored key in the half-open interval an iterator with these bounds visits *)
Definition in_bounds (b : bytes * bytes) (k : bytes) : bool := bleb (fst b) k && bltb k (snd b).
