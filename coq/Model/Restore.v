(* storage/table/manager.go readIntoTable / Restore and storage/table/fsm/query.go commandSnapshot. *)
From Verif Require Export Model.Bytes Model.SMap Model.Cmd Model.Spec.

(* one decoded message of a table stream: its wire size, the pair it carries (PUT) or none (the final DUMMY),
   the leader index it carries (only the DUMMY does) *)
Record smsg := { m_size : N; m_kv : option (bytes * bytes); m_leader : option N }.
Record proposal := { p_batch : list (bytes * bytes); p_leader : option N }.

(* commandSnapshot: one PUT per user pair in key order; SnapshotServer.Stream appends DUMMY(leader_index := idx) *)
Definition put_msg (size_of : bytes * bytes -> N) (kv : bytes * bytes) : smsg :=
  {| m_size := size_of kv; m_kv := Some kv; m_leader := None |}.
Definition table_stream (size_of : bytes * bytes -> N) (U : umap) (final : option N) : list smsg :=
  map (put_msg size_of) U ++ match final with Some i => [ {| m_size := 8; m_kv := None; m_leader := Some i |} ] | None => [] end.

(* readIntoTable. append_first: the decoded pair joins the batch BEFORE the size threshold is consulted (the repaired
   code); skip_nil: a message without a pair adds no batch element.  The pre-repair code is (false, false). *)
Fixpoint rit_gen (append_first skip_nil : bool) (maxInMem : N) (ms : list smsg) (est : N)
         (batch : list (option (bytes * bytes))) (li : option N) : list (list (option (bytes * bytes)) * option N) :=
  match ms with
  | [] => [ (batch, li) ]                                   (* io.EOF: propose what is left *)
  | m :: rest =>
      let est := est + m_size m in
      let li := m_leader m in                                (* batchCmd.LeaderIndex = cmd.LeaderIndex *)
      let add := match m_kv m with
                 | Some kv => [Some kv]
                 | None => if skip_nil then [] else [None]
                 end in
      if append_first then
        let batch := batch ++ add in
        if est <? maxInMem / 2 then rit_gen append_first skip_nil maxInMem rest est batch li
        else (batch, li) :: rit_gen append_first skip_nil maxInMem rest 0 [] None
      else
        if est <? maxInMem / 2 then rit_gen append_first skip_nil maxInMem rest est (batch ++ add) li
        else (batch, li) :: rit_gen append_first skip_nil maxInMem rest 0 [] None
  end.

(* a nil batch element is marshalled as an empty KeyValue: a pair with the empty key and the empty value *)
Definition elem_kv (o : option (bytes * bytes)) : bytes * bytes := match o with Some kv => kv | None => ([], []) end.
Definition to_proposal (p : list (option (bytes * bytes)) * option N) : proposal :=
  {| p_batch := map elem_kv (fst p); p_leader := snd p |}.

Definition read_into_table (maxInMem : N) (ms : list smsg) : list proposal :=
  map to_proposal (rit_gen true true maxInMem ms 0 [] None).

(* the restored table: the proposals applied, in order, to a FRESH (empty) shard *)
Definition apply_proposal (st : umap * N) (p : proposal) : umap * N :=
  (fst (s_handle (fst st) (CPutBatch (p_batch p))), match p_leader p with Some l => l | None => snd st end).
Definition restored (ps : list proposal) : umap * N := fold_left apply_proposal ps ([], 0).
