(* Generic observable trees: both the model and the harness (printing what the implementation did)
   produce values of this type; the correspondence check is [obs_eqb]. *)
From Verif Require Export Model.Bytes.

Inductive obs :=
| ON (n : Z)
| OB (b : bytes)
| OL (l : list obs).

Fixpoint list_eqb {A} (f : A -> A -> bool) (a b : list A) : bool :=
  match a, b with
  | [], [] => true
  | x :: a', y :: b' => f x y && list_eqb f a' b'
  | _, _ => false
  end.

Fixpoint obs_eqb (a b : obs) : bool :=
  match a, b with
  | ON x, ON y => Z.eqb x y
  | OB x, OB y => list_eqb N.eqb x y
  | OL x, OL y =>
      (fix go (x y : list obs) : bool :=
         match x, y with
         | [], [] => true
         | p :: x', q :: y' => obs_eqb p q && go x' y'
         | _, _ => false
         end) x y
  | _, _ => false
  end.

(* run-length form for long byte strings (keeps generated case files small) *)
Fixpoint rle_go (cur : N) (cnt : Z) (l : bytes) : list obs :=
  match l with
  | [] => [ON (Z.of_N cur); ON cnt]
  | x :: r => if N.eqb x cur then rle_go cur (cnt + 1)%Z r else ON (Z.of_N cur) :: ON cnt :: rle_go x 1%Z r
  end.
Definition obytes (b : bytes) : obs :=
  if Nat.leb (length b) 64 then OB b
  else match b with [] => OB [] | x :: r => OL (ON (-1)%Z :: rle_go x 1%Z r) end.

Fixpoint unrle (l : list (N * nat)) : bytes :=
  match l with [] => [] | (b, n) :: r => repeat b n ++ unrle r end.

Definition obool (b : bool) : obs := ON (if b then 1 else 0).
Definition onat (n : nat) : obs := ON (Z.of_nat n).
Definition oN (n : N) : obs := ON (Z.of_N n).
Definition oopt {A} (f : A -> obs) (o : option A) : obs :=
  match o with None => OL [] | Some x => OL [f x] end.

(* indices (from 0) of the cases on which [chk] fails *)
Fixpoint mismatches_from {A} (chk : A -> bool) (i : N) (l : list A) : list N :=
  match l with
  | [] => []
  | x :: r => if chk x then mismatches_from chk (i + 1) r else i :: mismatches_from chk (i + 1) r
  end.
Definition mismatches {A} (chk : A -> bool) (l : list A) : list N := mismatches_from chk 0 l.
