(* storage/table/fsm/fsm.go + command.go: the table state machine over the encoded Pebble key space.
   Pebble (DB + indexed batch + bounded iterators + range tombstones) is the sorted association list of
   Model/SMap.v; an update batch is a working copy that replaces the store at Commit. *)
From Verif Require Export Model.Bytes Model.SMap Model.KeyEnc Model.Cmd.

Definition store := smap bytes.

Definition user_key_of (ek : bytes) : bytes :=
  match decode_bytes ek with inl (_, k) => k | inr _ => [] end.
(* iterate panics when a stored key inside the bounds does not decode *)
Definition decodable (ek : bytes) : bool := match decode_bytes ek with inl _ => true | inr _ => false end.

Definition e_get (s : store) (k : bytes) : option bytes := sget s (enc k).
Definition e_set (s : store) (k v : bytes) : store := sset s (enc k) v.
Definition e_del (s : store) (k : bytes) : store := sdel s (enc k).
Definition e_delrange (s : store) (lo hi : bytes) : store :=
  let b := bounds lo hi in sdelrange s (fst b) (snd b).
Definition e_scan (s : store) (lo hi : bytes) : list (bytes * bytes) :=
  let b := bounds lo hi in map (fun kv => (user_key_of (fst kv), snd kv)) (sscan s (fst b) (snd b)).

Definition f_handle := handle store e_get e_set e_del e_delrange e_scan.
Definition f_lookup := lookup store e_get e_scan.
Definition f_iterator_lookup := iterator_lookup store e_get e_scan.
Definition f_lookup_txn := lookup_txn store e_get e_scan.

Record uctx := { u_store : store; u_index : N; u_leader : option N }.

(* parseCommand + handle + result marshalling for one entry.
   keep_leader: the context keeps the last leader index seen in the batch when an entry carries none;
   txn_data: the CommandResult of a transaction is marshalled even when it has no responses. *)
Definition update_one_gen (keep_leader txn_data : bool) (c : uctx) (e : entry) : uctx * result :=
  let leader := match e_leader e with
                | Some l => Some l
                | None => if keep_leader then u_leader c else None
                end in
  let '(s', (val, rs)) := f_handle (u_store c) (e_cmd e) in
  ({| u_store := s'; u_index := e_index e; u_leader := leader |},
   {| r_value := val; r_rev := e_index e; r_resps := rs;
      r_data := (txn_data && is_txn (e_cmd e)) || match rs with [] => false | _ => true end |}).

Definition idx_bytes (i : N) : bytes := le_bytes 8 i.

(* updateContext.Commit *)
Definition commit (c : uctx) : store :=
  let s1 := match u_leader c with
            | Some l => sset (u_store c) sysLeaderIndex (idx_bytes l)
            | None => u_store c
            end in
  sset s1 sysLocalIndex (idx_bytes (u_index c)).

Fixpoint update_entries (f : uctx -> entry -> uctx * result) (c : uctx) (es : list entry) : uctx * list result :=
  match es with
  | [] => (c, [])
  | e :: r => let '(c1, o) := f c e in let '(c2, os) := update_entries f c1 r in (c2, o :: os)
  end.

(* FSM.Update: new store, per-entry results, the index passed to the applied-index callback *)
Definition Update_gen (keep_leader txn_data : bool) (s : store) (es : list entry) : store * list result * N :=
  let '(c, rs) := update_entries (update_one_gen keep_leader txn_data) {| u_store := s; u_index := 0; u_leader := None |} es in
  (commit c, rs, match u_leader c with Some l => l | None => u_index c end).

(* the code as it is in /repo *)
Definition update_one := update_one_gen true true.
Definition Update := Update_gen true true.

(* readLocalIndex *)
Definition read_index (s : store) (k : bytes) : N :=
  match sget s k with None => 0 | Some v => le_val (firstn 8 v) end.
Definition local_index (s : store) : N := read_index s sysLocalIndex.
Definition leader_index (s : store) : N := read_index s sysLeaderIndex.

(* a scenario on one replica: apply calls interleaved with lookups; reopen/snapshot transfer keep the store *)
Fixpoint fsm_steps (s : store) (st : list step) : list out :=
  match st with
  | [] => []
  | SApply es :: r => let '(s', rs, nidx) := Update s es in OutApply rs nidx :: fsm_steps s' r
  | SRead q :: r => OutRead (f_lookup s q) :: fsm_steps s r
  | SIter q :: r => OutIter (f_iterator_lookup s q) :: fsm_steps s r
  | STxnRO cs su fa :: r => (let '(ok, rs) := f_lookup_txn s cs su fa in OutTxn ok rs) :: fsm_steps s r
  | SIndex :: r => OutIndex (local_index s) (leader_index s) :: fsm_steps s r
  | SReopen :: r => OutIndex (local_index s) (leader_index s) :: fsm_steps s r
  end.

(* the store after a scenario *)
Fixpoint fsm_final (s : store) (st : list step) : store :=
  match st with
  | [] => s
  | SApply es :: r => fsm_final (fst (fst (Update s es))) r
  | _ :: r => fsm_final s r
  end.
