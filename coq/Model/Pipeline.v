(* The replication pipeline of one poll, end to end: what regattaserver/replication.go LogServer.Replicate streams
   (Model/LogReader.v: replicate_loop over a log reader service, cached or not) consumed by replication/worker.go
   do / proposeBatch: every CommandsResponse is cut into consecutive non-empty chunks, each proposed to the follower's
   table as ONE SEQUENCE command tagged with the leader index the STREAM attached to the chunk's last command (the worker
   computes nothing itself: `seq.LeaderIndex = &commands[last].LeaderIndex`).  Model/Replication.v abstracts this as
   "the n entries after r, tagged by position"; Proofs/PipelineFacts.v shows the two coincide. *)
From Verif Require Export Model.LogReader Model.Replication.

Section Pipe.
  Variables (S C : Type) (app : S -> C -> S).
  Variable cmd_of : rcmd -> C.      (* a streamed command as the follower's state machine applies it (DUMMY for a non-command entry) *)

  Definition apply_labelled (f : fol S) (chunk : list (rcmd * N)) : fol S :=
    {| f_store := fold_left app (map (fun p => cmd_of (fst p)) chunk) (f_store S f);
       f_lidx := N.to_nat (snd (last chunk (RDummy, N.of_nat (f_lidx S f)))) |}.

  (* proposeBatch on the commands of one message; sizes: where desiredProposalSize cuts (k = chunk length - 1) *)
  Fixpoint propose_stream (f : fol S) (cs : list (rcmd * N)) (sizes : list nat) : fol S :=
    match sizes with
    | [] => match cs with [] => f | _ :: _ => apply_labelled f cs end
    | k :: ks =>
        match cs with
        | [] => f
        | _ :: _ => propose_stream (apply_labelled f (firstn (Datatypes.S k) cs)) (skipn (Datatypes.S k) cs) ks
        end
    end.

  (* worker.do over the messages of one Replicate call (error and up-to-date messages propose nothing) *)
  Fixpoint consume (f : fol S) (ms : list rmsg) (sizes : list (list nat)) : fol S :=
    match ms with
    | [] => f
    | MCommands _ cs :: r => consume (propose_stream f cs (hd [] sizes)) r (tl sizes)
    | _ :: r => consume f r (tl sizes)
    end.
End Pipe.
