(* storage/kv: LFSM.Update / Lookup over MapStore (raft.go, map.go, kv.go).
   Keys and values are Go strings, modelled as their UTF-8 bytes; the store is the sorted association list
   (every observable of the Go map is sorted before it is returned). *)
From Verif Require Export Model.Bytes Model.SMap Generated.Constants.

Definition mval := (bytes * N)%type.                 (* value, version *)
Definition mstore := smap mval.
Record pair := { pk : bytes; pv : bytes; pver : N }.

Inductive mop := OpSet | OpDelete | OpOther.          (* Update.Op = "set" | "delete" | anything else *)
Record mentry := { me_index : N; me_op : mop; me_key : bytes; me_val : bytes; me_ver : N }.

Definition mget (s : mstore) (k : bytes) : option pair :=
  match sget s k with Some (v, ver) => Some {| pk := k; pv := v; pver := ver |} | None => None end.
Definition mexists (s : mstore) (k : bytes) : bool := match sget s k with Some _ => true | None => false end.

(* LFSM.Update for one entry: (result code, result pair) *)
Definition mupdate (s : mstore) (e : mentry) : mstore * (N * pair) :=
  let mismatch :=
    match mget s (me_key e) with
    | Some cur => if pver cur =? me_ver e then None else Some cur
    | None => if me_ver e =? 0 then None else Some {| pk := me_key e; pv := []; pver := 0 |}   (* an absent key has version 0 *)
    end in
  match mismatch with
  | Some cur => (s, (kv_ResultCodeVersionMismatch, cur))
  | None =>
      let s' := match me_op e with
                | OpSet => sset s (me_key e) (me_val e, me_index e)
                | OpDelete => sdel s (me_key e)
                | OpOther => s
                end in
      (s', (kv_ResultCodeSuccess, {| pk := me_key e; pv := me_val e; pver := me_index e |}))
  end.

Fixpoint mrun (s : mstore) (es : list mentry) : mstore * list (N * pair) :=
  match es with
  | [] => (s, [])
  | e :: r => let '(s1, o) := mupdate s e in let '(s2, os) := mrun s1 r in (s2, o :: os)
  end.

(* path.Match restricted to patterns made of literal bytes and '*' (no '?', '[', '\\'): what the callers use *)
Definition slash : N := 47.
Definition star : N := 42.
Fixpoint glob (p : bytes) : bytes -> bool :=
  match p with
  | [] => fun s => match s with [] => true | _ => false end
  | c :: p' =>
      if c =? star then
        fix st (s : bytes) : bool :=
          glob p' s || match s with
                       | [] => false
                       | d :: s' => negb (d =? slash) && st s'
                       end
      else fun s => match s with
                    | [] => false
                    | d :: s' => (d =? c) && glob p' s'
                    end
  end.

Definition to_pair (kv : bytes * mval) : pair := {| pk := fst kv; pv := fst (snd kv); pver := snd (snd kv) |}.
Definition mgetall (s : mstore) (pat : bytes) : list pair := map to_pair (filter (fun kv => glob pat (fst kv)) s).

(* insertion sort of byte strings (slices.Sort on []string) *)
Fixpoint binsert (x : bytes) (l : list bytes) : list bytes :=
  match l with
  | [] => [x]
  | y :: r => if bleb x y then x :: l else y :: binsert x r
  end.
Definition bsort (l : list bytes) : list bytes := fold_right binsert [] l.
Definition mgetallvalues (s : mstore) (pat : bytes) : list bytes := bsort (map pv (mgetall s pat)).

(* ---- directory listings, for clean absolute paths ("/a/b", no trailing slash, no "." / ".." / "//") ---- *)
Fixpoint split_go (cur : bytes) (s : bytes) : list bytes :=      (* strings.Split(s, "/") *)
  match s with
  | [] => [rev cur]
  | c :: r => if c =? slash then rev cur :: split_go [] r else split_go (c :: cur) r
  end.
Definition split (s : bytes) : list bytes := split_go [] s.
(* path.Dir on a clean absolute path: everything before the last slash, "/" if that is empty *)
Definition pdir (k : bytes) : bytes :=
  let segs := split k in
  let d := removelast segs in
  match d with
  | [] | [[]] => [slash]
  | _ => tl (concat (map (fun x => slash :: x) d))
  end.
Definition pbase (k : bytes) : bytes := last (split k) [].
Fixpoint same_prefix (p t : list bytes) : bool :=
  match p, t with
  | [], _ => true
  | _ :: _, [] => false
  | a :: p', b :: t' => beqb a b && same_prefix p' t'
  end.
Fixpoint has_prefix (p s : bytes) : bool :=
  match p, s with
  | [], _ => true
  | _ :: _, [] => false
  | a :: p', b :: s' => (a =? b) && has_prefix p' s'
  end.
Definition trim_prefix (p s : bytes) : bytes := if has_prefix p s then skipn (length p) s else s.
Fixpoint binsert_uniq (x : bytes) (l : list bytes) : list bytes :=
  match l with
  | [] => [x]
  | y :: r => match lex_compare x y with Lt => x :: l | Eq => l | Gt => y :: binsert_uniq x r end
  end.
Definition mlist (s : mstore) (fp : bytes) : list bytes :=
  let prefix := split fp in
  fold_left (fun acc kv =>
    let k := fst kv in
    if beqb k fp then binsert_uniq (pbase k) acc
    else if same_prefix prefix (split (pdir k))
         then binsert_uniq (hd [] (split (trim_prefix [slash] (trim_prefix fp k)))) acc
         else acc) s [].
Definition mlistdir (s : mstore) (fp : bytes) : list bytes :=
  let prefix := split fp in
  fold_left (fun acc kv =>
    let k := fst kv in
    if has_prefix fp k then
      let items := split (pdir k) in
      if same_prefix prefix items && (length prefix <? length items)%nat
      then binsert_uniq (nth (length prefix) items []) acc else acc
    else acc) s [].

(* snapshot: json.Marshal of the map / json decode into a fresh map - the content, canonically *)
Definition msnapshot (s : mstore) : mstore := s.
Definition mrecover (_old snap : mstore) : mstore := snap.
