(* replication/replication.go Manager.reconcileTables: every reconcile interval the follower compares the leader's
   table listing with its own, deletes the tables the leader does not have and creates the ones it lacks (names only).
   The follower's table set afterwards: *)
From Verif Require Export Model.Bytes.

Definition memb (x : N) (l : list N) : bool := existsb (N.eqb x) l.
Definition to_delete (leader follower : list N) : list N := filter (fun f => negb (memb f leader)) follower.
Definition to_create (leader follower : list N) : list N := filter (fun l => negb (memb l follower)) leader.
Definition reconcile (leader follower : list N) : list N :=
  filter (fun f => negb (memb f (to_delete leader follower))) follower ++ to_create leader follower.
