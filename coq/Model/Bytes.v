(* Byte strings as lists of N, lexicographic order (= Go's bytes.Compare), hex literals. *)
From Coq Require Export List NArith ZArith Bool.
From Coq Require Import String Ascii.
Export ListNotations.
Open Scope N_scope.

Definition bytes := list N.

Fixpoint lex_compare (a b : bytes) : comparison :=
  match a, b with
  | [], [] => Eq
  | [], _ :: _ => Lt
  | _ :: _, [] => Gt
  | x :: a', y :: b' =>
      match N.compare x y with
      | Eq => lex_compare a' b'
      | c => c
      end
  end.

Definition bltb (a b : bytes) : bool := match lex_compare a b with Lt => true | _ => false end.
Definition bleb (a b : bytes) : bool := match lex_compare a b with Gt => false | _ => true end.
Definition beqb (a b : bytes) : bool := match lex_compare a b with Eq => true | _ => false end.

Definition blt (a b : bytes) : Prop := lex_compare a b = Lt.
Definition ble (a b : bytes) : Prop := lex_compare a b <> Gt.

Definition wf_bytes (l : bytes) : bool := forallb (fun b => b <? 256) l.

(* hex literals: hx "00ff61" = [0;255;97]; non-hex characters count as 0 (the harness only emits hex) *)
Definition hexval (c : ascii) : N :=
  let n := N_of_ascii c in
  if (48 <=? n) && (n <=? 57) then n - 48
  else if (97 <=? n) && (n <=? 102) then n - 87
  else if (65 <=? n) && (n <=? 70) then n - 55
  else 0.

Fixpoint hx (s : string) : bytes :=
  match s with
  | String a (String b r) => (16 * hexval a + hexval b) :: hx r
  | _ => []
  end.
Arguments hx s%string.

(* little-endian 8-byte encoding of an index, as binary.LittleEndian.PutUint64 / Uint64 *)
Fixpoint le_bytes (n : nat) (x : N) : bytes :=
  match n with
  | O => []
  | S n' => (x mod 256) :: le_bytes n' (x / 256)
  end.
Fixpoint le_val (l : bytes) : N :=
  match l with
  | [] => 0
  | b :: r => b + 256 * le_val r
  end.
