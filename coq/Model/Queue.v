(* storage/queue.go: IndexNotificationQueue.Run as a state machine over events.  Every waiter has a channel of
   capacity 1; a send on a full channel blocks the single event loop (outcome Blocked), Peek/Pop on an empty heap
   panics (outcome Panicked). *)
From Verif Require Export Model.Bytes Model.Heap.

Record item := { it_id : nat; it_rev : N }.
Definition lessi (a b : item) : bool := it_rev a <? it_rev b.
Definition ditem : item := {| it_id := 0; it_rev := 0 |}.

Inductive chan := ChEmpty | ChFull | ChClosed.
Inductive answer := AOk | AErr.

Record qstate := {
  heaps : list (N * list item);        (* table -> heap slice *)
  chans : list (nat * chan);           (* waiter id -> channel state *)
  cancelled : list nat;                (* waiters whose context is done *)
  answers : list (nat * answer)        (* ghost: deliveries, oldest first *)
}.
Definition q0 : qstate := {| heaps := []; chans := []; cancelled := []; answers := [] |}.

Inductive event :=
| EAdd (id : nat) (table : N) (rev : N)
| ECancel (id : nat)
| ENotify (table : N) (rev : N)
| ESweep
| ERead (id : nat)
| ELen (table : N).

Inductive outcome := Fine | Blocked (id : nat) | Panicked.

Fixpoint hget (hs : list (N * list item)) (t : N) : list item :=
  match hs with [] => [] | (k, h) :: r => if k =? t then h else hget r t end.
Fixpoint hset (hs : list (N * list item)) (t : N) (h : list item) : list (N * list item) :=
  match hs with
  | [] => [(t, h)]
  | (k, h0) :: r => if k =? t then (k, h) :: r else (k, h0) :: hset r t h
  end.
Fixpoint cget (cs : list (nat * chan)) (i : nat) : chan :=
  match cs with [] => ChClosed | (k, c) :: r => if (k =? i)%nat then c else cget r i end.
Fixpoint cset (cs : list (nat * chan)) (i : nat) (c : chan) : list (nat * chan) :=
  match cs with
  | [] => [(i, c)]
  | (k, c0) :: r => if (k =? i)%nat then (k, c) :: r else (k, c0) :: cset r i c
  end.
Definition is_cancelled (s : qstate) (i : nat) : bool := existsb (Nat.eqb i) (cancelled s).

(* elem.waitCh <- err *)
Definition send_err (cs : list (nat * chan)) (i : nat) : option (list (nat * chan)) :=
  match cget cs i with ChEmpty => Some (cset cs i ChFull) | _ => None end.

(* the notif arm for one table: up to l iterations of peek / answer / pop *)
Fixpoint notify_loop (fuel : nat) (canc : nat -> bool) (rev : N) (h : list item) (cs : list (nat * chan))
         (ans : list (nat * answer)) : outcome * list item * list (nat * chan) * list (nat * answer) :=
  match fuel with
  | O => (Fine, h, cs, ans)
  | S f =>
      match peek item h with
      | None => (Panicked, h, cs, ans)
      | Some e =>
          if canc (it_id e) then
            match send_err cs (it_id e) with
            | None => (Blocked (it_id e), h, cs, ans)
            | Some cs' =>
                match pop item lessi ditem h with
                | None => (Panicked, h, cs', ans)
                | Some (_, h') => notify_loop f canc rev h' cs' (ans ++ [(it_id e, AErr)])
                end
            end
          else if it_rev e <=? rev then
            match cget cs (it_id e) with
            | ChClosed => (Panicked, h, cs, ans)           (* close of a closed channel *)
            | _ =>
                match pop item lessi ditem h with
                | None => (Panicked, h, cs, ans)
                | Some (_, h') => notify_loop f canc rev h' (cset cs (it_id e) ChClosed) (ans ++ [(it_id e, AOk)])
                end
            end
          else (Fine, h, cs, ans)
      end
  end.

(* the gc arm for one heap (the repaired code): every expired waiter is answered once and dropped, the rest re-heapified *)
Fixpoint sweep_scan (canc : nat -> bool) (h : list item) (cs : list (nat * chan)) (ans : list (nat * answer))
  : outcome * list item * list (nat * chan) * list (nat * answer) :=
  match h with
  | [] => (Fine, [], cs, ans)
  | e :: r =>
      if canc (it_id e) then
        match send_err cs (it_id e) with
        | None => (Blocked (it_id e), h, cs, ans)
        | Some cs' => sweep_scan canc r cs' (ans ++ [(it_id e, AErr)])
        end
      else
        let '(o, live, cs', ans') := sweep_scan canc r cs ans in (o, e :: live, cs', ans')
  end.

Fixpoint sweep_all (canc : nat -> bool) (hs : list (N * list item)) (cs : list (nat * chan)) (ans : list (nat * answer))
  : outcome * list (N * list item) * list (nat * chan) * list (nat * answer) :=
  match hs with
  | [] => (Fine, [], cs, ans)
  | (t, h) :: r =>
      match sweep_scan canc h cs ans with
      | (Fine, live, cs', ans') =>
          let '(o, r', cs'', ans'') := sweep_all canc r cs' ans' in
          (o, (t, heapify item lessi ditem live) :: r', cs'', ans'')
      | (o, live, cs', ans') => (o, (t, live) :: r, cs', ans')
      end
  end.

Definition step (s : qstate) (e : event) : outcome * qstate * option nat :=
  match e with
  | EAdd id t rev =>
      (Fine, {| heaps := hset (heaps s) t (push item lessi ditem (hget (heaps s) t) {| it_id := id; it_rev := rev |});
                chans := cset (chans s) id ChEmpty; cancelled := cancelled s; answers := answers s |}, None)
  | ECancel id =>
      (Fine, {| heaps := heaps s; chans := chans s; cancelled := id :: cancelled s; answers := answers s |}, None)
  | ENotify t rev =>
      let h := hget (heaps s) t in
      let '(o, h', cs', ans') := notify_loop (length h) (is_cancelled s) rev h (chans s) (answers s) in
      (o, {| heaps := hset (heaps s) t h'; chans := cs'; cancelled := cancelled s; answers := ans' |}, None)
  | ESweep =>
      let '(o, hs', cs', ans') := sweep_all (is_cancelled s) (heaps s) (chans s) (answers s) in
      (o, {| heaps := hs'; chans := cs'; cancelled := cancelled s; answers := ans' |}, None)
  | ERead id =>
      (Fine, {| heaps := heaps s;
                chans := match cget (chans s) id with ChFull => cset (chans s) id ChEmpty | _ => chans s end;
                cancelled := cancelled s; answers := answers s |}, None)
  | ELen t => (Fine, s, Some (length (hget (heaps s) t)))
  end.

Fixpoint run (s : qstate) (es : list event) : list outcome * qstate :=
  match es with
  | [] => ([], s)
  | e :: r =>
      match step s e with
      | (Fine, s', _) => let '(os, s'') := run s' r in (Fine :: os, s'')
      | (o, s', _) => ([o], s')                           (* the event loop is stuck or dead *)
      end
  end.
