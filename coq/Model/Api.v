(* The key-value API end to end, for a node that holds the current state of every table:
     regattaserver/kv.go   KVServer.Range / IterateRange / Put / DeleteRange / Txn   (argument checks, status mapping)
     storage/engine.go     Engine.Range / IterateRange / Put / Delete / Txn           (table lookup by name)
     storage/table/table.go ActiveTable.Range / Iterator / Put / Delete / Txn, proposeTable, validateTxnOps
                                                                                     (limits, request -> Command, CommandResult -> response)
   on top of the table state machine.  The function is written ONCE over an abstract table ([Section Api]); it is
   instantiated with the state machine over the encoded Pebble key space (Model/Fsm.v: what the code does) and with the
   plain sorted map of Model/Spec.v (what the properties speak about).  Validation is NOT re-stated here: the status of a
   request is computed by the validators of Model/Validate.v on the features of the actual request. *)
From Verif Require Export Model.Bytes Model.SMap Model.KeyEnc Model.Cmd Model.Fsm Model.Spec Model.Validate.

Record filters := { fl_min_mod : Z; fl_max_mod : Z; fl_min_create : Z; fl_max_create : Z }.

Inductive api_req :=
| QRange (t : bytes) (r : range_req) (lin : bool) (f : filters)        (* KV.Range *)
| QIterate (t : bytes) (r : range_req) (lin : bool) (f : filters)      (* KV.IterateRange *)
| QPut (t k v : bytes) (prev : bool)                                   (* KV.Put *)
| QDelete (t k : bytes) (e : option bytes) (prev cnt : bool)           (* KV.DeleteRange *)
| QTxn (t : bytes) (cs : list compare) (su fa : list request_op).      (* KV.Txn *)

Inductive api_resp :=
| PErr (s : status)
| PRange (r : range_resp)
| PIter (rs : list range_resp)
| PPut (prev : option (bytes * bytes)) (rev : N)
| PDel (deleted : Z) (prevs : list (bytes * bytes)) (rev : N)
| PTxn (ok : bool) (rs : list response_op) (rev : N).

Definition req_table (q : api_req) : bytes :=
  match q with QRange t _ _ _ | QIterate t _ _ _ | QPut t _ _ _ | QDelete t _ _ _ _ | QTxn t _ _ _ => t end.

(* ---- the features the validators look at, taken from the request itself ---- *)
Definition olen (o : option bytes) : N := match o with Some e => blen e | None => 0 end.

Definition range_feat (known : bool) (t : bytes) (r : range_req) (f : filters) : range_rq :=
  {| rr_table_len := blen t; rr_table_known := known; rr_key_len := blen (rq_key r); rr_end_len := olen (rq_end r);
     rr_limit := rq_limit r; rr_keys_only := rq_keys_only r; rr_count_only := rq_count_only r;
     rr_min_mod := fl_min_mod f; rr_max_mod := fl_max_mod f; rr_min_create := fl_min_create f; rr_max_create := fl_max_create f |}.
Definition put_feat (known : bool) (t k v : bytes) : put_rq :=
  {| pr_table_len := blen t; pr_table_known := known; pr_key_len := blen k; pr_val_len := blen v |}.
Definition del_feat (known : bool) (t k : bytes) : del_rq :=
  {| dr_table_len := blen t; dr_table_known := known; dr_key_len := blen k |}.
Definition op_feat (o : request_op) : txn_op :=
  match o with
  | ORange r => TRange (blen (rq_key r)) (olen (rq_end r))
  | OPut p => TPut (blen (pt_key p)) (blen (pt_val p))
  | ODel d => TDel (blen (dl_key d)) (olen (dl_end d))
  | OUnset => TUnset
  end.
Definition txn_feat (known : bool) (t : bytes) (su fa : list request_op) : txn_rq :=
  {| tr_table_len := blen t; tr_table_known := known; tr_ops := map op_feat su ++ map op_feat fa |}.

(* proposeTable: the first response of the unmarshalled CommandResult (no data, or no response: ErrNoResultFound) *)
Definition first_resp (r : result) : option response_op := if r_data r then hd_error (r_resps r) else None.
Definition no_result : result := {| r_value := 0; r_rev := 0; r_resps := []; r_data := false |}.

Section Api.
  Variable T : Type.                                                       (* one table *)
  Variable t_lookup : T -> range_req -> range_resp.                        (* FSM.Lookup(RequestOp_Range) *)
  Variable t_iter : T -> range_req -> list range_resp.                     (* FSM.Lookup(IteratorRequest), drained *)
  Variable t_txn : T -> list compare -> list request_op -> list request_op -> bool * list response_op. (* Lookup(TxnRequest) *)
  Variable t_propose : T -> N -> command -> T * result.                    (* SyncPropose: one entry at the given log index *)

  Definition tdb := smap T.
  Definition known (d : tdb) (t : bytes) : bool := match sget d t with Some _ => true | None => false end.

  (* one request; [idx] is the log index the table's Raft group assigns if (and only if) the request is proposed *)
  Definition api_step (d : tdb) (idx : N) (q : api_req) : tdb * api_resp :=
    match q with
    | QRange t r lin f =>
        match range_status (range_feat (known d t) t r f), sget d t with
        | SOk, Some s => (d, PRange (t_lookup s r))
        | SOk, None => (d, PErr SNotFound)
        | st, _ => (d, PErr st)
        end
    | QIterate t r lin f =>
        match range_status (range_feat (known d t) t r f), sget d t with
        | SOk, Some s => (d, PIter (t_iter s r))
        | SOk, None => (d, PErr SNotFound)
        | st, _ => (d, PErr st)
        end
    | QPut t k v prev =>
        match put_status (put_feat (known d t) t k v), sget d t with
        | SOk, Some s =>
            let '(s', res) := t_propose s idx (CPut k v prev) in
            (sset d t s', match first_resp res with
                          | Some (RPut p) => PPut p (r_rev res)
                          | _ => PErr SFailedPrecondition          (* ErrNoResultFound / ErrUnknownResultType *)
                          end)
        | SOk, None => (d, PErr SNotFound)
        | st, _ => (d, PErr st)
        end
    | QDelete t k e prev cnt =>
        match del_status (del_feat (known d t) t k), sget d t with
        | SOk, Some s =>
            let '(s', res) := t_propose s idx (CDelete k e prev cnt) in
            (sset d t s', match first_resp res with
                          | Some (RDel n kvs) => PDel n kvs (r_rev res)
                          | _ => PErr SFailedPrecondition
                          end)
        | SOk, None => (d, PErr SNotFound)
        | st, _ => (d, PErr st)
        end
    | QTxn t cs su fa =>
        match txn_status (txn_feat (known d t) t su fa), sget d t with
        | SOk, Some s =>
            if is_readonly (map op_feat su) (map op_feat fa) then
              (* not proposed: served by a linearizable read; the state machine's answer carries no revision *)
              let '(ok, rs) := t_txn s cs su fa in (d, PTxn ok rs 0)
            else
              let '(s', res) := t_propose s idx (CTxn cs su fa) in
              (sset d t s', PTxn (r_value res =? fsm_ResultSuccess)
                                 (if r_data res then r_resps res else [])
                                 (if r_data res then r_rev res else 0))
        | SOk, None => (d, PErr SNotFound)
        | st, _ => (d, PErr st)
        end
    end.

  Fixpoint api_run (d : tdb) (qs : list (N * api_req)) : tdb * list api_resp :=
    match qs with
    | [] => (d, [])
    | (idx, q) :: r => let '(d1, o) := api_step d idx q in let '(d2, os) := api_run d1 r in (d2, o :: os)
    end.
End Api.

(* ---- what the code does: every table is a state machine over the encoded key space ---- *)
Definition f_propose (s : store) (idx : N) (c : command) : store * result :=
  let '(s', rs, _) := Update s [ {| e_index := idx; e_leader := None; e_cmd := c |} ] in (s', hd no_result rs).
Definition impl_step := api_step store f_lookup f_iterator_lookup f_lookup_txn f_propose.
Definition impl_run := api_run store f_lookup f_iterator_lookup f_lookup_txn f_propose.

(* ---- what the properties speak about: every table is a plain sorted map with its applied index ---- *)
Definition s_propose (st : spec_state) (idx : N) (c : command) : spec_state * result :=
  spec_entry st {| e_index := idx; e_leader := None; e_cmd := c |}.
Definition spec_step :=
  api_step spec_state (fun st => s_lookup (content st)) (fun st => s_iterator_lookup (content st))
           (fun st => s_lookup_txn (content st)) s_propose.
Definition spec_run :=
  api_run spec_state (fun st => s_lookup (content st)) (fun st => s_iterator_lookup (content st))
          (fun st => s_lookup_txn (content st)) s_propose.

(* the records of a table obey the limits of the API *)
Definition pair_ok (kv : bytes * bytes) : bool :=
  negb (blen (fst kv) =? 0) && (blen (fst kv) <=? key_limit) && (blen (snd kv) <=? val_limit).
Definition within_limits (U : umap) : bool := forallb pair_ok U.

(* a database of freshly created (empty) tables *)
Definition fresh_impl (names : list bytes) : smap store := fold_left (fun d t => sset d t []) names [].
Definition fresh_spec (names : list bytes) : smap spec_state := fold_left (fun d t => sset d t spec_init) names [].
