(* Crash behaviour of one table's on-disk state: storage/table/fsm/fsm.go Open/Update/Sync/Close,
   snapshot_snapshot.go / snapshot_checkpoint.go recover, pebble/dir.go (current / current.updating protocol).

   File-system fault model (the property's): file data is durable up to the file's last fsync, directory entries up
   to the directory's last sync; a crash discards everything else.  The table directory <base>/<host>/<table> has a
   volatile and a durable view of its entries; files are inodes, so a rename moves an inode between names while the
   durable view still holds the old names, and an fsync reaches the inode whatever names point to it.

   A Pebble DB directory is modelled by two counters: [mem] = number of log batches applied (the WAL is disabled, so
   this is volatile), [dur] = number of batches guaranteed durable (Flush / Ingest returned).  What Pebble itself
   guarantees and this model assumes: a committed batch is atomic; a flush makes a prefix of whole batches durable;
   Pebble may flush in the background at any time (hence the survival oracle [pick] at a crash); a DB directory whose
   entry is durable reopens with its durable content.  Fresh directory names never collide (counter [next]; the
   code draws 64 random bits plus the clock).  The content after b batches is the result of applying the first b
   batches of the log (Model/Fsm.v, C01/C02), so the counters determine the visible content. *)
From Coq Require Export List Arith Bool Lia.
Export ListNotations.

Record inode := { i_data : option nat; i_synced : option nat }.     (* content = name of a DB directory *)
Record dbst := { mem : nat; dur : nat }.

Record st := {
  inodes : nat -> inode; ninodes : nat;     (* inode table; ids below ninodes are in use *)
  v_cur : option nat; v_upd : option nat;   (* volatile entries "current", "current.updating" -> inode *)
  d_cur : option nat; d_upd : option nat;   (* durable entries *)
  v_dbs : list nat; d_dbs : list nat;       (* DB directories with a volatile / durable entry *)
  dbs : nat -> dbst;                        (* state of a DB directory by name *)
  live : option nat;                        (* the DB the process has open (pebble handle) *)
  next : nat;                               (* fresh-name oracle *)
  ack : nat;                                (* ghost: batches covered by the last completed Sync/Close/install *)
  top : nat;                                (* ghost: the most batches any DB ever held *)
  failed : bool                             (* an operation returned an error *)
}.

Definition ino0 : inode := {| i_data := None; i_synced := None |}.
Definition st0 : st :=
  {| inodes := fun _ => ino0; ninodes := 0; v_cur := None; v_upd := None; d_cur := None; d_upd := None;
     v_dbs := []; d_dbs := []; dbs := fun _ => {| mem := 0; dur := 0 |}; live := None; next := 0; ack := 0; top := 0;
     failed := false |}.

Inductive prim :=
| PMkDb (d : nat)            (* MkdirAll(<dir>/<d>): volatile entry (the DB inside is empty) *)
| PSyncDir                   (* sync of the table directory *)
| PCreateUpd                 (* Create(current.updating): a new empty file *)
| PWriteUpd (d : nat)        (* checksum + name written *)
| PSyncUpd                   (* fsync of the file named current.updating *)
| PRename                    (* Rename(current.updating, current) *)
| PRemoveUpd                 (* RemoveAll(current.updating) *)
| PRemoveDb (d : nat)        (* RemoveAll(<dir>/<d>) *)
| PDbApply (d : nat)         (* one Pebble batch committed: the next log batch plus its index *)
| PDbFlush (d : nat)         (* Flush returned *)
| PDbLoad (d n : nat)        (* snapshot content (n batches) ingested / unpacked and opened: durable inside d *)
| PSetLive (d : option nat)  (* the process' handle (pebble.Swap / Store) *)
| PAck (n : nat)             (* ghost: the operation that covers n batches returned successfully *)
| PFail.

Definition updf {A} (f : nat -> A) (d : nat) (v : A) : nat -> A := fun x => if Nat.eqb x d then v else f x.
Definition remove_nat (d : nat) (l : list nat) : list nat := filter (fun x => negb (Nat.eqb x d)) l.
Definition mem_nat (d : nat) (l : list nat) : bool := existsb (Nat.eqb d) l.
Definition set_ino (s : st) x_inodes : st := {| inodes := x_inodes; ninodes := ninodes s; v_cur := v_cur s; v_upd := v_upd s; d_cur := d_cur s; d_upd := d_upd s; v_dbs := v_dbs s; d_dbs := d_dbs s; dbs := dbs s; live := live s; next := next s; ack := ack s; top := top s; failed := failed s |}.
Definition set_newino (s : st) x_inodes x_ninodes x_v_upd : st := {| inodes := x_inodes; ninodes := x_ninodes; v_cur := v_cur s; v_upd := x_v_upd; d_cur := d_cur s; d_upd := d_upd s; v_dbs := v_dbs s; d_dbs := d_dbs s; dbs := dbs s; live := live s; next := next s; ack := ack s; top := top s; failed := failed s |}.
Definition set_vnames (s : st) x_v_cur x_v_upd : st := {| inodes := inodes s; ninodes := ninodes s; v_cur := x_v_cur; v_upd := x_v_upd; d_cur := d_cur s; d_upd := d_upd s; v_dbs := v_dbs s; d_dbs := d_dbs s; dbs := dbs s; live := live s; next := next s; ack := ack s; top := top s; failed := failed s |}.
Definition set_vdbs (s : st) x_v_dbs : st := {| inodes := inodes s; ninodes := ninodes s; v_cur := v_cur s; v_upd := v_upd s; d_cur := d_cur s; d_upd := d_upd s; v_dbs := x_v_dbs; d_dbs := d_dbs s; dbs := dbs s; live := live s; next := next s; ack := ack s; top := top s; failed := failed s |}.
Definition set_dbs (s : st) x_dbs x_top : st := {| inodes := inodes s; ninodes := ninodes s; v_cur := v_cur s; v_upd := v_upd s; d_cur := d_cur s; d_upd := d_upd s; v_dbs := v_dbs s; d_dbs := d_dbs s; dbs := x_dbs; live := live s; next := next s; ack := ack s; top := x_top; failed := failed s |}.
Definition set_live (s : st) x_live : st := {| inodes := inodes s; ninodes := ninodes s; v_cur := v_cur s; v_upd := v_upd s; d_cur := d_cur s; d_upd := d_upd s; v_dbs := v_dbs s; d_dbs := d_dbs s; dbs := dbs s; live := x_live; next := next s; ack := ack s; top := top s; failed := failed s |}.
Definition set_ack (s : st) x_ack : st := {| inodes := inodes s; ninodes := ninodes s; v_cur := v_cur s; v_upd := v_upd s; d_cur := d_cur s; d_upd := d_upd s; v_dbs := v_dbs s; d_dbs := d_dbs s; dbs := dbs s; live := live s; next := next s; ack := x_ack; top := top s; failed := failed s |}.
Definition set_next (s : st) x_next : st := {| inodes := inodes s; ninodes := ninodes s; v_cur := v_cur s; v_upd := v_upd s; d_cur := d_cur s; d_upd := d_upd s; v_dbs := v_dbs s; d_dbs := d_dbs s; dbs := dbs s; live := live s; next := x_next; ack := ack s; top := top s; failed := failed s |}.
Definition sync_dir (s : st)  : st := {| inodes := inodes s; ninodes := ninodes s; v_cur := v_cur s; v_upd := v_upd s; d_cur := v_cur s; d_upd := v_upd s; v_dbs := v_dbs s; d_dbs := v_dbs s; dbs := dbs s; live := live s; next := next s; ack := ack s; top := top s; failed := failed s |}.
Definition set_fail (s : st)  : st := {| inodes := inodes s; ninodes := ninodes s; v_cur := v_cur s; v_upd := v_upd s; d_cur := d_cur s; d_upd := d_upd s; v_dbs := v_dbs s; d_dbs := d_dbs s; dbs := dbs s; live := None; next := next s; ack := ack s; top := top s; failed := true |}.

Definition exec1 (s : st) (p : prim) : st :=
  match p with
  | PMkDb d => set_vdbs s (if mem_nat d (v_dbs s) then v_dbs s else d :: v_dbs s)
  | PSyncDir => sync_dir s
  | PCreateUpd => set_newino s (updf (inodes s) (ninodes s) ino0) (S (ninodes s)) (Some (ninodes s))
  | PWriteUpd d =>
      match v_upd s with
      | Some i => set_ino s (updf (inodes s) i {| i_data := Some d; i_synced := i_synced (inodes s i) |})
      | None => s
      end
  | PSyncUpd =>
      match v_upd s with
      | Some i => set_ino s (updf (inodes s) i {| i_data := i_data (inodes s i); i_synced := i_data (inodes s i) |})
      | None => s
      end
  | PRename => match v_upd s with Some i => set_vnames s (Some i) None | None => s end
  | PRemoveUpd => set_vnames s (v_cur s) None
  | PRemoveDb d => set_vdbs s (remove_nat d (v_dbs s))
  | PDbApply d => set_dbs s (updf (dbs s) d {| mem := S (mem (dbs s d)); dur := dur (dbs s d) |}) (Nat.max (top s) (S (mem (dbs s d))))
  | PDbFlush d => set_dbs s (updf (dbs s) d {| mem := mem (dbs s d); dur := mem (dbs s d) |}) (top s)
  | PDbLoad d n => set_dbs s (updf (dbs s) d {| mem := n; dur := n |}) (Nat.max (top s) n)
  | PSetLive d => set_live s d
  | PAck n => set_ack s n
  | PFail => set_fail s
  end.
Definition exec (ps : list prim) (s : st) : st := fold_left exec1 ps s.

(* the crash: volatile views fall back to the durable ones, every file to its synced content, every DB to a prefix of
   whole batches between its durable and its volatile content; the process is gone *)
Definition crash (pick : nat -> nat) (s : st) : st :=
  {| inodes := fun i => {| i_data := i_synced (inodes s i); i_synced := i_synced (inodes s i) |}; ninodes := ninodes s;
     v_cur := d_cur s; v_upd := d_upd s; d_cur := d_cur s; d_upd := d_upd s;
     v_dbs := d_dbs s; d_dbs := d_dbs s;
     dbs := fun x => let k := Nat.min (mem (dbs s x)) (dur (dbs s x) + pick x) in {| mem := k; dur := k |};
     live := None; next := next s; ack := ack s; top := top s; failed := false |}.

(* ---- the operations of the state machine, as sequences of primitive steps ---- *)
Inductive hop := HOpen | HUpdate | HSync | HClose | HRecover (n : nat)
  | HRecoverStop (clean : bool).   (* an install given up on the stop signal (or a broken stream) before the switch *)

(* GetCurrentDBDirName: the volatile content of "current" *)
Definition read_cur (s : st) : option nat :=
  match v_cur s with Some i => i_data (inodes s i) | None => None end.
(* SaveCurrentDBDirName + ReplaceCurrentDBFile *)
Definition publish (d : nat) : list prim := [PCreateUpd; PWriteUpd d; PSyncUpd; PSyncDir; PRename; PSyncDir].
(* CleanupNodeDataDir: everything but "current" and the directory it names goes (the removals are not synced) *)
Definition cleanup (l : list nat) (d : nat) : list prim := PRemoveUpd :: map PRemoveDb (remove_nat d l).

(* [fx]: the DB directory is created and its entry synced before "current" is published (the tree as repaired);
   false = the order of the original code (publish, then let Pebble create the directory).
   A snapshot older than the content is never installed (the Raft library only installs newer ones): ignored. *)
Definition expand_gen (fx : bool) (h : hop) (s : st) : list prim :=
  match h with
  | HOpen =>
      match v_cur s with
      | None => let d := next s in
                (if fx then [PMkDb d; PSyncDir] else []) ++ publish d ++ (if fx then [] else [PMkDb d]) ++ [PSetLive (Some d)]
      | Some _ =>
          match read_cur s with
          | Some d => cleanup (v_dbs s) d ++ (if mem_nat d (v_dbs s) then [PSetLive (Some d)] else [PFail])
          | None => [PFail]
          end
      end
  | HUpdate => match live s with Some d => [PDbApply d] | None => [] end
  | HSync => match live s with Some d => [PDbFlush d; PAck (mem (dbs s d))] | None => [] end
  | HClose => match live s with Some d => [PDbFlush d; PSetLive None; PAck (mem (dbs s d))] | None => [] end
  | HRecover n =>
      match live s with
      | Some old => if n <? mem (dbs s old) then [] else
                    let d := next s in
                    [PMkDb d; PDbLoad d n] ++ publish d ++ [PSetLive (Some d)] ++ cleanup (d :: v_dbs s) d ++ [PAck n]
      | None => []
      end
  | HRecoverStop clean =>
      (* the fresh directory exists, "current" was not touched; the snapshot format closes the new DB and cleans up
         (everything but the live directory goes), the checkpoint format just returns *)
      match live s with
      | Some old => let d := next s in PMkDb d :: (if clean then cleanup (d :: v_dbs s) old else [])
      | None => []
      end
  end.
Definition expand := expand_gen true.

Definition bump (h : hop) (s : st) : st :=    (* a name, once drawn, is never drawn again *)
  match h with
  | HOpen | HRecover _ | HRecoverStop _ => set_next s (S (next s))
  | _ => s
  end.

(* run operations with a budget of k primitive steps; the crash strikes when the budget is used up *)
Fixpoint run_gen (fx : bool) (hs : list hop) (k : nat) (s : st) : st :=
  match hs with
  | [] => s
  | h :: hs' =>
      let ps := expand_gen fx h s in
      if k <? length ps then exec (firstn k ps) (bump h s)
      else run_gen fx hs' (k - length ps) (exec ps (bump h s))
  end.
Definition run := run_gen true.

Record era := { e_ops : list hop; e_crash : nat; e_pick : nat -> nat }.
Definition run_era_gen fx (s : st) (e : era) : st := crash (e_pick e) (run_gen fx (e_ops e) (e_crash e) s).
Definition run_eras_gen fx (es : list era) : st := fold_left (run_era_gen fx) es st0.
Definition run_eras := run_eras_gen true.

(* what a reopen reports: the batches visible in the DB it opens *)
Definition reopen_gen fx (s : st) : option nat :=
  let s' := exec (expand_gen fx HOpen s) (bump HOpen s) in
  if failed s' then None else match live s' with Some d => Some (mem (dbs s' d)) | None => None end.
Definition reopen := reopen_gen true.

(* the primitive steps a no-crash run performs (for the comparison with the implementation's trace) *)
Fixpoint trace_gen (fx : bool) (hs : list hop) (s : st) : list prim :=
  match hs with
  | [] => []
  | h :: hs' => let ps := expand_gen fx h s in ps ++ trace_gen fx hs' (exec ps (bump h s))
  end.
