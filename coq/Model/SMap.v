(* Sorted association lists keyed by byte strings: the executable stand-in for an ordered KV engine
   (Pebble with the bytewise comparer; Go maps whose observable iteration is always sorted first). *)
From Verif Require Export Model.Bytes.

Section SMap.
  Variable V : Type.
  Definition smap := list (bytes * V).

  Fixpoint sget (s : smap) (k : bytes) : option V :=
    match s with
    | [] => None
    | (k', v) :: r => if beqb k k' then Some v else sget r k
    end.

  Fixpoint sset (s : smap) (k : bytes) (v : V) : smap :=
    match s with
    | [] => [(k, v)]
    | (k', v') :: r =>
        match lex_compare k k' with
        | Lt => (k, v) :: s
        | Eq => (k, v) :: r
        | Gt => (k', v') :: sset r k v
        end
    end.

  Fixpoint sdel (s : smap) (k : bytes) : smap :=
    match s with
    | [] => []
    | (k', v') :: r => if beqb k k' then r else (k', v') :: sdel r k
    end.

  Definition in_range (lo hi k : bytes) : bool := bleb lo k && bltb k hi.

  (* half-open range [lo, hi) *)
  Definition sscan (s : smap) (lo hi : bytes) : smap := filter (fun kv => in_range lo hi (fst kv)) s.
  Definition sdelrange (s : smap) (lo hi : bytes) : smap := filter (fun kv => negb (in_range lo hi (fst kv))) s.
End SMap.

Arguments sget {V}. Arguments sset {V}. Arguments sdel {V}. Arguments sscan {V}. Arguments sdelrange {V}.
