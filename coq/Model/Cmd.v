(* storage/table/fsm: the command handlers (command_put.go, command_delete.go, command_txn.go,
   command_sequence.go, command_dummy.go), the lookups of query.go and the chunking iterator of iter.go,
   written ONCE over an abstract ordered store of user keys.  Model/Fsm.v instantiates the store with the
   encoded Pebble key space (what the code does); Model/Spec.v with a plain sorted map (what the
   property speaks about). *)
From Verif Require Export Model.Bytes Model.ProtoSize Generated.Constants.

Inductive mode := MFull | MKeys | MCount.

Record range_req := { rq_key : bytes; rq_end : option bytes; rq_limit : Z; rq_keys_only : bool; rq_count_only : bool }.
Record put_req := { pt_key : bytes; pt_val : bytes; pt_prev : bool }.
Record del_req := { dl_key : bytes; dl_end : option bytes; dl_prev : bool; dl_count : bool }.
Inductive request_op := ORange (r : range_req) | OPut (p : put_req) | ODel (d : del_req) | OUnset.

Inductive cmp_result := CEq | CGt | CLt | CNe.
(* cm_value = None: the target union is unset (existence check only) *)
Record compare := { cm_result : cmp_result; cm_key : bytes; cm_end : option bytes; cm_value : option bytes }.

Inductive command :=
| CPut (k v : bytes) (prev : bool)
| CDelete (k : bytes) (e : option bytes) (prev count : bool)
| CDummy
| CPutBatch (kvs : list (bytes * bytes))
| CDeleteBatch (ks : list bytes)
| CTxn (cmp : list compare) (succ fail : list request_op)
| CSequence (cs : list command).

Record range_resp := { rr_kvs : list (bytes * bytes); rr_more : bool; rr_count : Z }.
Inductive response_op :=
| RRange (r : range_resp)
| RPut (prev : option (bytes * bytes))
| RDel (deleted : Z) (prevs : list (bytes * bytes)).

Definition is_txn (c : command) : bool := match c with CTxn _ _ _ => true | _ => false end.

(* a log entry and what FSM.Update reports for it *)
Record entry := { e_index : N; e_leader : option N; e_cmd : command }.
(* r_data: whether Result.Data carries the marshalled CommandResult (revision + responses) *)
Record result := { r_value : N; r_rev : N; r_resps : list response_op; r_data : bool }.

(* a scenario step and its observable outcome (shared by the implementation-level model and the specification) *)
Inductive step :=
| SApply (es : list entry)                                         (* one FSM.Update call *)
| SRead (r : range_req)                                            (* Lookup of a RequestOp_Range *)
| SIter (r : range_req)                                            (* Lookup(IteratorRequest) *)
| STxnRO (cs : list compare) (succ fail : list request_op)         (* Lookup of a TxnRequest *)
| SIndex                                                           (* Lookup(LocalIndexRequest), Lookup(LeaderIndexRequest) *)
| SReopen.                                                         (* Close+Open, or snapshot save + recover elsewhere *)
Inductive out :=
| OutApply (rs : list result) (notified : N)
| OutRead (r : range_resp)
| OutIter (rs : list range_resp)
| OutTxn (ok : bool) (rs : list response_op)
| OutIndex (local leader : N).

Definition req_mode (r : range_req) : mode :=
  if rq_keys_only r then MKeys else if rq_count_only r then MCount else MFull.

(* ------------------------------------------------------------------------------------------------ *)
(* iter.go: iterate, over the list of pairs inside the bounds, generic in the representation of a pair *)
Section Iter.
  Variable P : Type.
  Variable ksz vsz : P -> N.            (* len(key), len(value) *)
  Variable maxSize : N.                 (* maxRangeSize *)

  Record chunk := { ch_items : list P; ch_count : Z; ch_more : bool }.

  Definition item_size (m : mode) (p : P) : N :=
    match m with MFull => kv_size (ksz p) (vsz p) | MKeys => kv_size (ksz p) 0 | MCount => 0 end.
  (* sizeKVPair / sizeKeyOnly / sizeCountOnly *)
  Definition sf (m : mode) (p : P) : N :=
    match m with MFull => ksz p + vsz p | MKeys => ksz p | MCount => 0 end.
  Definition resp_size (m : mode) (cur : list P) (cnt : Z) : N :=
    range_resp_size (map (item_size m) cur) (Z.to_N cnt).

  (* loop state: i = pairs consumed so far; cur/cnt = response under construction *)
  Fixpoint iter_loop (m : mode) (limit : Z) (ps : list P) (i : Z) (cur : list P) (cnt : Z) : list chunk :=
    match ps with
    | [] => [ {| ch_items := cur; ch_count := cnt; ch_more := false |} ]
    | p :: rest =>
        if (i =? limit)%Z && negb (limit =? 0)%Z then
          (* a further pair exists: it is the one under the iterator *)
          [ {| ch_items := cur; ch_count := cnt; ch_more := true |} ]
        else
          let cut := maxSize <=? resp_size m cur cnt + sf m p in
          let pre := if cut then [ {| ch_items := cur; ch_count := cnt; ch_more := true |} ] else [] in
          let cur0 := if cut then [] else cur in
          let cnt0 := if cut then 0%Z else cnt in
          let cur' := match m with MCount => cur0 | _ => cur0 ++ [p] end in
          let cnt' := (cnt0 + 1)%Z in
          match rest with
          | [] => pre ++ [ {| ch_items := cur'; ch_count := cnt'; ch_more := false |} ]
          | _ :: _ => pre ++ iter_loop m limit rest (i + 1)%Z cur' cnt'
          end
    end.

  Definition iterate (m : mode) (limit : Z) (ps : list P) : list chunk :=
    match ps with
    | [] => [ {| ch_items := []; ch_count := 0%Z; ch_more := false |} ]
    | _ :: _ => iter_loop m limit ps 0%Z [] 0%Z
    end.
End Iter.
Arguments ch_items {P}. Arguments ch_count {P}. Arguments ch_more {P}.

Definition blen (b : bytes) : N := N.of_nat (length b).
Definition pair_ksz (p : bytes * bytes) : N := blen (fst p).
Definition pair_vsz (p : bytes * bytes) : N := blen (snd p).

Definition chunk_to_resp (m : mode) (c : chunk (bytes * bytes)) : range_resp :=
  {| rr_kvs := match m with MKeys => map (fun p => (fst p, [])) (ch_items c) | _ => ch_items c end;
     rr_more := ch_more c; rr_count := ch_count c |}.

Definition empty_resp : range_resp := {| rr_kvs := []; rr_more := false; rr_count := 0%Z |}.

(* command_sequence.go as a fold over an arbitrary handler (used to reason about the nested recursion of [handle]) *)
Fixpoint seq_fold {St : Type} (h : St -> command -> St * (N * list response_op)) (s : St) (cs : list command)
  : St * list response_op :=
  match cs with
  | [] => (s, [])
  | c :: rest =>
      let '(s1, (_, r1)) := h s c in
      let '(s', rs) := seq_fold h s1 rest in (s', r1 ++ rs)
  end.

(* ------------------------------------------------------------------------------------------------ *)
Section Handlers.
  Variable St : Type.
  Variable st_get : St -> bytes -> option bytes.
  Variable st_set : St -> bytes -> bytes -> St.
  Variable st_del : St -> bytes -> St.
  (* [lo, hi) in user key space; hi = the wildcard means "no upper end" *)
  Variable st_delrange : St -> bytes -> bytes -> St.
  Variable st_scan : St -> bytes -> bytes -> list (bytes * bytes).

  (* query.go: iterate / rangeLookup / singleLookup / lookup / iteratorLookup *)
  Definition iterate_req (s : St) (key hi : bytes) (r : range_req) : list range_resp :=
    map (chunk_to_resp (req_mode r))
        (iterate (bytes * bytes) pair_ksz pair_vsz fsm_maxRangeSize (req_mode r) (rq_limit r) (st_scan s key hi)).

  Definition range_lookup (s : St) (hi : bytes) (r : range_req) : range_resp :=
    hd empty_resp (iterate_req s (rq_key r) hi r).

  Definition single_lookup (s : St) (r : range_req) : range_resp :=
    match st_get s (rq_key r) with
    | None => empty_resp
    | Some v =>
        {| rr_kvs := if rq_count_only r then []
                     else [(rq_key r, if rq_keys_only r || rq_count_only r then [] else v)];
           rr_more := false; rr_count := 1%Z |}
    end.

  Definition lookup (s : St) (r : range_req) : range_resp :=
    match rq_end r with
    | Some hi => range_lookup s hi r
    | None => single_lookup s r
    end.

  Definition iterator_lookup (s : St) (r : range_req) : list range_resp :=
    match rq_end r with
    | Some hi => iterate_req s (rq_key r) hi r
    | None => [single_lookup s r]
    end.

  Definition plain_req (k : bytes) (e : option bytes) (count_only : bool) : range_req :=
    {| rq_key := k; rq_end := e; rq_limit := 0%Z; rq_keys_only := false; rq_count_only := count_only |}.

  (* command_put.go: handlePut *)
  Definition handle_put (s : St) (p : put_req) : St * response_op :=
    let prev :=
      if pt_prev p then
        match rr_kvs (single_lookup s (plain_req (pt_key p) None false)) with
        | [kv] => Some kv
        | _ => None
        end
      else None in
    (st_set s (pt_key p) (pt_val p), RPut prev).

  (* command_delete.go: handleDelete *)
  Definition handle_delete (s : St) (d : del_req) : St * response_op :=
    let rd :=
      if dl_prev d || dl_count d then
        let r := lookup s (plain_req (dl_key d) (dl_end d) (dl_count d && negb (dl_prev d))) in
        RDel (rr_count r) (rr_kvs r)
      else RDel 0%Z [] in
    match dl_end d with
    | Some hi => (st_delrange s (dl_key d) hi, rd)
    | None => (st_del s (dl_key d), rd)
    end.

  (* command_txn.go: txnCompareSingle / txnCompare / handleTxnOps / handleTxn *)
  Definition cmp_single (c : compare) (value : bytes) : bool :=
    match cm_value c with
    | None => true
    | Some t =>
        match cm_result c with
        | CEq => beqb value t
        | CNe => negb (beqb value t)
        | CGt => match lex_compare value t with Gt => true | _ => false end
        | CLt => match lex_compare value t with Lt => true | _ => false end
        end
    end.

  Definition compare_one (s : St) (c : compare) : bool :=
    match cm_end c with
    | Some hi =>
        match st_scan s (cm_key c) hi with
        | [] => false
        | ps => forallb (fun p => cmp_single c (snd p)) ps
        end
    | None =>
        match st_get s (cm_key c) with
        | None => false
        | Some v => cmp_single c v
        end
    end.

  Definition txn_compare (s : St) (cs : list compare) : bool := forallb (compare_one s) cs.

  Fixpoint txn_ops (s : St) (ops : list request_op) : St * list response_op :=
    match ops with
    | [] => (s, [])
    | op :: rest =>
        match op with
        | ORange r => let '(s', rs) := txn_ops s rest in (s', RRange (lookup s r) :: rs)
        | OPut p => let '(s1, r1) := handle_put s p in let '(s', rs) := txn_ops s1 rest in (s', r1 :: rs)
        | ODel d => let '(s1, r1) := handle_delete s d in let '(s', rs) := txn_ops s1 rest in (s', r1 :: rs)
        | OUnset => txn_ops s rest
        end
    end.

  Definition handle_txn (s : St) (cs : list compare) (succ fail : list request_op) : St * (bool * list response_op) :=
    let ok := txn_compare s cs in
    let '(s', rs) := txn_ops s (if ok then succ else fail) in
    (s', (ok, rs)).

  Fixpoint put_batch (s : St) (kvs : list (bytes * bytes)) : St * list response_op :=
    match kvs with
    | [] => (s, [])
    | (k, v) :: rest =>
        let '(s1, r1) := handle_put s {| pt_key := k; pt_val := v; pt_prev := false |} in
        let '(s', rs) := put_batch s1 rest in (s', r1 :: rs)
    end.

  Fixpoint delete_batch (s : St) (ks : list bytes) : St * list response_op :=
    match ks with
    | [] => (s, [])
    | k :: rest =>
        let '(s1, r1) := handle_delete s {| dl_key := k; dl_end := None; dl_prev := false; dl_count := false |} in
        let '(s', rs) := delete_batch s1 rest in (s', r1 :: rs)
    end.

  (* command.handle for every command type: new store, UpdateResult, responses *)
  Fixpoint handle (s : St) (c : command) : St * (N * list response_op) :=
    match c with
    | CPut k v prev =>
        let '(s', r) := handle_put s {| pt_key := k; pt_val := v; pt_prev := prev |} in
        (s', (fsm_ResultSuccess, [r]))
    | CDelete k e prev count =>
        let '(s', r) := handle_delete s {| dl_key := k; dl_end := e; dl_prev := prev; dl_count := count |} in
        (s', (fsm_ResultSuccess, [r]))
    | CDummy => (s, (fsm_ResultSuccess, []))
    | CPutBatch kvs => let '(s', rs) := put_batch s kvs in (s', (fsm_ResultSuccess, rs))
    | CDeleteBatch ks => let '(s', rs) := delete_batch s ks in (s', (fsm_ResultSuccess, rs))
    | CTxn cs succ fail =>
        let '(s', (ok, rs)) := handle_txn s cs succ fail in
        (s', (if ok then fsm_ResultSuccess else fsm_ResultFailure, rs))
    | CSequence cs =>
        let '(s', rs) :=
          (fix seq (s : St) (cs : list command) : St * list response_op :=
             match cs with
             | [] => (s, [])
             | c :: rest =>
                 let '(s1, (_, r1)) := handle s c in
                 let '(s', rs) := seq s1 rest in (s', r1 ++ rs)
             end) s cs in
        (s', (fsm_ResultSuccess, rs))
    end.

  (* FSM.Lookup of a TxnRequest: the read-only path (only reached when every operation is a range read) *)
  Definition lookup_txn (s : St) (cs : list compare) (succ fail : list request_op) : bool * list response_op :=
    let ok := txn_compare s cs in
    (ok, map (fun op => RRange (match op with ORange r => lookup s r | _ => lookup s (plain_req [] None false) end))
             (if ok then succ else fail)).
End Handlers.
