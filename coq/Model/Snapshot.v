(* In-cluster snapshots of a table replica: storage/table/fsm/fsm.go PrepareSnapshot / SaveSnapshot /
   RecoverFromSnapshot, snapshot_snapshot.go, snapshot_checkpoint.go.

   The body of a snapshot stream is Pebble's own data (SST files of a pinned Pebble snapshot, or the tar of a
   flushed checkpoint directory) and is not modelled byte by byte: a stream is the 8-byte header regatta writes plus
   the store value the saver pinned at prepare time.  What regatta adds, and what is modelled: the header that picks
   the recoverer on the receiving side, the fact that the pinned value does not move with later writes, the
   all-or-nothing install (Model/DirProto.v HRecover / HRecoverStop) and the reader handles of the DB generations. *)
From Verif Require Export Model.Bytes.

Inductive sfmt := FSnapshot | FCheckpoint.
Definition fmt_code (f : sfmt) : N := match f with FSnapshot => 0 | FCheckpoint => 1 end.
(* snapshotHeader: bytes 0-5 reserved, byte 6 the format, byte 7 a sentinel *)
Definition snap_header (f : sfmt) : bytes := [0; 0; 0; 0; 0; 0; fmt_code f; 0].
(* RecoverFromSnapshot reads 8 bytes and picks the recoverer by byte 6 (getRecoverer panics on other values: None) *)
Definition parse_header (b : bytes) : option sfmt :=
  match b with
  | [_; _; _; _; _; _; c; _] => if c =? 0 then Some FSnapshot else if c =? 1 then Some FCheckpoint else None
  | _ => None
  end.

Section Replica.
  Variable S : Type.                           (* a store value: content, applied index, leader index *)

  Definition prepare (s : S) : S := s.         (* pebble.NewSnapshot / Flush + Checkpoint: an immutable view *)
  Definition save (f : sfmt) (pinned : S) : bytes * S := (snap_header f, pinned).
  (* SaveSnapshot with its stop signal and its sink: a save that is stopped, or whose sink fails, reports an error and
     yields no stream (whatever bytes reached the sink are not a snapshot) *)
  Inductive save_outcome := SaveDone (str : bytes * S) | SaveError.
  Definition save_to (f : sfmt) (pinned : S) (stopped sink_failed : bool) : save_outcome :=
    if stopped || sink_failed then SaveError else SaveDone (save f pinned).
  (* the receiver's configured format plays no role: the header decides; the old state is replaced as a whole *)
  Definition recover (cfg : sfmt) (old : S) (str : bytes * S) : option S :=
    match parse_header (fst str) with Some _ => Some (snd str) | None => None end.

  (* DB generations and reader handles: a reader captures the handle of the generation it started on *)
  Record rep := { r_store : S; r_gen : nat }.
  Record reader := { rd_gen : nat; rd_view : S }.
  Definition read_start (r : rep) : reader := {| rd_gen := r_gen r; rd_view := r_store r |}.
  Definition install (r : rep) (s : S) : rep := {| r_store := s; r_gen := Datatypes.S (r_gen r) |}.
  Definition write (r : rep) (f : S -> S) : rep := {| r_store := f (r_store r); r_gen := r_gen r |}.
  (* consuming: data of the captured view while its generation is open, a clean failure afterwards *)
  Definition read_next (r : rep) (rd : reader) : option S :=
    if Nat.eqb (rd_gen rd) (r_gen r) then Some (rd_view rd) else None.
  (* a sequence that was handed out but not started yet (FSM.Lookup(IteratorRequest) returns a lazy sequence) takes
     its handle when it is consumed, from the replica as it is then (repaired code: currentDB in fsm.go) *)
  Definition lazy_consume (r_when_consumed : rep) : option S := read_next r_when_consumed (read_start r_when_consumed).
End Replica.
