(* replication/backup/backup.go Backup.Restore: the client walks the manifest in order; for each table it hashes the
   backup file, compares with the manifest entry and only then uploads the file (Maintenance.Restore); the first
   mismatch ends the run with an error.  [hash] is MD5 in the code; the theorems need nothing about it. *)
From Verif Require Export Model.Bytes.

Record btab := { b_name : N; b_file : bytes; b_sum : N }.      (* manifest entry (name, checksum) and the file found *)

Section Gate.
  Variable hash : bytes -> N.
  Definition matches (t : btab) : bool := hash (b_file t) =? b_sum t.
  (* the uploads made, in order, and whether the run reported success *)
  Fixpoint restore_client (ts : list btab) : list (N * bytes) * bool :=
    match ts with
    | [] => ([], true)
    | t :: r => if matches t then let '(u, ok) := restore_client r in ((b_name t, b_file t) :: u, ok) else ([], false)
    end.
End Gate.

(* what the harness observes: per manifest position whether the file matches; per table whether it was replaced *)
Fixpoint uploaded_flags (ms : list bool) : list bool :=
  match ms with
  | [] => []
  | true :: r => true :: uploaded_flags r
  | false :: r => false :: map (fun _ => false) r
  end.
