(* storage/table/manager.go LeaseTable / ReturnTable over the metadata store (storage/kv): each call is a store Get,
   a decision at the node's current time, and a compare-and-set write applied later.  Nodes interleave at the
   granularity of individual store operations; time is one global non-decreasing clock. *)
From Verif Require Export Model.Bytes.

Record lrec := { lid : nat; luntil : N; lver : N }.      (* holder node, lease end, version (= log index of the write) *)

Inductive pc :=
| Idle
| PendSet (seen : option lrec) (until : N)               (* LeaseTable: Set(me, until, seen version) in flight *)
| PendDel (seen : lrec).                                 (* ReturnTable: Delete(seen version) in flight *)

Record lst := {
  rec : option lrec;
  nexti : N;                                             (* next log index; every applied proposal consumes one *)
  now : N;
  pcs : nat -> pc;
  grant : nat -> option N                                (* ghost: end of the node's last successful, unreturned lease *)
}.

Definition upd {A} (f : nat -> A) (n : nat) (v : A) : nat -> A := fun m => if Nat.eqb m n then v else f m.
Definition seen_ver (s : option lrec) : N := match s with Some r => lver r | None => 0 end.
(* LFSM.Update: the supplied version must be the key's current one; a key that does not exist has version 0 *)
Definition cas_ok (r : option lrec) (v : N) : bool := match r with Some x => lver x =? v | None => v =? 0 end.

(* may node n take the lease, having read [seen] at time t?  unclaimed, its own, or expired (Until.Before(now)) *)
Definition may_take (n : nat) (seen : option lrec) (t : N) : bool :=
  match seen with None => true | Some r => Nat.eqb (lid r) n || (luntil r <? t) end.

(* ---- executable semantics: one store operation of one node per action ---- *)
Inductive action :=
| ATick (d : N)
| ALease (n : nat) (dur : N) (expired : bool)    (* Get + decision; expired: a lease duration that is already over *)
| AReturn (n : nat)                              (* Get + decision of ReturnTable *)
| AApply (n : nat).                              (* the node's pending write reaches the store *)

Inductive aresult := RNone | RAcquired | RRefused | RFailed | RReturned (b : bool).

Definition lexec (s : lst) (a : action) : lst * aresult :=
  match a with
  | ATick d => ({| rec := rec s; nexti := nexti s; now := now s + d; pcs := pcs s; grant := grant s |}, RNone)
  | ALease n dur expired =>
      match pcs s n with
      | Idle =>
          if may_take n (rec s) (now s)
          then ({| rec := rec s; nexti := nexti s; now := now s;
                   pcs := upd (pcs s) n (PendSet (rec s) (if expired then now s - dur else now s + dur)); grant := grant s |}, RNone)
          else (s, RRefused)
      | _ => (s, RNone)
      end
  | AReturn n =>
      match pcs s n with
      | Idle =>
          match rec s with
          | Some r => if Nat.eqb (lid r) n
                      then ({| rec := rec s; nexti := nexti s; now := now s; pcs := upd (pcs s) n (PendDel r); grant := grant s |}, RNone)
                      else (s, RReturned false)
          | None => (s, RReturned false)
          end
      | _ => (s, RNone)
      end
  | AApply n =>
      match pcs s n with
      | PendSet seen u =>
          if cas_ok (rec s) (seen_ver seen)
          then ({| rec := Some {| lid := n; luntil := u; lver := nexti s |}; nexti := nexti s + 1; now := now s;
                   pcs := upd (pcs s) n Idle; grant := upd (grant s) n (Some u) |}, RAcquired)
          else ({| rec := rec s; nexti := nexti s + 1; now := now s; pcs := upd (pcs s) n Idle; grant := grant s |}, RFailed)
      | PendDel r =>
          if cas_ok (rec s) (lver r)
          then ({| rec := None; nexti := nexti s + 1; now := now s; pcs := upd (pcs s) n Idle; grant := upd (grant s) n None |}, RReturned true)
          else ({| rec := rec s; nexti := nexti s + 1; now := now s; pcs := upd (pcs s) n Idle; grant := grant s |}, RFailed)
      | Idle => (s, RNone)
      end
  end.

Definition lst0 : lst := {| rec := None; nexti := 1; now := 1000; pcs := fun _ => Idle; grant := fun _ => None |}.

Fixpoint lrun (s : lst) (acts : list action) : lst * list aresult :=
  match acts with
  | [] => (s, [])
  | a :: r => let '(s1, o) := lexec s a in let '(s2, os) := lrun s1 r in (s2, o :: os)
  end.

(* node n holds an unexpired lease *)
Definition holder (s : lst) (n : nat) : Prop := exists u, grant s n = Some u /\ now s <= u.
