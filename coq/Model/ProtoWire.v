(* The protobuf wire format as the vtprotobuf-generated codecs (regattapb/*_vtproto.pb.go) write and read it:
   base-128 varints, tags, length-delimited fields, fixed 32/64-bit fields; a message is a list of fields. *)
From Verif Require Export Model.Bytes.

(* protohelpers.EncodeVarint (fuel 10 covers 64 bits) *)
Fixpoint varint_enc (fuel : nat) (x : N) : bytes :=
  match fuel with
  | O => []
  | S f => if x <? 128 then [x] else (x mod 128 + 128) :: varint_enc f (x / 128)
  end.

(* the decoding loop of every UnmarshalVT: None = truncated input or more than fuel bytes (ErrIntOverflow) *)
Fixpoint varint_dec (fuel : nat) (s : bytes) : option (N * bytes) :=
  match fuel with
  | O => None
  | S f =>
      match s with
      | [] => None
      | b :: r =>
          if b <? 128 then Some (b, r)
          else match varint_dec f r with
               | Some (v, r') => Some ((b - 128) + 128 * v, r')
               | None => None
               end
      end
  end.

Inductive wval := WVarint (v : N) | WFixed64 (b : bytes) | WBytes (b : bytes) | WFixed32 (b : bytes).
Definition wtype (v : wval) : N := match v with WVarint _ => 0 | WFixed64 _ => 1 | WBytes _ => 2 | WFixed32 _ => 5 end.
Definition field := (N * wval)%type.               (* field number, value *)

Definition field_enc (f : field) : bytes :=
  varint_enc 10 (fst f * 8 + wtype (snd f)) ++
  match snd f with
  | WVarint v => varint_enc 10 v
  | WFixed64 b => b
  | WBytes b => varint_enc 10 (N.of_nat (length b)) ++ b
  | WFixed32 b => b
  end.
Definition msg_enc (fs : list field) : bytes := concat (map field_enc fs).

Definition take (n : nat) (s : bytes) : option (bytes * bytes) :=
  if (length s <? n)%nat then None else Some (firstn n s, skipn n s).

Fixpoint msg_dec (fuel : nat) (s : bytes) : option (list field) :=
  match s with
  | [] => Some []
  | _ =>
      match fuel with
      | O => None
      | S f =>
          match varint_dec 10 s with
          | None => None
          | Some (tag, r) =>
              let num := tag / 8 in
              let fld :=
                match tag mod 8 with
                | 0 => match varint_dec 10 r with Some (v, r') => Some (WVarint v, r') | None => None end
                | 1 => match take 8 r with Some (b, r') => Some (WFixed64 b, r') | None => None end
                | 2 => match varint_dec 10 r with
                       | Some (l, r1) => match take (N.to_nat l) r1 with Some (b, r') => Some (WBytes b, r') | None => None end
                       | None => None
                       end
                | 5 => match take 4 r with Some (b, r') => Some (WFixed32 b, r') | None => None end
                | _ => None
                end in
              match fld with
              | Some (v, r') => match msg_dec f r' with Some fs => Some ((num, v) :: fs) | None => None end
              | None => None
              end
          end
      end
  end.

(* decoding into a pooled object: the generated code of the stream readers resets the object first, so what is left
   in it from an earlier use cannot show through *)
Definition decode_into (_old : list field) (fuel : nat) (s : bytes) : option (list field) := msg_dec fuel s.
