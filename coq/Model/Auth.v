(* cmd/common.go authFunc + the go-grpc-middleware auth interceptor (AuthFromMD, ServiceAuthFuncOverride), and
   security/tls.go TLSInfo.ServerConfig / VerifyPeerCertificate: regatta's own decision logic.  What crypto/tls and
   crypto/x509 do (chain building, hostname matching) enters as parameters. *)
From Verif Require Export Model.Bytes.

(* ---- bearer tokens ---- *)
Definition lower (b : N) : N := if (65 <=? b) && (b <=? 90) then b + 32 else b.
Definition eq_fold (a b : bytes) : bool := beqb (map lower a) (map lower b).        (* strings.EqualFold on ASCII *)
Definition bearer : bytes := [98; 101; 97; 114; 101; 114].

(* strings.Cut(val, " ") *)
Fixpoint cut_space (s : bytes) : option (bytes * bytes) :=
  match s with
  | [] => None
  | c :: r => if c =? 32 then Some ([], r)
              else match cut_space r with Some (a, b) => Some (c :: a, b) | None => None end
  end.

(* AuthFromMD(ctx, "bearer"): the token of the authorization header; None = Unauthenticated *)
Definition auth_from_md (header : option bytes) : option bytes :=
  match header with
  | None => None
  | Some [] => None
  | Some val => match cut_space val with
                | Some (scheme, tok) => if eq_fold scheme bearer then Some tok else None
                | None => None
                end
  end.

(* authFunc(token): true = the call proceeds, false = Unauthenticated *)
Definition auth_func (token : bytes) (header : option bytes) : bool :=
  match token with
  | [] => true
  | _ => match auth_from_md header with Some t => beqb token t | None => false end
  end.

(* the interceptor: a service with an override is governed by its own token, every other service by the default *)
Definition intercept (override : option bytes (* the service's token, if it implements AuthFuncOverride *))
           (header : option bytes) : bool :=
  match override with
  | Some tok => auth_func tok header
  | None => auth_func [] header
  end.

(* ---- TLS ---- *)
Record tls_opts := { o_trusted_ca : bool; o_client_cert_auth : bool; o_allowed_cn : bytes; o_allowed_hostname : bytes }.
Inductive client_auth := NoClientCert | RequireAndVerifyClientCert.
Inductive cfg_result := CfgError | Cfg (mode : client_auth) (verify_peer : bool).   (* verify_peer: VerifyPeerCertificate installed *)

Definition server_config (o : tls_opts) : cfg_result :=
  match o_allowed_cn o, o_allowed_hostname o with
  | _ :: _, _ :: _ => CfgError                       (* mutually exclusive *)
  | cn, hn =>
      Cfg (if o_trusted_ca o || o_client_cert_auth o then RequireAndVerifyClientCert else NoClientCert)
          (match cn, hn with [], [] => false | _, _ => true end)
  end.

(* a client certificate as regatta's callback sees it after crypto/tls verified the chains:
   the leaf certificates of the verified chains, in order *)
Record leaf := { l_cn : bytes; l_valid_for : bytes -> bool (* x509 VerifyHostname *) }.

Definition verify_peer (o : tls_opts) (verified_leaves : list leaf) : bool :=
  match verified_leaves with
  | [] => false                                       (* "client certificate authentication failed" *)
  | l :: _ =>
      match o_allowed_hostname o with
      | _ :: _ => l_valid_for l (o_allowed_hostname o)
      | [] => beqb (o_allowed_cn o) (l_cn l)
      end
  end.

(* the connection is accepted (as far as regatta's configuration decides): chains_ok = crypto/tls found a chain to
   the trusted CA (required in RequireAndVerify mode) *)
Definition accepts (o : tls_opts) (presented : bool) (chains_ok : bool) (verified_leaves : list leaf) : bool :=
  match server_config o with
  | CfgError => false
  | Cfg mode vp =>
      match mode with
      | RequireAndVerifyClientCert => presented && chains_ok && (if vp then verify_peer o verified_leaves else true)
      | NoClientCert => true     (* no certificate is requested, so the peer verification callback never runs *)
      end
  end.
