(* Leader-to-follower replication of one table: replication/worker.go (do, proposeBatch, recover) against
   regattaserver/replication.go (LogServer.Replicate, SnapshotServer.Stream) and the follower's state machine
   (SEQUENCE applied atomically with its leader index, storage/table/fsm/command_sequence.go, command.go Commit).

   The leader ships EVERY log entry of the table's shard, non-command entries as DUMMY commands, each labelled with
   its own log index (entryToCommand); what the stream carries for a request is C06's theorem (exactly the entries
   from the requested index on, in non-empty batches).  The worker has no state of its own: each poll reads the
   follower table's recorded leader index r, asks for r+1, and proposes what it receives as SEQUENCE commands, each
   tagged with the leader index of its last entry; a proposal is atomic in the follower's state machine (C03).
   [APoll n sizes]: the stream delivered (and the worker managed to propose) the n entries after r, cut into
   chunks of the given sizes (any cutting: desiredProposalSize, message size limits, an early end of the stream,
   a proposal error all only change n and the sizes).  [ARecover]: the leader answered USE_SNAPSHOT; the table is
   replaced by the leader's state as of its applied index together with that index (C07 for the transport).
   ASSUMED (stated as the guard [r = f_lidx]): a poll acts on the follower's current leader index - one worker at a
   time (C15) whose previous proposals have all been applied or have definitely failed.  [APollStale] is what happens
   without it; it is refuted in Mutants/ReplicationMutants.v. *)
From Coq Require Export List Arith Bool Lia.
Export ListNotations.

Section Repl.
  Variables (S C : Type) (app : S -> C -> S) (init : S).

  (* the leader's state as of log index i *)
  Definition state_at (L : list C) (i : nat) : S := fold_left app (firstn i L) init.

  Record fol := { f_store : S; f_lidx : nat }.
  Definition apply_seq (f : fol) (cs : list C) (tag : nat) : fol :=
    {| f_store := fold_left app cs (f_store f); f_lidx := tag |}.

  (* proposeBatch: consecutive non-empty chunks, each tagged with the index of its last entry *)
  Fixpoint propose (f : fol) (es : list C) (sizes : list nat) : fol :=
    match es with
    | [] => f
    | _ :: _ =>
        match sizes with
        | [] => apply_seq f es (f_lidx f + length es)
        | k :: ks => let c := firstn (Datatypes.S k) es in
                     propose (apply_seq f c (f_lidx f + length c)) (skipn (Datatypes.S k) es) ks
        end
    end.

  Record sys := { s_log : list C; s_marker : nat; s_fol : fol }.

  Inductive act :=
  | ALeader (c : C)                      (* the leader applies one more log entry *)
  | ACompact (m : nat)                   (* the leader compacts its log up to m *)
  | APoll (n : nat) (sizes : list nat)
  | ARecover
  | APollStale (r n : nat).              (* a poll acting on a leader index read earlier: outside the guarantee *)

  Definition step (s : sys) (a : act) : sys :=
    match a with
    | ALeader c => {| s_log := s_log s ++ [c]; s_marker := s_marker s; s_fol := s_fol s |}
    | ACompact m => {| s_log := s_log s; s_marker := Nat.max (s_marker s) (Nat.min m (length (s_log s))); s_fol := s_fol s |}
    | APoll n sizes =>
        let r := f_lidx (s_fol s) in
        if r <? s_marker s then s                                  (* USE_SNAPSHOT: nothing is proposed *)
        else {| s_log := s_log s; s_marker := s_marker s;
                s_fol := propose (s_fol s) (firstn n (skipn r (s_log s))) sizes |}
    | ARecover =>
        {| s_log := s_log s; s_marker := s_marker s;
           s_fol := {| f_store := state_at (s_log s) (length (s_log s)); f_lidx := length (s_log s) |} |}
    | APollStale r n =>
        {| s_log := s_log s; s_marker := s_marker s;
           s_fol := propose {| f_store := f_store (s_fol s); f_lidx := r |} (firstn n (skipn r (s_log s))) [] |}
    end.
  Definition sys0 : sys := {| s_log := []; s_marker := 0; s_fol := {| f_store := init; f_lidx := 0 |} |}.
  Definition run (acts : list act) : sys := fold_left step acts sys0.
  Definition guarded (a : act) : bool := match a with APollStale _ _ => false | _ => true end.

  Definition Inv (s : sys) : Prop :=
    f_store (s_fol s) = state_at (s_log s) (f_lidx (s_fol s)) /\ f_lidx (s_fol s) <= length (s_log s).

  (* ---- explaining a follower's own log: the proposals that made a table what it is ---- *)
  Variable ceq : C -> C -> bool.
  Inductive fprop :=
  | PSeq (tag : option nat) (cs : list C)     (* SEQUENCE proposed by the worker *)
  | PRestore (tag : option nat)               (* PUT_BATCH of a restore; the last one carries the snapshot's index *)
  | POther (tag : option nat).
  Fixpoint list_eqb (a b : list C) : bool :=
    match a, b with
    | [], [] => true
    | x :: a', y :: b' => ceq x y && list_eqb a' b'
    | _, _ => false
    end.
  Fixpoint follows (L : list C) (cur : nat) (ps : list fprop) : option nat :=
    match ps with
    | [] => Some cur
    | PSeq (Some t) cs :: r =>
        if list_eqb cs (firstn (length cs) (skipn cur L)) && Nat.eqb t (cur + length cs) && Nat.leb 1 (length cs) &&
           Nat.leb (cur + length cs) (length L)
        then follows L (cur + length cs) r else None
    | PRestore None :: r => follows L cur r
    | PRestore (Some t) :: r => if Nat.leb cur t && Nat.leb t (length L) then follows L t r else None
    | _ => None
    end.
  (* what the proposals do to the state (a tagged restore batch completes the snapshot of the leader at its index) *)
  Fixpoint replay (L : list C) (f : fol) (ps : list fprop) : fol :=
    match ps with
    | [] => f
    | PSeq (Some t) cs :: r => replay L (apply_seq f cs t) r
    | PRestore (Some t) :: r => replay L {| f_store := state_at L t; f_lidx := t |} r
    | _ :: r => replay L f r
    end.
End Repl.
