(* storage/table/manager.go: the table catalogue in the metadata store - createTable, incAndGetIDSeq, DeleteTable,
   getTables, diffTables - as programs of single store operations that several managers interleave.
   Table names are path segments (no '/'): the record key "/tables/<name>" never aliases the id sequence key
   "/tables/sys/idseq" or a lease key "/tables/<name>/lease". *)
From Verif Require Export Model.Bytes Generated.Constants.

Record trec := { t_cluster : N; t_recover : N }.
Definition start_id : N := table_tableIDsRangeStart.

Inductive cpc :=
| CIdle
| CCreate1 (name : N)                      (* Exists answered false; next: Get of the id sequence *)
| CCreate2 (name : N) (v ver : N)          (* sequence read (value, version); next: Set sequence v+1 with ver *)
| CCreate3 (name : N) (id : N)             (* sequence advanced to id; next: Set record with version 0 *)
| CDelete1 (name : N) (ver : N).           (* record read; next: Delete with ver *)

Record cst := {
  c_seq : option (N * N);                  (* id sequence record: value, version *)
  c_tabs : list (N * (trec * N));          (* table records by name: record, version *)
  c_next : N;                              (* next log index of the metadata store *)
  c_pcs : list cpc;                        (* one program counter per manager *)
  c_created : list N                       (* ghost: ids of successfully created tables, newest first *)
}.

Fixpoint tget (l : list (N * (trec * N))) (k : N) : option (trec * N) :=
  match l with [] => None | (k', v) :: r => if k' =? k then Some v else tget r k end.
Fixpoint tdel (l : list (N * (trec * N))) (k : N) : list (N * (trec * N)) :=
  match l with [] => [] | (k', v) :: r => if k' =? k then tdel r k else (k', v) :: tdel r k end.
Definition tset (l : list (N * (trec * N))) (k : N) (v : trec * N) := (k, v) :: tdel l k.

Fixpoint set_pc (l : list cpc) (m : nat) (p : cpc) : list cpc :=
  match l, m with
  | [], _ => []
  | _ :: r, O => p :: r
  | x :: r, S m' => x :: set_pc r m' p
  end.
Definition get_pc (l : list cpc) (m : nat) : cpc := nth m l CIdle.

Inductive caction :=
| ACreate (m : nat) (name : N)             (* start CreateTable: the Exists operation *)
| ADelete (m : nat) (name : N)             (* start DeleteTable: the Get operation *)
| AStep (m : nat)                          (* the manager's next store operation *)
| AList (m : nat).                         (* GetTables: one GetAll *)

Inductive cresult := CRNone | CRCreated (id : N) | CRExists | CRFailed | CRDeleted | CRNotFound | CRList (l : list (N * N)).

Definition with_pc (s : cst) (m : nat) (p : cpc) : cst :=
  {| c_seq := c_seq s; c_tabs := c_tabs s; c_next := c_next s; c_pcs := set_pc (c_pcs s) m p; c_created := c_created s |}.

(* LFSM.Update: the version is compared only when the key exists *)
Definition cas_seq (s : cst) (ver : N) : bool := match c_seq s with Some (_, w) => w =? ver | None => true end.
Definition cas_tab (s : cst) (name ver : N) : bool := match tget (c_tabs s) name with Some (_, w) => w =? ver | None => true end.

Definition cexec (s : cst) (a : caction) : cst * cresult :=
  match a with
  | ACreate m name =>
      match get_pc (c_pcs s) m with
      | CIdle => match tget (c_tabs s) name with
                 | Some _ => (s, CRExists)
                 | None => (with_pc s m (CCreate1 name), CRNone)
                 end
      | _ => (s, CRNone)
      end
  | ADelete m name =>
      match get_pc (c_pcs s) m with
      | CIdle => match tget (c_tabs s) name with
                 | Some (_, ver) => (with_pc s m (CDelete1 name ver), CRNone)
                 | None => (s, CRNotFound)
                 end
      | _ => (s, CRNone)
      end
  | AList m =>
      match get_pc (c_pcs s) m with
      | CIdle => (s, CRList (map (fun kv => (fst kv, t_cluster (fst (snd kv)))) (c_tabs s)))
      | _ => (s, CRNone)
      end
  | AStep m =>
      match get_pc (c_pcs s) m with
      | CIdle => (s, CRNone)
      | CCreate1 name =>
          (match c_seq s with
           | Some (v, ver) => with_pc s m (CCreate2 name v ver)
           | None => with_pc s m (CCreate2 name start_id 0)
           end, CRNone)
      | CCreate2 name v ver =>
          if cas_seq s ver
          then ({| c_seq := Some (v + 1, c_next s); c_tabs := c_tabs s; c_next := c_next s + 1;
                   c_pcs := set_pc (c_pcs s) m (CCreate3 name (v + 1)); c_created := c_created s |}, CRNone)
          else ({| c_seq := c_seq s; c_tabs := c_tabs s; c_next := c_next s + 1;
                   c_pcs := set_pc (c_pcs s) m CIdle; c_created := c_created s |}, CRFailed)
      | CCreate3 name id =>
          if cas_tab s name 0
          then ({| c_seq := c_seq s; c_tabs := tset (c_tabs s) name ({| t_cluster := id; t_recover := 0 |}, c_next s);
                   c_next := c_next s + 1; c_pcs := set_pc (c_pcs s) m CIdle; c_created := id :: c_created s |}, CRCreated id)
          else ({| c_seq := c_seq s; c_tabs := c_tabs s; c_next := c_next s + 1;
                   c_pcs := set_pc (c_pcs s) m CIdle; c_created := c_created s |}, CRExists)
      | CDelete1 name ver =>
          if cas_tab s name ver
          then ({| c_seq := c_seq s; c_tabs := tdel (c_tabs s) name; c_next := c_next s + 1;
                   c_pcs := set_pc (c_pcs s) m CIdle; c_created := c_created s |}, CRDeleted)
          else ({| c_seq := c_seq s; c_tabs := c_tabs s; c_next := c_next s + 1;
                   c_pcs := set_pc (c_pcs s) m CIdle; c_created := c_created s |}, CRFailed)
      end
  end.

Definition cst0 (managers : nat) : cst :=
  {| c_seq := None; c_tabs := []; c_next := 1; c_pcs := repeat CIdle managers; c_created := [] |}.

Fixpoint crun (s : cst) (acts : list caction) : cst * list cresult :=
  match acts with
  | [] => (s, [])
  | a :: r => let '(s1, o) := cexec s a in let '(s2, os) := crun s1 r in (s2, o :: os)
  end.

(* ---- diffTables: what reconciliation starts and stops ---- *)
Definition catalogued_ids (tabs : list trec) : list N :=
  flat_map (fun t => (if t_cluster t =? 0 then [] else [t_cluster t]) ++ (if t_recover t =? 0 then [] else [t_recover t])) tabs.
Definition memN (x : N) (l : list N) : bool := existsb (N.eqb x) l.
Definition to_start (tabs : list trec) (running : list N) : list N :=
  filter (fun id => negb (memN id running) && (start_id <? id)) (catalogued_ids tabs).
Definition to_stop (tabs : list trec) (running : list N) : list N :=
  filter (fun id => negb (memN id (catalogued_ids tabs)) && (start_id <? id)) running.

(* ---- the data of the tables: one state machine (directory "<name>-<id>") per shard id ---- *)
Definition family (V : Type) := N -> V.
Definition fam_update {V} (f : family V) (id : N) (v : V) : family V := fun j => if j =? id then v else f j.
