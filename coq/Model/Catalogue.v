(* storage/table/manager.go: the table catalogue in the metadata store - createTable, incAndGetIDSeq, DeleteTable,
   Restore, getTables, diffTables - as programs of single store operations that several managers interleave.
   Table names are path segments (no '/'): the record key "/tables/<name>" never aliases the id sequence key
   "/tables/sys/idseq" or a lease key "/tables/<name>/lease". *)
From Verif Require Export Model.Bytes Generated.Constants.

Record trec := { t_cluster : N; t_recover : N }.
Definition start_id : N := table_tableIDsRangeStart.

Inductive cpc :=
| CIdle
| CCreate1 (name : N)                      (* Exists answered false; next: Get of the id sequence *)
| CCreate2 (name : N) (v ver : N)          (* sequence read (value, version); next: Set sequence v+1 with ver *)
| CCreate3 (name : N) (id : N)             (* sequence advanced to id; next: Set record with version 0 *)
| CDelete1 (name : N) (ver : N)            (* record read; next: Delete with ver *)
(* Manager.Restore: getTableVersion; incAndGetIDSeq; setTableVersion(recover id); load the stream into the recovery
   shard; getTableVersion; setTableVersion(cluster id := recovery id, recover id := 0) *)
| CRest1 (name : N) (r : trec) (ver : N)               (* record read (zero record, version 0 if absent); next: Get of the id sequence *)
| CRest2 (name : N) (r : trec) (ver : N) (v sver : N)  (* sequence read; next: Set sequence v+1 with sver *)
| CRest3 (name : N) (r : trec) (ver : N) (id : N)      (* sequence advanced to id; next: Set record {cluster of r, recover := id} with ver *)
| CRest4 (name : N) (id : N)                           (* recovery shard registered; the stream is being loaded; next: Get record (or the load fails) *)
| CRest5 (name : N) (id : N) (ver : N).                (* loaded, record read again; next: Set record {cluster := id, recover := 0} with ver *)

Record cst := {
  c_seq : option (N * N);                  (* id sequence record: value, version *)
  c_tabs : list (N * (trec * N));          (* table records by name: record, version *)
  c_next : N;                              (* next log index of the metadata store *)
  c_pcs : list cpc;                        (* one program counter per manager *)
  c_created : list N                       (* ghost: ids given to successfully created or restored tables, newest first *)
}.

Fixpoint tget (l : list (N * (trec * N))) (k : N) : option (trec * N) :=
  match l with [] => None | (k', v) :: r => if k' =? k then Some v else tget r k end.
Fixpoint tdel (l : list (N * (trec * N))) (k : N) : list (N * (trec * N)) :=
  match l with [] => [] | (k', v) :: r => if k' =? k then tdel r k else (k', v) :: tdel r k end.
Definition tset (l : list (N * (trec * N))) (k : N) (v : trec * N) := (k, v) :: tdel l k.

Fixpoint set_pc (l : list cpc) (m : nat) (p : cpc) : list cpc :=
  match l, m with
  | [], _ => []
  | _ :: r, O => p :: r
  | x :: r, S m' => x :: set_pc r m' p
  end.
Definition get_pc (l : list cpc) (m : nat) : cpc := nth m l CIdle.

Inductive caction :=
| ACreate (m : nat) (name : N)             (* start CreateTable: the Exists operation *)
| ADelete (m : nat) (name : N)             (* start DeleteTable: the Get operation *)
| ARestore (m : nat) (name : N)            (* start Restore: the Get of the table record *)
| AFail (m : nat)                          (* the stream of a running Restore breaks off (reader error, shard lost, node restarted) *)
| AStep (m : nat)                          (* the manager's next store operation *)
| AList (m : nat).                         (* GetTables: one GetAll *)

Inductive cresult := CRNone | CRCreated (id : N) | CRExists | CRFailed | CRDeleted | CRNotFound | CRList (l : list (N * N)) | CRRestored (id : N).

Definition with_pc (s : cst) (m : nat) (p : cpc) : cst :=
  {| c_seq := c_seq s; c_tabs := c_tabs s; c_next := c_next s; c_pcs := set_pc (c_pcs s) m p; c_created := c_created s |}.

(* LFSM.Update: the supplied version must be the key's current one; a key that does not exist has version 0 *)
Definition cas_seq (s : cst) (ver : N) : bool := match c_seq s with Some (_, w) => w =? ver | None => ver =? 0 end.
Definition cas_tab (s : cst) (name ver : N) : bool := match tget (c_tabs s) name with Some (_, w) => w =? ver | None => ver =? 0 end.

Definition cexec (s : cst) (a : caction) : cst * cresult :=
  match a with
  | ACreate m name =>
      match get_pc (c_pcs s) m with
      | CIdle => match tget (c_tabs s) name with
                 | Some _ => (s, CRExists)
                 | None => (with_pc s m (CCreate1 name), CRNone)
                 end
      | _ => (s, CRNone)
      end
  | ADelete m name =>
      match get_pc (c_pcs s) m with
      | CIdle => match tget (c_tabs s) name with
                 | Some (_, ver) => (with_pc s m (CDelete1 name ver), CRNone)
                 | None => (s, CRNotFound)
                 end
      | _ => (s, CRNone)
      end
  | ARestore m name =>
      match get_pc (c_pcs s) m with
      | CIdle => match tget (c_tabs s) name with
                 | Some (r, ver) => (with_pc s m (CRest1 name r ver), CRNone)
                 | None => (with_pc s m (CRest1 name {| t_cluster := 0; t_recover := 0 |} 0), CRNone)
                 end
      | _ => (s, CRNone)
      end
  | AFail m =>
      match get_pc (c_pcs s) m with
      | CRest4 _ _ => (with_pc s m CIdle, CRFailed)
      | _ => (s, CRNone)
      end
  | AList m =>
      match get_pc (c_pcs s) m with
      | CIdle => (s, CRList (map (fun kv => (fst kv, t_cluster (fst (snd kv)))) (c_tabs s)))
      | _ => (s, CRNone)
      end
  | AStep m =>
      match get_pc (c_pcs s) m with
      | CIdle => (s, CRNone)
      | CCreate1 name =>
          (match c_seq s with
           | Some (v, ver) => with_pc s m (CCreate2 name v ver)
           | None => with_pc s m (CCreate2 name start_id 0)
           end, CRNone)
      | CCreate2 name v ver =>
          if cas_seq s ver
          then ({| c_seq := Some (v + 1, c_next s); c_tabs := c_tabs s; c_next := c_next s + 1;
                   c_pcs := set_pc (c_pcs s) m (CCreate3 name (v + 1)); c_created := c_created s |}, CRNone)
          else ({| c_seq := c_seq s; c_tabs := c_tabs s; c_next := c_next s + 1;
                   c_pcs := set_pc (c_pcs s) m CIdle; c_created := c_created s |}, CRFailed)
      | CCreate3 name id =>
          if cas_tab s name 0
          then ({| c_seq := c_seq s; c_tabs := tset (c_tabs s) name ({| t_cluster := id; t_recover := 0 |}, c_next s);
                   c_next := c_next s + 1; c_pcs := set_pc (c_pcs s) m CIdle; c_created := id :: c_created s |}, CRCreated id)
          else ({| c_seq := c_seq s; c_tabs := c_tabs s; c_next := c_next s + 1;
                   c_pcs := set_pc (c_pcs s) m CIdle; c_created := c_created s |}, CRExists)
      | CDelete1 name ver =>
          if cas_tab s name ver
          then ({| c_seq := c_seq s; c_tabs := tdel (c_tabs s) name; c_next := c_next s + 1;
                   c_pcs := set_pc (c_pcs s) m CIdle; c_created := c_created s |}, CRDeleted)
          else ({| c_seq := c_seq s; c_tabs := c_tabs s; c_next := c_next s + 1;
                   c_pcs := set_pc (c_pcs s) m CIdle; c_created := c_created s |}, CRFailed)
      | CRest1 name r ver =>
          (match c_seq s with
           | Some (v, sver) => with_pc s m (CRest2 name r ver v sver)
           | None => with_pc s m (CRest2 name r ver start_id 0)
           end, CRNone)
      | CRest2 name r ver v sver =>
          if cas_seq s sver
          then ({| c_seq := Some (v + 1, c_next s); c_tabs := c_tabs s; c_next := c_next s + 1;
                   c_pcs := set_pc (c_pcs s) m (CRest3 name r ver (v + 1)); c_created := c_created s |}, CRNone)
          else ({| c_seq := c_seq s; c_tabs := c_tabs s; c_next := c_next s + 1;
                   c_pcs := set_pc (c_pcs s) m CIdle; c_created := c_created s |}, CRFailed)
      | CRest3 name r ver id =>
          if cas_tab s name ver
          then ({| c_seq := c_seq s; c_tabs := tset (c_tabs s) name ({| t_cluster := t_cluster r; t_recover := id |}, c_next s);
                   c_next := c_next s + 1; c_pcs := set_pc (c_pcs s) m (CRest4 name id); c_created := c_created s |}, CRNone)
          else ({| c_seq := c_seq s; c_tabs := c_tabs s; c_next := c_next s + 1;
                   c_pcs := set_pc (c_pcs s) m CIdle; c_created := c_created s |}, CRFailed)
      | CRest4 name id =>
          match tget (c_tabs s) name with
          | Some (_, ver) => (with_pc s m (CRest5 name id ver), CRNone)
          | None => (with_pc s m CIdle, CRNotFound)
          end
      | CRest5 name id ver =>
          if cas_tab s name ver
          then ({| c_seq := c_seq s; c_tabs := tset (c_tabs s) name ({| t_cluster := id; t_recover := 0 |}, c_next s);
                   c_next := c_next s + 1; c_pcs := set_pc (c_pcs s) m CIdle; c_created := id :: c_created s |}, CRRestored id)
          else ({| c_seq := c_seq s; c_tabs := c_tabs s; c_next := c_next s + 1;
                   c_pcs := set_pc (c_pcs s) m CIdle; c_created := c_created s |}, CRFailed)
      end
  end.

Definition cst0 (managers : nat) : cst :=
  {| c_seq := None; c_tabs := []; c_next := 1; c_pcs := repeat CIdle managers; c_created := [] |}.

Fixpoint crun (s : cst) (acts : list caction) : cst * list cresult :=
  match acts with
  | [] => (s, [])
  | a :: r => let '(s1, o) := cexec s a in let '(s2, os) := crun s1 r in (s2, o :: os)
  end.

(* ---- diffTables: what reconciliation starts and stops ---- *)
Definition catalogued_ids (tabs : list trec) : list N :=
  flat_map (fun t => (if t_cluster t =? 0 then [] else [t_cluster t]) ++ (if t_recover t =? 0 then [] else [t_recover t])) tabs.
Definition memN (x : N) (l : list N) : bool := existsb (N.eqb x) l.
Definition to_start (tabs : list trec) (running : list N) : list N :=
  filter (fun id => negb (memN id running) && (start_id <? id)) (catalogued_ids tabs).
Definition to_stop (tabs : list trec) (running : list N) : list N :=
  filter (fun id => negb (memN id (catalogued_ids tabs)) && (start_id <? id)) running.

(* ---- the data of the tables: one state machine (directory "<name>-<id>") per shard id ---- *)
Definition family (V : Type) := N -> V.
Definition fam_update {V} (f : family V) (id : N) (v : V) : family V := fun j => if j =? id then v else f j.
