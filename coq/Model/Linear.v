(* storage/table/table.go (readTable / proposeTable / ActiveTable.Txn) over a replicated log:
   which read path a request takes, and what a replica that has applied a prefix of the committed log answers. *)
From Verif Require Export Model.Bytes Model.SMap Model.Cmd Model.Spec.

Inductive read_path := SyncRead | StaleRead.

(* readTable: Range and Iterator follow the request's flag; read-only transactions are always linearizable *)
Definition range_path (linearizable : bool) : read_path := if linearizable then SyncRead else StaleRead.
Definition txn_is_readonly (su fa : list request_op) : bool :=
  forallb (fun o => match o with ORange _ => true | _ => false end) su &&
  forallb (fun o => match o with ORange _ => true | _ => false end) fa.
Definition readonly_txn_path : read_path := SyncRead.

(* the state of a replica that has applied the first k entries of the committed log (in any batching, C03) *)
Definition replica_state (log : list entry) (k : nat) : spec_state := fst (spec_entries spec_init (firstn k log)).

(* a read served by a replica with k applied entries *)
Definition replica_read (log : list entry) (k : nat) (q : range_req) : range_resp := s_lookup (content (replica_state log k)) q.
Definition replica_txn (log : list entry) (k : nat) (cs : list compare) (su fa : list request_op) :=
  s_lookup_txn (content (replica_state log k)) cs su fa.

(* what a client is told for the mutation committed as the last entry of log' = log ++ [e] *)
Definition ack_of (log : list entry) (e : entry) : result := snd (spec_entry (fst (spec_entries spec_init log)) e).

Definition api_mutation (c : command) : bool :=
  match c with CPut _ _ _ | CDelete _ _ _ _ | CTxn _ _ _ => true | _ => false end.

(* storage/engine.go Range / IterateRange / Txn: the engine hands the request to the table as it came, whatever role the
   node has in the table's shard (leader or follower) *)
Definition engine_range_path (linearizable is_leader : bool) : read_path := range_path linearizable.
Definition engine_txn_path (is_leader : bool) : read_path := readonly_txn_path.

(* where a read is served by a replica that has applied `applied` entries when `committed` entries are committed:
   dragonboat's ReadIndex contract for SyncRead (the replica answers once it has applied at least the commit index of
   the moment the read was requested - it waits, or fails; never less), the replica's own state for StaleRead *)
Definition serve_at (p : read_path) (applied committed : nat) : nat :=
  match p with SyncRead => Nat.max applied committed | StaleRead => applied end.
