(* Sizes of vtprotobuf encodings (regattapb/mvcc_vtproto.pb.go SizeVT) as far as range chunking needs them. *)
From Verif Require Export Model.Bytes.

(* protohelpers.SizeOfVarint: number of 7-bit groups, at least 1 (fuel 10 covers 64 bits) *)
Fixpoint varint_size_fuel (fuel : nat) (x : N) : N :=
  match fuel with
  | O => 1
  | S f => if x <? 128 then 1 else 1 + varint_size_fuel f (x / 128)
  end.
Definition varint_size (x : N) : N := varint_size_fuel 10 x.

(* a length-delimited field with a one-byte tag, omitted when empty *)
Definition bytes_field_size (len : N) : N := if len =? 0 then 0 else 1 + len + varint_size len.

(* KeyValue.SizeVT with create/mod revision unset *)
Definition kv_size (klen vlen : N) : N := bytes_field_size klen + bytes_field_size vlen.

(* one element of a repeated message field with a one-byte tag *)
Definition msg_field_size (l : N) : N := 1 + l + varint_size l.

(* ResponseOp_Range.SizeVT while it is being filled (More = false) *)
Definition range_resp_size (kv_sizes : list N) (count : N) : N :=
  fold_right (fun l acc => msg_field_size l + acc) 0 kv_sizes + (if count =? 0 then 0 else 1 + varint_size count).
