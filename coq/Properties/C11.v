(* C11 - Writes through a follower are read-your-writes; waiting never wedges the node.
   Statements only; every proof is [exact <lemma>].
   The event loop handles one event at a time; each handler works on the heap of ONE table.  [HInv h cs ans]: the
   waiters queued in heap h have pairwise distinct ids, an empty channel and no answer yet, and nobody was answered
   twice.  The theorems say each handler, from any state satisfying HInv, finishes (outcome Fine: no send on a full
   channel, no Peek/Pop on an empty heap, no double close), re-establishes HInv, leaves every other waiter's channel
   untouched (frame), and adds only justified answers.  By induction this covers every sequence of events:
   HInv holds initially (empty heaps) and Add with a fresh id preserves it (C11_add). *)
From Coq Require Import Permutation.
From Verif Require Import Model.Bytes Model.Heap Model.Queue Proofs.HeapFacts Proofs.QueueFacts Proofs.HeapOrder Proofs.QueueOrder Proofs.QueueGlobal.

(* a notification: never blocks; releases/errs only the waiters it should; one answer each *)
Theorem C11_notify_never_blocks : forall (canc : nat -> bool) (rev : N) (fuel : nat) (h : list item) cs ans,
  (fuel <= length h)%nat -> HInv h cs ans ->
  exists h' cs' new,
    notify_loop fuel canc rev h cs ans = (Fine, h', cs', ans ++ new) /\
    HInv h' cs' (ans ++ new) /\
    (forall j, ~ In j (ids h) -> cget cs' j = cget cs j) /\
    (forall y, In y h' -> In y h) /\
    justified canc (Some rev) h new.
Proof. exact notify_loop_ok. Qed.
Print Assumptions C11_notify_never_blocks.

(* the periodic sweep: never blocks, answers every expired waiter exactly once and drops it, keeps every live one *)
Theorem C11_sweep_never_blocks : forall (canc : nat -> bool) (h : list item) cs ans, HInv h cs ans ->
  exists cs' new,
    sweep_scan canc h cs ans = (Fine, filter (fun x => negb (canc (it_id x))) h, cs', ans ++ new) /\
    HInv (filter (fun x => negb (canc (it_id x))) h) cs' (ans ++ new) /\
    (forall j, ~ In j (ids h) -> cget cs' j = cget cs j) /\
    justified canc None h new.
Proof. exact sweep_scan_ok. Qed.
Print Assumptions C11_sweep_never_blocks.

Theorem C11_sweep_leaves_exactly_the_live : forall (canc : nat -> bool) (h : list item) (x : item),
  In x (heapify item lessi ditem (filter (fun x => negb (canc (it_id x))) h)) <-> In x h /\ canc (it_id x) = false.
Proof. exact sweep_leaves_live. Qed.
Print Assumptions C11_sweep_leaves_exactly_the_live.

(* adding a waiter (fresh id, fresh empty channel) and re-ordering the heap keep the invariant *)
Theorem C11_add : forall h cs ans (id : nat) (rev : N),
  HInv h cs ans -> ~ In id (ids h) -> ~ In id (ans_ids ans) ->
  HInv (push item lessi ditem h {| it_id := id; it_rev := rev |}) (cset cs id ChEmpty) ans.
Proof. exact HInv_push. Qed.
Print Assumptions C11_add.
Theorem C11_heapify_keeps_invariant : forall h h' cs ans, Permutation h h' -> HInv h cs ans -> HInv h' cs ans.
Proof. exact HInv_perm. Qed.

(* the heap operations lose or invent nothing: Pop removes exactly the root, New/Push permute *)
Theorem C11_pop_removes_root : forall (l : list item) (x : item) (l' : list item),
  pop item lessi ditem l = Some (x, l') -> exists r, l = x :: r /\ Permutation l' r.
Proof. exact (pop_spec item lessi ditem). Qed.
Theorem C11_heapify_permutes : forall l : list item, Permutation (heapify item lessi ditem l) l.
Proof. exact (heapify_perm item lessi ditem). Qed.
Print Assumptions C11_pop_removes_root.

(* the ORDER invariant of the slice-backed heap (no element smaller than its parent) is established by New and kept
   by Push and Pop, and it makes the root a minimum *)
Theorem C11_heap_push_ordered : forall (l : list item) (x : item), hok l -> hok (push item lessi ditem l x).
Proof. exact (push_ok item lessi ditem lei_trans lessi_le). Qed.
Theorem C11_heap_pop_ordered : forall (l : list item) (x : item) (l' : list item),
  hok l -> pop item lessi ditem l = Some (x, l') -> hok l'.
Proof. exact (pop_ok item lessi ditem lei_trans lessi_le). Qed.
Theorem C11_heapify_ordered : forall l : list item, hok (heapify item lessi ditem l).
Proof. exact (heapify_ok item lessi ditem lei_trans lessi_le). Qed.
Theorem C11_root_is_minimum : forall (h : list item) (e : item), hok h -> peek item h = Some e ->
  forall x, In x h -> it_rev e <= it_rev x.
Proof. exact root_min. Qed.
Print Assumptions C11_heap_pop_ordered.
Print Assumptions C11_heapify_ordered.

(* over the whole table map and every sequence of events that completes: all heaps stay ordered ... *)
Theorem C11_heaps_ordered : forall (es : list event) (s : qstate), all_heaps_ok s ->
  Forall (fun o => o = Fine) (fst (run s es)) -> all_heaps_ok (snd (run s es)).
Proof. exact run_heaps_ok. Qed.
Theorem C11_heaps_ordered_initially : all_heaps_ok q0.
Proof. exact all_heaps_ok0. Qed.
Print Assumptions C11_heaps_ordered.

(* ... hence promptness: once a notification of leader index r for a table has been handled, nobody in that table's
   queue still waits for a revision at or below r (cancelled or not); together with C11_notify_never_blocks: every
   such waiter got exactly one answer, the live ones a success *)
Theorem C11_released_as_soon_as_notified : forall (s : qstate) (t rev : N) (s' : qstate) (r : option nat),
  all_heaps_ok s -> step s (ENotify t rev) = (Fine, s', r) ->
  forall x, In x (hget (heaps s') t) -> rev < it_rev x.
Proof. exact notify_prompt. Qed.
Print Assumptions C11_released_as_soon_as_notified.


(* ---- the whole event loop over the whole table map ----
   GInv s: the table keys are distinct and ALL queued waiters of ALL tables together satisfy HInv.  One event handled
   from a GInv state completes (never Blocked, never Panicked), re-establishes GInv and introduces no waiter id other
   than the one an Add brings. *)
Theorem C11_event_never_blocks : forall (s : qstate) (e : event), GInv s -> fresh_event s e ->
  exists s' r, step s e = (Fine, s', r) /\ GInv s' /\
    (forall j, In j (known s') -> In j (known s) \/ is_add e j).
Proof. exact step_never_blocks. Qed.
Print Assumptions C11_event_never_blocks.

(* the node never wedges: EVERY sequence of events (adds to any tables with any revisions, cancellations,
   notifications, sweeps, caller reads, length queries) whose Add ids are new and pairwise distinct is handled to the
   end from the initial state - no send on a full channel, no Peek/Pop of an empty heap, no double close *)
Theorem C11_loop_never_wedges : forall (es : list event) (s : qstate), GInv s -> NoDup (adds es) ->
  (forall j, In j (adds es) -> ~ In j (known s)) ->
  fst (run s es) = repeat Fine (length es) /\ GInv (snd (run s es)).
Proof. exact run_never_blocks. Qed.
Theorem C11_initial_state_good : GInv q0.
Proof. exact GInv0. Qed.
Print Assumptions C11_loop_never_wedges.

(* at most one answer per waiter, and an answered waiter is queued nowhere, in every reachable state *)
Theorem C11_answers_at_most_once : forall (es : list event) (s : qstate), GInv s -> NoDup (adds es) ->
  (forall j, In j (adds es) -> ~ In j (known s)) ->
  NoDup (ans_ids (answers (snd (run s es)))) /\
  forall x, In x (all_items (heaps (snd (run s es)))) -> ~ In (it_id x) (ans_ids (answers (snd (run s es)))).
Proof. exact run_answers_once. Qed.
Print Assumptions C11_answers_at_most_once.

Example C11_example :
  let evs := [EAdd 1 1 1; EAdd 2 1 2; EAdd 3 1 3; EAdd 4 1 4; EAdd 5 1 5; EAdd 6 1 6; EAdd 7 1 7; ECancel 4;
              ESweep; ERead 4; ESweep; ESweep; ELen 1; ENotify 1 3; ELen 1] in
  fst (run q0 evs) = repeat Fine 15 /\
  answers (snd (run q0 evs)) = [(4, AErr); (1, AOk); (2, AOk); (3, AOk)]%nat.
Proof. vm_compute. split; reflexivity. Qed.

(* every remaining property theorem of this file *)
Print Assumptions C11_heapify_keeps_invariant.
Print Assumptions C11_heapify_permutes.
Print Assumptions C11_heap_push_ordered.
Print Assumptions C11_root_is_minimum.
Print Assumptions C11_heaps_ordered_initially.
Print Assumptions C11_initial_state_good.

(* ---- the first clause: a write acknowledged by a follower node has been applied to that node's copy ----
   Model/Forward.v composes the forwarding server (forward to the leader, wait for the answered revision), the
   replication of the leader's log into the node's copy (Model/Replication.v), the apply path's reports of the copy's
   leader index, and the real queue of Model/Queue.v.  [ok_run]: replication acts on the copy's current leader index
   (C05's guard) and every call has its own waiter.  Generic in the table state S, the commands C and how a command
   acts on a state (app), so it holds for the state machine of C01 as for any other. *)
From Verif Require Model.Forward Proofs.ForwardFacts.
Theorem C11_read_your_writes :
  forall (S C : Type) (app : S -> C -> S) (init : S) (tbl : N) (acts : list (Forward.fact C)) (id r : nat) (c : C),
  let n := Forward.frun S C app init tbl (Forward.node0 S C init) acts in
  Forward.ok_run S C app init tbl (Forward.node0 S C init) acts ->
  Forward.acked S C n id -> In (id, (r, c)) (Forward.n_wait S C n) ->
  Replication.f_store S (Replication.s_fol S C (Forward.n_sys S C n))
    = fold_left app (firstn (Forward.lidx S C n) (Replication.s_log S C (Forward.n_sys S C n))) init /\
  (1 <= r <= Forward.lidx S C n)%nat /\
  nth_error (firstn (Forward.lidx S C n) (Replication.s_log S C (Forward.n_sys S C n))) (r - 1) = Some c.
Proof. exact ForwardFacts.read_your_writes. Qed.
Print Assumptions C11_read_your_writes.

(* the invariant behind it holds after every single step (so also at every moment in between) *)
Theorem C11_forward_invariant_step :
  forall (S C : Type) (app : S -> C -> S) (init : S) (tbl : N) (n : Forward.node S C) (a : Forward.fact C),
  ForwardFacts.K S C app init n -> ForwardFacts.fact_ok S C n a -> ForwardFacts.K S C app init (Forward.fstep S C app init tbl n a).
Proof. exact ForwardFacts.K_step. Qed.
Print Assumptions C11_forward_invariant_step.

(* non-vacuity: commands are numbers, the state is the list of applied commands (newest first).  Waiter 7 writes 42
   (revision 2, after another writer's 5); a poll of one entry and its report release nobody, the next poll and report
   release waiter 7 - with the copy at leader index 2 holding both commands *)
Example C11_forward_example :
  let app := fun (s : list nat) (c : nat) => c :: s in
  let acts := [Forward.FRepl nat (Replication.ALeader nat 5%nat); Forward.FWrite nat 7%nat 42%nat;
               Forward.FRepl nat (Replication.APoll nat 1%nat []); Forward.FNotify nat;
               Forward.FQueue nat (ELen 1)] in
  let acts2 := acts ++ [Forward.FRepl nat (Replication.APoll nat 5%nat []); Forward.FNotify nat] in
  let n1 := Forward.frun _ _ app [] 1 (Forward.node0 _ _ []) acts in
  let n2 := Forward.frun _ _ app [] 1 (Forward.node0 _ _ []) acts2 in
  Forward.ok_run _ _ app [] 1 (Forward.node0 _ _ []) acts2 /\
  answers (Forward.n_q _ _ n1) = [] /\ Forward.lidx _ _ n1 = 1%nat /\
  answers (Forward.n_q _ _ n2) = [(7%nat, AOk)] /\ Forward.lidx _ _ n2 = 2%nat /\
  Replication.f_store _ (Replication.s_fol _ _ (Forward.n_sys _ _ n2)) = [42%nat; 5%nat].
Proof. vm_compute. repeat split; try reflexivity; try exact I; intros []. Qed.
