(* C15 - At most one follower node holds a table's replication lease at a time.
   Statements only; every proof is [exact <lemma>].
   [lrun lst0 acts]: any interleaving, at the granularity of single metadata-store operations, of lease / renew /
   return calls by any number of nodes with any lease durations (also already expired ones) and any passage of time
   (one global non-decreasing clock). *)
From Verif Require Import Model.Bytes Model.Lease Model.LeaseWorker Proofs.LeaseFacts Proofs.LeaseWorkerFacts.

(* in every reachable state at most one node holds an unexpired lease *)
Theorem C15_mutex : forall (acts : list action) (n m : nat),
  let s := fst (lrun lst0 acts) in holder s n -> holder s m -> n = m.
Proof. exact mutex. Qed.
Print Assumptions C15_mutex.

(* the invariant behind it, preserved by every single store operation of every node and by the passage of time *)
Theorem C15_invariant_step : forall (s : lst) (a : action), LInv s -> LInv (fst (lexec s a)).
Proof. exact lexec_inv. Qed.
Print Assumptions C15_invariant_step.
Theorem C15_invariant_init : LInv lst0.
Proof. exact LInv0. Qed.

(* a request succeeds only if the table was unclaimed, already leased to the caller, or the previous lease had
   expired (as of the read, hence still when the write is applied: time only advances) *)
Theorem C15_grant_condition : forall (s : lst) (n : nat), LInv s ->
  snd (lexec s (AApply n)) = RAcquired ->
  exists seen u, pcs s n = PendSet seen u /\ may_take n seen (now s) = true /\ cas_ok (rec s) (seen_ver seen) = true.
Proof. exact grant_condition. Qed.
Print Assumptions C15_grant_condition.

(* of racing requests that read the same lease state at most one succeeds *)
Theorem C15_race_one_winner : forall (s : lst) (n m : nat) seen u seen' u', LInv s -> n <> m ->
  pcs s n = PendSet seen u -> pcs s m = PendSet seen' u' -> seen_ver seen = seen_ver seen' ->
  snd (lexec s (AApply n)) = RAcquired ->
  snd (lexec (fst (lexec s (AApply n))) (AApply m)) = RFailed.
Proof. exact race_one_winner. Qed.
Print Assumptions C15_race_one_winner.

(* returning a lease only ever removes the caller's own lease *)
Theorem C15_return_own : forall (s : lst) (n : nat) (r : lrec), LInv s -> pcs s n = PendDel r ->
  rec (fst (lexec s (AApply n))) = rec s \/
  (rec s = Some r /\ lid r = n /\ rec (fst (lexec s (AApply n))) = None).
Proof. exact return_own. Qed.
Print Assumptions C15_return_own.


(* ---- who ACTS on a lease: the lease routine of the replication worker (replication/worker.go) ----
   The worker of a node replicates only while its [leased] flag is set; the flag is the outcome of the node's last
   finished LeaseTable call.  [wrun wst0 acts]: any interleaving of the workers' calls (read-and-decide, write applied,
   or failure with another error), other nodes' store operations and the clock. *)
Theorem C15_worker_invariant : forall (isw : nat -> bool) (acts : list waction) (s : wst), WInv isw s ->
  Forall (wf_action isw) acts -> WInv isw (wrun s acts).
Proof. exact wrun_inv. Qed.
Theorem C15_worker_invariant_init : forall isw, WInv isw wst0.
Proof. exact WInv0. Qed.
Print Assumptions C15_worker_invariant.

(* a worker with the flag set, still within the lease its last call obtained, holds the lease ... *)
Theorem C15_worker_flag_means_lease : forall (isw : nat -> bool) (s : wst) (n : nat) (u : N), WInv isw s ->
  isw n = true -> flag s n = true -> lastok s n = Some u -> now (base s) <= u -> holder (base s) n.
Proof. exact flag_holder. Qed.
(* ... so two workers with the flag set are the same node, or one of them is past the end of the lease its last
   successful call obtained (the routine renews every interval and takes the lease for four) *)
Theorem C15_workers_exclusive : forall (isw : nat -> bool) (s : wst) (n m : nat), WInv isw s ->
  isw n = true -> isw m = true -> flag s n = true -> flag s m = true ->
  n = m \/ (exists u, lastok s n = Some u /\ u < now (base s)) \/ (exists u, lastok s m = Some u /\ u < now (base s)).
Proof. exact flags_exclusive. Qed.
Print Assumptions C15_workers_exclusive.
(* every call that does not return nil takes the flag down *)
Theorem C15_worker_flag_down_on_error : forall (s : wst) (n : nat), flag (wexec s (WErr n)) n = false.
Proof. exact flag_down_after_failure. Qed.
Theorem C15_worker_flag_down_on_refusal : forall (s : wst) (n : nat) (dur : N) (b : lst),
  lexec (base s) (ALease n dur false) = (b, RRefused) -> flag (wexec s (WCall n dur)) n = false.
Proof. exact flag_down_after_refusal. Qed.

(* non-vacuity: two nodes race for an unclaimed table, the loser retries after expiry *)
Example C15_example :
  snd (lrun lst0 [ALease 1 3600 false; ALease 2 3600 false; AApply 2; AApply 1; ALease 1 3600 false;
                  ATick 4000; ALease 1 3600 false; AApply 1]) =
  [RNone; RNone; RAcquired; RFailed; RRefused; RNone; RNone; RAcquired].
Proof. vm_compute. reflexivity. Qed.

(* every remaining property theorem of this file *)
Print Assumptions C15_invariant_init.
Print Assumptions C15_worker_invariant_init.
Print Assumptions C15_worker_flag_means_lease.
Print Assumptions C15_worker_flag_down_on_error.
Print Assumptions C15_worker_flag_down_on_refusal.
