(* C06 - Replication log stream is exact: consecutive applied entries, no gap or repeat.
   Statements only; every proof is [exact <lemma>].
   The Raft log is a marker (compaction point) and the consecutive entries after it; applied <= last.
   dragonboat's reader is its contract with the cut point as an oracle [cut]: every theorem holds for every cut. *)
From Verif Require Import Model.Bytes Model.LogReader Proofs.LogReaderFacts Proofs.CacheFacts.

(* one answer for the range [F, applied+1): empty batch at applied+1, 'use snapshot' at or below the compaction
   point, otherwise a NON-EMPTY prefix of the log's entries from F (consecutive, own indices, none beyond applied) *)
Theorem C06_simple_exact : forall (cut : N -> N -> N -> nat) (l : rlog) (applied mx F : N),
  applied <= llast l -> F <= applied + 1 ->
  exact_answer l applied F (simple_query cut l {| rfirst := F; rlast := applied + 1 |} mx).
Proof. exact simple_exact. Qed.
Print Assumptions C06_simple_exact.

(* the entries of a range of a well-formed log are consecutive from the requested index *)
Theorem C06_range_consecutive : forall (l : list lentry) (m lo hi : N),
  consec m l -> m + 1 <= lo -> consec (lo - 1) (filter (inr_b lo hi) l).
Proof. exact range_consec. Qed.
Print Assumptions C06_range_consecutive.

(* the size limit only ever cuts a prefix, and never to nothing *)
Theorem C06_size_cut_prefix : forall (kf : bool) (es : list lentry) (mx : N), exists r, es = fix_size_gen kf es mx ++ r.
Proof. exact fix_size_prefix. Qed.
Theorem C06_size_cut_nonempty : forall (es : list lentry) (mx : N), es <> [] -> fix_size es mx <> [].
Proof. exact fix_size_nonempty. Qed.
Print Assumptions C06_size_cut_nonempty.

(* the stream: for ANY reader service q (cached or not, any cache state satisfying an invariant it preserves) whose
   single answers are exact, the messages sent for a request at F in (marker, applied+1] carry exactly the log
   entries F..applied, each labelled with its own index, in non-empty batches, followed by the up-to-date message *)
Theorem C06_stream_exact : forall (l : rlog) (applied : N), wf_log l -> applied <= llast l ->
  forall (q : cache -> lrange -> (list lentry + qerr) * cache) (Inv : cache -> Prop),
  (forall c F, Inv c -> 1 <= F -> marker l < F <= applied + 1 \/ F <= marker l ->
     exact_answer l applied F (fst (q c {| rfirst := F; rlast := applied + 1 |})) /\
     Inv (snd (q c {| rfirst := F; rlast := applied + 1 |}))) ->
  forall fuel c F, Inv c -> marker l < F <= applied + 1 ->
  (length (range_entries l F (applied + 1)) < fuel)%nat ->
  let ms := fst (replicate_loop fuel q c applied {| rfirst := F; rlast := applied + 1 |}) in
  cmds_of ms = map entry_to_command (range_entries l F (applied + 1)) /\
  exists front, ms = front ++ [MUpToDate applied] /\ Forall (fun m => exists cs, m = MCommands applied cs /\ cs <> []) front.
Proof. exact stream_exact. Qed.
Print Assumptions C06_stream_exact.

Theorem C06_leader_behind : forall fuel (q : cache -> lrange -> (list lentry + qerr) * cache) c (applied from : N), applied + 1 < from ->
  fst (replicate fuel q c applied from) = [MLeaderBehind].
Proof. exact replicate_leader_behind. Qed.
Theorem C06_use_snapshot : forall fuel (q : cache -> lrange -> (list lentry + qerr) * cache) (Inv : cache -> Prop) (l : rlog) c (applied from : N),
  (forall c F, Inv c -> 1 <= F -> marker l < F <= applied + 1 \/ F <= marker l ->
     exact_answer l applied F (fst (q c {| rfirst := F; rlast := applied + 1 |})) /\ Inv (snd (q c {| rfirst := F; rlast := applied + 1 |}))) ->
  Inv c -> 1 <= from -> from <= marker l -> marker l <= applied ->
  fst (replicate (S fuel) q c applied from) = [MUseSnapshot].
Proof. exact replicate_use_snapshot. Qed.
Print Assumptions C06_use_snapshot.

(* the optional log cache never changes the answer (apart from where the size limit cuts it): under the invariant that
   the cache buffer is a contiguous slice of the log's entries - established by the empty cache, preserved by every
   query, re-established by the invalidation on compaction - every answer of Cached.QueryRaftLog meets the same
   contract as the plain reader's, for every cache size and every query, also one whose end is older than what the
   cache has already seen *)
Theorem C06_cached_answer_exact : forall (cut : N -> N -> N -> nat) (l : rlog) (c : cache) (applied F mx : N),
  wf_log l -> cache_ok l c -> 1 <= F -> marker l <= applied -> applied <= llast l ->
  (marker l < F <= applied + 1 \/ F <= marker l) ->
  exact_answer l applied F (fst (cached_query cut c l {| rfirst := F; rlast := applied + 1 |} mx)) /\
  cache_ok l (snd (cached_query cut c l {| rfirst := F; rlast := applied + 1 |} mx)).
Proof. exact cached_answer_exact. Qed.
Print Assumptions C06_cached_answer_exact.
Theorem C06_cache_initially_ok : forall (l : rlog) (size : nat), cache_ok l {| buf := []; csize := size |}.
Proof. intros l size. left. reflexivity. Qed.

(* hence the stream served through the cached reader is exact *)
Theorem C06_cached_stream_exact : forall (cut : N -> N -> N -> nat) (l : rlog) (applied mx : N),
  wf_log l -> marker l <= applied -> applied <= llast l ->
  forall fuel c F, cache_ok l c -> marker l < F <= applied + 1 ->
  (length (range_entries l F (applied + 1)) < fuel)%nat ->
  let ms := fst (replicate_loop fuel (fun c rg => cached_query cut c l rg mx) c applied {| rfirst := F; rlast := applied + 1 |}) in
  cmds_of ms = map entry_to_command (range_entries l F (applied + 1)) /\
  exists front, ms = front ++ [MUpToDate applied] /\ Forall (fun m => exists cs, m = MCommands applied cs /\ cs <> []) front.
Proof. exact cached_stream_exact. Qed.
Print Assumptions C06_cached_stream_exact.

Example C06_example :
  let l := {| marker := 2; lents := [ {| eidx := 3; epay := 30; esz := 10; eenc := true |};
                                      {| eidx := 4; epay := 0; esz := 10; eenc := false |};
                                      {| eidx := 5; epay := 50; esz := 10; eenc := true |} ] |} in
  wf_log l /\
  fst (replicate 10 (fun c r => (simple_query (fun _ _ _ => 2%nat) l r 100, c)) {| buf := []; csize := 0 |} 5 3) =
    [MCommands 5 [(RCmd 30, 3); (RDummy, 4)]; MCommands 5 [(RCmd 50, 5)]; MUpToDate 5].
Proof. split; [repeat split|vm_compute; reflexivity]. Qed.

(* every remaining property theorem of this file *)
Print Assumptions C06_size_cut_prefix.
Print Assumptions C06_leader_behind.
Print Assumptions C06_cache_initially_ok.
