(* C03 - Replicas converge: state depends only on the log, not on how it is batched.
   Statements only; every proof is [exact <lemma>]. *)
From Verif Require Import Model.Bytes Model.SMap Model.KeyEnc Model.Cmd Model.Fsm Model.Spec.
From Verif Require Import Proofs.FsmRefine Proofs.SpecFacts.

(* Applying a log cut into ANY sequence of non-empty consecutive apply batches yields a store (content and both
   bookkeeping values) and per-entry results that are functions of the concatenated log only. *)
Theorem C03_batching : forall (bs : list (list entry)) (ol od : option N) (st : spec_state),
  Forall (fun b => b <> []) bs -> bs <> [] -> applied st = dflt ol -> leader st = dflt od ->
  let st' := fst (spec_entries st (concat bs)) in
  run_batches (repr (content st) ol od) bs =
  (repr (content st') (Some (applied st')) (after_log st od (concat bs)), snd (spec_entries st (concat bs))).
Proof. exact run_batches_refines. Qed.
Print Assumptions C03_batching.

(* hence two replicas that applied the same log under different batchings are equal in content, bookkeeping and results *)
Theorem C03_replicas_agree : forall (p1 p2 : list (list entry)) (ol od : option N) (st : spec_state),
  concat p1 = concat p2 -> Forall (fun b => b <> []) p1 -> Forall (fun b => b <> []) p2 -> p1 <> [] -> p2 <> [] ->
  applied st = dflt ol -> leader st = dflt od ->
  run_batches (repr (content st) ol od) p1 = run_batches (repr (content st) ol od) p2.
Proof.
  exact (fun p1 p2 ol od st E H1 H2 N1 N2 Ha Hl =>
    eq_trans (run_batches_refines p1 ol od st H1 N1 Ha Hl)
             (eq_sym (eq_ind_r (fun l => run_batches (repr (content st) ol od) p2 =
                (repr (content (fst (spec_entries st l))) (Some (applied (fst (spec_entries st l)))) (after_log st od l),
                 snd (spec_entries st l))) (run_batches_refines p2 ol od st H2 N2 Ha Hl) E))).
Qed.
Print Assumptions C03_replicas_agree.

(* reopen and snapshot transfer at any cut point: in the model both hand over the store value unchanged
   (fsm_steps treats SReopen as the identity on the store); that the implementation's Close/Open and
   Save/RecoverFromSnapshot (either format, also across formats) do the same is what the correspondence runs compare *)
Theorem C03_steps_with_reopen : forall (steps : list step) (ol od : option N) (st : spec_state),
  Forall wf_step steps -> u64o ol -> u64o od -> applied st = dflt ol -> leader st = dflt od ->
  fsm_steps (repr (content st) ol od) steps = spec_steps st steps.
Proof. exact (fun steps ol od st H1 H2 H3 H4 H5 => proj1 (steps_refine steps ol od st H1 H2 H3 H4 H5)). Qed.
Print Assumptions C03_steps_with_reopen.

Example C03_example :
  let e1 := {| e_index := 1; e_leader := Some 77; e_cmd := CPut [97] [1] false |} in
  let e2 := {| e_index := 2; e_leader := None; e_cmd := CPut [98] [2] false |} in
  run_batches [] [[e1; e2]] = run_batches [] [[e1]; [e2]] /\ leader_index (fst (run_batches [] [[e1]; [e2]])) = 77.
Proof. vm_compute. split; reflexivity. Qed.
