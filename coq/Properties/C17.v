(* C17 - Protected endpoints reject callers lacking the right token or certificate.
   Statements only; every proof is [exact <lemma>].
   Regatta's own decision logic is modelled; chain verification and hostname matching of crypto/tls and crypto/x509
   enter as inputs of the decision (PARTIAL: what crypto/tls does with the produced tls.Config is observed by the
   harness in real handshakes, not proved). *)
From Verif Require Import Model.Bytes Model.Auth Proofs.AuthFacts Model.Validate Proofs.ValidateFacts.

(* with a token configured, a call passes only with the header "<bearer, any case> <exactly that token>" *)
Theorem C17_token_required : forall (token : bytes) (header : option bytes), token <> [] ->
  auth_func token header = true ->
  exists scheme, header = Some (scheme ++ 32 :: token) /\ eq_fold scheme bearer = true /\ ~ In 32 scheme.
Proof. exact token_required. Qed.
Print Assumptions C17_token_required.

(* no bearer token, or a different one (prefix, suffix, other case, anything else): refused *)
Theorem C17_wrong_token_refused : forall (token scheme t : bytes), token <> [] -> t <> token -> ~ In 32 scheme ->
  auth_func token (Some (scheme ++ 32 :: t)) = false.
Proof. exact wrong_token_refused. Qed.
Theorem C17_missing_header_refused : forall token : bytes, token <> [] -> auth_func token None = false.
Proof. exact missing_header_refused. Qed.
Print Assumptions C17_wrong_token_refused.

(* services without an override are governed by the default, which allows every call; a service with an override
   is governed by its own token only *)
Theorem C17_other_services_unaffected : forall header : option bytes, intercept None header = true.
Proof. exact token_scope. Qed.
Theorem C17_override_decides : forall (tok : bytes) (header : option bytes), intercept (Some tok) header = auth_func tok header.
Proof. exact token_scope_override. Qed.

(* TLS: a trusted CA or client-cert-auth makes client certificates mandatory and verified; CN and hostname options
   are mutually exclusive and install the peer verification *)
Theorem C17_tls_requires : forall (o : tls_opts) (mode : client_auth) (vp : bool), server_config o = Cfg mode vp ->
  (o_trusted_ca o = true \/ o_client_cert_auth o = true -> mode = RequireAndVerifyClientCert) /\
  (vp = true <-> o_allowed_cn o <> [] \/ o_allowed_hostname o <> []).
Proof. exact tls_requires. Qed.
Theorem C17_tls_mutually_exclusive : forall o : tls_opts,
  o_allowed_cn o <> [] -> o_allowed_hostname o <> [] -> server_config o = CfgError.
Proof. exact tls_mutually_exclusive. Qed.
Print Assumptions C17_tls_requires.

(* accepted only from a client whose certificate chains to the CA and carries exactly the allowed CN,
   respectively is valid for the allowed hostname *)
Theorem C17_tls_cn : forall (o : tls_opts) (presented chains_ok : bool) (leaves : list leaf),
  o_trusted_ca o = true -> o_allowed_cn o <> [] -> o_allowed_hostname o = [] ->
  accepts o presented chains_ok leaves = true ->
  presented = true /\ chains_ok = true /\ exists l r, leaves = l :: r /\ l_cn l = o_allowed_cn o.
Proof. exact tls_cn. Qed.
Theorem C17_tls_hostname : forall (o : tls_opts) (presented chains_ok : bool) (leaves : list leaf),
  o_trusted_ca o = true -> o_allowed_cn o = [] -> o_allowed_hostname o <> [] ->
  accepts o presented chains_ok leaves = true ->
  presented = true /\ chains_ok = true /\ exists l r, leaves = l :: r /\ l_valid_for l (o_allowed_hostname o) = true.
Proof. exact tls_hostname. Qed.
Print Assumptions C17_tls_cn.

Example C17_example :
  auth_func [115; 51] (Some [66; 69; 65; 82; 69; 82; 32; 115; 51]) = true /\      (* "BEARER s3" *)
  auth_func [115; 51] (Some [98; 101; 97; 114; 101; 114; 32; 83; 51]) = false /\   (* "bearer S3" *)
  auth_func [115; 51] (Some [98; 101; 97; 114; 101; 114; 32; 115; 51; 32]) = false. (* "bearer s3 " *)
Proof. vm_compute. repeat split. Qed.

(* every remaining property theorem of this file *)
Print Assumptions C17_missing_header_refused.
Print Assumptions C17_other_services_unaffected.
Print Assumptions C17_override_decides.
Print Assumptions C17_tls_mutually_exclusive.
Print Assumptions C17_tls_hostname.

(* which endpoints get the TLS configuration at all (cmd.resolveURL): exactly the address schemes https and unixs;
   a unix socket is used exactly for unix and unixs *)
Theorem C17_tls_schemes : forall s : scheme, secure s = true <-> s = SchHttps \/ s = SchUnixs.
Proof. exact secure_schemes. Qed.
Theorem C17_unix_schemes : forall s : scheme, unix_socket s = true <-> s = SchUnix \/ s = SchUnixs.
Proof. exact unix_schemes. Qed.
Print Assumptions C17_tls_schemes.
Print Assumptions C17_unix_schemes.
