(* C10 - Revisions follow commit order; linearizable reads see all acknowledged writes.
   Statements only; every proof is [exact <lemma>].
   Replicas are modelled by the prefix of the committed log they have applied; that a replica's real store is a
   function of that prefix however Raft batched it is C03, that its answers are the plain map's is C01.
   ReadIndex contract (dragonboat, assumed): a SyncRead that starts when a entries are acknowledged is served by a
   replica state with k >= a applied entries. *)
From Verif Require Import Model.Bytes Model.SMap Model.Cmd Model.Spec Model.Linear Proofs.SpecFacts Proofs.LinearFacts.

(* every acknowledged put, delete range and transaction - also one whose executed branch is empty - reports a result
   carrying revision = its position (index) in the table's log *)
Theorem C10_revision_is_index : forall (st : spec_state) (e : entry), api_mutation (e_cmd e) = true ->
  r_data (snd (spec_entry st e)) = true /\ r_rev (snd (spec_entry st e)) = e_index e.
Proof. exact mutation_revision. Qed.
Print Assumptions C10_revision_is_index.

(* so revisions are the log indices in commit order (strictly increasing, non-zero, as Raft indices are), and
   ordering the writes by revision is ordering them by log position: the responses are those of the plain map
   applying the log in that order (C01_refines) *)
Theorem C10_revisions_follow_log : forall (es : list entry) (st : spec_state),
  map r_rev (snd (spec_entries st es)) = map e_index es.
Proof. exact revisions_are_indices. Qed.
Print Assumptions C10_revisions_follow_log.

(* a linearizable read (k >= a by the ReadIndex contract) reflects all a acknowledged writes at any replica lag *)
Theorem C10_linearizable_read : forall (log : list entry) (a k : nat), (a <= k)%nat ->
  replica_state log k = fst (spec_entries (replica_state log a) (firstn (k - a) (skipn a log))).
Proof. exact replica_includes_acknowledged. Qed.
Print Assumptions C10_linearizable_read.

Theorem C10_linearizable_read_exact : forall (log : list entry) (a k : nat) (q : range_req), (a <= k)%nat -> a = length log ->
  replica_read log k q = s_lookup (content (fst (spec_entries spec_init log))) q.
Proof. exact linearizable_read_exact. Qed.
Print Assumptions C10_linearizable_read_exact.

(* Range/Iterator follow the request's flag; read-only transactions always take the linearizable path *)
Theorem C10_read_paths : range_path true = SyncRead /\ range_path false = StaleRead /\ readonly_txn_path = SyncRead.
Proof. exact (conj eq_refl (conj eq_refl eq_refl)). Qed.

(* a default (serializable) read reflects some prefix of the committed log, never a state that did not exist *)
Theorem C10_serializable_read : forall (log : list entry) (k : nat) (q : range_req),
  exists p, (p <= length log)%nat /\ replica_read log k q = s_lookup (content (fst (spec_entries spec_init (firstn p log)))) q.
Proof. exact serializable_read_is_prefix. Qed.
Print Assumptions C10_serializable_read.

(* the engine layer (storage/engine.go): on a leader or a follower, at any lag, a linearizable range read and every
   read-only transaction is served from a state that includes every write acknowledged before it *)
Theorem C10_engine_linearizable_read : forall (log : list entry) (applied committed a : nat) (is_leader : bool), (a <= committed)%nat ->
  let k := serve_at (engine_range_path true is_leader) applied committed in
  (a <= k)%nat /\ replica_state log k = fst (spec_entries (replica_state log a) (firstn (k - a) (skipn a log))).
Proof. exact engine_linearizable_read. Qed.
Print Assumptions C10_engine_linearizable_read.
Theorem C10_engine_readonly_txn : forall (log : list entry) (applied committed a : nat) (is_leader : bool), (a <= committed)%nat ->
  let k := serve_at (engine_txn_path is_leader) applied committed in
  (a <= k)%nat /\ replica_state log k = fst (spec_entries (replica_state log a) (firstn (k - a) (skipn a log))).
Proof. exact engine_readonly_txn. Qed.
Print Assumptions C10_engine_readonly_txn.

Example C10_example :
  let e := {| e_index := 9; e_leader := None; e_cmd := CTxn [] [] [] |} in
  ack_of [] e = {| r_value := 1; r_rev := 9; r_resps := []; r_data := true |}.
Proof. vm_compute. reflexivity. Qed.

(* every remaining property theorem of this file *)
Print Assumptions C10_read_paths.

(* ---- API layer end to end (Model/Api.v: KVServer -> Engine -> ActiveTable -> state machine) ---- *)
From Verif Require Model.Api Proofs.ApiFacts.

(* every acknowledged mutation sent through the API - put, delete range, transaction, also one whose executed branch is
   empty - is answered with exactly the log position its proposal was given, and that is the table's applied index
   afterwards; otherwise it was refused and nothing changed *)
Theorem C10_api_revision_is_log_position :
  forall (sd : SMap.smap spec_state) (idx : N) (q : Api.api_req) (o : Api.api_resp) (sd' : SMap.smap spec_state),
  Api.spec_step sd idx q = (sd', o) -> ApiFacts.is_write q = true ->
  (exists st, o = Api.PErr st /\ sd' = sd) \/
  (ApiFacts.resp_rev o = Some idx /\ exists st', SMap.sget sd' (Api.req_table q) = Some st' /\ applied st' = idx).
Proof. exact ApiFacts.write_revision. Qed.
Print Assumptions C10_api_revision_is_log_position.

(* the non-zero revisions reported along any request sequence strictly increase when log positions do *)
Theorem C10_api_revisions_increase : forall (qs : list (N * Api.api_req)) (sd : SMap.smap spec_state) (lo : N),
  Sorted.StronglySorted N.lt (map fst qs) -> Forall (fun i => lo < i) (map fst qs) ->
  Forall (fun r => lo < r) (ApiFacts.revs_of (snd (Api.spec_run sd qs))) /\
  Sorted.StronglySorted N.lt (ApiFacts.revs_of (snd (Api.spec_run sd qs))).
Proof. exact ApiFacts.revisions_increase. Qed.
Print Assumptions C10_api_revisions_increase.

(* requests that are not writes (reads, read-only transactions) never move any table *)
Theorem C10_api_reads_do_not_advance : forall (sd : SMap.smap spec_state) (idx : N) (q : Api.api_req),
  ApiFacts.is_write q = false -> fst (Api.spec_step sd idx q) = sd.
Proof. exact ApiFacts.read_revision. Qed.
Print Assumptions C10_api_reads_do_not_advance.
