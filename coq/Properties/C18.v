(* C18 - Wire codecs and stream framing are lossless for every message and chunking.
   Statements only; every proof is [exact <lemma>].
   A message is a list of protobuf fields (number, value) in wire order; nested messages are length-delimited
   fields holding an encoded message; the schema layer (which Go field a number denotes, proto3 default omission,
   optional presence, oneof arms) is what the correspondence run compares against the generated codecs. *)
From Verif Require Import Model.Bytes Model.ProtoWire Model.Framing Proofs.ProtoWireFacts Proofs.FramingFacts.

Theorem C18_varint_roundtrip : forall (x : N) (rest : bytes), x < 2 ^ 64 ->
  varint_dec 10 (varint_enc 10 x ++ rest) = Some (x, rest).
Proof. exact (fun x rest H => varint_roundtrip 10 x rest (le_S _ _ (le_S _ _ (le_S _ _ (le_S _ _ (le_S _ _ (le_S _ _ (le_S _ _ (le_S _ _ (le_S _ _ (le_n 1)))))))))) (u64_fuel x H)). Qed.
Print Assumptions C18_varint_roundtrip.

(* every message survives encode/decode unchanged: all field kinds, any nesting (nested messages are byte fields),
   empty and large fields, any number of fields *)
Theorem C18_codec_roundtrip : forall (fs : list field), Forall wf_field fs -> forall fuel, (length fs <= fuel)%nat ->
  msg_dec fuel (msg_enc fs) = Some fs.
Proof. exact wire_roundtrip. Qed.
Print Assumptions C18_codec_roundtrip.

(* also when the receiving object is recycled from a pool *)
Theorem C18_pooled_decode_independent : forall (old1 old2 : list field) (fuel : nat) (s : bytes),
  decode_into old1 fuel s = decode_into old2 fuel s.
Proof. exact pooled_decode_independent. Qed.
Print Assumptions C18_pooled_decode_independent.

(* a sequence of commands written to a snapshot file and shipped as a chunk stream is read back as the same sequence
   with the same message boundaries, whatever the chunk sizes, for any compressor with the round-trip property *)
Theorem C18_framing : forall (compress decompress : bytes -> bytes), (forall s, decompress (compress s) = s) ->
  forall (ms : list bytes) (sizes : list nat), Forall msg_ok ms ->
  unframe (length ms) (decompress (unchunk (chunks sizes (compress (frame ms))))) =
  Some (filter (fun m => negb (Nat.eqb (length m) 0)) ms).
Proof. exact compressed_framing_roundtrip. Qed.
Print Assumptions C18_framing.

Theorem C18_any_chunking : forall (sizes : list nat) (s : bytes), unchunk (chunks sizes s) = s.
Proof. exact unchunk_chunks. Qed.
Print Assumptions C18_any_chunking.

Example C18_example :
  msg_enc [(1, WBytes [107]); (4, WBytes [118; 118]); (3, WVarint 300)] = [10; 1; 107; 34; 2; 118; 118; 24; 172; 2] /\
  msg_dec 3 [10; 1; 107; 34; 2; 118; 118; 24; 172; 2] = Some [(1, WBytes [107]); (4, WBytes [118; 118]); (3, WVarint 300)].
Proof. vm_compute. split; reflexivity. Qed.
