(* C05 - A follower table always equals the leader table at its recorded leader index.
   Statements only; every proof is [exact <lemma>].

   Generic in the state machine: [app : S -> C -> S] is one log entry applied to a table state (Model/Fsm.v for
   regatta; the theorems do not depend on it, so non-idempotent transactions and range deletes are covered).
   [run acts]: any interleaving of leader writes, leader log compactions, worker polls (any number of entries
   delivered, any chunking into proposals) and snapshot recoveries.  [guarded]: polls act on the follower's current
   leader index (one worker at a time - C15 - whose earlier proposals are finished); see Model/Replication.v. *)
From Verif Require Import Model.Replication Proofs.ReplicationFacts.
From Verif Require Import Model.Reconcile Proofs.ReconcileFacts.
Local Close Scope N_scope.

(* at every moment: follower content = leader content as of the recorded leader index (every leader entry exactly
   once, in leader order), and that index is one the leader has reached *)
Theorem C05_invariant : forall (S C : Type) (app : S -> C -> S) (init : S) (acts : list (act C)),
  forallb (guarded C) acts = true -> Inv S C app init (run S C app init acts).
Proof. exact run_inv. Qed.
Print Assumptions C05_invariant.
Theorem C05_invariant_step : forall (S C : Type) (app : S -> C -> S) (init : S) (s : sys S C) (a : act C),
  guarded C a = true -> Inv S C app init s -> Inv S C app init (step S C app init s a).
Proof. exact step_inv. Qed.

(* the recorded leader index never moves backwards, and what it denotes never changes (the leader's log only grows) *)
Theorem C05_monotone : forall (S C : Type) (app : S -> C -> S) (init : S) (s : sys S C) (a : act C),
  guarded C a = true -> Inv S C app init s ->
  f_lidx S (s_fol S C s) <= f_lidx S (s_fol S C (step S C app init s a)).
Proof. exact step_monotone. Qed.
Theorem C05_leader_prefix_stable : forall (S C : Type) (app : S -> C -> S) (init : S) (s : sys S C) (a : act C) i,
  i <= length (s_log S C s) ->
  state_at S C app init (s_log S C (step S C app init s a)) i = state_at S C app init (s_log S C s) i.
Proof. exact leader_prefix_stable. Qed.
Print Assumptions C05_monotone.

(* convergence: a served poll moves strictly forward while something is missing; a complete stream, or a snapshot
   recovery, reaches the leader's latest state *)
Theorem C05_progress : forall (S C : Type) (app : S -> C -> S) (init : S) (s : sys S C) n sizes,
  Inv S C app init s -> 1 <= n -> s_marker S C s <= f_lidx S (s_fol S C s) ->
  f_lidx S (s_fol S C s) < length (s_log S C s) ->
  f_lidx S (s_fol S C s) < f_lidx S (s_fol S C (step S C app init s (APoll C n sizes))).
Proof. exact poll_progress. Qed.
Theorem C05_poll_reaches_leader : forall (S C : Type) (app : S -> C -> S) (init : S) (s : sys S C) n sizes,
  Inv S C app init s -> s_marker S C s <= f_lidx S (s_fol S C s) ->
  length (s_log S C s) - f_lidx S (s_fol S C s) <= n ->
  let s' := step S C app init s (APoll C n sizes) in
  f_lidx S (s_fol S C s') = length (s_log S C s) /\
  f_store S (s_fol S C s') = state_at S C app init (s_log S C s) (length (s_log S C s)).
Proof. exact poll_complete. Qed.
Theorem C05_recovery_reaches_leader : forall (S C : Type) (app : S -> C -> S) (init : S) (s : sys S C),
  let s' := step S C app init s (ARecover C) in
  f_lidx S (s_fol S C s') = length (s_log S C s) /\
  f_store S (s_fol S C s') = state_at S C app init (s_log S C s) (length (s_log S C s)).
Proof. exact recover_complete. Qed.
Print Assumptions C05_poll_reaches_leader.

(* trace validation: a follower log that [follows] the leader's log (the check the correspondence run evaluates on the
   real follower's raft log) leaves the follower with exactly the leader's state at the final index *)
Theorem C05_follower_log_explained : forall (S C : Type) (app : S -> C -> S) (init : S) (ceq : C -> C -> bool),
  (forall x y, ceq x y = true -> x = y) ->
  forall (L : list C) (ps : list (fprop C)) (cur fin : nat) (f : fol S),
  follows C ceq L cur ps = Some fin -> cur <= length L ->
  f_store S f = state_at S C app init L cur -> f_lidx S f = cur ->
  let f' := replay S C app init L f ps in
  f_store S f' = state_at S C app init L fin /\ f_lidx S f' = fin /\ cur <= fin <= length L.
Proof. exact follows_exact. Qed.
Print Assumptions C05_follower_log_explained.

(* non-vacuity *)
Example C05_example :
  let s := run (list nat) nat (fun s c => c :: s) []
             [ALeader nat 1; ALeader nat 2; APoll nat 1 []; ALeader nat 3; ACompact nat 2; ALeader nat 4;
              APoll nat 5 [0]; ARecover nat; ALeader nat 5; APoll nat 9 [1]] in
  f_lidx _ (s_fol _ _ s) = 5 /\ f_store _ (s_fol _ _ s) = [5; 4; 3; 2; 1].
Proof. vm_compute. split; reflexivity. Qed.

(* ---- the SET of replicated tables (replication.Manager.reconcileTables) ----
   after one reconciliation against the leader's listing the follower has exactly the leader's tables: tables created
   on the leader appear, tables deleted there disappear - down to none at all; nothing the leader still has is deleted
   and nothing the follower already has is created; an equal set is left alone *)
Theorem C05_tables_converge : forall (leader follower : list N) (x : N), In x (reconcile leader follower) <-> In x leader.
Proof. exact reconcile_exact. Qed.
Theorem C05_tables_converge_to_none : forall follower : list N, reconcile [] follower = [].
Proof. exact reconcile_empty_leader. Qed.
Theorem C05_tables_minimal_change : forall (leader follower : list N) (x : N),
  (In x (to_delete leader follower) <-> In x follower /\ ~ In x leader) /\
  (In x (to_create leader follower) <-> In x leader /\ ~ In x follower).
Proof. exact reconcile_minimal. Qed.
Theorem C05_tables_stable : forall leader : list N, reconcile leader leader = leader.
Proof. exact reconcile_stable. Qed.
Print Assumptions C05_tables_converge.
Print Assumptions C05_tables_stable.

(* every remaining property theorem of this file *)
Print Assumptions C05_invariant_step.
Print Assumptions C05_leader_prefix_stable.
Print Assumptions C05_progress.
Print Assumptions C05_recovery_reaches_leader.
Print Assumptions C05_tables_converge_to_none.
Print Assumptions C05_tables_minimal_change.

(* ---- one poll, end to end: the stream of C06 consumed by the worker IS the abstract poll of the model above ----
   Model/Pipeline.v: what LogServer.Replicate streams (Model/LogReader.v, over ANY reader service - cached or not, any
   cache state under an invariant - whose single answers are exact), consumed by worker.do/proposeBatch: each message cut
   into proposals anywhere, each proposal one SEQUENCE tagged with the leader index the stream attached to its last
   command.  For a follower that recorded leader index r (marker <= r <= applied): afterwards it has applied exactly the
   leader's entries r+1 .. applied, each once and in leader order, and records leader index applied - the [apply_seq] of
   an [APoll] with n = applied - r. *)
From Verif Require Model.Pipeline Proofs.PipelineFacts Model.LogReader Proofs.LogReaderFacts.
Theorem C05_poll_is_the_stream_consumed :
  forall (S C : Type) (app : S -> C -> S) (cmd_of : LogReader.rcmd -> C) (l : LogReader.rlog) (applied : N),
  LogReaderFacts.wf_log l -> (applied <= LogReader.llast l)%N ->
  forall (q : LogReader.cache -> LogReader.lrange -> (list LogReader.lentry + LogReader.qerr) * LogReader.cache) (Inv : LogReader.cache -> Prop),
  (forall c F, Inv c -> (1 <= F)%N -> (LogReader.marker l < F <= applied + 1)%N \/ (F <= LogReader.marker l)%N ->
     LogReaderFacts.exact_answer l applied F (fst (q c {| LogReader.rfirst := F; LogReader.rlast := (applied + 1)%N |})) /\
     Inv (snd (q c {| LogReader.rfirst := F; LogReader.rlast := (applied + 1)%N |}))) ->
  forall (fuel : nat) (c : LogReader.cache) (f : fol S) (sizes : list (list nat)),
  let r := f_lidx S f in
  let F := (N.of_nat r + 1)%N in
  Inv c -> (LogReader.marker l < F <= applied + 1)%N ->
  length (LogReader.range_entries l F (applied + 1)%N) < fuel ->
  let ms := fst (LogReader.replicate_loop fuel q c applied {| LogReader.rfirst := F; LogReader.rlast := (applied + 1)%N |}) in
  let es := map (PipelineFacts.ecmd C cmd_of) (LogReader.range_entries l F (applied + 1)%N) in
  Pipeline.consume S C app cmd_of f ms sizes = apply_seq S C app f es (r + length es) /\ r + length es = N.to_nat applied.
Proof. exact PipelineFacts.poll_exact. Qed.
Print Assumptions C05_poll_is_the_stream_consumed.

(* however a message is cut into proposals, its commands are applied once, in order, and the recorded index is the label
   of its last command *)
Theorem C05_proposals_apply_every_command_once :
  forall (S C : Type) (app : S -> C -> S) (cmd_of : LogReader.rcmd -> C) (sizes : list nat) (cs : list (LogReader.rcmd * N)) (f : fol S),
  f_store S (Pipeline.propose_stream S C app cmd_of f cs sizes) = fold_left app (PipelineFacts.cmds C cmd_of cs) (f_store S f) /\
  f_lidx S (Pipeline.propose_stream S C app cmd_of f cs sizes) = match cs with [] => f_lidx S f | _ => PipelineFacts.lbl S f cs end.
Proof. exact PipelineFacts.propose_stream_flat. Qed.
Print Assumptions C05_proposals_apply_every_command_once.

(* ... and the other way to catch up: snapshot recovery.  The leader streams its table as of its applied index n (one PUT
   per pair in key order, then a DUMMY declaring n); the follower loads the stream into a fresh shard in batches of any
   size (C07's model of readIntoTable).  What it then holds - content and recorded leader index - is exactly what the step
   [ARecover] of the model above gives it.  Commands act on plain maps as in C01. *)
From Verif Require Model.Restore Model.Cmd Model.Spec.
Theorem C05_recovery_is_the_restore : forall (maxInMem : N) (size_of : Bytes.bytes * Bytes.bytes -> N) (s : sys Spec.umap Cmd.command),
  let n := length (s_log Spec.umap Cmd.command s) in
  let captured := state_at Spec.umap Cmd.command PipelineFacts.app_cmd [] (s_log Spec.umap Cmd.command s) n in
  let f' := s_fol Spec.umap Cmd.command (step Spec.umap Cmd.command PipelineFacts.app_cmd [] s (ARecover Cmd.command)) in
  Restore.restored (Restore.read_into_table maxInMem (Restore.table_stream size_of captured (Some (N.of_nat n))))
  = (f_store Spec.umap f', N.of_nat (f_lidx Spec.umap f')).
Proof. exact PipelineFacts.recovery_is_restore. Qed.
Print Assumptions C05_recovery_is_the_restore.

(* non-vacuity: a log compacted up to 2 holding entries 3..6 (entry 5 is not a command), applied = 5; a follower at
   leader index 3 polls through the plain reader, which hands out one entry per answer: two messages, entries 4 and 5
   applied in order (the non-command as a dummy), leader index 5; entry 6 is not shipped *)
Example C05_pipeline_example :
  let e := fun i enc => {| LogReader.eidx := i; LogReader.epay := 100 + i; LogReader.esz := 10; LogReader.eenc := enc |} in
  let l := {| LogReader.marker := 2; LogReader.lents := [e 3%N true; e 4%N true; e 5%N false; e 6%N true] |} in
  let q := fun (c : LogReader.cache) r => (LogReader.simple_query (fun _ _ _ => 1%nat) l r 1000%N, c) in
  let cmd_of := fun (c : LogReader.rcmd) => match c with LogReader.RCmd p => N.to_nat p | LogReader.RDummy => 0%nat end in
  let f := {| f_store := [103%nat]; f_lidx := 3 |} in
  let ms := fst (LogReader.replicate_loop 10 q {| LogReader.buf := []; LogReader.csize := 0 |} 5%N {| LogReader.rfirst := 4%N; LogReader.rlast := 6%N |}) in
  Pipeline.consume (list nat) nat (fun s c => c :: s) cmd_of f ms [[]; []] = {| f_store := [0%nat; 104%nat; 103%nat]; f_lidx := 5 |}.
Proof. vm_compute. reflexivity. Qed.
