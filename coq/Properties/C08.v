(* C08 - In-cluster snapshots are faithful, point-in-time and installed atomically.
   Statements only; every proof is [exact <lemma>]. *)
From Verif Require Import Model.Bytes Model.Snapshot Model.DirProto Proofs.SnapshotFacts Proofs.DirProtoFacts.
Local Open Scope nat_scope.

(* faithful and point in time for both formats and across formats: the receiver ends with exactly the store value
   (content, applied index, leader index) the saver pinned at prepare time, whatever the saver applied while saving
   ([during]) and whatever the receiver held ([old]) or is configured with ([cfg]) *)
Theorem C08_faithful : forall (S : Type) (f cfg : sfmt) (s old : S) (during : list (S -> S)),
  let pinned := prepare S s in
  let saver_now := fold_left (fun x g => g x) during s in
  recover S cfg old (save S f pinned) = Some s.
Proof. exact snapshot_faithful. Qed.
Print Assumptions C08_faithful.

(* the stream header names the format and the receiver dispatches on it *)
Theorem C08_header : forall f, parse_header (snap_header f) = Some f.
Proof. exact parse_snap_header. Qed.
Theorem C08_header_length : forall f, length (snap_header f) = 8.
Proof. exact snap_header_length. Qed.
Theorem C08_header_injective : forall f g, snap_header f = snap_header g -> f = g.
Proof. exact snap_header_inj. Qed.

(* all or nothing under a crash: an install cut at ANY primitive file-system / Pebble step, with any survival oracle,
   reopens showing either the whole snapshot (n batches) or what the old DB held *)
Theorem C08_install_atomic_crash : forall n s old pick k, Good s -> live s = Some old -> mem (dbs s old) <= n ->
  exists b, reopen (crash pick (exec (firstn k (expand (HRecover n) s)) (bump (HRecover n) s))) = Some b /\
            (b = n \/ dur (dbs s old) <= b <= mem (dbs s old)).
Proof. exact recover_old_or_new. Qed.
Print Assumptions C08_install_atomic_crash.

(* all or nothing under the stop signal / a broken stream: the live DB, every DB's content, the acknowledged count
   and the "current" file are untouched, and the state stays good (the next install or reopen behaves as usual) *)
Theorem C08_install_stopped : forall clean s old, Good s -> live s = Some old ->
  let s' := exec (expand (HRecoverStop clean) s) (bump (HRecoverStop clean) s) in
  live s' = Some old /\ dbs s' = dbs s /\ ack s' = ack s /\ v_cur s' = v_cur s /\ d_cur s' = d_cur s /\ inodes s' = inodes s.
Proof. exact stop_unchanged. Qed.
Print Assumptions C08_install_stopped.
Theorem C08_install_stopped_good : forall clean s, Good s ->
  Good (exec (expand (HRecoverStop clean) s) (bump (HRecoverStop clean) s)).
Proof. intros clean s H. exact (proj2 (hop_safe_good (HRecoverStop clean) s H)). Qed.

(* readers (specification; for a sequence that is half consumed when the install happens the implementation deviates, see KNOWN_FINDINGS.json): a read delivers the state it
   started on or fails, and a read started after the install sees the new state *)
Theorem C08_reader_old_or_fail : forall (S : Type) (r r' : rep S) (rd : reader S) v,
  rd = read_start S r -> read_next S r' rd = Some v -> v = r_store S r /\ r_gen S r' = r_gen S r.
Proof. exact reader_old_or_fail. Qed.
Theorem C08_reader_after_install : forall (S : Type) (r : rep S) s,
  read_next S (install S r s) (read_start S r) = None /\
  read_next S (install S r s) (read_start S (install S r s)) = Some s.
Proof. intros S r s. split; [exact (reader_after_install S r s)|exact (reader_new_after_install S r s)]. Qed.
Print Assumptions C08_reader_after_install.
(* the saver's side of an interruption: a stop signal or a failing sink makes the save report an error - a stream that
   ends early is never handed on as a snapshot; a save that reports success is the state pinned at prepare time *)
Theorem C08_interrupted_save_is_an_error : forall (S : Type) (f : sfmt) (pinned : S) (stopped failed : bool),
  stopped || failed = true -> save_to S f pinned stopped failed = SaveError S.
Proof. exact save_interrupted. Qed.
Theorem C08_completed_save_is_the_pinned_state : forall (S : Type) (f : sfmt) (pinned : S) str,
  save_to S f pinned false false = SaveDone S str -> str = save S f pinned.
Proof. exact save_complete. Qed.
Print Assumptions C08_interrupted_save_is_an_error.
Print Assumptions C08_completed_save_is_the_pinned_state.

(* a sequence handed out before an install and consumed only after it delivers the NEW content (repaired code,
   KNOWN_FINDINGS F-C08-lazy-read-after-install: it used to open its iterator on the closed old DB and panic) *)
Theorem C08_lazy_sequence_after_install : forall (S : Type) (r : rep S) (s : S),
  lazy_consume S (install S r s) = Some s /\ lazy_consume S r = Some (r_store S r).
Proof. intros S r s. split; [exact (lazy_after_install S r s)|exact (lazy_consume_current S r)]. Qed.
Print Assumptions C08_lazy_sequence_after_install.

(* non-vacuity: an install of 5 batches over a table holding 2 (1 synced), cut after 9 steps and after 3 steps *)
Example C08_example :
  let s := run [HOpen; HUpdate; HSync; HUpdate] 100 st0 in
  map (fun k => reopen (crash (fun _ => 0) (exec (firstn k (expand (HRecover 5) s)) (bump (HRecover 5) s)))) [3; 7; 8; 20]
  = [Some 1; Some 1; Some 5; Some 5].
Proof. vm_compute. reflexivity. Qed.

(* every remaining property theorem of this file *)
Print Assumptions C08_header.
Print Assumptions C08_header_length.
Print Assumptions C08_header_injective.
Print Assumptions C08_install_stopped_good.
Print Assumptions C08_reader_old_or_fail.
