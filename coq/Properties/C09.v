(* C09 - Range reads are sorted, bounded, truthful about 'more', and page losslessly.
   Statements only; every proof is [exact <lemma>].
   [iterate P ksz vsz maxSize mode limit ps] is iter.go's chunking loop over the pairs ps of the range (in store
   order), generic in the representation P of a pair; the table-level reads of Model/Cmd.v instantiate it. *)
From Coq Require Import Sorted.
From Verif Require Import Model.Bytes Model.SMap Model.KeyEnc Model.ProtoSize Model.Cmd Model.Fsm Model.Spec.
From Verif Require Import Proofs.SMapFacts Proofs.RangeFacts Proofs.RangeSize Proofs.FsmRefine Proofs.SpecFacts.

Section C09.
  Variable P : Type.
  Variable ksz vsz : P -> N.
  Variable maxSize : N.

  (* the pairs of the range come in ascending key order without duplicates (the content is a strictly sorted map) *)
  Theorem C09_sorted_nodup : forall (U : umap) (lo hi : bytes), sorted U -> StronglySorted blt (map fst (p_scan U lo hi)).
  Proof. exact p_scan_ascending. Qed.

  (* a streamed read delivers, over all its messages, exactly the first 'limit' pairs of the range (all if no limit) *)
  Theorem C09_paging_lossless : forall (m : mode) (limit : Z) (ps : list P), m <> MCount ->
    all_items P (iterate P ksz vsz maxSize m limit ps) = takeZ P limit 0 ps.
  Proof. exact (paging_lossless P ksz vsz maxSize). Qed.

  Theorem C09_returned_is_prefix : forall (limit : Z) (ps : list P), exists rest, ps = takeZ P limit 0 ps ++ rest.
  Proof. exact (takeZ_prefix P). Qed.
  Theorem C09_at_most_limit : forall (limit : Z) (ps : list P), (0 < limit)%Z -> (Z.of_nat (length (takeZ P limit 0 ps)) <= limit)%Z.
  Proof. exact (takeZ_limit P). Qed.
  Theorem C09_everything_when_unlimited : forall (limit : Z) (ps : list P),
    (limit <= 0 \/ Z.of_nat (length ps) <= limit)%Z -> takeZ P limit 0 ps = ps.
  Proof. exact (takeZ_all P). Qed.

  (* counts: the counts of all messages add up to the number of pairs returned (also for count-only reads, which
     carry no pairs), and each message's count is the number of pairs it carries *)
  Theorem C09_count_exact : forall (m : mode) (limit : Z) (ps : list P),
    total_count P (iterate P ksz vsz maxSize m limit ps) = Z.of_nat (length (takeZ P limit 0 ps)).
  Proof. exact (count_exact P ksz vsz maxSize). Qed.
  Theorem C09_message_counts : forall (m : mode) (limit : Z) (ps : list P), m <> MCount ->
    Forall (fun c => ch_count c = Z.of_nat (length (ch_items c))) (iterate P ksz vsz maxSize m limit ps).
  Proof. exact (chunk_counts P ksz vsz maxSize). Qed.

  (* 'more': every message but the last is flagged; the last is flagged exactly when pairs of the range remain *)
  Theorem C09_more_exact : forall (m : mode) (limit : Z) (ps : list P),
    more_ok P (remains P limit 0 ps) (iterate P ksz vsz maxSize m limit ps).
  Proof. exact (more_exact P ksz vsz maxSize). Qed.
  Theorem C09_remains_iff : forall (limit : Z) (ps : list P),
    remains P limit 0 ps = true <-> (length (takeZ P limit 0 ps) < length ps)%nat.
  Proof. exact (remains_spec P). Qed.

  (* keys-only and count-only variants agree with the full read: same pairs / same total, wherever the cuts fall *)
  Theorem C09_variants_agree : forall (limit : Z) (ps : list P),
    all_items P (iterate P ksz vsz maxSize MKeys limit ps) = all_items P (iterate P ksz vsz maxSize MFull limit ps) /\
    total_count P (iterate P ksz vsz maxSize MCount limit ps) =
      Z.of_nat (length (all_items P (iterate P ksz vsz maxSize MFull limit ps))).
  Proof.
    exact (fun limit ps => conj
      (eq_trans (paging_lossless P ksz vsz maxSize MKeys limit ps (fun H => ltac:(discriminate)))
                (eq_sym (paging_lossless P ksz vsz maxSize MFull limit ps (fun H => ltac:(discriminate)))))
      (eq_trans (count_exact P ksz vsz maxSize MCount limit ps)
                (f_equal (fun l => Z.of_nat (length l))
                   (eq_sym (paging_lossless P ksz vsz maxSize MFull limit ps (fun H => ltac:(discriminate))))))).
  Qed.

  (* every message stays below the cut threshold plus the largest pair estimate plus 48 bytes of framing *)
  Theorem C09_message_size : forall (pairMax : N) (m : mode) (limit : Z) (ps : list P),
    (forall p, In p ps -> sf P ksz vsz m p <= pairMax) ->
    Forall (fun c => resp_size P ksz vsz m (ch_items c) (ch_count c) <= bnd maxSize pairMax)
           (iterate P ksz vsz maxSize m limit ps).
  Proof. exact (chunk_sizes P ksz vsz maxSize). Qed.
End C09.
Print Assumptions C09_paging_lossless.
Print Assumptions C09_more_exact.
Print Assumptions C09_count_exact.
Print Assumptions C09_variants_agree.
Print Assumptions C09_message_size.
Print Assumptions C09_sorted_nodup.

(* with the constants of the code: a message of a streamed read over pairs within the API limits, plus the 'more' flag
   and 512 bytes for the enclosing RangeResponse header, is below the 4 MiB transport limit *)
Theorem C09_below_transport_limit :
  bnd fsm_maxRangeSize (key_LatestVersionLen + table_MaxValueLen) + 2 + 512 < server_DefaultMaxGRPCSize.
Proof. vm_compute. reflexivity. Qed.
Print Assumptions C09_below_transport_limit.

(* the unary read is the first message of the streamed read (by definition of the lookup) *)
Theorem C09_unary_is_first_message : forall (U : umap) (r : range_req) (hi : bytes), rq_end r = Some hi ->
  s_lookup U r = hd empty_resp (s_iterator_lookup U r).
Proof. intros U r hi H. unfold s_lookup, s_iterator_lookup, lookup, iterator_lookup, range_lookup. now rewrite H. Qed.
Print Assumptions C09_unary_is_first_message.

(* and the implementation-level reads over the encoded key space are exactly these *)
Theorem C09_reads_refine : forall (ol od : option N) (U : umap) (q : range_req),
  f_lookup (repr U ol od) q = s_lookup U q /\ f_iterator_lookup (repr U ol od) q = s_iterator_lookup U q.
Proof. exact (fun ol od U q => conj (lookup_refines ol od U q) (iterator_lookup_refines ol od U q)). Qed.
Print Assumptions C09_reads_refine.

Example C09_example :
  let it := iterate nat (fun _ => 1) (fun _ => 1) 1000 MFull 2 [1; 2; 3]%nat in
  all_items nat it = [1; 2]%nat /\ map ch_more it = [true].
Proof. vm_compute. split; reflexivity. Qed.

(* ---- API layer end to end (Model/Api.v: KVServer -> Engine -> ActiveTable -> state machine) ---- *)
From Verif Require Model.Api Proofs.ApiFacts Model.Validate.
(* what KV.Range and KV.IterateRange hand to the client for an accepted request to an existing table IS the state
   machine's answer - one message for the unary read, all messages for the streamed one - untouched by the layers in
   between (so every theorem above about lookups and iterator lookups holds for what the client receives), and the
   request changes nothing *)
Theorem C09_api_range_is_the_state_machines_answer :
  forall (sd : SMap.smap spec_state) (idx : N) (t : bytes) (r : range_req) (lin : bool) (f : Api.filters) (st : spec_state),
  sget sd t = Some st -> Validate.range_status (Api.range_feat true t r f) = Validate.SOk ->
  Api.spec_step sd idx (Api.QRange t r lin f) = (sd, Api.PRange (s_lookup (content st) r)) /\
  Api.spec_step sd idx (Api.QIterate t r lin f) = (sd, Api.PIter (s_iterator_lookup (content st) r)).
Proof. exact ApiFacts.api_range_answer. Qed.
Print Assumptions C09_api_range_is_the_state_machines_answer.
