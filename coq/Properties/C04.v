(* C04 - Crash recovery exposes exactly a prefix of the log, atomically and only once.
   Statements only; every proof is [exact <lemma>].

   [run_eras es]: any number of eras, each an arbitrary sequence of operations (open, update, sync, close, snapshot
   install) cut by a crash after an arbitrary number of primitive file-system / Pebble steps, with an arbitrary
   survival oracle for what Pebble had flushed on its own.  The table's content is counted in whole log batches:
   a batch and its index are one Pebble batch (Model/Fsm.v [commit], C01), and the content after b batches is the
   result of applying exactly the entries of the first b batches (C01_refinement / C02), so "b batches visible" is
   "exactly log entries 1..i with i the last index of batch b". *)
From Verif Require Import Model.DirProto Proofs.DirProtoFacts.

(* after any history of operations and crashes a reopen succeeds and shows b whole batches with
   acknowledged <= b <= applied *)
Theorem C04_crash_recovery : forall es : list era,
  exists b, reopen (run_eras es) = Some b /\ ack (run_eras es) <= b /\
            b <= top (exec (expand HOpen (run_eras es)) (bump HOpen (run_eras es))).
Proof. exact crash_recovery. Qed.
Print Assumptions C04_crash_recovery.

(* the invariant behind it holds after every single primitive step of every operation, not only between operations:
   from a good state the invariant holds at each prefix of the operation's steps and the state after it is good *)
Theorem C04_every_step : forall (h : hop) (s : st), Good s ->
  (forall k, Inv (exec (firstn k (expand h s)) (bump h s))) /\ Good (exec (expand h s) (bump h s)).
Proof. exact hop_safe_good. Qed.
Print Assumptions C04_every_step.
Theorem C04_initial : Good st0.
Proof. exact Good0. Qed.
Theorem C04_crash_is_good : forall pick s, Inv s -> Good (crash pick s).
Proof. exact crash_good. Qed.
Print Assumptions C04_crash_is_good.

(* the reopened table is an ordinary good state again (repeated crashes), and re-applying k batches through the normal
   update path adds exactly k batches: the state is that of the run without the crash *)
Theorem C04_reopen_good : forall es, Good (exec (expand HOpen (run_eras es)) (bump HOpen (run_eras es))).
Proof. exact reopen_good. Qed.
Theorem C04_replay : forall k s d, live s = Some d ->
  live (updates k s) = Some d /\ mem (dbs (updates k s) d) = mem (dbs s d) + k.
Proof. exact updates_reach. Qed.
Print Assumptions C04_replay.

(* non-vacuity: two applied batches, one synced; crash in the middle of a snapshot install; crash again in the middle
   of the recovery *)
Example C04_example :
  reopen (run_eras [ {| e_ops := [HOpen; HUpdate; HSync; HUpdate; HRecover 5]; e_crash := 19; e_pick := fun _ => 0 |};
                     {| e_ops := [HOpen]; e_crash := 1; e_pick := fun _ => 0 |} ]) = Some 1.
Proof. vm_compute. reflexivity. Qed.

(* every remaining property theorem of this file *)
Print Assumptions C04_initial.
Print Assumptions C04_reopen_good.
