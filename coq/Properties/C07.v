(* C07 - Restoring a table stream reproduces exactly the content that was captured.
   Statements only; every proof is [exact <lemma>]. *)
From Verif Require Import Model.Bytes Model.SMap Model.Cmd Model.Spec Model.Framing Model.Restore.
From Verif Require Import Proofs.SMapFacts Proofs.FramingFacts Proofs.RestoreFacts Model.BackupGate Proofs.BackupGateFacts.

(* the command stream written to a snapshot file and shipped in chunks is read back as the same messages with the
   same boundaries, for every chunking and every compressor with the round-trip property *)
Theorem C07_stream_faithful : forall (compress decompress : bytes -> bytes), (forall s, decompress (compress s) = s) ->
  forall (ms : list bytes) (sizes : list nat), Forall msg_ok ms ->
  unframe (length ms) (decompress (unchunk (chunks sizes (compress (frame ms))))) =
  Some (filter (fun m => negb (Nat.eqb (length m) 0)) ms).
Proof. exact compressed_framing_roundtrip. Qed.
Print Assumptions C07_stream_faithful.

(* loading batches: for EVERY in-memory-log-size setting (0 included) the pairs proposed are exactly the pairs of the
   stream - none lost, duplicated, added or reordered *)
Theorem C07_batches_lossless : forall (maxInMem : N) (ms : list smsg),
  concat (map p_batch (read_into_table maxInMem ms)) = kvs_of ms.
Proof. exact batches_lossless. Qed.
Print Assumptions C07_batches_lossless.

(* the leader index declared by the stream's final message is the one the restored table records *)
Theorem C07_declared_index : forall (maxInMem : N) (U : umap) (size_of : bytes * bytes -> N) (i : N),
  last_leader (read_into_table maxInMem (table_stream size_of U (Some i))) = Some i.
Proof. exact declared_leader_index. Qed.
Print Assumptions C07_declared_index.

(* loaded into a fresh (empty) shard - restore always creates one, so nothing of the previous content survives -
   the table holds exactly the captured content and records the declared index, whatever the threshold *)
Theorem C07_restore_exact : forall (maxInMem : N) (size_of : bytes * bytes -> N) (U : umap) (i : N), sorted U ->
  restored (read_into_table maxInMem (table_stream size_of U (Some i))) = (U, i).
Proof. exact restore_exact. Qed.
Print Assumptions C07_restore_exact.

Theorem C07_backup_restore_exact : forall (maxInMem : N) (size_of : bytes * bytes -> N) (U : umap), sorted U ->
  fst (restored (read_into_table maxInMem (table_stream size_of U None))) = U.
Proof. exact restore_backup_exact. Qed.
Print Assumptions C07_backup_restore_exact.

(* point in time: commandSnapshot reads the index and iterates the pairs from ONE store value (a Pebble snapshot),
   so the stream's content is the content at exactly the declared index: in the model the stream is a function of a
   single (U, i); that the implementation takes both from one snapshot while writes continue is exercised by the
   correspondence run with a concurrent writer. *)

(* a backup file whose checksum does not match its manifest is refused: the backup client (Backup.Restore) uploads a
   file only if its checksum equals the manifest entry - whatever the hash function; the run reports success exactly
   when every file matches; the uploads are exactly the tables before the first mismatch (that table and all later ones
   are not touched) *)
Theorem C07_only_matching_files_uploaded : forall (hash : bytes -> N) (ts : list btab) (n : N) (f : bytes),
  In (n, f) (fst (restore_client hash ts)) -> exists t, In t ts /\ b_name t = n /\ b_file t = f /\ hash f = b_sum t.
Proof. exact uploads_match. Qed.
Theorem C07_restore_succeeds_iff_all_match : forall (hash : bytes -> N) (ts : list btab),
  snd (restore_client hash ts) = true <-> forallb (matches hash) ts = true.
Proof. exact success_iff_all_match. Qed.
Theorem C07_mismatch_stops_the_run : forall (hash : bytes -> N) (ts : list btab),
  map fst (fst (restore_client hash ts)) = map b_name (firstn (length (fst (restore_client hash ts))) ts) /\
  (snd (restore_client hash ts) = false ->
   exists t, nth_error ts (length (fst (restore_client hash ts))) = Some t /\ matches hash t = false).
Proof. exact uploads_are_matching_prefix. Qed.
Print Assumptions C07_only_matching_files_uploaded.
Print Assumptions C07_mismatch_stops_the_run.

Example C07_example :
  restored (read_into_table 1200 (table_stream (fun _ => 270) [([1], [10]); ([2], [20]); ([3], [30])] (Some 7))) =
  ([([1], [10]); ([2], [20]); ([3], [30])], 7).
Proof. vm_compute. reflexivity. Qed.

(* every remaining property theorem of this file *)
Print Assumptions C07_restore_succeeds_iff_all_match.
