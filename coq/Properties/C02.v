(* C02 - Transactions are atomic if/then/else: one branch, in order, all or nothing.
   Statements only; every proof is [exact <lemma>]. *)
From Verif Require Import Model.Bytes Model.SMap Model.KeyEnc Model.Cmd Model.Fsm Model.Spec.
From Verif Require Import Proofs.SMapFacts Proofs.FsmRefine Proofs.SpecFacts.

(* the implementation-level transaction (encoded keys, bounded iterators, indexed batch) is the plain map's *)
Theorem C02_refines : forall (ol od : option N) (U : umap) (cs : list compare) (su fa : list request_op),
  f_handle (repr U ol od) (CTxn cs su fa) = (repr (fst (s_handle U (CTxn cs su fa))) ol od, snd (s_handle U (CTxn cs su fa))).
Proof. exact (fun ol od U cs su fa => handle_refines ol od (CTxn cs su fa) U). Qed.
Print Assumptions C02_refines.

(* exactly one branch runs, chosen by the conjunction of the predicates on the state immediately before *)
Theorem C02_branch : forall (U : umap) (cs : list compare) (su fa : list request_op),
  handle_txn umap p_get p_set p_del p_delrange p_scan U cs su fa =
  let ok := txn_compare umap p_get p_scan U cs in
  (fst (txn_ops umap p_get p_set p_del p_delrange p_scan U (if ok then su else fa)),
   (ok, snd (txn_ops umap p_get p_set p_del p_delrange p_scan U (if ok then su else fa)))).
Proof. exact (txn_branch umap p_get p_set p_del p_delrange p_scan). Qed.
Print Assumptions C02_branch.

(* predicate semantics: a predicate on a missing key or an empty range is false; a range predicate holds iff every
   pair of the range satisfies the comparison; the stored value is the left-hand side *)
Theorem C02_compare_semantics : forall (U : umap) (cs : list compare),
  txn_compare umap p_get p_scan U cs = true <-> Forall (holds U) cs.
Proof. exact txn_compare_holds. Qed.
Print Assumptions C02_compare_semantics.

Theorem C02_compare_single : forall (c : compare) (v : bytes),
  cmp_single c v = match cm_value c with
                   | None => true
                   | Some t => match cm_result c with
                               | CEq => beqb v t | CNe => negb (beqb v t) | CGt => bltb t v | CLt => bltb v t
                               end
                   end.
Proof. exact cmp_single_spec. Qed.
Print Assumptions C02_compare_single.

(* operations run in order, each observing the effects of the earlier ones; the n-th response belongs to the n-th
   operation (an operation whose oneof is unset produces none) *)
Theorem C02_in_order : forall (a : list request_op) (U : umap) (b : list request_op),
  txn_ops umap p_get p_set p_del p_delrange p_scan U (a ++ b) =
  let '(U1, r1) := txn_ops umap p_get p_set p_del p_delrange p_scan U a in
  let '(U2, r2) := txn_ops umap p_get p_set p_del p_delrange p_scan U1 b in (U2, r1 ++ r2).
Proof. exact (txn_ops_app umap p_get p_set p_del p_delrange p_scan). Qed.
Print Assumptions C02_in_order.

Theorem C02_one_response_per_operation : forall (l : list request_op) (U : umap),
  length (snd (txn_ops umap p_get p_set p_del p_delrange p_scan U l)) = length (filter op_set l).
Proof. exact (txn_ops_length umap p_get p_set p_del p_delrange p_scan). Qed.
Print Assumptions C02_one_response_per_operation.

(* a read-only transaction leaves the state untouched and returns what the read-only path returns,
   both on the plain map and on the encoded store *)
Theorem C02_readonly_agrees : forall (U : umap) (cs : list compare) (su fa : list request_op),
  all_ranges su = true -> all_ranges fa = true ->
  handle_txn umap p_get p_set p_del p_delrange p_scan U cs su fa = (U, s_lookup_txn U cs su fa).
Proof. exact (txn_readonly_agrees umap p_get p_set p_del p_delrange p_scan). Qed.
Print Assumptions C02_readonly_agrees.

Theorem C02_readonly_path_refines : forall (ol od : option N) (U : umap) (cs : list compare) (su fa : list request_op),
  f_lookup_txn (repr U ol od) cs su fa = s_lookup_txn U cs su fa.
Proof. exact lookup_txn_refines. Qed.
Print Assumptions C02_readonly_path_refines.

(* all or nothing, at any position of an apply batch and after any history: whatever a transaction does is part of
   ONE new store value produced by the apply call (reads interleaved between calls are covered by C01_refines);
   durability of that single step under crashes is C04 *)
Theorem C02_embedded : forall (steps : list step) (ol od : option N) (st : spec_state),
  Forall wf_step steps -> u64o ol -> u64o od -> applied st = dflt ol -> leader st = dflt od ->
  fsm_steps (repr (content st) ol od) steps = spec_steps st steps.
Proof. exact (fun steps ol od st H1 H2 H3 H4 H5 => proj1 (steps_refine steps ol od st H1 H2 H3 H4 H5)). Qed.
Print Assumptions C02_embedded.

Example C02_example :
  let U := [([97], [5]); ([98], [6])] in
  let t := CTxn [ {| cm_result := CGt; cm_key := [97]; cm_end := Some [0]; cm_value := Some [4] |} ]
                [OPut {| pt_key := [97]; pt_val := [9]; pt_prev := true |};
                 ORange {| rq_key := [97]; rq_end := None; rq_limit := 0; rq_keys_only := false; rq_count_only := false |}]
                [ODel {| dl_key := [97]; dl_end := None; dl_prev := false; dl_count := false |}] in
  s_handle U t = ([([97], [9]); ([98], [6])],
                  (1, [RPut (Some ([97], [5])); RRange {| rr_kvs := [([97], [9])]; rr_more := false; rr_count := 1 |}])).
Proof. vm_compute. reflexivity. Qed.

(* ---- API layer end to end (Model/Api.v: KVServer -> Engine -> ActiveTable -> state machine) ---- *)
From Verif Require Model.Api Proofs.ApiFacts.

(* a read-only transaction is never proposed (ActiveTable.Txn: IsReadonly -> linearizable read).  It returns what
   proposing it at any log position would have returned, and proposing it would not have changed the content *)
Theorem C02_api_readonly_txn_as_if_proposed : forall (st : spec_state) (cs : list compare) (su fa : list request_op) (idx : N),
  Validate.is_readonly (map Api.op_feat su) (map Api.op_feat fa) = true ->
  let '(st', res) := Api.s_propose st idx (CTxn cs su fa) in
  content st' = content st /\
  (r_value res =? Constants.fsm_ResultSuccess, r_resps res) = s_lookup_txn (content st) cs su fa.
Proof. exact ApiFacts.readonly_txn_as_if_proposed. Qed.
Print Assumptions C02_api_readonly_txn_as_if_proposed.
