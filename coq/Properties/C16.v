(* C16 - Invalid requests are rejected without effect; no request can crash a server.
   Statements only; every proof is [exact <lemma>].
   The status of a request is decided by the validators before anything is proposed to the log: a non-OK status
   therefore means "no effect" (that the handlers propose nothing on rejection is compared by the harness, which
   also reads the tables back). *)
From Verif Require Import Model.Bytes Model.Validate Proofs.ValidateFacts.

(* Range / IterateRange: negative limit and keys_only+count_only are InvalidArgument, revision filters Unimplemented,
   and an accepted request satisfies every documented constraint *)
Theorem C16_range : forall r : range_rq,
  ((rr_limit r < 0)%Z -> range_status r = SInvalidArgument) /\
  ((0 <= rr_limit r)%Z -> rr_keys_only r = true -> rr_count_only r = true -> range_status r = SInvalidArgument) /\
  (range_status r = SOk -> (0 <= rr_limit r)%Z /\ (rr_keys_only r && rr_count_only r = false) /\
     (rr_min_mod r <= 0 /\ rr_max_mod r <= 0 /\ rr_min_create r <= 0 /\ rr_max_create r <= 0)%Z /\
     rr_table_len r <> 0 /\ rr_key_len r <> 0 /\ rr_table_known r = true /\ rr_key_len r <= key_limit /\ rr_end_len r <= key_limit) /\
  ((0 <= rr_limit r)%Z -> rr_keys_only r && rr_count_only r = false ->
     (0 < rr_min_mod r \/ 0 < rr_max_mod r \/ 0 < rr_min_create r \/ 0 < rr_max_create r)%Z -> range_status r = SUnimplemented).
Proof. exact range_rejections. Qed.
Print Assumptions C16_range.

Theorem C16_put_limits : forall r : put_rq, put_status r = SOk ->
  pr_table_len r <> 0 /\ 0 < pr_key_len r <= key_limit /\ pr_val_len r <= val_limit /\ pr_table_known r = true.
Proof. exact put_accepts_only_within_limits. Qed.
Theorem C16_delete_limits : forall r : del_rq, del_status r = SOk ->
  dr_table_len r <> 0 /\ 0 < dr_key_len r <= key_limit /\ dr_table_known r = true.
Proof. exact del_accepts_only_within_limits. Qed.
Print Assumptions C16_put_limits.

(* the same limits hold on every path that can create a record, including operations nested in a transaction *)
Theorem C16_limits_on_every_path : forall r : txn_rq, txn_status r = SOk ->
  forall o k v, In o (tr_ops r) -> In (k, v) (creates o) -> 0 < k <= key_limit /\ v <= val_limit.
Proof. exact txn_limits_on_every_path. Qed.
Print Assumptions C16_limits_on_every_path.

(* status classes: missing table/key InvalidArgument, unknown table NotFound, follower-side table mutations Unimplemented *)
Theorem C16_status_classes :
  (forall r, pr_table_len r = 0 \/ pr_key_len r = 0 -> put_status r = SInvalidArgument) /\
  (forall r, dr_table_len r = 0 \/ dr_key_len r = 0 -> del_status r = SInvalidArgument) /\
  (forall r, tr_table_len r = 0 -> txn_status r = SInvalidArgument) /\
  (forall r, pr_table_len r <> 0 -> pr_key_len r <> 0 -> pr_table_known r = false -> put_status r = SNotFound) /\
  (forall r, dr_table_len r <> 0 -> dr_key_len r <> 0 -> dr_table_known r = false -> del_status r = SNotFound) /\
  (forall r, tr_table_len r <> 0 -> tr_table_known r = false -> txn_status r = SNotFound) /\
  (forall r, tb_name_len r = 0 -> create_status r = SInvalidArgument /\ delete_status r = SInvalidArgument) /\
  follower_table_mutation_status = SUnimplemented.
Proof. exact status_classes. Qed.
Print Assumptions C16_status_classes.

(* "no request terminates the serving process": the validators are total functions (every request has a status);
   that the handlers behind them do not panic on any wire input is exercised by the harness (malformed stream),
   not a theorem - PARTIAL, see DESIGN.md *)
Example C16_example :
  txn_status {| tr_table_len := 1; tr_table_known := true; tr_ops := [TPut 0 5; TRange 1 0] |} = SFailedPrecondition /\
  txn_status {| tr_table_len := 1; tr_table_known := true; tr_ops := [TPut 3 5; TDel 2 0; TUnset] |} = SOk.
Proof. vm_compute. split; reflexivity. Qed.

(* every remaining property theorem of this file *)
Print Assumptions C16_delete_limits.

(* which transactions are served on the READ path (regattapb.TxnRequest.IsReadonly): exactly those whose two branches
   hold nothing but range reads - an operation with an empty oneof, a put or a delete always goes through a proposal,
   where ActiveTable.Txn validates it; the read path creates no record *)
Theorem C16_read_path_only_ranges : forall succ fail : list txn_op, is_readonly succ fail = true ->
  forall o, In o (succ ++ fail) -> exists k e, o = TRange k e.
Proof. exact readonly_only_ranges. Qed.
Theorem C16_read_path_never_sees_an_empty_operation : forall succ fail : list txn_op,
  is_readonly succ fail = true -> ~ In TUnset (succ ++ fail).
Proof. exact readonly_no_unset. Qed.
Theorem C16_read_path_creates_nothing : forall succ fail : list txn_op,
  is_readonly succ fail = true -> flat_map creates (succ ++ fail) = [].
Proof. exact readonly_creates_nothing. Qed.
Theorem C16_write_path_for_everything_else : forall succ fail : list txn_op, is_readonly succ fail = false ->
  exists o, In o (succ ++ fail) /\ is_range o = false.
Proof. exact not_readonly_has_other. Qed.
Print Assumptions C16_read_path_only_ranges.
Print Assumptions C16_read_path_never_sees_an_empty_operation.
Print Assumptions C16_read_path_creates_nothing.
Print Assumptions C16_write_path_for_everything_else.

(* ---- API layer end to end (Model/Api.v: KVServer -> Engine -> ActiveTable -> state machine) ---- *)
From Verif Require Model.Api Proofs.ApiFacts.

(* a refused request has no effect: whatever non-OK status a request to the key-value API is answered with, the database -
   every table, including its applied index - is the same value afterwards.  [impl_step]: the API over the state machines
   on the encoded Pebble key space *)
Theorem C16_refused_request_has_no_effect : forall (d : SMap.smap Fsm.store) (idx : N) (q : Api.api_req) (st : status),
  snd (Api.impl_step d idx q) = Api.PErr st -> fst (Api.impl_step d idx q) = d.
Proof. exact (ApiFacts.refused_no_effect _ _ _ _ _ ApiFacts.f_put_shape ApiFacts.f_del_shape). Qed.
Print Assumptions C16_refused_request_has_no_effect.

(* reads change nothing, whatever they answer *)
Theorem C16_reads_have_no_effect : forall (d : SMap.smap Fsm.store) (idx : N) (q : Api.api_req),
  match q with Api.QRange _ _ _ _ | Api.QIterate _ _ _ _ => True | _ => False end -> fst (Api.impl_step d idx q) = d.
Proof. exact (ApiFacts.reads_no_effect _ _ _ _ _). Qed.
Print Assumptions C16_reads_have_no_effect.

(* the same limits hold on every path that can create a record: over EVERY request sequence (puts, range deletes,
   transactions with arbitrarily nested operations, reads, refused requests, any tables) every record of every table has
   a non-empty key of at most key_limit bytes and a value of at most val_limit bytes, if that was so at the start *)
Theorem C16_limits_are_an_invariant : forall (qs : list (N * Api.api_req)) (sd : SMap.smap Spec.spec_state),
  ApiFacts.db_within sd -> ApiFacts.db_within (fst (Api.spec_run sd qs)).
Proof. exact ApiFacts.limits_invariant_run. Qed.
Print Assumptions C16_limits_are_an_invariant.

(* ... and the API over the encoded state machines is the API over plain maps (C01 at the API) *)
Theorem C16_api_refines : forall (names : list bytes) (qs : list (N * Api.api_req)),
  Forall (fun iq => FsmRefine.u64 (fst iq)) qs ->
  snd (Api.impl_run (Api.fresh_impl names) qs) = snd (Api.spec_run (Api.fresh_spec names) qs).
Proof. exact ApiFacts.api_refines_from_fresh. Qed.
Print Assumptions C16_api_refines.

Example C16_api_example :
  let t := [116] in
  snd (Api.impl_run (Api.fresh_impl [t])
        [(5, Api.QPut t [97] [1] false);
         (6, Api.QPut t [] [1] false);                                        (* no key *)
         (6, Api.QTxn t [] [Cmd.OPut {| Cmd.pt_key := []; Cmd.pt_val := [2]; Cmd.pt_prev := false |}] []);   (* nested: no key *)
         (6, Api.QPut [120] [97] [1] false);                                  (* unknown table *)
         (6, Api.QRange t {| Cmd.rq_key := [0]; Cmd.rq_end := Some [0]; Cmd.rq_limit := 0; Cmd.rq_keys_only := false; Cmd.rq_count_only := false |}
                        true {| Api.fl_min_mod := 0; Api.fl_max_mod := 0; Api.fl_min_create := 0; Api.fl_max_create := 0 |})])
  = [Api.PPut None 5; Api.PErr SInvalidArgument; Api.PErr SFailedPrecondition; Api.PErr SNotFound;
     Api.PRange {| Cmd.rr_kvs := [([97], [1])]; Cmd.rr_more := false; Cmd.rr_count := 1 |}].
Proof. vm_compute. reflexivity. Qed.
