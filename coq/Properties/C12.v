(* C12 - Key encoding is injective, order-preserving, and isolates bookkeeping keys.
   Statements only; every proof is [exact <lemma>]. *)
From Verif Require Import Model.Bytes Model.KeyEnc Proofs.BytesFacts Proofs.KeyEncFacts.

(* encode/decode round trip for every non-empty user key of any length and any byte values *)
Theorem C12_decode_encode : forall k : bytes, k <> [] -> decode_bytes (enc k) = inl (key_TypeUser, k).
Proof. exact user_reads_decode_user. Qed.
Print Assumptions C12_decode_encode.

(* the streaming decoder agrees for keys that fit the body limit *)
Theorem C12_decode_stream_encode : forall k : bytes,
  (length k < N.to_nat (key_V1KeyLen - key_headerLen))%nat -> decode_stream (enc k) = inl (key_TypeUser, k).
Proof. exact (decode_stream_encode key_TypeUser). Qed.
Print Assumptions C12_decode_stream_encode.

(* the quirk the API excludes by rejecting empty keys: the empty key does not round-trip *)
Theorem C12_decode_encode_empty_quirk : decode_bytes (enc []) = inl (key_TypeUnknown, []).
Proof. exact (decode_encode_empty key_TypeUser). Qed.
Print Assumptions C12_decode_encode_empty_quirk.

Theorem C12_injective : forall a b : bytes, enc a = enc b -> a = b.
Proof. exact (encode_inj key_TypeUser). Qed.
Print Assumptions C12_injective.

(* byte order of encoded keys = byte order of user keys (as a three-way comparison) *)
Theorem C12_order_preserving : forall a b : bytes, lex_compare (enc a) (enc b) = lex_compare a b.
Proof. exact (encode_order key_TypeUser). Qed.
Print Assumptions C12_order_preserving.

(* range bounds mean the same in both spaces *)
Theorem C12_range_bounds_agree : forall lo hi k : bytes,
  in_bounds (enc lo, enc hi) (enc k) = bleb lo k && bltb k hi.
Proof. exact range_bounds_agree. Qed.
Print Assumptions C12_range_bounds_agree.

(* every encodable user key - of ANY length and content - is below the upper bound used for the \0 wildcard,
   and a \0 lower bound is below-or-equal every non-empty key *)
Theorem C12_wildcard_covers_all_user_keys : forall k : bytes, blt (enc k) wildcard_upper.
Proof. exact wildcard_covers_all_user_keys. Qed.
Print Assumptions C12_wildcard_covers_all_user_keys.

Theorem C12_low_wildcard_is_minimum : forall k : bytes, k <> [] -> ble [0] k.
Proof. exact low_wildcard_is_minimum. Qed.
Print Assumptions C12_low_wildcard_is_minimum.

(* the two bookkeeping keys lie outside every range a request can express (explicit or wildcard end),
   are never the encoding of a user key, and decode as system keys *)
Theorem C12_sys_keys_outside_user_ranges : forall lo hi : bytes,
  in_bounds (bounds lo hi) sysLocalIndex = false /\ in_bounds (bounds lo hi) sysLeaderIndex = false.
Proof. exact sys_keys_outside_user_ranges. Qed.
Print Assumptions C12_sys_keys_outside_user_ranges.

Theorem C12_user_key_never_bookkeeping : forall k : bytes, enc k <> sysLocalIndex /\ enc k <> sysLeaderIndex.
Proof. exact enc_ne_sys. Qed.
Print Assumptions C12_user_key_never_bookkeeping.

Theorem C12_sys_keys_decode_system :
  decode_bytes sysLocalIndex = inl (key_TypeSystem, sys_name sysLocalIndex) /\
  decode_bytes sysLeaderIndex = inl (key_TypeSystem, sys_name sysLeaderIndex) /\
  sysLocalIndex <> sysLeaderIndex.
Proof. exact sys_keys_decode_system. Qed.
Print Assumptions C12_sys_keys_decode_system.

(* non-vacuity: concrete adversarial keys *)
Example C12_example_roundtrip :
  decode_bytes (enc [0; 255; 0]) = inl (key_TypeUser, [0; 255; 0]) /\
  lex_compare (enc [97]) (enc [97; 0]) = Lt /\ lex_compare (enc [255]) (enc [97; 255]) = Gt.
Proof. repeat split. Qed.
