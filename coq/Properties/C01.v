(* C01 - A table behaves as an ordered byte-string map for every command history.
   Statements only; every proof is [exact <lemma>].

   fsm_steps : the model of storage/table/fsm over the ENCODED Pebble key space (Model/Fsm.v);
   spec_steps: a plain sorted map from user keys to values applying the commands one after another (Model/Spec.v).
   A scenario is any interleaving of apply calls (each a non-empty list of log entries: put, delete, range delete,
   put/delete batches, nested sequences, dummy, transactions) with single/range/iterator reads, read-only
   transactions, index reads and reopen/snapshot transfer.  [repr U ol od] is the stored form of content U with
   bookkeeping values ol (applied index) and od (leader index). *)
From Coq Require Import Sorted.
From Verif Require Import Model.Bytes Model.SMap Model.KeyEnc Model.Cmd Model.Fsm Model.Spec.
From Verif Require Import Proofs.SMapFacts Proofs.FsmRefine Proofs.SpecFacts Proofs.DeleteResp.

(* every response of every command and every later read, index reads included, equals the plain map's *)
Theorem C01_refines : forall (steps : list step) (ol od : option N) (st : spec_state),
  Forall wf_step steps -> u64o ol -> u64o od -> applied st = dflt ol -> leader st = dflt od ->
  fsm_steps (repr (content st) ol od) steps = spec_steps st steps /\
  exists ol' od', fsm_final (repr (content st) ol od) steps = repr (content (spec_final st steps)) ol' od' /\
                  applied (spec_final st steps) = dflt ol' /\ leader (spec_final st steps) = dflt od'.
Proof. exact steps_refine. Qed.
Print Assumptions C01_refines.

(* from the empty table *)
Theorem C01_refines_from_empty : forall steps : list step,
  Forall wf_step steps -> fsm_steps [] steps = spec_steps spec_init steps.
Proof. exact (fun steps H => proj1 (steps_refine steps None None spec_init H I I eq_refl eq_refl)). Qed.
Print Assumptions C01_refines_from_empty.

(* no user command can read, shadow or alter the bookkeeping: for EVERY command the responses and the new content
   do not depend on the bookkeeping values, and the bookkeeping entries are carried over unchanged *)
Theorem C01_bookkeeping_isolated : forall (ol od : option N) (c : command) (U : umap),
  f_handle (repr U ol od) c = (repr (fst (s_handle U c)) ol od, snd (s_handle U c)).
Proof. exact handle_refines. Qed.
Print Assumptions C01_bookkeeping_isolated.

(* the applied index a table reports equals the index of the last command applied *)
Theorem C01_applied_index : forall (es : list entry) (st : spec_state),
  applied (fst (spec_entries st es)) = last_index (applied st) es.
Proof. exact spec_entries_applied. Qed.
Print Assumptions C01_applied_index.

(* the content is a strictly sorted map at all times (ascending keys, no duplicates) *)
Theorem C01_sorted_invariant : forall (es : list entry) (st : spec_state),
  sorted (content st) -> sorted (content (fst (spec_entries st es))).
Proof. exact spec_entries_sorted. Qed.
Print Assumptions C01_sorted_invariant.

(* what a range means on the plain map: [lo,hi) by byte order, "\0" as hi = no upper end, inverted = empty *)
Theorem C01_range_membership : forall (U : umap) (lo hi k v : bytes), sorted U ->
  (In (k, v) (p_scan U lo hi) <-> sget U k = Some v /\ p_in lo hi k = true).
Proof. exact p_scan_spec. Qed.
Print Assumptions C01_range_membership.
Theorem C01_range_explicit : forall lo hi k : bytes, hi <> wildcard -> p_in lo hi k = bleb lo k && bltb k hi.
Proof. exact p_in_explicit. Qed.
Theorem C01_range_wildcard : forall lo k : bytes, p_in lo wildcard k = bleb lo k.
Proof. exact p_in_wildcard. Qed.
Theorem C01_range_inverted_empty : forall lo hi k : bytes, hi <> wildcard -> bleb hi lo = true -> p_in lo hi k = false.
Proof. exact p_in_inverted. Qed.
Print Assumptions C01_range_inverted_empty.

(* non-vacuity: a scenario satisfying the hypotheses with a non-trivial outcome *)
Example C01_example :
  let steps := [SApply [ {| e_index := 1; e_leader := None; e_cmd := CPut [97] [1] false |};
                         {| e_index := 2; e_leader := Some 7; e_cmd := CPut [97; 0] [2] true |} ];
                SApply [ {| e_index := 3; e_leader := None; e_cmd := CDelete [97] (Some [0]) true true |} ];
                SRead {| rq_key := [0]; rq_end := Some [0]; rq_limit := 0; rq_keys_only := false; rq_count_only := false |};
                SIndex] in
  Forall wf_step steps /\
  fsm_steps [] steps =
    [OutApply [ {| r_value := 1; r_rev := 1; r_resps := [RPut None]; r_data := true |};
                {| r_value := 1; r_rev := 2; r_resps := [RPut None]; r_data := true |} ] 7;
     OutApply [ {| r_value := 1; r_rev := 3; r_resps := [RDel 2 [([97], [1]); ([97; 0], [2])]]; r_data := true |} ] 3;
     OutRead {| rr_kvs := []; rr_more := false; rr_count := 0 |};
     OutIndex 3 7].
Proof.
  split; [|vm_compute; reflexivity].
  repeat constructor; try discriminate; unfold u64, u64o; cbn; try exact I; try reflexivity.
Qed.

(* the response of a range delete.  It is computed by rangeLookup, i.e. it is the first page of the chunked
   iteration: it equals the plain map's answer (every deleted pair, their number) exactly when no size cut happens
   ([nocut_pairs]: the pairs fit into one page of fsm_maxRangeSize); a count without pairs is exact for every range.
   For larger ranges with prev_kv the response is truncated - the sorted-map specification [Model/Spec.v] used in
   C01_refines has this paging built in; that deviation from a plain map is an open known finding
   (KNOWN_FINDINGS.json F-C01-delete-prev-paged), exhibited on the real code by the c01 engine's large-delete case. *)
Theorem C01_delete_prev_exact : forall (U : umap) (lo hi : bytes) (cnt : bool),
  Proofs.DeleteResp.nocut_pairs MFull (p_scan U lo hi) [] 0%Z = true ->
  snd (handle_delete umap p_get p_del p_delrange p_scan U {| dl_key := lo; dl_end := Some hi; dl_prev := true; dl_count := cnt |})
  = RDel (Z.of_nat (length (p_scan U lo hi))) (p_scan U lo hi).
Proof. exact Proofs.DeleteResp.delete_prev_exact. Qed.
Print Assumptions C01_delete_prev_exact.
Theorem C01_delete_count_exact : forall (U : umap) (lo hi : bytes),
  snd (handle_delete umap p_get p_del p_delrange p_scan U {| dl_key := lo; dl_end := Some hi; dl_prev := false; dl_count := true |})
  = RDel (Z.of_nat (length (p_scan U lo hi))) [].
Proof. exact Proofs.DeleteResp.delete_count_exact. Qed.
Print Assumptions C01_delete_count_exact.

(* every remaining property theorem of this file *)
Print Assumptions C01_range_explicit.
Print Assumptions C01_range_wildcard.

(* ---- API layer end to end (Model/Api.v: KVServer -> Engine -> ActiveTable -> state machine) ---- *)
From Verif Require Model.Api Proofs.ApiFacts.

(* every response of every request sequence sent through the key-value API to freshly created tables - over the state
   machines on the encoded key space, with validation, table lookup, command construction and result decoding in
   between - equals the response of the same API over plain sorted maps *)
Theorem C01_api_refines : forall (names : list bytes) (qs : list (N * Api.api_req)),
  Forall (fun iq => u64 (fst iq)) qs ->
  snd (Api.impl_run (Api.fresh_impl names) qs) = snd (Api.spec_run (Api.fresh_spec names) qs).
Proof. exact ApiFacts.api_refines_from_fresh. Qed.
Print Assumptions C01_api_refines.
