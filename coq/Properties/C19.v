(* C19 - The gossiped shard view converges and never regresses to an older leader.
   Statements only; every proof is [exact <lemma>]. *)
From Coq Require Import Permutation.
From Verif Require Import Model.Bytes Model.View Proofs.ViewFacts.

(* [consistent] is what Raft guarantees about the updates a node can ever see for one shard: two updates with
   the same config-change index carry the same membership, two updates that name a leader in the same term name
   the same leader. *)

(* The view of every shard does not depend on the order in which the same updates arrive ... *)
Theorem C19_order_independent : forall (f : smap) (us vs : list (N * sview)) (id : N),
  Permutation us vs -> consistent (f id :: for_shard id us) -> update f us id = update f vs id.
Proof. exact update_order_independent. Qed.
Print Assumptions C19_order_independent.

(* ... nor on repetition or grouping: it is a function of the SET of updates seen *)
Theorem C19_set_determined : forall (c : sview) (us vs : list sview),
  (forall x, In x (c :: us) <-> In x (c :: vs)) -> consistent (c :: us) ->
  fold_left merge us c = fold_left merge vs c.
Proof. exact fold_set_determined. Qed.
Print Assumptions C19_set_determined.

Theorem C19_duplicates_harmless : forall (c : sview) (us : list sview),
  consistent (c :: us) -> fold_left merge (us ++ us) c = fold_left merge us c.
Proof. exact fold_dup. Qed.
Print Assumptions C19_duplicates_harmless.

(* splitting the updates across several calls is the same as one call (no hypothesis needed) *)
Theorem C19_split_updates : forall (f : smap) (us vs : list (N * sview)) (id : N),
  update (update f us) vs id = update f (us ++ vs) id.
Proof. exact update_split. Qed.
Print Assumptions C19_split_updates.

(* every entry point of the cluster layer (Raft event listener, memberlist join/leave/update callbacks, push/pull
   delegate) folds one list of updates into the view and does nothing else to it: whatever the events, the view is that
   of all the updates seen, and two nodes that saw the same updates agree *)
Theorem C19_cluster_events : forall (events : list (list (N * sview))) (f : smap) (id : N),
  fold_left update events f id = update f (concat events) id.
Proof. exact events_fold. Qed.
Theorem C19_cluster_events_order_independent : forall (ev1 ev2 : list (list (N * sview))) (f : smap) (id : N),
  Permutation (concat ev1) (concat ev2) -> consistent (f id :: for_shard id (concat ev1)) ->
  fold_left update ev1 f id = fold_left update ev2 f id.
Proof. exact events_order_independent. Qed.
Print Assumptions C19_cluster_events_order_independent.

(* gossip state exchange: merging a peer's already merged view equals having received the peer's updates *)
Theorem C19_merge_remote_view : forall (c : sview) (us vs : list sview),
  consistent (zero :: c :: us ++ vs) ->
  merge (fold_left merge us c) (fold_left merge vs zero) = fold_left merge (us ++ vs) c.
Proof. exact merge_remote_view. Qed.
Print Assumptions C19_merge_remote_view.

(* what is retained: the membership with the highest config-change index and the leader with the highest term
   among the updates that name a leader (no hypothesis needed) *)
Theorem C19_result : forall (c : sview) (us : list sview),
  let r := fold_left merge us c in
  (exists x, In x (c :: us) /\ projR r = projR x) /\ (forall x, In x (c :: us) -> cci x <= cci r) /\
  (exists x, In x (c :: us) /\ projL r = projL x) /\
  (forall x, In x (c :: us) -> leader x <> noLeader -> leader r <> noLeader /\ term x <= term r) /\
  (leader r = noLeader -> projL r = projL c).
Proof. exact fold_result. Qed.
Print Assumptions C19_result.

(* an update with no leader or a term that is not newer never replaces a known leader; a leader is never forgotten *)
Theorem C19_older_never_replaces : forall c u : sview,
  leader c <> noLeader -> (leader u = noLeader \/ term u <= term c) ->
  leader (merge c u) = leader c /\ term (merge c u) = term c.
Proof. exact merge_keeps_leader. Qed.
Print Assumptions C19_older_never_replaces.

Theorem C19_leader_never_forgotten : forall c u : sview, leader c <> noLeader -> leader (merge c u) <> noLeader.
Proof. exact merge_leader_stays. Qed.
Print Assumptions C19_leader_never_forgotten.

(* the reported term never moves backwards, for every sequence of updates from every reachable view
   ([okL]: a view without leader has term 0 - true of the initial view and preserved by every merge) *)
Theorem C19_term_never_regresses : forall (f : smap) (us : list (N * sview)) (id : N),
  okL (f id) -> term (f id) <= term (update f us id) /\ okL (update f us id).
Proof. exact update_term_monotone. Qed.
Print Assumptions C19_term_never_regresses.

Theorem C19_initial_view_ok : okL (empty_map 0) /\ forall id, empty_map id = zero.
Proof. exact (conj zero_ok (fun _ => eq_refl)). Qed.

(* non-vacuity: a consistent, non-trivial multiset; and the hypothesis is necessary (order matters without it) *)
Definition ex_a := {| replicas := 7; cci := 3; leader := 2; term := 5 |}.
Definition ex_b := {| replicas := 8; cci := 4; leader := 0; term := 9 |}.
Definition ex_c := {| replicas := 7; cci := 3; leader := 3; term := 6 |}.
Example C19_consistent_satisfiable : consistent [zero; ex_a; ex_b; ex_c] /\
  fold_left merge [ex_a; ex_b; ex_c] zero = {| replicas := 8; cci := 4; leader := 3; term := 6 |}.
Proof.
  split; [|reflexivity].
  intros a b Ha Hb. simpl in Ha, Hb.
  repeat (destruct Ha as [<-|Ha]; [|]); try contradiction;
  repeat (destruct Hb as [<-|Hb]; [|]); try contradiction;
  (split; [intros E|intros L1 L2 E]; simpl in *; try reflexivity; try discriminate).
Qed.
Definition ex_d := {| replicas := 7; cci := 3; leader := 9; term := 5 |}.   (* same term as ex_a, other leader *)
Example C19_inconsistent_order_matters :
  fold_left merge [ex_a; ex_d] zero <> fold_left merge [ex_d; ex_a] zero.
Proof. discriminate. Qed.

(* every remaining property theorem of this file *)
Print Assumptions C19_cluster_events.
Print Assumptions C19_initial_view_ok.
