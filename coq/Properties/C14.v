(* C14 - Table catalogue: unique names, never-reused ids, empty when (re)created.
   Statements only; every proof is [exact <lemma>].
   [crun (cst0 k) acts]: any interleaving, at the granularity of single metadata-store operations, of CreateTable /
   DeleteTable / Restore (incl. restores whose stream breaks off) / GetTables calls by k managers.  Table names are path segments: names containing '/' would alias
   internal records ("sys/idseq" IS the id sequence) and are rejected by the repaired code (KNOWN_FINDINGS.json
   F-C14-slash-names). *)
From Verif Require Import Model.Bytes Model.Catalogue Proofs.CatalogueFacts Model.MetaKV Proofs.CatalogueKeys.

(* ids assigned to created tables are pairwise distinct and above the range start in every reachable state:
   an id is never used twice, also not across delete and re-creation, whatever the interleaving *)
Theorem C14_ids_never_reused : forall (k : nat) (acts : list caction),
  let s := fst (crun (cst0 k) acts) in NoDup (c_created s) /\ forall id, In id (c_created s) -> start_id < id <= cur s.
Proof. exact ids_never_reused. Qed.
Print Assumptions C14_ids_never_reused.

(* the id a creation is about to use was never assigned before *)
Theorem C14_created_id_fresh : forall (s : cst) (m : nat) (name id : N), CInv s ->
  get_pc (c_pcs s) m = CCreate3 name id -> ~ In id (c_created s).
Proof. exact created_id_fresh. Qed.
Print Assumptions C14_created_id_fresh.

Theorem C14_invariant_step : forall (s : cst) (a : caction), CInv s -> CInv (fst (cexec s a)).
Proof. exact cexec_inv. Qed.
Print Assumptions C14_invariant_step.

(* the same for Restore (also a retried one that finds the recovery id of an interrupted attempt in the record): the
   id it holds was never given to a table, and every id drawn from the sequence - by a creation or a restore - is
   greater than every id drawn before *)
Theorem C14_restore_id_fresh : forall (s : cst) (m : nat) (id : N), CInv s ->
  In id (ids_of (get_pc (c_pcs s) m)) -> ~ In id (c_created s).
Proof. exact held_id_fresh. Qed.
Theorem C14_drawn_id_above_all : forall (s : cst) (m : nat) (v w : N), CInv s -> In (get_pc (c_pcs s) m) (c_pcs s) ->
  seqread (get_pc (c_pcs s) m) = Some (v, w) -> cas_seq s w = true -> forall id, In id (all_ids s) -> id < v + 1.
Proof. exact drawn_id_above. Qed.
Print Assumptions C14_restore_id_fresh.
Print Assumptions C14_drawn_id_above_all.

(* the last step of a restore switches the table to the recovery shard: its id becomes the table's id *)
Theorem C14_restore_switch : forall (s : cst) (m : nat) (name id ver : N),
  get_pc (c_pcs s) m = CRest5 name id ver -> cas_tab s name ver = true ->
  snd (cexec s (AStep m)) = CRRestored id /\
  tget (c_tabs (fst (cexec s (AStep m)))) name = Some ({| t_cluster := id; t_recover := 0 |}, c_next s) /\
  c_created (fst (cexec s (AStep m))) = id :: c_created s.
Proof. exact restore_switch. Qed.
(* undisturbed, a restore succeeds with the next id of the sequence, whatever record it starts from *)
Theorem C14_restore_alone : forall (s : cst) (m : nat) (name : N), (m < length (c_pcs s))%nat -> get_pc (c_pcs s) m = CIdle ->
  exists s', crun s [ARestore m name; AStep m; AStep m; AStep m; AStep m; AStep m] =
               (s', [CRNone; CRNone; CRNone; CRNone; CRNone; CRRestored (cur s + 1)]) /\
             tget (c_tabs s') name = Some ({| t_cluster := cur s + 1; t_recover := 0 |}, c_next s + 2) /\
             c_created s' = (cur s + 1) :: c_created s.
Proof. exact restore_alone. Qed.
Print Assumptions C14_restore_alone.

(* creating succeeds only if no table of that name exists - and, absent concurrent catalogue changes, always then *)
Theorem C14_create_existing_refused : forall (s : cst) (m : nat) (name : N) rv,
  get_pc (c_pcs s) m = CIdle -> tget (c_tabs s) name = Some rv -> snd (cexec s (ACreate m name)) = CRExists.
Proof. exact create_existing_refused. Qed.
Theorem C14_create_sequence_step_ok : forall (s : cst) (m : nat) (name v ver : N),
  get_pc (c_pcs s) m = CCreate2 name v ver -> (c_seq s = Some (v, ver) \/ (c_seq s = None /\ ver = 0)) ->
  exists s', cexec s (AStep m) = (s', CRNone) /\ c_pcs s' = set_pc (c_pcs s) m (CCreate3 name (v + 1)) /\ c_tabs s' = c_tabs s.
Proof. exact create_step_seq_ok. Qed.
Theorem C14_create_record_step_ok : forall (s : cst) (m : nat) (name id : N),
  get_pc (c_pcs s) m = CCreate3 name id -> tget (c_tabs s) name = None -> snd (cexec s (AStep m)) = CRCreated id.
Proof. exact create_step_record_ok. Qed.
Print Assumptions C14_create_record_step_ok.

(* of racing creations of one name at most one succeeds *)
Theorem C14_race : forall (s : cst) (m : nat) (name id : N) r w, CInv s ->
  get_pc (c_pcs s) m = CCreate3 name id -> tget (c_tabs s) name = Some (r, w) -> snd (cexec s (AStep m)) = CRExists.
Proof. exact race_second_create_fails. Qed.
Print Assumptions C14_race.

(* deleting succeeds only if the table exists, racing deletions included: the second one is refused (repaired code,
   KNOWN_FINDINGS F-C14-absent-key-cas) *)
Theorem C14_delete_reads_positive_version : forall (s : cst) (m : nat) (name : N) r (ver : N), CInv s ->
  get_pc (c_pcs s) m = CIdle -> tget (c_tabs s) name = Some (r, ver) ->
  fst (cexec s (ADelete m name)) = with_pc s m (CDelete1 name ver) /\ 1 <= ver.
Proof. exact delete_reads_positive. Qed.
Theorem C14_race_delete : forall (s : cst) (m : nat) (name ver : N), get_pc (c_pcs s) m = CDelete1 name ver -> ver <> 0 ->
  tget (c_tabs s) name = None -> snd (cexec s (AStep m)) = CRFailed /\ c_tabs (fst (cexec s (AStep m))) = c_tabs s.
Proof. exact race_second_delete_fails. Qed.
Theorem C14_restore_does_not_resurrect : forall (s : cst) (m : nat) (name : N) r (ver id : N),
  get_pc (c_pcs s) m = CRest3 name r ver id -> ver <> 0 -> tget (c_tabs s) name = None ->
  snd (cexec s (AStep m)) = CRFailed /\ c_tabs (fst (cexec s (AStep m))) = c_tabs s.
Proof. exact restore_after_delete_fails. Qed.
Print Assumptions C14_race_delete.
Example C14_delete_race_example :
  snd (crun (cst0 2) [ACreate 0 7; AStep 0; AStep 0; AStep 0; ADelete 0 7; ADelete 1 7; AStep 0; AStep 1]) =
  [CRNone; CRNone; CRNone; CRCreated 10001; CRNone; CRNone; CRDeleted; CRFailed].
Proof. vm_compute. reflexivity. Qed.

(* listing reflects precisely the created-and-not-deleted tables *)
Theorem C14_listing_exact : forall (s : cst) (m : nat) (name : N), get_pc (c_pcs s) m = CIdle ->
  forall l, snd (cexec s (AList m)) = CRList l -> (In name (map fst l) <-> exists rv, In (name, rv) (c_tabs s)).
Proof. exact listing_exact. Qed.
Print Assumptions C14_listing_exact.

(* reconciliation starts exactly the catalogued shards (cluster or recovery id, non-zero, above the range start) that
   are not running and stops exactly the running shards above the range start that are not catalogued *)
Theorem C14_diff_exact : forall (tabs : list trec) (running : list N) (id : N),
  (In id (to_start tabs running) <-> In id (catalogued_ids tabs) /\ ~ In id running /\ start_id < id) /\
  (In id (to_stop tabs running) <-> In id running /\ ~ In id (catalogued_ids tabs) /\ start_id < id).
Proof. exact diff_exact. Qed.
Print Assumptions C14_diff_exact.

(* a new table - fresh id, hence a state machine and directory of its own - is empty, and operations on one table
   never change another: the data of the tables is a family indexed by shard id *)
Theorem C14_isolation : forall (V : Type) (f : family V) (id : N) (v : V) (j : N), j <> id -> fam_update f id v j = f j.
Proof. exact (@family_isolation). Qed.
Print Assumptions C14_isolation.

(* non-vacuity for restores: an interrupted restore leaves its recovery id in the record; a creation draws the next id;
   the retried restore draws a NEW id (it does not pick the recovery id up again) *)
Example C14_restore_example :
  let out := crun (cst0 2) [ACreate 0 7; AStep 0; AStep 0; AStep 0;
                           ARestore 0 7; AStep 0; AStep 0; AStep 0; AFail 0;
                           ACreate 1 8; AStep 1; AStep 1; AStep 1;
                           ARestore 0 7; AStep 0; AStep 0; AStep 0; AStep 0; AStep 0; AList 1] in
  c_created (fst out) = [10004; 10003; 10001] /\
  last (snd out) CRNone = CRList [(7, 10004); (8, 10003)].
Proof. vm_compute. split; reflexivity. Qed.

Example C14_example :
  snd (crun (cst0 2) [ACreate 0 7; ACreate 1 7; AStep 0; AStep 1; AStep 0; AStep 1; AStep 0; AStep 1; AList 0]) =
  [CRNone; CRNone; CRNone; CRNone; CRNone; CRFailed; CRCreated 10001; CRNone; CRList [(7, 10001)]].
Proof. vm_compute. reflexivity. Qed.

(* every remaining property theorem of this file *)
Print Assumptions C14_restore_switch.
Print Assumptions C14_create_existing_refused.
Print Assumptions C14_create_sequence_step_ok.
Print Assumptions C14_delete_reads_positive_version.
Print Assumptions C14_restore_does_not_resurrect.

(* the catalogue in the metadata store: a table's record lives under "/tables/<name>" and the listing is the glob
   "/tables/*" - for names that are path segments it selects exactly the table records (not a lease below a table's
   name, not the id sequence below "sys"), and different names have different records *)
Theorem C14_listing_selects_every_table : forall name : bytes, no_slash name = true ->
  glob tables_pattern (stored_table_name name) = true.
Proof. exact listing_selects_tables. Qed.
Theorem C14_listing_skips_leases_and_the_sequence : forall name rest : bytes,
  glob tables_pattern (stored_table_name (name ++ slash :: rest)) = false.
Proof. exact listing_skips_deeper. Qed.
Theorem C14_names_have_their_own_record : forall a b : bytes, stored_table_name a = stored_table_name b -> a = b.
Proof. exact stored_name_injective. Qed.
Theorem C14_table_records_are_not_internal_records : forall a b rest : bytes, no_slash a = true ->
  stored_table_name a <> stored_table_name (b ++ slash :: rest).
Proof. exact stored_name_is_a_segment. Qed.
Print Assumptions C14_listing_selects_every_table.
Print Assumptions C14_listing_skips_leases_and_the_sequence.
Print Assumptions C14_names_have_their_own_record.
Print Assumptions C14_table_records_are_not_internal_records.

(* ---- API layer end to end (Model/Api.v: KVServer -> Engine -> ActiveTable -> state machine) ---- *)
From Verif Require Model.Api Proofs.ApiFacts Model.Fsm Model.SMap.

(* operations on one table never change the content of another: whatever request is addressed to table t - accepted,
   refused, a transaction of any shape - every other table (stored form, so content AND bookkeeping) is untouched *)
Theorem C14_api_other_tables_untouched : forall (d : SMap.smap Fsm.store) (idx : N) (q : Api.api_req) (t' : bytes),
  t' <> Api.req_table q -> SMap.sget (fst (Api.impl_step d idx q)) t' = SMap.sget d t'.
Proof. exact (ApiFacts.other_tables_untouched _ _ _ _ _). Qed.
Print Assumptions C14_api_other_tables_untouched.

(* the key-value API neither creates nor drops tables *)
Theorem C14_api_keeps_the_table_set : forall (d : SMap.smap Fsm.store) (idx : N) (q : Api.api_req) (t' : bytes),
  Api.known _ (fst (Api.impl_step d idx q)) t' = Api.known _ d t'.
Proof. exact (ApiFacts.known_preserved _ _ _ _ _). Qed.
Print Assumptions C14_api_keeps_the_table_set.
