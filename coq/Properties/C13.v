(* C13 - The metadata store is a deterministic compare-and-set register map.
   Statements only; every proof is [exact <lemma>]. *)
From Coq Require Import Sorted.
From Verif Require Import Model.Bytes Model.SMap Model.MetaKV Proofs.SMapFacts Proofs.MetaKVFacts.

(* setting or deleting a key succeeds iff the supplied version equals the current one; a key that does not exist has
   version 0 (repaired code, KNOWN_FINDINGS F-C14-absent-key-cas: before the repair an absent key was written or
   'deleted' regardless of the supplied version) *)
Theorem C13_cas_code : forall (s : mstore) (e : mentry),
  fst (snd (mupdate s e)) = if cas_ok s e then kv_ResultCodeSuccess else kv_ResultCodeVersionMismatch.
Proof. exact mupdate_code. Qed.
Print Assumptions C13_cas_code.

(* a mismatch leaves the store unchanged and reports the current pair *)
Theorem C13_mismatch : forall (s : mstore) (e : mentry) (cur : pair),
  mget s (me_key e) = Some cur -> pver cur <> me_ver e ->
  mupdate s e = (s, (kv_ResultCodeVersionMismatch, cur)).
Proof. exact mupdate_mismatch. Qed.
Print Assumptions C13_mismatch.

(* ... also for a key that does not exist: with any other version than 0 the update is refused and the (empty) current
   pair is reported *)
Theorem C13_absent_mismatch : forall (s : mstore) (e : mentry),
  mget s (me_key e) = None -> me_ver e <> 0 ->
  mupdate s e = (s, (kv_ResultCodeVersionMismatch, {| pk := me_key e; pv := []; pver := 0 |})).
Proof. exact mupdate_absent_mismatch. Qed.
Theorem C13_absent_match : forall (s : mstore) (e : mentry),
  mget s (me_key e) = None -> me_ver e = 0 ->
  mupdate s e = (apply_op s e, (kv_ResultCodeSuccess, {| pk := me_key e; pv := me_val e; pver := me_index e |})).
Proof. exact mupdate_absent. Qed.
Print Assumptions C13_absent_mismatch.

Theorem C13_match : forall (s : mstore) (e : mentry) (cur : pair),
  mget s (me_key e) = Some cur -> pver cur = me_ver e ->
  mupdate s e = (apply_op s e, (kv_ResultCodeSuccess, {| pk := me_key e; pv := me_val e; pver := me_index e |})).
Proof. exact mupdate_match. Qed.
Print Assumptions C13_match.

(* a successful set gives the key the entry's log index as version, larger than every version in the store;
   over a log with increasing indices all versions stay below the next index, so every later version is fresh *)
Theorem C13_fresh_version : forall (s : mstore) (e : mentry) (n : N),
  sorted s -> versions_below s n -> n <= me_index e -> me_op e = OpSet -> cas_ok s e = true ->
  sget (fst (mupdate s e)) (me_key e) = Some (me_val e, me_index e) /\
  pver (snd (snd (mupdate s e))) = me_index e /\
  (forall k v ver, sget s k = Some (v, ver) -> ver < me_index e).
Proof. exact set_fresh_version. Qed.
Print Assumptions C13_fresh_version.

Theorem C13_versions_bounded : forall (es : list mentry) (s : mstore) (n : N),
  sorted s -> versions_below s n -> increasing_from n es ->
  exists n', versions_below (fst (mrun s es)) n' /\ n <= n' /\ Forall (fun e => me_index e < n') es.
Proof. exact mrun_versions. Qed.
Print Assumptions C13_versions_bounded.

(* lookups reflect exactly the successful updates: the store refines a plain partial map on which only
   version-matching updates act, for every sequence of entries *)
Theorem C13_lookups_reflect : forall (es : list mentry) (s : mstore),
  sorted s -> forall k, sget (fst (mrun s es)) k = spec_run (sget s) es k.
Proof. exact mrun_refines. Qed.
Print Assumptions C13_lookups_reflect.

Theorem C13_invariant : forall (es : list mentry) (s : mstore), sorted s -> sorted (fst (mrun s es)).
Proof. exact mrun_sorted. Qed.
Print Assumptions C13_invariant.

(* glob listings: exactly the stored pairs whose key matches, in ascending key order *)
Theorem C13_getall_exact : forall (s : mstore) (pat : bytes) (p : pair),
  sorted s -> (In p (mgetall s pat) <-> mget s (pk p) = Some p /\ glob pat (pk p) = true).
Proof. exact mgetall_spec. Qed.
Print Assumptions C13_getall_exact.

Theorem C13_getall_sorted : forall (s : mstore) (pat : bytes),
  sorted s -> StronglySorted blt (map pk (mgetall s pat)).
Proof. exact mgetall_sorted. Qed.
Print Assumptions C13_getall_sorted.

(* replicas applying the same entries agree however the entries are grouped into apply calls *)
Theorem C13_deterministic : forall (a : list mentry) (s : mstore) (b : list mentry),
  mrun s (a ++ b) = let '(s1, o1) := mrun s a in let '(s2, o2) := mrun s1 b in (s2, o1 ++ o2).
Proof. exact mrun_app. Qed.
Print Assumptions C13_deterministic.

Theorem C13_snapshot_roundtrip : forall old s : mstore, mrecover old (msnapshot s) = s.
Proof. exact snapshot_roundtrip. Qed.
Print Assumptions C13_snapshot_roundtrip.

(* non-vacuity *)
Example C13_example :
  let e1 := {| me_index := 5; me_op := OpSet; me_key := [47; 97]; me_val := [1]; me_ver := 0 |} in
  let e2 := {| me_index := 6; me_op := OpSet; me_key := [47; 97]; me_val := [2]; me_ver := 4 |} in
  let e3 := {| me_index := 7; me_op := OpDelete; me_key := [47; 97]; me_val := []; me_ver := 5 |} in
  map fst (snd (mrun [] [e1; e2; e3])) = [kv_ResultCodeSuccess; kv_ResultCodeVersionMismatch; kv_ResultCodeSuccess]
  /\ fst (mrun [] [e1; e2]) = [([47; 97], ([1], 5))] /\ sorted (fst (mrun [] [e1; e2])).
Proof. repeat split. repeat constructor. Qed.

(* every remaining property theorem of this file *)
Print Assumptions C13_absent_match.
