#!/bin/sh
# Run once after a fresh restore (offline): builds the harness against /repo, regenerates constants, builds all Coq files.
set -e
cd "$(dirname "$0")"
export GOFLAGS=-mod=mod GOPROXY=off GOSUMDB=off GOTOOLCHAIN=local
mkdir -p .build evidence replays coq/Generated
python3 -c "
import sys; sys.argv=['check']; sys.path.insert(0,'.')
import importlib.util, importlib.machinery
spec = importlib.util.spec_from_loader('check', importlib.machinery.SourceFileLoader('check', './check')); m = importlib.util.module_from_spec(spec); spec.loader.exec_module(m)
import shutil, os
shutil.copyfile('/repo/go.sum', 'harness/go.sum'); m.write_harness_gomod('harness')
"
(cd harness && go build -tags verif -o ../.build/harness .)
./.build/harness genconst coq/Generated/Constants.v
(cd coq && coq_makefile -f _CoqProject -o Makefile >/dev/null && timeout 3000 make -j16 >/dev/null)
echo setup done
