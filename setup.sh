#!/bin/sh
# Run once after a fresh restore (offline): builds the harness against /repo, regenerates constants, builds all Coq files.
set -e
cd "$(dirname "$0")"
export GOFLAGS=-mod=mod GOPROXY=off GOSUMDB=off GOTOOLCHAIN=local
mkdir -p .build evidence replays
cp /repo/go.sum harness/go.sum
(cd harness && go build -tags verif -o ../.build/harness .)
./.build/harness genconst coq/Generated/Constants.v
(cd coq && coq_makefile -f _CoqProject -o Makefile >/dev/null && timeout 3000 make -j16 >/dev/null)
echo setup done
