package main

import (
	"bytes"
	"fmt"

	"github.com/cockroachdb/pebble/vfs"
	"github.com/jamf/regatta/regattapb"
	"github.com/jamf/regatta/storage/table/fsm"
)

// runC12Bookkeeping: on the real state machine, no range a user request can express reaches the bookkeeping keys:
// after range deletes with every shape of bounds (wildcard on either side, maximal keys, 0xFF runs) the applied
// index and the leader index are intact, and range reads with the same bounds return user pairs only.
func runC12Bookkeeping(sum *Summary) error {
	f, _, err := newRealFSM(vfs.NewMem(), fsm.RecoveryTypeSnapshot)
	if err != nil {
		return err
	}
	defer f.close()
	leader := uint64(42)
	idx := uint64(1)
	if _, _, err := f.apply([]gEntry{{Idx: idx, Cmd: gCmd{Kind: regattapb.Command_PUT, K: []byte("seed"), V: []byte("v"), Leader: &leader}}}); err != nil {
		return err
	}
	maxKey := bytes.Repeat([]byte{0xff}, 1024)
	bounds := [][]byte{{0}, {0xff}, {0xff, 0xff, 0xff, 0xff}, []byte("a"), []byte("index"), []byte("leader_index"), maxKey, maxKey[:1023], {1}, {0, 0}}
	h := sum.hist("bookkeeping_ranges")
	for _, lo := range bounds {
		for _, hi := range bounds {
			for _, flags := range [][2]bool{{false, false}, {true, true}} {
				idx++
				// something to delete, so that the range delete is not a no-op
				if _, _, err := f.apply([]gEntry{{Idx: idx, Cmd: gCmd{Kind: regattapb.Command_PUT, K: []byte("zz"), V: []byte("v")}}}); err != nil {
					return err
				}
				idx++
				if _, _, err := f.apply([]gEntry{{Idx: idx, Cmd: gCmd{Kind: regattapb.Command_DELETE, K: lo, End: hi, Prev: flags[0], Count: flags[1]}}}); err != nil {
					return err
				}
				sum.Evaluations++
				h.Inc(fmt.Sprintf("lo=%d bytes hi=%d bytes", len(lo), len(hi)))
				in := map[string]any{"range_delete": fmt.Sprintf("[%x, %x)", trunc(lo), trunc(hi)), "prev_kv": flags[0], "count": flags[1]}
				a, b, err := f.indices()
				if err != nil {
					return err
				}
				if a != idx || b != leader {
					sum.violate(int(idx), "a range a user request can express reaches the bookkeeping keys", in, fmt.Sprintf("applied index %d (want %d), leader index %d (want %d)", a, idx, b, leader))
					return nil
				}
				res, err := f.read(gRange{Key: lo, End: hi})
				if err != nil {
					return err
				}
				for _, kv := range res.Kvs {
					if bytes.Equal(kv.Key, []byte("index")) || bytes.Equal(kv.Key, []byte("leader_index")) {
						sum.violate(int(idx), "a range read returns a bookkeeping key", in, fmt.Sprintf("%q", kv.Key))
						return nil
					}
				}
			}
		}
	}
	return nil
}

func trunc(b []byte) []byte {
	if len(b) > 8 {
		return b[:8]
	}
	return b
}
