package main

import (
	"bytes"
	"fmt"

	"github.com/cockroachdb/pebble/vfs"
	"github.com/jamf/regatta/regattapb"
	"github.com/jamf/regatta/storage/table/fsm"
)

// runC12Bookkeeping: on the real state machine, no range a user request can express reaches the bookkeeping keys:
// after range deletes with every shape of bounds (wildcard on either side, maximal keys, 0xFF runs) the applied
// index and the leader index are intact, and range reads with the same bounds return user pairs only.
func runC12Bookkeeping(sum *Summary) error {
	f, _, err := newRealFSM(vfs.NewMem(), fsm.RecoveryTypeSnapshot)
	if err != nil {
		return err
	}
	defer f.close()
	leader := uint64(42)
	idx := uint64(1)
	if _, _, err := f.apply([]gEntry{{Idx: idx, Cmd: gCmd{Kind: regattapb.Command_PUT, K: []byte("seed"), V: []byte("v"), Leader: &leader}}}); err != nil {
		return err
	}
	maxKey := bytes.Repeat([]byte{0xff}, 1024)
	bounds := [][]byte{{0}, {0xff}, {0xff, 0xff, 0xff, 0xff}, []byte("a"), []byte("index"), []byte("leader_index"), maxKey, maxKey[:1023], {1}, {0, 0}}
	h := sum.hist("bookkeeping_ranges")
	for _, lo := range bounds {
		for _, hi := range bounds {
			for _, flags := range [][2]bool{{false, false}, {true, true}} {
				idx++
				// something to delete, so that the range delete is not a no-op
				if _, _, err := f.apply([]gEntry{{Idx: idx, Cmd: gCmd{Kind: regattapb.Command_PUT, K: []byte("zz"), V: []byte("v")}}}); err != nil {
					return err
				}
				idx++
				if _, _, err := f.apply([]gEntry{{Idx: idx, Cmd: gCmd{Kind: regattapb.Command_DELETE, K: lo, End: hi, Prev: flags[0], Count: flags[1]}}}); err != nil {
					return err
				}
				sum.Evaluations++
				h.Inc(fmt.Sprintf("lo=%d bytes hi=%d bytes", len(lo), len(hi)))
				in := map[string]any{"range_delete": fmt.Sprintf("[%x, %x)", trunc(lo), trunc(hi)), "prev_kv": flags[0], "count": flags[1]}
				a, b, err := f.indices()
				if err != nil {
					return err
				}
				if a != idx || b != leader {
					sum.violate(int(idx), "a range a user request can express reaches the bookkeeping keys", in, fmt.Sprintf("applied index %d (want %d), leader index %d (want %d)", a, idx, b, leader))
					return nil
				}
				res, err := f.read(gRange{Key: lo, End: hi})
				if err != nil {
					return err
				}
				for _, kv := range res.Kvs {
					if bytes.Equal(kv.Key, []byte("index")) || bytes.Equal(kv.Key, []byte("leader_index")) {
						sum.violate(int(idx), "a range read returns a bookkeeping key", in, fmt.Sprintf("%q", kv.Key))
						return nil
					}
				}
			}
		}
	}
	// point lookups tell apart long keys that share a long prefix, and a range end that merely starts with NUL is
	// not the wildcard
	{
		g, _, err := newRealFSM(vfs.NewMem(), fsm.RecoveryTypeSnapshot)
		if err != nil {
			return err
		}
		defer g.close()
		idx := uint64(0)
		ap := func(c gCmd) (*regattapb.CommandResult, error) {
			idx++
			res, _, err := g.apply([]gEntry{{Idx: idx, Cmd: c}})
			if err != nil {
				return nil, err
			}
			return &regattapb.CommandResult{Responses: res[0].Resps}, nil
		}
		for _, plen := range []int{100, 250, 251, 252, 300, 1000, 1019} {
			p := bytes.Repeat([]byte{'p'}, plen)
			kb := append(append([]byte(nil), p...), 'b')
			ka := append(append([]byte(nil), p...), 'a')
			if _, err := ap(gCmd{Kind: regattapb.Command_PUT, K: kb, V: []byte("vb")}); err != nil {
				return err
			}
			in := map[string]any{"shared_prefix_bytes": plen, "stored": "prefix+b", "asked": "prefix+a"}
			sum.Evaluations++
			if r, err := g.read(gRange{Key: ka}); err != nil || len(r.Kvs) != 0 || r.Count != 0 {
				sum.violate(300000+plen, "a lookup of a key that was never written returns a pair (two different user keys are treated as one)", in, fmt.Sprint(r, err))
				return nil
			}
			if res, err := ap(gCmd{Kind: regattapb.Command_PUT, K: ka, V: []byte("va"), Prev: true}); err != nil || res.Responses[0].GetResponsePut().GetPrevKv() != nil {
				sum.violate(300000+plen, "a put of a key that was never written reports a previous pair (two different user keys are treated as one)", in, fmt.Sprint(res, err))
				return nil
			}
			if r, err := g.read(gRange{Key: kb}); err != nil || len(r.Kvs) != 1 || string(r.Kvs[0].Value) != "vb" {
				sum.violate(300000+plen, "a stored pair is not found any more after a put of another key", in, fmt.Sprint(err))
				return nil
			}
		}
		if _, err := ap(gCmd{Kind: regattapb.Command_PUT, K: []byte{0, 1, 'x'}, V: []byte("v")}); err != nil {
			return err
		}
		if _, err := ap(gCmd{Kind: regattapb.Command_PUT, K: []byte("m"), V: []byte("v")}); err != nil {
			return err
		}
		for _, end := range [][]byte{{0, 2}, {0, 0}, {0, 1, 'y'}} {
			sum.Evaluations++
			r, err := g.read(gRange{Key: []byte{0}, End: end})
			if err != nil {
				return err
			}
			for _, kv := range r.Kvs {
				if bytes.Compare(kv.Key, end) >= 0 {
					sum.violate(310000, "a range read returns a key at or beyond its range end (an end that merely starts with NUL was taken for the wildcard)", map[string]any{"range_end": fmt.Sprintf("%x", end)}, fmt.Sprintf("%q", kv.Key))
					return nil
				}
			}
		}
	}
	// every encodable key lies inside the wildcard range [\0, \0) - the smallest ones too (keys made of NUL bytes only,
	// of every length up to the maximum)
	{
		g, _, err := newRealFSM(vfs.NewMem(), fsm.RecoveryTypeSnapshot)
		if err != nil {
			return err
		}
		defer g.close()
		var es []gEntry
		stored := 0
		for _, l := range []int{1, 2, 5, 300, 1018, 1019, 1020, 1024} {
			stored++
			es = append(es, gEntry{Idx: uint64(stored), Cmd: gCmd{Kind: regattapb.Command_PUT, K: bytes.Repeat([]byte{0}, l), V: []byte("v")}})
		}
		// ... and the largest ones (keys made of 0xff bytes only, of every length up to the maximum the API admits)
		for _, l := range []int{2, 1018, 1019, 1020, 1023, 1024} {
			stored++
			es = append(es, gEntry{Idx: uint64(stored), Cmd: gCmd{Kind: regattapb.Command_PUT, K: bytes.Repeat([]byte{0xff}, l), V: []byte("v")}})
		}
		for _, k := range [][]byte{{0, 1}, {1}, []byte("a"), {0xff}} {
			stored++
			es = append(es, gEntry{Idx: uint64(stored), Cmd: gCmd{Kind: regattapb.Command_PUT, K: k, V: []byte("v")}})
		}
		if _, _, err := g.apply(es); err != nil {
			return err
		}
		for _, q := range []gRange{{Key: []byte{0}, End: []byte{0}}, {Key: []byte{0}, End: []byte{0}, KeysOnly: true}, {Key: []byte{0}, End: []byte{0}, CountOnly: true}} {
			sum.Evaluations++
			pages, err := g.iterate(q)
			if err != nil {
				return err
			}
			var n int64
			for _, pg := range pages {
				n += pg.Count
			}
			if n != int64(stored) {
				sum.violate(320000, "the wildcard range [\\0, \\0) does not cover every stored key", map[string]any{"stored": "keys of 1, 2, 5, 300, 1018, 1019, 1020, 1024 NUL bytes, of 1, 2, 1018, 1019, 1020, 1023, 1024 0xff bytes, and 00 01, 01, 'a'", "keys_only": q.KeysOnly, "count_only": q.CountOnly},
					fmt.Sprintf("%d of %d pairs", n, stored))
				return nil
			}
		}
		// ... and inside what the table exports (backup, follower snapshot): every stored pair, the NUL-only keys too
		{
			var cnt countWriter
			if _, err := g.f.Lookup(fsm.SnapshotRequest{Writer: &cnt}); err != nil {
				return err
			}
			sum.Evaluations++
			if cnt.n != stored {
				sum.violate(320002, "the table export does not contain every stored key", map[string]any{"stored": "keys of 1, 2, 5, 300, 1018, 1019, 1020, 1024 NUL bytes, of 1, 2, 1018, 1019, 1020, 1023, 1024 0xff bytes, and 00 01, 01, 'a'"}, fmt.Sprintf("%d of %d pairs exported", cnt.n, stored))
				return nil
			}
		}
		res, _, err := g.apply([]gEntry{{Idx: uint64(stored + 1), Cmd: gCmd{Kind: regattapb.Command_DELETE, K: []byte{0}, End: []byte{0}, Count: true}}})
		if err != nil {
			return err
		}
		sum.Evaluations++
		if d := res[0].Resps[0].GetResponseDeleteRange().GetDeleted(); d != int64(stored) {
			sum.violate(320001, "a wildcard range delete does not report every stored key", map[string]any{"stored": stored}, fmt.Sprintf("deleted %d", d))
		}
		// ... and deletes every one of them: nothing is left, for a wildcard read and for the export alike
		sum.Evaluations++
		left, err := g.iterate(gRange{Key: []byte{0}, End: []byte{0}})
		if err != nil {
			return err
		}
		var nleft int64
		var first []byte
		for _, pg := range left {
			nleft += pg.Count
			if first == nil && len(pg.Kvs) > 0 {
				first = pg.Kvs[0].Key
			}
		}
		var cnt2 countWriter
		if _, err := g.f.Lookup(fsm.SnapshotRequest{Writer: &cnt2}); err != nil {
			return err
		}
		if nleft != 0 || cnt2.n != 0 {
			sum.violate(320003, "a stored key survives a wildcard range delete (it lies outside the range the '\\0' wildcard addresses for deletes)", map[string]any{"stored": "keys of 1..1024 NUL bytes, of 1..1024 0xff bytes, and 00 01, 01, 'a'"},
				fmt.Sprintf("%d pairs left (first: %d bytes, first byte %x), %d exported", nleft, len(first), trunc(first), cnt2.n))
		}
	}
	// a point lookup of a key that is not stored finds nothing - also when a stored key has it as a proper prefix, or
	// is its byte-wise successor
	{
		g, _, err := newRealFSM(vfs.NewMem(), fsm.RecoveryTypeSnapshot)
		if err != nil {
			return err
		}
		defer g.close()
		if _, _, err := g.apply([]gEntry{{Idx: 1, Cmd: gCmd{Kind: regattapb.Command_PUT, K: []byte("app/config"), V: []byte("v1")}},
			{Idx: 2, Cmd: gCmd{Kind: regattapb.Command_PUT, K: []byte("b"), V: []byte("v2")}},
			{Idx: 3, Cmd: gCmd{Kind: regattapb.Command_PUT, K: []byte{'c', 0}, V: []byte("v3")}}}); err != nil {
			return err
		}
		idx := uint64(3)
		for _, k := range [][]byte{[]byte("app"), []byte("app/"), {'a', 0xff}, {'a', 0xff, 0xff}, []byte("c"), []byte("a")} {
			sum.Evaluations++
			in := map[string]any{"stored": "app/config, b, c\\x00", "asked_hex": fmt.Sprintf("%x", k)}
			if r, err := g.read(gRange{Key: k}); err != nil || len(r.Kvs) != 0 || r.Count != 0 {
				sum.violate(330000, "a lookup of a key that was never written returns a pair (two different user keys are treated as one)", in, fmt.Sprint(r, err))
				return nil
			}
			idx++
			res, _, err := g.apply([]gEntry{{Idx: idx, Cmd: gCmd{Kind: regattapb.Command_DELETE, K: k, Prev: true, Count: true}}})
			if err != nil {
				return err
			}
			if d := res[0].Resps[0].GetResponseDeleteRange(); d.GetDeleted() != 0 || len(d.GetPrevKvs()) != 0 {
				sum.violate(330001, "deleting a key that was never written reports a deletion (two different user keys are treated as one)", in, fmt.Sprint(d))
				return nil
			}
		}
	}
	return nil
}

// countWriter counts the records the table export writes.
type countWriter struct{ n int }

func (c *countWriter) Write(p []byte) (int, error) { c.n++; return len(p), nil }

func trunc(b []byte) []byte {
	if len(b) > 8 {
		return b[:8]
	}
	return b
}
