package main

import (
	"encoding/json"
	"errors"
	"fmt"
	"sync"
	"time"

	pvfs "github.com/cockroachdb/pebble/vfs"
	"github.com/jamf/regatta/replication"
	"github.com/jamf/regatta/storage"
	serrors "github.com/jamf/regatta/storage/errors"
	"github.com/jamf/regatta/storage/kv"
	"github.com/jamf/regatta/storage/table"
	"github.com/lni/dragonboat/v4"
	dbsm "github.com/lni/dragonboat/v4/statemachine"
)

// metaShard: the metadata Raft shard of a follower cluster reduced to what the lease needs - one real kv.LFSM replica
// per node, a proposal gets the next index and is applied to the replicas of all connected nodes; a node that is cut
// off keeps answering (stale) reads from its own replica (RaftStore.Get is a StaleRead) and its proposals time out
// (RaftStore.Set/Delete without a quorum).
type metaShard struct {
	mu       sync.Mutex
	index    uint64
	replicas map[uint64]dbsm.IConcurrentStateMachine
	cut      map[uint64]bool
}

func newMetaShard(nodes ...uint64) *metaShard {
	s := &metaShard{replicas: map[uint64]dbsm.IConcurrentStateMachine{}, cut: map[uint64]bool{}}
	for _, n := range nodes {
		s.replicas[n] = kv.NewLFSM()(1000, n)
	}
	return s
}

func (s *metaShard) partition(node uint64, cut bool) {
	s.mu.Lock()
	s.cut[node] = cut
	s.mu.Unlock()
}

func (s *metaShard) propose(node uint64, u kv.Update) (dbsm.Result, error) {
	cmd, _ := json.Marshal(u)
	s.mu.Lock()
	defer s.mu.Unlock()
	if s.cut[node] {
		return dbsm.Result{}, dragonboat.ErrTimeout
	}
	s.index++
	var res dbsm.Result
	for id, r := range s.replicas {
		if s.cut[id] {
			continue
		}
		out, err := r.Update([]dbsm.Entry{{Index: s.index, Cmd: cmd}})
		if err != nil {
			return dbsm.Result{}, err
		}
		res = out[0].Result
	}
	return res, nil
}

type metaNode struct {
	s    *metaShard
	node uint64
}

func (n metaNode) lookup(q interface{}) (interface{}, error) {
	n.s.mu.Lock()
	defer n.s.mu.Unlock()
	return n.s.replicas[n.node].Lookup(q)
}

func (n metaNode) Set(key, value string, ver uint64) (kv.Pair, error) {
	res, err := n.s.propose(n.node, kv.Update{Op: kv.UpdateOpSet, KVPair: kv.Pair{Key: key, Value: value, Ver: ver}})
	if err != nil {
		return kv.Pair{}, err
	}
	var p kv.Pair
	if err := json.Unmarshal(res.Data, &p); err != nil {
		return kv.Pair{}, err
	}
	if res.Value == kv.ResultCodeVersionMismatch {
		return p, kv.ErrVersionMismatch
	}
	return p, nil
}

func (n metaNode) Delete(key string, ver uint64) error {
	res, err := n.s.propose(n.node, kv.Update{Op: kv.UpdateOpDelete, KVPair: kv.Pair{Key: key, Ver: ver}})
	if err != nil {
		return err
	}
	if res.Value == kv.ResultCodeVersionMismatch {
		return kv.ErrVersionMismatch
	}
	return nil
}

func (n metaNode) Get(key string) (kv.Pair, error) {
	v, err := n.lookup(kv.QueryKey{Key: key})
	if err != nil {
		return kv.Pair{}, err
	}
	return v.(kv.Pair), nil
}

func (n metaNode) Exists(key string) (bool, error) {
	v, err := n.lookup(kv.QueryExist{Key: key})
	if err != nil {
		return false, err
	}
	return v.(bool), nil
}

func (n metaNode) GetAll(pattern string) ([]kv.Pair, error) {
	v, err := n.lookup(kv.QueryAll{Pattern: pattern})
	if err != nil {
		return nil, err
	}
	return v.([]kv.Pair), nil
}

func metaManager(s *metaShard, node uint64) *table.Manager {
	return table.NewManager(nil, nil, metaNode{s: s, node: node}, table.Config{NodeID: node,
		Table: table.TableConfig{HeartbeatRTT: 1, ElectionRTT: 5, FS: pvfs.NewMem(), BlockCacheSize: 1024, TableCacheSize: 1024},
		Meta:  table.MetaConfig{HeartbeatRTT: 1, ElectionRTT: 5}})
}

// runC15Workers: real replication workers (their lease routine) of two or three nodes over one metadata shard.  The
// mechanism named by the property - a worker replicates only while its last lease renewal succeeded - is what keeps
// "at most one node holds the lease" true for the nodes' BEHAVIOUR: sampled every 2 ms, at most one worker may have
// its leased flag set at any instant when the holders' leases cannot both be unexpired, in particular (a) two live
// workers competing, (b) the holder cut off from the metadata shard while another node takes the table over.
func runC15Workers(sum *Summary) error {
	const tbl = "tab"
	const li = 150 * time.Millisecond // the lease is taken for 4 intervals
	hw := sum.hist("worker_scenarios")
	for variant := 0; variant < 3; variant++ {
		shard := newMetaShard(1, 2, 3)
		mk := func(node uint64) replication.VerifWorker {
			return replication.VerifNewWorker(&storage.Engine{Manager: metaManager(shard, node)}, tbl, li, 40*time.Millisecond)
		}
		w1, w2 := mk(1), mk(2)
		w1.Start()
		deadline := time.Now().Add(10 * time.Second)
		for !w1.Leased() && time.Now().Before(deadline) {
			time.Sleep(2 * time.Millisecond)
		}
		if !w1.Leased() {
			w1.Close()
			return fmt.Errorf("harness: worker 1 never acquired the lease")
		}
		w2.Start()
		node3 := metaManager(shard, 3)
		descr := ""
		// both flags set for longer than two lease intervals without a break (a single late tick of a starved routine
		// is the excuse the theorem allows; a flag that survives failed renewals is not)
		var both, n int
		var since time.Time
		var longest time.Duration
		sample := func(d time.Duration) {
			end := time.Now().Add(d)
			for time.Now().Before(end) {
				n++
				if w1.Leased() && w2.Leased() {
					if since.IsZero() {
						since = time.Now()
					}
					if dur := time.Since(since); dur > longest {
						longest = dur
					}
					if time.Since(since) > 2*li {
						both++
					}
				} else {
					since = time.Time{}
				}
				time.Sleep(2 * time.Millisecond)
			}
		}
		switch variant {
		case 0:
			descr = "two live workers compete for one table for 1.5 s (lease interval 150 ms)"
			sample(1500 * time.Millisecond)
		case 1:
			descr = "worker 1 holds the lease and is then cut off from the metadata shard (proposals time out, stale local reads); worker 2 keeps asking; observed for 2.5 s"
			sample(300 * time.Millisecond)
			shard.partition(1, true)
			sample(2500 * time.Millisecond)
			if !w2.Leased() {
				sum.violate(800001, "the table is never taken over after its lease holder lost the metadata shard", map[string]any{"scenario": descr}, nil)
			}
		case 2:
			descr = "worker 1 cut off; a third node takes the table over with LeaseTable as soon as it can; at that instant and 3 intervals later worker 1 must not consider the table leased"
			w2.Close()
			shard.partition(1, true)
			got := false
			end := time.Now().Add(10 * time.Second)
			for time.Now().Before(end) {
				err := node3.LeaseTable(tbl, time.Hour)
				if err == nil {
					got = true
					break
				}
				if !errors.Is(err, serrors.ErrLeaseNotAcquired) {
					return fmt.Errorf("harness: node 3 LeaseTable: %w", err)
				}
				time.Sleep(10 * time.Millisecond)
			}
			if !got {
				sum.violate(800002, "the table is never taken over after its lease holder lost the metadata shard", map[string]any{"scenario": descr}, nil)
			}
			l0 := w1.Leased()
			time.Sleep(3 * li)
			if w1.Leased() {
				sum.violate(800002, "a node keeps acting on a replication lease that has expired and was granted to another node", map[string]any{"scenario": descr},
					fmt.Sprintf("worker 1 leased flag: %v when node 3 was granted the lease, %v three lease intervals later", l0, w1.Leased()))
			}
		}
		if both > 0 {
			sum.violate(800000+variant, "two nodes act on the replication lease of one table at the same time", map[string]any{"scenario": descr}, fmt.Sprintf("both workers' leased flag set without a break for %v (lease interval %v); %d of %d samples beyond two intervals", longest, li, both, n))
		}
		w1.Close()
		if variant != 2 {
			w2.Close()
		}
		hw.Inc(descr)
		sum.Evaluations++
		sum.DistinctNontrivial++
	}
	return nil
}
