package main

import (
	"fmt"
	"strings"

	"github.com/cockroachdb/pebble/vfs"
	"github.com/jamf/regatta/storage/table/fsm"
)

func init() { register("c03", runC03) }

// runC03: the same log applied to two real state machines under two random partitions, with reopen and
// snapshot transfer at cut points; both compared with each other (oracle) and with the model (cases file).
func runC03(args []string) error {
	rf, err := parseFlags("c03", args, nil)
	if err != nil {
		return err
	}
	r := rf.rng()
	n := rf.count(150, 3000)
	sum := &Summary{Engine: "c03", Seed: rf.Seed,
		Rule: "random logs of 3-14 entries (with and without leader index, transactions, range deletes, sequences) applied to two real fsm.FSM instances under two independent random partitions into apply batches, with Close/Open and PrepareSnapshot/SaveSnapshot/RecoverFromSnapshot (snapshot and checkpoint format, and across formats; the stream written right away or only after the saver applied the next batch, the receiver replaying that batch) at random cut points; compared: per-entry results, full content, both indices, GetHash; distinct = distinct (log, partitions); non-trivial = the partitions differ and some entry carries a leader index"}
	cf := &CasesFile{Requires: []string{"Model.Bytes", "Model.Obs", "Model.Cmd", "Model.Fsm", "Run.FsmRun"}, CaseType: "fcase",
		Check: "fsm_check", Show: "fsm_model", Spec: "fsm_spec_check", SpecShow: "fsm_spec"}
	hc := sum.hist("commands")
	hp := sum.hist("partition")
	seen := map[string]bool{}
	full := gRange{Key: []byte{0}, End: []byte{0}}
	for c := 0; c < n; c++ {
		g := newFsmGen(r, hc)
		g.leader = r.Intn(4) != 0
		idx := uint64(r.Intn(3))
		log := g.entries(3+r.Intn(12), &idx)
		for i := range log {
			log[i].Cmd, _ = wireNormal(log[i].Cmd)
		}
		mk := func() ([]gStep, string) {
			var steps []gStep
			var sig []string
			i := 0
			for i < len(log) {
				k := 1 + r.Intn(4)
				if i+k > len(log) {
					k = len(log) - i
				}
				steps = append(steps, gStep{Kind: 0, Entries: log[i : i+k]})
				sig = append(sig, fmt.Sprint(k))
				i += k
				if r.Intn(5) == 0 {
					ro := r.Intn(5)
					steps = append(steps, gStep{Kind: 5, Reopen: ro})
					sig = append(sig, fmt.Sprintf("r%d", ro))
					hp.Inc(fmt.Sprintf("reopen-kind-%d", ro))
				}
			}
			// a transfer whose stream is written only after the saver applied the next batch
			for j := 0; j+1 < len(steps); j++ {
				if steps[j].Kind == 5 && steps[j].Reopen >= 1 && steps[j+1].Kind == 0 && r.Intn(2) == 0 {
					steps[j].Late = steps[j+1].Entries
					sig = append(sig, fmt.Sprintf("late@%d", j))
					hp.Inc("save-after-next-batch")
				}
			}
			steps = append(steps, gStep{Kind: 1, R: full}, gStep{Kind: 4})
			return steps, strings.Join(sig, ",")
		}
		s1, sig1 := mk()
		s2, sig2 := mk()
		run := func(steps []gStep) ([]string, []entryObs, uint64, error) {
			f, _, err := newRealFSM(vfs.NewMem(), fsm.RecoveryTypeSnapshot)
			if err != nil {
				return nil, nil, 0, err
			}
			var obs []string
			var res []entryObs
			for _, s := range steps {
				if s.Kind == 0 {
					rs, nidx, err := f.apply(s.Entries)
					if err != nil {
						return nil, nil, 0, err
					}
					res = append(res, rs...)
					obs = append(obs, applyObs(rs, nidx))
					continue
				}
				o, nf, err := runStep(f, s)
				if err != nil {
					return nil, nil, 0, err
				}
				f = nf
				obs = append(obs, o)
			}
			h, _ := f.f.GetHash()
			f.close()
			return obs, res, h, nil
		}
		o1, r1, h1, err := run(s1)
		if err != nil {
			return err
		}
		o2, r2, h2, err := run(s2)
		if err != nil {
			return err
		}
		in := map[string]any{"log": fmt.Sprint(log), "partition1": sig1, "partition2": sig2}
		if h1 != h2 {
			sum.violate(c, "replicas that applied the same log under different batchings differ (store hash)", in, nil)
		}
		if o1[len(o1)-1] != o2[len(o2)-1] {
			sum.violate(c, "replicas that applied the same log under different batchings differ in applied/leader index", in, o1[len(o1)-1]+" vs "+o2[len(o2)-1])
		}
		if o1[len(o1)-2] != o2[len(o2)-2] {
			sum.violate(c, "replicas that applied the same log under different batchings differ in content", in, nil)
		}
		for i := range r1 {
			if r1[i].obs() != r2[i].obs() {
				sum.violate(c, "an entry's result depends on the batching", in, fmt.Sprintf("entry %d", i))
				break
			}
		}
		for _, sv := range []struct {
			steps []gStep
			obs   []string
			sig   string
		}{{s1, o1, sig1}, {s2, o2, sig2}} {
			d := "partition " + sv.sig + " of " + fmt.Sprint(log)
			cf.Add(fmt.Sprintf("{| f_steps := %s; f_impl := %s |}", stepsCoq(sv.steps), oLs(sv.obs)), d)
		}
		hasLeader := false
		for _, e := range log {
			if e.Cmd.Leader != nil {
				hasLeader = true
			}
		}
		key := fmt.Sprint(log) + sig1 + "|" + sig2
		if !seen[key] && sig1 != sig2 && hasLeader {
			sum.DistinctNontrivial++
		}
		seen[key] = true
		if len(sum.Samples) < 3 && sig1 != sig2 && hasLeader && c%17 == 0 {
			sum.Samples = append(sum.Samples, in)
		}
	}
	sum.Evaluations = 2 * n
	if len(sum.Samples) == 0 {
		sum.Samples = append(sum.Samples, cf.Descr[0])
	}
	names, err := cf.Write(rf.Out, "c03_cases", 25)
	if err != nil {
		return err
	}
	sum.CasesFiles = names
	return sum.write(rf.Out, "c03")
}
