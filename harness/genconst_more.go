package main

import (
	"github.com/jamf/regatta/storage/cluster"
	"github.com/jamf/regatta/storage/kv"
)

func collectMoreConstants() {
	addN("cluster_noLeader", cluster.VerifNoLeader, "cluster.noLeader")
	addN("kv_ResultCodeFailure", kv.ResultCodeFailure, "kv.ResultCodeFailure")
	addN("kv_ResultCodeSuccess", kv.ResultCodeSuccess, "kv.ResultCodeSuccess")
	addN("kv_ResultCodeVersionMismatch", kv.ResultCodeVersionMismatch, "kv.ResultCodeVersionMismatch")
}
