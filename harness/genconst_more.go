package main

import (
	"github.com/jamf/regatta/storage/cluster"
)

func collectMoreConstants() {
	addN("cluster_noLeader", cluster.VerifNoLeader, "cluster.noLeader")
}
