package main

func collectMoreConstants() {}
