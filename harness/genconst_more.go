package main

import (
	"github.com/jamf/regatta/regattaserver"
	"github.com/jamf/regatta/storage/cluster"
	"github.com/jamf/regatta/storage/kv"
	"github.com/jamf/regatta/storage/table"
)

func collectMoreConstants() {
	addN("cluster_noLeader", cluster.VerifNoLeader, "cluster.noLeader")
	addN("table_MaxValueLen", table.MaxValueLen, "table.MaxValueLen")
	addN("table_tableIDsRangeStart", table.VerifTableIDsRangeStart, "table.tableIDsRangeStart")
	addN("server_DefaultMaxGRPCSize", regattaserver.DefaultMaxGRPCSize, "regattaserver.DefaultMaxGRPCSize")
	addN("kv_ResultCodeFailure", kv.ResultCodeFailure, "kv.ResultCodeFailure")
	addN("kv_ResultCodeSuccess", kv.ResultCodeSuccess, "kv.ResultCodeSuccess")
	addN("kv_ResultCodeVersionMismatch", kv.ResultCodeVersionMismatch, "kv.ResultCodeVersionMismatch")
}
