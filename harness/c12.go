package main

import (
	"bytes"
	"encoding/hex"
	"fmt"
	"math/rand"

	"github.com/jamf/regatta/storage/table/fsm"
	"github.com/jamf/regatta/storage/table/key"
)

func init() { register("c12", runC12) }

func kerrCode(err error) int64 {
	switch err {
	case key.ErrMissingKeyHeader:
		return 1
	case key.ErrUnknownKeyVersion:
		return 2
	case key.ErrMalformedKeyHeader:
		return 3
	case key.ErrMissingKeyType:
		return 4
	}
	return 99
}

func odecBytes(raw []byte) string {
	k, err := key.DecodeBytes(raw)
	if err != nil {
		return oN(kerrCode(err))
	}
	return oL(oU(uint64(k.KeyType)), oB(k.Key))
}

func odecStream(raw []byte) string {
	var k key.Key
	if err := key.NewDecoder(bytes.NewReader(raw)).Decode(&k); err != nil {
		return oN(kerrCode(err))
	}
	return oL(oU(uint64(k.KeyType)), oB(k.Key))
}

func inBounds(lo, hi, k []byte) bool { return bytes.Compare(lo, k) <= 0 && bytes.Compare(k, hi) < 0 }

func sign(i int) int64 {
	if i < 0 {
		return -1
	}
	if i > 0 {
		return 1
	}
	return 0
}

func c12Keys(r *rand.Rand, n int) [][]byte {
	var ks [][]byte
	alpha := []byte{0x00, 0x01, 0x7F, 0xFE, 0xFF}
	ks = append(ks, []byte{})
	for _, a := range alpha {
		ks = append(ks, []byte{a})
		for _, b := range alpha {
			ks = append(ks, []byte{a, b})
		}
	}
	for l := 1017; l <= 1026; l++ {
		ks = append(ks, bytes.Repeat([]byte{0xFF}, l))
		ks = append(ks, append(bytes.Repeat([]byte{0xFF}, l-1), 0xFE))
		ks = append(ks, append([]byte{0x00}, bytes.Repeat([]byte{0xFF}, l-1)...))
	}
	// stored-key shaped inputs (for the decoders on raw bytes)
	ks = append(ks, fsm.VerifSysLocalIndex(), fsm.VerifSysLeaderIndex(), fsm.VerifMaxUserKey())
	ks = append(ks, []byte{1, 0, 0, 0}, []byte{1, 0, 0, 0, 1}, []byte{1, 0, 0, 0, 1, 97}, []byte{1, 0, 0, 0, 2, 97}, []byte{1, 0, 0, 0, 0, 97},
		[]byte{1, 0, 1, 0, 1, 97}, []byte{2, 0, 0, 0, 1, 97}, []byte{0, 0, 0, 0, 1, 97}, []byte{1, 0, 0}, []byte{1, 0, 0, 9, 1, 97})
	long := append([]byte{1, 0, 0, 0, 1}, bytes.Repeat([]byte{0x61}, 1030)...)
	ks = append(ks, long, long[:1024], long[:1023], long[:1025])
	nlong := 0
	for len(ks) < n {
		var l int
		switch r.Intn(8) {
		case 0:
			l = r.Intn(4)
		case 1:
			l = 1 + r.Intn(12)
		case 2:
			l = 1010 + r.Intn(20)
		default:
			l = 1 + r.Intn(40)
		}
		b := make([]byte, l)
		if l >= 1000 {
			// long keys: structured (few runs) except for a handful of fully random ones
			nlong++
			if nlong != 5 && nlong != 40 && nlong != 90 {
				fill := []byte{0xFF, 0x00, 0x61}[r.Intn(3)]
				for i := range b {
					b[i] = fill
				}
				for j := 0; j < r.Intn(4); j++ {
					b[r.Intn(l)] = byte(r.Intn(256))
				}
				if r.Intn(2) == 0 {
					b[l-1] = []byte{0xFE, 0xFF, 0x00}[r.Intn(3)]
				}
				ks = append(ks, b)
				continue
			}
		}
		for i := range b {
			switch r.Intn(5) {
			case 0:
				b[i] = 0xFF
			case 1:
				b[i] = 0x00
			default:
				b[i] = byte(r.Intn(256))
			}
		}
		if r.Intn(4) == 0 && len(ks) > 0 { // a prefix or an extension of an earlier key
			p := ks[r.Intn(len(ks))]
			if r.Intn(2) == 0 && len(p) > 0 {
				b = append([]byte{}, p[:r.Intn(len(p))]...)
			} else if len(p) < 1100 {
				b = append(append([]byte{}, p...), byte(r.Intn(256)))
			}
		}
		if r.Intn(6) == 0 { // raw stored-key shape
			b = append([]byte{1, 0, 0, 0, byte(r.Intn(3))}, b...)
		}
		ks = append(ks, b)
	}
	return ks
}

func runC12(args []string) error {
	rf, err := parseFlags("c12", args, nil)
	if err != nil {
		return err
	}
	r := rf.rng()
	n := rf.count(1500, 20000)
	keys := c12Keys(r, n)
	sum := &Summary{Engine: "c12", Seed: rf.Seed,
		Rule: "enumerated adversarial keys (all keys of length<=2 over {00,01,7F,FE,FF}, all-FF runs around the 1019/1024 limits, stored-key shapes, prefixes/extensions) plus seeded random keys, each paired with a second key; distinct = distinct (k,k2) pairs; non-trivial = k non-empty"}
	cf := &CasesFile{Requires: []string{"Model.Bytes", "Model.Obs", "Model.KeyEnc", "Run.C12Run"}, CaseType: "c12case", Check: "c12_check", Show: "c12_show"}
	seen := map[string]bool{}
	sysL, sysLd := fsm.VerifSysLocalIndex(), fsm.VerifSysLeaderIndex()
	wild := fsm.VerifWildcard()
	lenH, shapeH := sum.hist("key_len"), sum.hist("shape")
	for i, k := range keys {
		var k2 []byte
		switch {
		case i%7 == 0:
			k2 = wild
		case i%7 == 1:
			k2 = k
		default:
			k2 = keys[r.Intn(len(keys))]
		}
		id := hex.EncodeToString(k) + "|" + hex.EncodeToString(k2)
		if !seen[id] && len(k) > 0 {
			sum.DistinctNontrivial++
		}
		seen[id] = true
		switch {
		case len(k) == 0:
			lenH.Inc("0")
		case len(k) <= 2:
			lenH.Inc("1-2")
		case len(k) < 1000:
			lenH.Inc("3-999")
		case len(k) <= 1019:
			lenH.Inc("1000-1019")
		case len(k) <= 1024:
			lenH.Inc("1020-1024")
		default:
			lenH.Inc(">1024")
		}
		if len(k) > 0 && bytes.Count(k, []byte{0xFF}) == len(k) {
			shapeH.Inc("allFF")
		}
		if bytes.Equal(k2, wild) {
			shapeH.Inc("hi=wildcard")
		}
		if bytes.HasPrefix(k2, k) || bytes.HasPrefix(k, k2) {
			shapeH.Inc("prefix-related")
		}

		ek, err := fsm.VerifEncodeUserKey(k)
		if err != nil {
			return err
		}
		ek2, _ := fsm.VerifEncodeUserKey(k2)
		inc := fsm.VerifIncrementRightmostByte(append([]byte(nil), k...))
		opts, err := fsm.VerifIterOptionsForBounds(k, k2)
		if err != nil {
			return err
		}
		wopts, _ := fsm.VerifIterOptionsForBounds(k2, wild)
		impl := oL(
			oB(ek), odecBytes(ek), odecStream(ek), odecBytes(k), odecStream(k), oB(inc),
			oB(opts.LowerBound), oB(opts.UpperBound),
			oN(sign(bytes.Compare(k, k2))), oN(sign(bytes.Compare(ek, ek2))),
			oBool(inBounds(opts.LowerBound, opts.UpperBound, sysL)), oBool(inBounds(opts.LowerBound, opts.UpperBound, sysLd)),
			oBool(inBounds(wopts.LowerBound, wopts.UpperBound, ek)),
		)
		cf.Add(fmt.Sprintf("{| c_k := %s; c_k2 := %s; c_impl := %s |}", cBytes(k), cBytes(k2), impl),
			fmt.Sprintf("k=%x k2=%x", k, k2))
		if len(sum.Samples) < 5 && i%311 == 5 {
			sum.Samples = append(sum.Samples, map[string]string{"k": hex.EncodeToString(k), "k2": hex.EncodeToString(k2), "enc_k": hex.EncodeToString(ek)})
		}

		// ---- the property itself, evaluated on the implementation's outputs ----
		in := map[string]string{"k": hex.EncodeToString(k), "k2": hex.EncodeToString(k2)}
		if len(k) > 0 {
			d, err := key.DecodeBytes(ek)
			if err != nil || d.KeyType != key.TypeUser || !bytes.Equal(d.Key, k) {
				sum.violate(i, "decode(encode k) != k", in, fmt.Sprintf("%v %v %x", err, d.KeyType, d.Key))
			}
		}
		if !bytes.Equal(k, k2) && bytes.Equal(ek, ek2) {
			sum.violate(i, "two different user keys encode to the same stored key", in, nil)
		}
		if sign(bytes.Compare(k, k2)) != sign(bytes.Compare(ek, ek2)) {
			sum.violate(i, "encoding does not preserve byte order", in, nil)
		}
		wo, _ := fsm.VerifIterOptionsForBounds([]byte{0}, wild)
		if len(k) > 0 && !inBounds(wo.LowerBound, wo.UpperBound, ek) {
			sum.violate(i, "user key outside the range addressed by the \\0 wildcard", in, nil)
		}
		if inBounds(opts.LowerBound, opts.UpperBound, sysL) || inBounds(opts.LowerBound, opts.UpperBound, sysLd) ||
			inBounds(wopts.LowerBound, wopts.UpperBound, sysL) || inBounds(wopts.LowerBound, wopts.UpperBound, sysLd) {
			sum.violate(i, "bookkeeping key inside a user-expressible range", in, nil)
		}
		if len(k) > 0 && len(k2) > 0 {
			// range bounds mean the same in both spaces: k2 in [k, k2') iff enc k2 in [enc k, enc k2')
			k3 := keys[(i*31+7)%len(keys)]
			o3, _ := fsm.VerifIterOptionsForBounds(k, k3)
			if !bytes.Equal(k3, wild) && inBounds(k, k3, k2) != inBounds(o3.LowerBound, o3.UpperBound, ek2) {
				sum.violate(i, "range bounds differ between user and stored key space", map[string]string{"lo": in["k"], "k": in["k2"], "hi": hex.EncodeToString(k3)}, nil)
			}
		}
	}
	sum.Evaluations = len(keys)
	if len(sum.Samples) == 0 {
		sum.Samples = append(sum.Samples, cf.Descr[0])
	}
	names, err := cf.Write(rf.Out, "c12_cases", 100)
	if err != nil {
		return err
	}
	sum.CasesFiles = names
	if err := runC12Bookkeeping(sum); err != nil {
		return err
	}
	return sum.write(rf.Out, "c12")
}
