package main

import (
	"bytes"
	"fmt"
	"math/rand"
	"strings"

	"github.com/jamf/regatta/regattapb"
)

// ---- a Go-side AST of commands (mirrors Model/Cmd.v) ----

type gRange struct {
	Key, End            []byte // End nil = absent
	Limit               int64
	KeysOnly, CountOnly bool
}

type gOp struct {
	Kind  int // 0 range, 1 put, 2 delete, 3 unset
	R     gRange
	K, V  []byte
	End   []byte
	Prev  bool
	Count bool
}

type gCmp struct {
	Res    int // 0 EQUAL 1 GREATER 2 LESS 3 NOT_EQUAL (proto numbering)
	Key    []byte
	End    []byte
	HasVal bool
	Val    []byte
}

type gCmd struct {
	Kind   regattapb.Command_CommandType
	K, V   []byte
	End    []byte
	Prev   bool
	Count  bool
	KVs    [][2][]byte
	Cmps   []gCmp
	Succ   []gOp
	Fail   []gOp
	Seq    []gCmd
	Leader *uint64
}

type gEntry struct {
	Idx uint64
	Cmd gCmd
}

func (r gRange) pb() *regattapb.RequestOp_Range {
	return &regattapb.RequestOp_Range{Key: r.Key, RangeEnd: r.End, Limit: r.Limit, KeysOnly: r.KeysOnly, CountOnly: r.CountOnly}
}

func rangeFromPB(r *regattapb.RequestOp_Range) gRange {
	return gRange{Key: r.Key, End: r.RangeEnd, Limit: r.Limit, KeysOnly: r.KeysOnly, CountOnly: r.CountOnly}
}

func (o gOp) pb() *regattapb.RequestOp {
	switch o.Kind {
	case 0:
		return &regattapb.RequestOp{Request: &regattapb.RequestOp_RequestRange{RequestRange: o.R.pb()}}
	case 1:
		return &regattapb.RequestOp{Request: &regattapb.RequestOp_RequestPut{RequestPut: &regattapb.RequestOp_Put{Key: o.K, Value: o.V, PrevKv: o.Prev}}}
	case 2:
		return &regattapb.RequestOp{Request: &regattapb.RequestOp_RequestDeleteRange{RequestDeleteRange: &regattapb.RequestOp_DeleteRange{Key: o.K, RangeEnd: o.End, PrevKv: o.Prev, Count: o.Count}}}
	}
	return &regattapb.RequestOp{}
}

func opFromPB(o *regattapb.RequestOp) gOp {
	switch x := o.Request.(type) {
	case *regattapb.RequestOp_RequestRange:
		return gOp{Kind: 0, R: rangeFromPB(x.RequestRange)}
	case *regattapb.RequestOp_RequestPut:
		return gOp{Kind: 1, K: x.RequestPut.Key, V: x.RequestPut.Value, Prev: x.RequestPut.PrevKv}
	case *regattapb.RequestOp_RequestDeleteRange:
		return gOp{Kind: 2, K: x.RequestDeleteRange.Key, End: x.RequestDeleteRange.RangeEnd, Prev: x.RequestDeleteRange.PrevKv, Count: x.RequestDeleteRange.Count}
	}
	return gOp{Kind: 3}
}

func (c gCmp) pb() *regattapb.Compare {
	p := &regattapb.Compare{Result: regattapb.Compare_CompareResult(c.Res), Target: regattapb.Compare_VALUE, Key: c.Key, RangeEnd: c.End}
	if c.HasVal {
		p.TargetUnion = &regattapb.Compare_Value{Value: c.Val}
	}
	return p
}

func cmpFromPB(c *regattapb.Compare) gCmp {
	g := gCmp{Res: int(c.Result), Key: c.Key, End: c.RangeEnd}
	if v, ok := c.TargetUnion.(*regattapb.Compare_Value); ok {
		g.HasVal = true
		g.Val = v.Value
	}
	return g
}

func (c gCmd) pb() *regattapb.Command {
	p := &regattapb.Command{Type: c.Kind, Table: []byte("t"), LeaderIndex: c.Leader}
	switch c.Kind {
	case regattapb.Command_PUT:
		p.Kv = &regattapb.KeyValue{Key: c.K, Value: c.V}
		p.PrevKvs = c.Prev
	case regattapb.Command_DELETE:
		p.Kv = &regattapb.KeyValue{Key: c.K}
		p.RangeEnd = c.End
		p.PrevKvs = c.Prev
		p.Count = c.Count
	case regattapb.Command_PUT_BATCH, regattapb.Command_DELETE_BATCH:
		for _, kv := range c.KVs {
			p.Batch = append(p.Batch, &regattapb.KeyValue{Key: kv[0], Value: kv[1]})
		}
	case regattapb.Command_TXN:
		t := &regattapb.Txn{}
		for _, x := range c.Cmps {
			t.Compare = append(t.Compare, x.pb())
		}
		for _, x := range c.Succ {
			t.Success = append(t.Success, x.pb())
		}
		for _, x := range c.Fail {
			t.Failure = append(t.Failure, x.pb())
		}
		p.Txn = t
	case regattapb.Command_SEQUENCE:
		for _, x := range c.Seq {
			p.Sequence = append(p.Sequence, x.pb())
		}
	}
	return p
}

func cmdFromPB(p *regattapb.Command) gCmd {
	c := gCmd{Kind: p.Type, Leader: p.LeaderIndex}
	switch p.Type {
	case regattapb.Command_PUT:
		c.K, c.V, c.Prev = p.Kv.GetKey(), p.Kv.GetValue(), p.PrevKvs
	case regattapb.Command_DELETE:
		c.K, c.End, c.Prev, c.Count = p.Kv.GetKey(), p.RangeEnd, p.PrevKvs, p.Count
	case regattapb.Command_PUT_BATCH, regattapb.Command_DELETE_BATCH:
		for _, kv := range p.Batch {
			c.KVs = append(c.KVs, [2][]byte{kv.Key, kv.Value})
		}
	case regattapb.Command_TXN:
		for _, x := range p.Txn.GetCompare() {
			c.Cmps = append(c.Cmps, cmpFromPB(x))
		}
		for _, x := range p.Txn.GetSuccess() {
			c.Succ = append(c.Succ, opFromPB(x))
		}
		for _, x := range p.Txn.GetFailure() {
			c.Fail = append(c.Fail, opFromPB(x))
		}
	case regattapb.Command_SEQUENCE:
		for _, x := range p.Sequence {
			c.Seq = append(c.Seq, cmdFromPB(x))
		}
	}
	return c
}

// wireNormal returns the command as the state machine sees it: after one marshal/unmarshal.
func wireNormal(c gCmd) (gCmd, []byte) {
	bts, err := c.pb().MarshalVT()
	if err != nil {
		panic(err)
	}
	q := &regattapb.Command{}
	if err := q.UnmarshalVT(bts); err != nil {
		panic(err)
	}
	return cmdFromPB(q), bts
}

// ---- Coq printing ----

func (r gRange) coq() string {
	return fmt.Sprintf("(rq %s %s %s %s %s)", cBytes(r.Key), cOptBytes(r.End), cZ(r.Limit), cBool(r.KeysOnly), cBool(r.CountOnly))
}

func (o gOp) coq() string {
	switch o.Kind {
	case 0:
		return "ORange " + o.R.coq()
	case 1:
		return fmt.Sprintf("OPut (pq %s %s %s)", cBytes(o.K), cBytes(o.V), cBool(o.Prev))
	case 2:
		return fmt.Sprintf("ODel (dq %s %s %s %s)", cBytes(o.K), cOptBytes(o.End), cBool(o.Prev), cBool(o.Count))
	}
	return "OUnset"
}

func coqOps(ops []gOp) string {
	parts := make([]string, len(ops))
	for i, o := range ops {
		parts[i] = o.coq()
	}
	return cList(parts)
}

func (c gCmp) coq() string {
	res := []string{"CEq", "CGt", "CLt", "CNe"}[c.Res]
	val := "None"
	if c.HasVal {
		val = "(Some " + cBytes(c.Val) + ")"
	}
	return fmt.Sprintf("cmpq %s %s %s %s", res, cBytes(c.Key), cOptBytes(c.End), val)
}

func coqCmps(cs []gCmp) string {
	parts := make([]string, len(cs))
	for i, c := range cs {
		parts[i] = c.coq()
	}
	return cList(parts)
}

func (c gCmd) coq() string {
	switch c.Kind {
	case regattapb.Command_PUT:
		return fmt.Sprintf("CPut %s %s %s", cBytes(c.K), cBytes(c.V), cBool(c.Prev))
	case regattapb.Command_DELETE:
		return fmt.Sprintf("CDelete %s %s %s %s", cBytes(c.K), cOptBytes(c.End), cBool(c.Prev), cBool(c.Count))
	case regattapb.Command_DUMMY:
		return "CDummy"
	case regattapb.Command_PUT_BATCH:
		parts := make([]string, len(c.KVs))
		for i, kv := range c.KVs {
			parts[i] = "(" + cBytes(kv[0]) + ", " + cBytes(kv[1]) + ")"
		}
		return "CPutBatch " + cList(parts)
	case regattapb.Command_DELETE_BATCH:
		parts := make([]string, len(c.KVs))
		for i, kv := range c.KVs {
			parts[i] = cBytes(kv[0])
		}
		return "CDeleteBatch " + cList(parts)
	case regattapb.Command_TXN:
		return fmt.Sprintf("CTxn %s %s %s", coqCmps(c.Cmps), coqOps(c.Succ), coqOps(c.Fail))
	case regattapb.Command_SEQUENCE:
		parts := make([]string, len(c.Seq))
		for i, x := range c.Seq {
			parts[i] = "(" + x.coq() + ")"
		}
		return "CSequence " + cList(parts)
	}
	panic("unknown command kind")
}

func (e gEntry) coq() string {
	return fmt.Sprintf("ent %d %s (%s)", e.Idx, cOptN(e.Cmd.Leader), e.Cmd.coq())
}

// ---- short human-readable descriptions (samples, replays) ----

func q(b []byte) string {
	if b == nil {
		return "nil"
	}
	if len(b) > 24 {
		return fmt.Sprintf("%q..(%d)", b[:8], len(b))
	}
	return fmt.Sprintf("%q", b)
}

func (r gRange) String() string {
	return fmt.Sprintf("range[%s,%s lim=%d ko=%v co=%v]", q(r.Key), q(r.End), r.Limit, r.KeysOnly, r.CountOnly)
}

func (o gOp) String() string {
	switch o.Kind {
	case 0:
		return o.R.String()
	case 1:
		return fmt.Sprintf("put[%s=%s prev=%v]", q(o.K), q(o.V), o.Prev)
	case 2:
		return fmt.Sprintf("del[%s,%s prev=%v cnt=%v]", q(o.K), q(o.End), o.Prev, o.Count)
	}
	return "unset"
}

func (c gCmp) String() string {
	v := "exists"
	if c.HasVal {
		v = []string{"==", ">", "<", "!="}[c.Res] + q(c.Val)
	}
	return fmt.Sprintf("cmp[%s,%s %s]", q(c.Key), q(c.End), v)
}

func (c gCmd) String() string {
	l := ""
	if c.Leader != nil {
		l = fmt.Sprintf("@L%d ", *c.Leader)
	}
	switch c.Kind {
	case regattapb.Command_PUT:
		return l + fmt.Sprintf("PUT %s=%s prev=%v", q(c.K), q(c.V), c.Prev)
	case regattapb.Command_DELETE:
		return l + fmt.Sprintf("DELETE %s,%s prev=%v cnt=%v", q(c.K), q(c.End), c.Prev, c.Count)
	case regattapb.Command_DUMMY:
		return l + "DUMMY"
	case regattapb.Command_PUT_BATCH, regattapb.Command_DELETE_BATCH:
		var parts []string
		for _, kv := range c.KVs {
			parts = append(parts, q(kv[0])+"="+q(kv[1]))
		}
		return l + c.Kind.String() + " " + strings.Join(parts, ",")
	case regattapb.Command_TXN:
		return l + fmt.Sprintf("TXN if%v then%v else%v", c.Cmps, c.Succ, c.Fail)
	case regattapb.Command_SEQUENCE:
		return l + fmt.Sprintf("SEQ%v", c.Seq)
	}
	return "?"
}

func (e gEntry) String() string { return fmt.Sprintf("#%d %v", e.Idx, e.Cmd) }

// ---- generators ----

type fsmGen struct {
	r      *rand.Rand
	keys   [][]byte
	vals   [][]byte
	ends   [][]byte
	hist   Hist
	txnW   int // weight of transactions
	leader bool
	nextL  uint64
}

func newFsmGen(r *rand.Rand, hist Hist) *fsmGen {
	g := &fsmGen{r: r, hist: hist, txnW: 2}
	g.keys = [][]byte{[]byte("a"), []byte("ab"), []byte("abc"), []byte("b"), {'a', 0}, {'a', 0xff}, {0xff}, {0xff, 0xff}, {0}, {'b', 0}, []byte("zz"), {0, 0}, {1}}
	g.vals = [][]byte{nil, []byte("v"), []byte("w"), []byte("vv"), {0}, {0xff}, []byte("v\x00"), []byte("u")}
	g.ends = append([][]byte{{0}, {0}, []byte("b"), []byte("ac"), {0xff}, {'a', 1}}, g.keys...)
	return g
}

func (g *fsmGen) key() []byte { return pick(g.r, g.keys) }
func (g *fsmGen) val() []byte { return pick(g.r, g.vals) }

// end returns nil (absent) half of the time for single-key operations
func (g *fsmGen) end(pNil int) []byte {
	if g.r.Intn(100) < pNil {
		return nil
	}
	return pick(g.r, g.ends)
}

func (g *fsmGen) rng() gRange {
	r := gRange{Key: g.key(), End: g.end(35)}
	switch g.r.Intn(6) {
	case 0:
		r.Limit = 1
	case 1:
		r.Limit = int64(1 + g.r.Intn(4))
	}
	switch g.r.Intn(5) {
	case 0:
		r.KeysOnly = true
	case 1:
		r.CountOnly = true
	}
	if g.r.Intn(40) == 0 {
		r.KeysOnly, r.CountOnly = true, true
	}
	if g.r.Intn(12) == 0 {
		r.Key = []byte{0}
	}
	return r
}

func (g *fsmGen) op() gOp {
	switch g.r.Intn(7) {
	case 0, 1:
		return gOp{Kind: 0, R: g.rng()}
	case 2, 3, 4:
		return gOp{Kind: 1, K: g.key(), V: g.val(), Prev: g.r.Intn(2) == 0}
	default:
		return gOp{Kind: 2, K: g.key(), End: g.end(50), Prev: g.r.Intn(2) == 0, Count: g.r.Intn(2) == 0}
	}
}

func (g *fsmGen) cmp() gCmp {
	c := gCmp{Res: g.r.Intn(4), Key: g.key(), End: g.end(65)}
	if g.r.Intn(4) != 0 {
		c.HasVal = true
		c.Val = g.val()
	}
	return c
}

func (g *fsmGen) txn() gCmd {
	c := gCmd{Kind: regattapb.Command_TXN}
	for i := g.r.Intn(4); i > 0; i-- {
		c.Cmps = append(c.Cmps, g.cmp())
	}
	for i := g.r.Intn(5); i > 0; i-- {
		c.Succ = append(c.Succ, g.op())
	}
	for i := g.r.Intn(4); i > 0; i-- {
		c.Fail = append(c.Fail, g.op())
	}
	if g.r.Intn(25) == 0 {
		c.Succ = append(c.Succ, gOp{Kind: 3})
	}
	return c
}

func (g *fsmGen) cmd(depth int) gCmd {
	w := g.r.Intn(14 + g.txnW*3)
	var c gCmd
	switch {
	case w < 4:
		c = gCmd{Kind: regattapb.Command_PUT, K: g.key(), V: g.val(), Prev: g.r.Intn(2) == 0}
	case w < 7:
		c = gCmd{Kind: regattapb.Command_DELETE, K: g.key(), End: g.end(45), Prev: g.r.Intn(2) == 0, Count: g.r.Intn(2) == 0}
		if c.End != nil && g.r.Intn(30) == 0 {
			c.End = []byte{} // present but empty: Command.range_end is an optional field
		}
	case w < 8:
		c = gCmd{Kind: regattapb.Command_DUMMY}
	case w < 10:
		c = gCmd{Kind: regattapb.Command_PUT_BATCH}
		n := g.r.Intn(4)
		if g.r.Intn(4) == 0 {
			n = 13 + g.r.Intn(20) // a long batch naming keys more than once: the LAST pair of a key wins
			g.hist.Inc("long put batch with repeated keys")
		}
		for i := n; i > 0; i-- {
			c.KVs = append(c.KVs, [2][]byte{g.key(), g.val()})
		}
	case w < 11:
		c = gCmd{Kind: regattapb.Command_DELETE_BATCH}
		for i := g.r.Intn(4); i > 0; i-- {
			c.KVs = append(c.KVs, [2][]byte{g.key(), nil})
		}
	case w < 13 && depth < 2:
		c = gCmd{Kind: regattapb.Command_SEQUENCE}
		for i := g.r.Intn(4); i > 0; i-- {
			c.Seq = append(c.Seq, g.cmd(depth+1))
		}
	default:
		c = g.txn()
	}
	if depth == 0 {
		g.hist.Inc("cmd:" + c.Kind.String())
	}
	return c
}

// entries generates n log entries with increasing indices starting after *idx.
func (g *fsmGen) entries(n int, idx *uint64) []gEntry {
	var es []gEntry
	for i := 0; i < n; i++ {
		*idx += uint64(1 + g.r.Intn(2))
		if i > 0 && g.r.Intn(7) == 0 {
			// a retried proposal: the previous command once more, byte for byte (its result is that of a second
			// execution - previous value = what the first copy wrote, nothing left to delete)
			es = append(es, gEntry{Idx: *idx, Cmd: es[len(es)-1].Cmd})
			g.hist.Inc("command repeated verbatim")
			continue
		}
		c := g.cmd(0)
		if g.leader && g.r.Intn(3) != 0 {
			g.nextL += uint64(1 + g.r.Intn(3))
			l := g.nextL
			if g.r.Intn(8) == 0 {
				// the recorded leader index is whatever the LAST entry carrying one says: an operator reset (a DUMMY
				// command with leader index 0) or a re-pointed follower makes it go down
				l = uint64(g.r.Intn(int(g.nextL)))
				if g.r.Intn(2) == 0 {
					l = 0
				}
				g.hist.Inc("leader-index-going-down")
			}
			c.Leader = &l
		}
		es = append(es, gEntry{Idx: *idx, Cmd: c})
	}
	return es
}

func bytesEq(a, b []byte) bool { return bytes.Equal(a, b) }
