package main

import (
	"context"
	"fmt"
	"time"

	"github.com/cockroachdb/pebble/vfs"
	"github.com/jamf/regatta/regattapb"
	"github.com/jamf/regatta/regattaserver"
	"github.com/jamf/regatta/storage"
	"github.com/jamf/regatta/storage/table/fsm"
	sm "github.com/lni/dragonboat/v4/statemachine"
	"google.golang.org/grpc"
)

// mockLeader answers forwarded writes with a chosen revision (the leader cluster as seen by a follower's API)
type mockLeader struct {
	regattapb.KVClient
	rev     uint64
	deleted int64
	succ    bool
}

func (m *mockLeader) Put(_ context.Context, in *regattapb.PutRequest, _ ...grpc.CallOption) (*regattapb.PutResponse, error) {
	return &regattapb.PutResponse{Header: &regattapb.ResponseHeader{Revision: m.rev}}, nil
}
func (m *mockLeader) DeleteRange(_ context.Context, in *regattapb.DeleteRangeRequest, _ ...grpc.CallOption) (*regattapb.DeleteRangeResponse, error) {
	return &regattapb.DeleteRangeResponse{Header: &regattapb.ResponseHeader{Revision: m.rev}, Deleted: m.deleted}, nil
}
func (m *mockLeader) Txn(_ context.Context, in *regattapb.TxnRequest, _ ...grpc.CallOption) (*regattapb.TxnResponse, error) {
	return &regattapb.TxnResponse{Header: &regattapb.ResponseHeader{Revision: m.rev}, Succeeded: m.succ}, nil
}

// runC11Forwarding: the real ForwardingKVServer over the real notification queue: a forwarded write must not be
// acknowledged before the node applied a leader index at or beyond the write's revision, for every kind of write
// and every shape of the leader's answer.
func runC11Forwarding(sum *Summary) {
	type fcase struct {
		name string
		call func(s *regattaserver.ForwardingKVServer, ctx context.Context) error
		ml   mockLeader
	}
	tb := []byte("t")
	put := func(s *regattaserver.ForwardingKVServer, ctx context.Context) error {
		_, err := s.Put(ctx, &regattapb.PutRequest{Table: tb, Key: []byte("k"), Value: []byte("v")})
		return err
	}
	del := func(count, prev bool) func(s *regattaserver.ForwardingKVServer, ctx context.Context) error {
		return func(s *regattaserver.ForwardingKVServer, ctx context.Context) error {
			_, err := s.DeleteRange(ctx, &regattapb.DeleteRangeRequest{Table: tb, Key: []byte("k"), Count: count, PrevKv: prev})
			return err
		}
	}
	txn := func(s *regattaserver.ForwardingKVServer, ctx context.Context) error {
		_, err := s.Txn(ctx, &regattapb.TxnRequest{Table: tb, Success: []*regattapb.RequestOp{{Request: &regattapb.RequestOp_RequestPut{RequestPut: &regattapb.RequestOp_Put{Key: []byte("k"), Value: []byte("v")}}}}})
		return err
	}
	cases := []fcase{
		{"put", put, mockLeader{rev: 10}},
		{"delete deleted=1", del(false, false), mockLeader{rev: 11, deleted: 1}},
		{"delete deleted=0", del(false, false), mockLeader{rev: 12, deleted: 0}},
		{"delete count deleted=0", del(true, false), mockLeader{rev: 13, deleted: 0}},
		{"delete prev_kv deleted=0", del(false, true), mockLeader{rev: 14, deleted: 0}},
		{"delete count prev_kv deleted=3", del(true, true), mockLeader{rev: 15, deleted: 3}},
		{"txn succeeded", txn, mockLeader{rev: 16, succ: true}},
		{"txn failed branch", txn, mockLeader{rev: 17, succ: false}},
	}
	h := sum.hist("forwarded_writes")
	for i, c := range cases {
		q := storage.NewNotificationQueue()
		go q.Run()
		ml := c.ml
		srv := regattaserver.NewForwardingKVServer(nil, &ml, q)
		in := map[string]any{"forwarded_write": c.name, "leader_revision": ml.rev}
		done := make(chan error, 1)
		go func() { done <- c.call(srv, context.Background()) }()
		sum.Evaluations++
		h.Inc(c.name)
		early := func(when string) bool {
			select {
			case err := <-done:
				sum.violate(9000+i, "a forwarded write is answered before the node applied a leader index at or beyond its revision", in, fmt.Sprintf("returned %v %s", err, when))
				return true
			case <-time.After(120 * time.Millisecond):
				return false
			}
		}
		if !early("before any notification") {
			q.Notify("t", ml.rev-1)
			if !early(fmt.Sprintf("after a notification of leader index %d", ml.rev-1)) {
				q.Notify("other", ml.rev+5)
				if !early("after a notification for another table") {
					q.Notify("t", ml.rev)
					select {
					case err := <-done:
						if err != nil {
							sum.violate(9000+i, "a forwarded write fails although its revision was applied", in, err.Error())
						}
					case <-time.After(3 * time.Second):
						sum.violate(9000+i, "a forwarded write is not answered after the node applied its revision", in, "no answer within 3 s")
					}
				}
			}
		}
		_ = q.Close()
	}
}

// runC11Cancelled: a caller that gives up (cancels, disconnects) while its revision has not been applied - and never
// will be - is answered promptly and leaves the queue: waiting never wedges a handler, whatever the kind of write and
// whether or not the request carries a deadline.
func runC11Cancelled(sum *Summary) {
	tb := []byte("t")
	calls := map[string]func(s *regattaserver.ForwardingKVServer, ctx context.Context) error{
		"put": func(s *regattaserver.ForwardingKVServer, ctx context.Context) error {
			_, err := s.Put(ctx, &regattapb.PutRequest{Table: tb, Key: []byte("k"), Value: []byte("v")})
			return err
		},
		"delete": func(s *regattaserver.ForwardingKVServer, ctx context.Context) error {
			_, err := s.DeleteRange(ctx, &regattapb.DeleteRangeRequest{Table: tb, Key: []byte("k")})
			return err
		},
		"txn": func(s *regattaserver.ForwardingKVServer, ctx context.Context) error {
			_, err := s.Txn(ctx, &regattapb.TxnRequest{Table: tb, Success: []*regattapb.RequestOp{{Request: &regattapb.RequestOp_RequestPut{RequestPut: &regattapb.RequestOp_Put{Key: []byte("k"), Value: []byte("v")}}}}})
			return err
		},
	}
	for i, name := range []string{"put", "delete", "txn"} {
		for _, withDeadline := range []bool{false, true} {
			q := storage.NewNotificationQueue()
			go q.Run()
			ml := mockLeader{rev: 50, deleted: 1, succ: true}
			srv := regattaserver.NewForwardingKVServer(nil, &ml, q)
			ctx, cancel := context.WithCancel(context.Background())
			if withDeadline {
				var c2 context.CancelFunc
				ctx, c2 = context.WithTimeout(ctx, time.Hour)
				defer c2()
			}
			done := make(chan error, 1)
			go func() { done <- calls[name](srv, ctx) }()
			time.Sleep(150 * time.Millisecond) // the waiter is queued; revision 50 is never notified
			cancel()
			in := map[string]any{"forwarded_write": name, "leader_revision": 50, "request_has_deadline": withDeadline, "scenario": "the caller cancels while the revision has not been applied"}
			sum.Evaluations++
			sum.hist("forwarded_writes").Inc("cancelled " + name)
			select {
			case err := <-done:
				if err == nil {
					sum.violate(9300+i, "a forwarded write is answered before the node applied a leader index at or beyond its revision", in, "returned without an error although revision 50 was never applied")
				}
			case <-time.After(6 * time.Second):
				sum.violate(9300+i, "a cancelled caller is not answered: its handler stays parked in the queue", in, fmt.Sprintf("no answer within 6 s of the cancellation; queue length of the table: %d", q.Len("t")))
			}
			if l := q.Len("t"); l != 0 {
				// give the sweep one more period
				time.Sleep(1500 * time.Millisecond)
				if l = q.Len("t"); l != 0 {
					sum.violate(9300+i, "a cancelled caller stays in the queue", in, fmt.Sprintf("queue length of the table %d", l))
				}
			}
			_ = q.Close()
		}
	}
}

// runC11Applied: the apply path reports an index to the queue (appliedFunc -> Notify); at that moment the batch must
// already be readable on this node, otherwise a released caller's next read misses its own write.
func runC11Applied(sum *Summary) error {
	var f *fsm.FSM
	type obs struct {
		applied uint64
		leader  uint64
		val     string
	}
	var seen []obs
	af := func(applied uint64) {
		if f == nil {
			return
		}
		o := obs{applied: applied}
		if li, err := f.Lookup(fsm.LeaderIndexRequest{}); err == nil {
			o.leader = li.(*fsm.IndexResponse).Index
		}
		if r, err := f.Lookup(&regattapb.RequestOp_Range{Key: []byte("k")}); err == nil {
			if kvs := r.(*regattapb.ResponseOp_Range).Kvs; len(kvs) == 1 {
				o.val = string(kvs[0].Value)
			}
		}
		seen = append(seen, o)
	}
	f = fsm.New("t", "/data", vfs.NewMem(), nil, nil, fsm.RecoveryTypeSnapshot, af)(1, 1).(*fsm.FSM)
	if _, err := f.Open(nil); err != nil {
		return err
	}
	defer f.Close()
	for i := uint64(1); i <= 40; i++ {
		li := 100 + i
		_, bts := wireNormal(gCmd{Kind: regattapb.Command_PUT, K: []byte("k"), V: []byte(fmt.Sprintf("v%d", li)), Leader: &li})
		seen = nil
		if _, err := f.Update([]sm.Entry{{Index: i, Cmd: bts}}); err != nil {
			return err
		}
		sum.Evaluations++
		for _, o := range seen {
			if o.applied == li && (o.leader < li || o.val != fmt.Sprintf("v%d", li)) {
				sum.violate(9500+int(i), "the apply path reports an index before the batch is readable on the node", map[string]any{"leader_index": li},
					fmt.Sprintf("at the report: leader index on the node %d, value of the key written by the batch %q", o.leader, o.val))
				return nil
			}
		}
	}
	sum.hist("forwarded_writes").Inc("apply-path report vs readable state")
	return nil
}

// runC11ManyTables: notifications of several tables arriving together, while the loop is busy with statistics
// requests: every table's waiters whose revision is reached are released.
func runC11ManyTables(sum *Summary) {
	q := storage.NewNotificationQueue()
	go q.Run()
	defer q.Close()
	const ntab = 6
	stop := make(chan struct{})
	go func() {
		for {
			select {
			case <-stop:
				return
			default:
				q.Len("t0")
			}
		}
	}()
	defer close(stop)
	rounds := 150
	for r := 1; r <= rounds; r++ {
		chans := make([]<-chan error, ntab)
		for t := 0; t < ntab; t++ {
			chans[t] = q.Add(context.Background(), fmt.Sprintf("t%d", t), uint64(r))
		}
		for t := 0; t < ntab; t++ {
			go q.Notify(fmt.Sprintf("t%d", t), uint64(r))
		}
		deadline := time.After(1500 * time.Millisecond)
		for t := 0; t < ntab; t++ {
			select {
			case err := <-chans[t]:
				if err != nil {
					sum.violate(9700+r, "a live waiter was answered with an error", map[string]any{"tables": ntab, "round": r}, err.Error())
					return
				}
			case <-deadline:
				sum.violate(9700+r, "a waiter is not released although its table reported an index at or beyond its revision (notifications of several tables arriving together)", map[string]any{"tables": ntab, "round": r, "table": fmt.Sprintf("t%d", t)}, "no answer within 1.5 s")
				return
			}
		}
		sum.Evaluations++
	}
	sum.hist("forwarded_writes").Inc("notifications of several tables together")
}
