package main

import (
	"context"
	"errors"
	"fmt"
	"strconv"
	"sync"
	"time"

	"github.com/jamf/regatta/storage/kv"
	"github.com/lni/dragonboat/v4"
)

func init() { register("kvrace", runKVRace) }

// runKVRace: several concurrent writers draw numbers from one counter record of the real kv.RaftStore (single-node
// dragonboat NodeHost) exactly the way table.Manager.incAndGetIDSeq draws table ids: read the record, write value+1 with
// the version that was read, retry on a version mismatch. Of racing writers that read the same record at most one may
// succeed, so the numbers handed out are pairwise distinct and the record ends at their count.
func runKVRace(args []string) error {
	rf, err := parseFlags("kvrace", args, nil)
	if err != nil {
		return err
	}
	sum := &Summary{Engine: "kvrace", Seed: rf.Seed, Rule: "G goroutines x K draws from one counter record through the real kv.RaftStore (Get, then Set(value+1, version read), retry on ErrVersionMismatch): every successful Set must have been made with the record's current version, so the drawn numbers are pairwise distinct and the final value is G*K"}
	nh, members, err := startNodeHost()
	if err != nil {
		return err
	}
	defer nh.Close()
	rs := &kv.RaftStore{NodeHost: nh, ClusterID: 1000}
	im := map[uint64]dragonboat.Target{}
	for id, a := range members {
		im[id] = a
	}
	if err := rs.Start(kv.RaftConfig{NodeID: 1, ElectionRTT: 5, HeartbeatRTT: 1, MaxInMemLogSize: 1024 * 1024, InitialMembers: im}); err != nil {
		return err
	}
	ctx, cancel := context.WithTimeout(context.Background(), 30*time.Second)
	defer cancel()
	if err := rs.WaitForLeader(ctx); err != nil {
		return err
	}
	const key = "/tables/sys/idseq"
	G, K := 4, rf.count(40, 400)
	if _, err := rs.Set(key, "10000", 0); err != nil {
		return err
	}
	var mu sync.Mutex
	drawn := map[int][]string{}
	mismatches := 0
	var wg sync.WaitGroup
	var ferr error
	for g := 0; g < G; g++ {
		wg.Add(1)
		go func(g int) {
			defer wg.Done()
			for k := 0; k < K; k++ {
				for try := 0; ; try++ {
					p, err := rs.Get(key)
					if err != nil {
						mu.Lock()
						ferr = err
						mu.Unlock()
						return
					}
					cur, _ := strconv.Atoi(p.Value)
					_, err = rs.Set(key, strconv.Itoa(cur+1), p.Ver)
					if err == nil {
						mu.Lock()
						drawn[cur+1] = append(drawn[cur+1], fmt.Sprintf("writer %d draw %d (read version %d)", g, k, p.Ver))
						mu.Unlock()
						break
					}
					if !errors.Is(err, kv.ErrVersionMismatch) || try > 10000 {
						mu.Lock()
						ferr = err
						mu.Unlock()
						return
					}
					mu.Lock()
					mismatches++
					mu.Unlock()
				}
			}
		}(g)
	}
	wg.Wait()
	if ferr != nil {
		return ferr
	}
	sum.Evaluations = G * K
	sum.DistinctNontrivial = mismatches
	sum.hist("draws").Inc(fmt.Sprintf("%d writers x %d draws", G, K))
	sum.hist("lost races (version mismatch, retried)")[fmt.Sprint("mismatches")] = mismatches
	for v, who := range drawn {
		if len(who) > 1 {
			sum.violate(v, "racing writers that read the same version of a metadata record both succeeded (the same number was drawn twice)", map[string]any{"record": key, "writers": G, "draws_each": K, "number": v}, who)
			break
		}
	}
	p, err := rs.Get(key)
	if err != nil {
		return err
	}
	if want := strconv.Itoa(10000 + G*K); p.Value != want && len(sum.SpecViolations) == 0 {
		sum.violate(0, "the counter record does not end at the number of successful draws", map[string]any{"record": key, "writers": G, "draws_each": K}, fmt.Sprintf("%s, expected %s", p.Value, want))
	}
	sum.Samples = append(sum.Samples, map[string]any{"final": p.Value, "lost_races": mismatches})
	return sum.write(rf.Out, "kvrace")
}
