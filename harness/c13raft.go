package main

import (
	"context"
	"errors"
	"fmt"
	"path"
	"sort"
	"time"

	"github.com/jamf/regatta/storage/kv"
	"github.com/lni/dragonboat/v4"
	dbsm "github.com/lni/dragonboat/v4/statemachine"
)

// runC13RaftStore: the client side of the metadata store - the real kv.RaftStore on a single-node dragonboat NodeHost.
// What Set and Delete hand back to the caller (the pair with its new version, or ErrVersionMismatch together with the
// CURRENT pair - the empty pair with version 0 for a key that does not exist) is what table-id allocation and the
// leases are built on.
func runC13RaftStore(sum *Summary) error {
	nh, members, err := startNodeHost()
	if err != nil {
		return err
	}
	defer nh.Close()
	rs := &kv.RaftStore{NodeHost: nh, ClusterID: 1000}
	im := map[uint64]dragonboat.Target{}
	for id, a := range members {
		im[id] = a
	}
	if err := rs.Start(kv.RaftConfig{NodeID: 1, ElectionRTT: 5, HeartbeatRTT: 1, MaxInMemLogSize: 1024 * 1024, InitialMembers: im}); err != nil {
		return err
	}
	ctx, cancel := context.WithTimeout(context.Background(), 30*time.Second)
	defer cancel()
	if err := rs.WaitForLeader(ctx); err != nil {
		return err
	}
	h := sum.hist("raftstore")
	ref := map[string]kv.Pair{}
	type step struct {
		del      bool
		key, val string
		ver      func() uint64 // the version to supply, from the reference
	}
	cur := func(k string) func() uint64 { return func() uint64 { return ref[k].Ver } }
	konst := func(v uint64) func() uint64 { return func() uint64 { return v } }
	steps := []step{
		{key: "/k", val: "v1", ver: konst(7)},  // absent key, wrong version
		{key: "/k", val: "", ver: konst(0)},    // create with an EMPTY value
		{key: "/k", val: "v2", ver: konst(99)}, // mismatch on a key whose value is empty
		{key: "/k", val: "v2", ver: cur("/k")},
		{key: "/k", val: "v3", ver: konst(1)}, // stale version
		{del: true, key: "/k", ver: konst(1)},
		{del: true, key: "/k", ver: cur("/k")},
		{del: true, key: "/k", ver: konst(5)}, // absent again, stale delete
		{key: "/k", val: "v4", ver: konst(5)}, // absent, stale set
		{key: "/k", val: "v4", ver: konst(0)},
		{key: "/tables/a", val: "{}", ver: konst(0)},
		{key: "/tables/a", val: "{}", ver: cur("/tables/a")}, // identical value: the version still moves
		// a STALE version together with the value that is already stored (two writers that computed the same next value
		// from the same read - the id sequence, a lease renewal): a mismatch all the same
		{key: "/tables/a", val: "{}", ver: konst(1)},
		{key: "/tables/sys/idseq", val: "10001", ver: konst(0)},
		{key: "/tables/sys/idseq", val: "10002", ver: cur("/tables/sys/idseq")},
		{key: "/tables/sys/idseq", val: "10002", ver: konst(2)}, // the loser of the race writes the same number with the version it read
		{key: "/tables/sys/idseq", val: "10002", ver: konst(3)},
	}
	var log []string
	for i, st := range steps {
		ver := st.ver()
		was, exists := ref[st.key]
		wantOK := (exists && was.Ver == ver) || (!exists && ver == 0)
		wantCur := was
		if !exists {
			wantCur = kv.Pair{Key: st.key}
		}
		var got kv.Pair
		var err error
		if st.del {
			err = rs.Delete(st.key, ver)
			log = append(log, fmt.Sprintf("Delete(%s, ver %d)", st.key, ver))
		} else {
			got, err = rs.Set(st.key, st.val, ver)
			log = append(log, fmt.Sprintf("Set(%s, %q, ver %d)", st.key, st.val, ver))
		}
		sum.Evaluations++
		h.Inc(map[bool]string{true: "expected success", false: "expected mismatch"}[wantOK])
		in := map[string]any{"calls": append([]string{}, log...)}
		switch {
		case wantOK && err != nil:
			sum.violate(950000+i, "an update with the current version is refused by the metadata store's client", in, err.Error())
		case !wantOK && !errors.Is(err, kv.ErrVersionMismatch):
			sum.violate(950000+i, "an update with a wrong version is not refused with a version mismatch", in, fmt.Sprint(err))
		case !wantOK && !st.del && got != wantCur:
			sum.violate(950000+i, "a version mismatch does not report the current pair", in, fmt.Sprintf("reported %+v, current %+v", got, wantCur))
		case wantOK && !st.del && (got.Key != st.key || got.Value != st.val || (exists && got.Ver <= was.Ver) || got.Ver == 0):
			sum.violate(950000+i, "a successful set does not return the stored pair with a new, larger version", in, fmt.Sprintf("returned %+v, previous %+v", got, was))
		}
		if wantOK && err == nil {
			if st.del {
				delete(ref, st.key)
			} else {
				ref[st.key] = got
			}
		}
		// the store agrees with the reference
		p, gerr := rs.Get(st.key)
		if w, ok := ref[st.key]; ok != (gerr == nil) || (ok && p != w) {
			sum.violate(950000+i, "lookup does not reflect exactly the successful updates", in, fmt.Sprintf("Get(%s) = %+v, %v; expected %+v present=%v", st.key, p, gerr, w, ok))
		}
	}
	return nil
}

// runC13Globs: glob lookups against path.Match itself, for patterns the model does not cover (escaped
// metacharacters, as they arise for table names that contain one).
func runC13Globs(sum *Summary) error {
	f := kv.NewLFSM()(1, 1)
	keys := []string{"/tables/*", "/tables/a", "/tables/a\\b", "queue/*/1", "queue/a/1", "queue/a\\b/2", "/tables/[x]", "/tables/?"}
	var ents []dbsm.Entry
	for i, k := range keys {
		ents = append(ents, dbsm.Entry{Index: uint64(i + 1), Cmd: mustJSON(kv.Update{Op: kv.UpdateOpSet, KVPair: kv.Pair{Key: k, Value: fmt.Sprint(i)}})})
	}
	if _, err := f.Update(ents); err != nil {
		return err
	}
	for _, pat := range []string{"/tables/\\*", "queue/\\*/*", "/tables/a\\\\b", "queue/a\\\\b/*", "/tables/\\[x\\]", "/tables/\\?", "/tables/*", "queue/*/*", "/tables/?", "/tables/[x*]"} {
		v, err := f.Lookup(kv.QueryAll{Pattern: pat})
		if err != nil {
			return err
		}
		var got, want []string
		for _, p := range v.([]kv.Pair) {
			got = append(got, p.Key)
		}
		for _, k := range keys {
			if ok, _ := path.Match(pat, k); ok {
				want = append(want, k)
			}
		}
		sort.Strings(got)
		sort.Strings(want)
		sum.Evaluations++
		sum.hist("queries").Inc("getall (escaped pattern, against path.Match)")
		if fmt.Sprint(got) != fmt.Sprint(want) {
			sum.violate(960000, "a glob lookup does not return exactly the stored keys the pattern matches", map[string]any{"stored": keys, "pattern": pat}, fmt.Sprintf("returned %q, path.Match selects %q", got, want))
		}
	}
	return nil
}
