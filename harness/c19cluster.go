package main

import (
	"encoding/json"
	"fmt"
	"math/rand"
	"sync"
	"time"

	"github.com/hashicorp/memberlist"
	"github.com/jamf/regatta/storage/cluster"
	"github.com/lni/dragonboat/v4"
	"github.com/lni/dragonboat/v4/raftio"
)

// runC19Cluster drives a real cluster.Cluster (a real memberlist bound to a loopback port, never joined) through its
// entry points: Notify (the Raft event listener), the memberlist event callbacks NotifyJoin/NotifyLeave/NotifyUpdate
// and the push/pull delegate (LocalState / MergeRemoteState).  Every one of them folds a list of shard updates into
// the view (the node's own Raft information, or a peer's view); what the node reports (Cluster.ShardInfo) must be the
// order-independent function of all updates seen so far, whatever membership events happen in between.
func runC19Cluster(rf *runFlags, sum *Summary, cf *CasesFile) error {
	n := 25
	if rf.Tier == "thorough" {
		n = 150 * rf.Scale
	}
	r := rand.New(rand.NewSource(rf.Seed + 1919))
	hk := sum.hist("cluster_events")
	for c := 0; c < n; c++ {
		var mu sync.Mutex
		local := map[uint64]sv{} // shards hosted by this node and what its Raft replica knows
		infoF := func() cluster.Info {
			mu.Lock()
			defer mu.Unlock()
			info := cluster.Info{NodeHostID: "nh-1", NodeID: 1, RaftAddress: "127.0.0.1:5012", ClientAddress: "127.0.0.1:8443"}
			for id := uint64(1); id <= 3; id++ {
				if s, ok := local[id]; ok {
					g := s.toGo()
					info.ShardInfoList = append(info.ShardInfoList, dragonboat.ShardInfo{ShardID: id, ReplicaID: 1, Replicas: g.Replicas, ConfigChangeIndex: g.ConfigChangeIndex, LeaderID: g.LeaderID, Term: g.Term})
				}
			}
			return info
		}
		cl, err := cluster.New("127.0.0.1:0", "", "verif", fmt.Sprintf("n1-%d", c), infoF)
		if err != nil {
			return fmt.Errorf("cluster.New: %w", err)
		}
		localList := func() []sv {
			mu.Lock()
			defer mu.Unlock()
			var out []sv
			for id := uint64(1); id <= 3; id++ {
				if s, ok := local[id]; ok {
					out = append(out, s)
				}
			}
			return out
		}
		leaderOf := func(id, term uint64) uint64 { return 1 + (term*5+id)%3 }
		mkUpdate := func(id uint64, maxTerm uint64) sv {
			u := sv{id: id, term: uint64(r.Intn(int(maxTerm) + 1)), cci: uint64(r.Intn(4))}
			if r.Intn(3) != 0 {
				u.leader = leaderOf(id, u.term)
			}
			if u.cci > 0 {
				u.rep = 10*id + u.cci
			}
			return u
		}
		var calls [][]sv
		var descr []string
		seen := map[uint64][]sv{}
		last := map[uint64]sv{}
		nev := 5 + r.Intn(10)
		for e := 0; e < nev; e++ {
			var call []sv
			var d string
			switch k := r.Intn(10); {
			case k < 3: // the local replica learns something (terms only grow locally), or the shard leaves this node
				id := uint64(1 + r.Intn(2))
				mu.Lock()
				cur, ok := local[id]
				switch {
				case ok && r.Intn(5) == 0:
					delete(local, id)
					d = fmt.Sprintf("local: shard %d no longer hosted", id)
				default:
					u := mkUpdate(id, 6)
					if ok && u.term < cur.term {
						u.term = cur.term
						if u.leader != 0 {
							u.leader = leaderOf(id, u.term)
						}
					}
					if ok && u.cci < cur.cci {
						u.cci, u.rep = cur.cci, cur.rep
					}
					local[id] = u
					d = fmt.Sprintf("local: %v", u)
				}
				mu.Unlock()
				call = localList()
				cl.Notify()
				hk.Inc("raft event (Notify)")
			case k < 6: // membership events
				node := uint64(1 + r.Intn(3))
				meta, _ := json.Marshal(cluster.NodeMeta{ID: fmt.Sprintf("nh-%d", node), NodeID: node})
				mn := &memberlist.Node{Name: fmt.Sprintf("n%d", node), Meta: meta}
				call = localList()
				switch r.Intn(3) {
				case 0:
					cl.NotifyJoin(mn)
					d = fmt.Sprintf("member %d joined", node)
					hk.Inc("NotifyJoin")
				case 1:
					cl.NotifyLeave(mn)
					d = fmt.Sprintf("member %d left", node)
					hk.Inc("NotifyLeave")
				default:
					cl.NotifyUpdate(mn)
					d = fmt.Sprintf("member %d updated", node)
					hk.Inc("NotifyUpdate")
				}
			case k < 9: // a peer's view arrives (the peer may lag behind)
				var us []sv
				for j := 0; j < 1+r.Intn(3); j++ {
					us = append(us, mkUpdate(uint64(1+r.Intn(3)), 6))
				}
				var gv []dragonboat.ShardView
				for _, u := range us {
					gv = append(gv, u.toGo())
				}
				buf, _ := json.Marshal(map[string]any{"shard_view": gv})
				// memberlist sets the join flag on both ends of the exchange a joining node starts: the merge rule is the same
				join := r.Intn(3) == 0
				cl.VerifMergeRemoteStateJoin(buf, join)
				call = us
				d = fmt.Sprintf("peer view (join=%v): %v", join, us)
				hk.Inc(fmt.Sprintf("MergeRemoteState join=%v", join))
			default: // a peer pulls our state
				call = localList()
				var st struct {
					ShardView []dragonboat.ShardView `json:"shard_view"`
				}
				_ = json.Unmarshal(cl.VerifLocalState(), &st)
				for _, v := range st.ShardView {
					if got := fromGo(v); got != fromGo(cl.ShardInfo(v.ShardID)) {
						sum.violate(600000+c, "the state handed to a peer differs from the node's own view", map[string]any{"events": append(append([]string{}, descr...), "peer pulls state")}, fmt.Sprint(got))
					}
				}
				d = "peer pulls state"
				hk.Inc("LocalState")
			}
			calls = append(calls, call)
			descr = append(descr, d)
			for _, u := range call {
				seen[u.id] = append(seen[u.id], u)
			}
			// ---- oracle after every event ----
			for id := uint64(1); id <= 3; id++ {
				got := fromGo(cl.ShardInfo(id))
				var want sv
				want.id = id
				if len(seen[id]) == 0 {
					want.id = 0 // never heard of: zero value
				}
				for _, u := range seen[id] {
					if u.leader != 0 && (want.leader == 0 || u.term > want.term) {
						want.leader, want.term = u.leader, u.term
					}
					if u.cci > want.cci {
						want.cci, want.rep = u.cci, u.rep
					}
				}
				in := map[string]any{"events": append([]string{}, descr...), "shard": id}
				if got != want {
					sum.violate(600000+c, "the node's shard view is not the leader of the highest term / membership of the highest config change among the updates it has seen", in, fmt.Sprintf("reported %+v, expected %+v", got, want))
				}
				if p, ok := last[id]; ok && (got.term < p.term || (p.leader != 0 && got.leader == 0)) {
					sum.violate(600000+c, "reported leader/term moved backwards", in, fmt.Sprintf("%+v then %+v", p, got))
				}
				last[id] = got
			}
		}
		var cCalls, cIds, obsIds []string
		for _, cs := range calls {
			var xs []string
			for _, u := range cs {
				xs = append(xs, u.coq())
			}
			cCalls = append(cCalls, cList(xs))
		}
		for id := uint64(1); id <= 3; id++ {
			cIds = append(cIds, cN(id))
			obsIds = append(obsIds, fromGo(cl.ShardInfo(id)).obs())
		}
		cf.Add(fmt.Sprintf("{| v_calls := %s; v_ids := %s; v_impl := %s |}", cList(cCalls), cList(cIds), oLs(obsIds)), "cluster events: "+fmt.Sprint(descr))
		sum.Evaluations++
		sum.DistinctNontrivial++
		_ = cl.Close()
	}
	return nil
}

// runC19EngineEvents: the view of a real storage.Engine (real cluster layer, real event dispatcher).  A shard's entry
// holds a leader and a term; the node's own replica of that shard is unloaded / deleted (table stopped, restarted,
// restored); afterwards a lagging peer's view with an older term arrives.  What the node reports must not move back.
func runC19EngineEvents(sum *Summary) error {
	node, err := newC05Node("c19events", 0, 0, 0, nil)
	if err != nil {
		return err
	}
	defer func() {
		done := make(chan struct{})
		go func() { _ = node.e.Close(); close(done) }()
		select {
		case <-done:
		case <-time.After(20 * time.Second):
		}
	}()
	ev := node.e.VerifSystemEvents()
	cl := node.e.Cluster
	merge := func(shard, leader, term, cci uint64) {
		gv := []dragonboat.ShardView{{ShardID: shard, LeaderID: leader, Term: term, ConfigChangeIndex: cci, Replicas: map[uint64]string{1: "a", 2: "b", 3: "c"}}}
		buf, _ := json.Marshal(map[string]any{"shard_view": gv})
		cl.VerifMergeRemoteState(buf)
	}
	for i, kind := range []string{"unloaded", "deleted"} {
		shard := uint64(88000 + i)
		merge(shard, 2, 5, 7)
		if kind == "unloaded" {
			ev.NodeUnloaded(raftio.NodeInfo{ShardID: shard, ReplicaID: 1})
		} else {
			ev.NodeDeleted(raftio.NodeInfo{ShardID: shard, ReplicaID: 1})
		}
		time.Sleep(300 * time.Millisecond) // the dispatcher handles the event
		merge(shard, 1, 4, 3)
		got := cl.ShardInfo(shard)
		sum.Evaluations++
		sum.hist("cluster_events").Inc("local replica " + kind + ", then a lagging peer's view")
		if got.LeaderID != 2 || got.Term != 5 || got.ConfigChangeIndex != 7 {
			sum.violate(610000+i, "reported leader/term moved backwards", map[string]any{"events": []string{"peer view: shard leader 2 term 5 config-change 7", "the node's own replica of the shard is " + kind, "peer view: leader 1 term 4 config-change 3"}},
				fmt.Sprintf("the node now reports leader %d term %d config-change %d", got.LeaderID, got.Term, got.ConfigChangeIndex))
		}
	}
	return nil
}
