package main

import (
	"context"
	"fmt"
	"time"

	"github.com/jamf/regatta/regattapb"
	"github.com/jamf/regatta/regattaserver"
	"google.golang.org/grpc/codes"
)

// runC16EngineNames: the real storage.Engine (its own table routing: Manager.GetTable) behind the real KVServer - table
// names that are not a table's name but look like a path to one ("demo/", "./demo", "x/../demo", ...) are unknown
// tables: NotFound, and the table they resemble is untouched.
func runC16EngineNames(sum *Summary) error {
	node, err := newC05Node("c16names", 0, 0, 0, nil)
	if err != nil {
		return err
	}
	defer func() {
		done := make(chan struct{})
		go func() { _ = node.e.Close(); close(done) }()
		select {
		case <-done:
		case <-time.After(20 * time.Second):
		}
	}()
	if _, err := node.e.CreateTable("demo"); err != nil {
		return err
	}
	at, err := node.waitTable("demo")
	if err != nil {
		return err
	}
	ctx := context.Background()
	pctx, cancel := context.WithTimeout(ctx, 10*time.Second)
	_, err = at.Put(pctx, &regattapb.PutRequest{Table: []byte("demo"), Key: []byte("k"), Value: []byte("v")})
	cancel()
	if err != nil {
		return err
	}
	srv := &regattaserver.KVServer{Storage: node.e}
	before, err := node.content("demo", true)
	if err != nil {
		return err
	}
	for _, name := range []string{"demo/", "./demo", "demo/.", "/demo", "x/../demo", "demo//", "../tables/demo", "demo/../demo"} {
		calls := map[string]func(context.Context) error{
			"range": func(c context.Context) error {
				_, err := srv.Range(c, &regattapb.RangeRequest{Table: []byte(name), Key: []byte("k")})
				return err
			},
			"put": func(c context.Context) error {
				_, err := srv.Put(c, &regattapb.PutRequest{Table: []byte(name), Key: []byte("k2"), Value: []byte("x")})
				return err
			},
			"delete": func(c context.Context) error {
				_, err := srv.DeleteRange(c, &regattapb.DeleteRangeRequest{Table: []byte(name), Key: []byte{0}, RangeEnd: []byte{0}})
				return err
			},
			"txn": func(c context.Context) error {
				_, err := srv.Txn(c, &regattapb.TxnRequest{Table: []byte(name), Success: []*regattapb.RequestOp{{Request: &regattapb.RequestOp_RequestPut{RequestPut: &regattapb.RequestOp_Put{Key: []byte("k3"), Value: []byte("x")}}}}})
				return err
			},
		}
		for _, api := range []string{"range", "put", "delete", "txn"} {
			in := map[string]any{"api": "request to a table name that is not a table but resembles the path of one", "existing_table": "demo", "table": name, "call": api}
			var code int64 = -1
			func() {
				defer func() {
					if p := recover(); p != nil {
						sum.violate(970000, "a request terminated its handler with a panic", in, fmt.Sprint(p))
					}
				}()
				c, cancel := context.WithTimeout(ctx, 10*time.Second)
				defer cancel()
				code = codeOf(calls[api](c))
			}()
			sum.Evaluations++
			if code != -1 && code != int64(codes.NotFound) {
				sum.violate(970001, "unknown table not refused with NotFound", in, fmt.Sprint(codes.Code(code)))
			}
		}
		after, err := node.content("demo", true)
		if err != nil {
			return err
		}
		if after != before {
			sum.violate(970002, "a rejected request changed the table", map[string]any{"existing_table": "demo", "requests_to_table": name}, fmt.Sprintf("%s -> %s", before, after))
			before = after
		}
	}
	sum.hist("requests").Inc("path-like unknown table names on a real engine")
	return nil
}
