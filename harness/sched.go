package main

import (
	"encoding/json"
	"errors"
	"fmt"
	"sync"

	"github.com/jamf/regatta/storage/kv"
	dbsm "github.com/lni/dragonboat/v4/statemachine"
)

// schedStore is a metadata store whose version semantics are those of the real kv.LFSM (every write is an entry
// applied by LFSM.Update with the next log index) and whose operations are released one at a time by a scheduler,
// so the interleaving of several managers at store-operation granularity is chosen by the seed.
type schedStore struct {
	mu   sync.Mutex
	fsm  dbsm.IConcurrentStateMachine
	next uint64
	// batching: the next batchN proposals are handed to the state machine in ONE Update call, in arrival order (what
	// dragonboat does with proposals that were committed together)
	batchN int
	queue  []pendingProposal
	enq    chan struct{}
	// results of an applied batch, handed to the proposers one at a time by the scheduler (deliver) so that the order
	// in which their calls continue is the order of the batch
	held    []pendingProposal
	heldRes []proposalResult
	log     []dbsm.Entry // every entry handed to the state machine, in order
}

type pendingProposal struct {
	cmd []byte
	res chan proposalResult
}

type proposalResult struct {
	r   dbsm.Result
	err error
}

func newSchedStore() *schedStore {
	return &schedStore{fsm: kv.NewLFSM()(1, 1), next: 1, enq: make(chan struct{}, 16)}
}

// deliver hands the i-th proposer of the last applied batch its result.
func (s *schedStore) deliver(i int) {
	s.mu.Lock()
	p, r := s.held[i], s.heldRes[i]
	s.mu.Unlock()
	p.res <- r
}

// beginBatch: the next n proposals are applied together.
func (s *schedStore) beginBatch(n int) {
	s.mu.Lock()
	s.batchN = n
	s.mu.Unlock()
}

func (s *schedStore) propose(u kv.Update) (dbsm.Result, error) {
	s.mu.Lock()
	b, _ := json.Marshal(u)
	if s.batchN > 0 {
		p := pendingProposal{cmd: b, res: make(chan proposalResult, 1)}
		s.queue = append(s.queue, p)
		if len(s.queue) == s.batchN {
			es := make([]dbsm.Entry, len(s.queue))
			for i, q := range s.queue {
				es[i] = dbsm.Entry{Index: s.next, Cmd: q.cmd}
				s.next++
			}
			s.log = append(s.log, es...)
			res, err := s.fsm.Update(es)
			s.heldRes = nil
			for i := range s.queue {
				if err != nil {
					s.heldRes = append(s.heldRes, proposalResult{err: err})
				} else {
					s.heldRes = append(s.heldRes, proposalResult{r: res[i].Result})
				}
			}
			s.held, s.queue, s.batchN = s.queue, nil, 0
		}
		s.mu.Unlock()
		s.enq <- struct{}{}
		r := <-p.res
		return r.r, r.err
	}
	defer s.mu.Unlock()
	s.log = append(s.log, dbsm.Entry{Index: s.next, Cmd: b})
	res, err := s.fsm.Update([]dbsm.Entry{{Index: s.next, Cmd: b}})
	s.next++
	if err != nil {
		return dbsm.Result{}, err
	}
	return res[0].Result, nil
}

func (s *schedStore) lookup(q interface{}) (interface{}, error) {
	s.mu.Lock()
	defer s.mu.Unlock()
	return s.fsm.Lookup(q)
}

// gate is what one actor (manager / node) sees: before every store operation it announces the operation and waits
// for the scheduler's permission.
type gate struct {
	id     int
	store  *schedStore
	arrive chan gateEvent
	permit chan struct{}
	rec    func(op, key string) // optional: sees every store operation the actor makes
}

type gateEvent struct {
	actor int
	op    string // "get", "set", "delete", "exists", "getall", or "done:<result>"
	key   string
}

func (g *gate) wait(op, key string) {
	if g.rec != nil {
		g.rec(op, key)
	}
	if g.arrive == nil { // an unscheduled observer
		return
	}
	g.arrive <- gateEvent{g.id, op, key}
	<-g.permit
}

func (g *gate) Exists(key string) (bool, error) {
	g.wait("exists", key)
	v, err := g.store.lookup(kv.QueryExist{Key: key})
	if err != nil {
		return false, err
	}
	return v.(bool), nil
}

func (g *gate) Get(key string) (kv.Pair, error) {
	g.wait("get", key)
	v, err := g.store.lookup(kv.QueryKey{Key: key})
	if err != nil {
		return kv.Pair{}, err
	}
	return v.(kv.Pair), nil
}

func (g *gate) GetAll(pattern string) ([]kv.Pair, error) {
	g.wait("getall", pattern)
	v, err := g.store.lookup(kv.QueryAll{Pattern: pattern})
	if err != nil {
		return nil, err
	}
	return v.([]kv.Pair), nil
}

// Set and Delete mirror kv.RaftStore.Set/Delete on top of the proposal result.
func (g *gate) Set(key, value string, ver uint64) (kv.Pair, error) {
	g.wait("set", key)
	res, err := g.store.propose(kv.Update{Op: kv.UpdateOpSet, KVPair: kv.Pair{Key: key, Value: value, Ver: ver}})
	if err != nil {
		return kv.Pair{}, err
	}
	var p kv.Pair
	if err := json.Unmarshal(res.Data, &p); err != nil {
		return kv.Pair{}, err
	}
	if res.Value == kv.ResultCodeVersionMismatch {
		return p, kv.ErrVersionMismatch
	}
	return p, nil
}

func (g *gate) Delete(key string, ver uint64) error {
	g.wait("delete", key)
	res, err := g.store.propose(kv.Update{Op: kv.UpdateOpDelete, KVPair: kv.Pair{Key: key, Ver: ver}})
	if err != nil {
		return err
	}
	if res.Value == kv.ResultCodeVersionMismatch {
		return kv.ErrVersionMismatch
	}
	return nil
}

// scheduler runs the actors' scripts; pick decides which waiting actor proceeds.
type scheduler struct {
	arrive  chan gateEvent
	gates   map[int]*gate
	waiting map[int]gateEvent
	running int
}

func newScheduler(store *schedStore, actors []int) *scheduler {
	s := &scheduler{arrive: make(chan gateEvent, 64), gates: map[int]*gate{}, waiting: map[int]gateEvent{}}
	for _, a := range actors {
		s.gates[a] = &gate{id: a, store: store, arrive: s.arrive, permit: make(chan struct{})}
	}
	return s
}

// start launches an actor's script; the script reports each finished call with done(result).
func (s *scheduler) start(actor int, script func(done func(result string))) {
	s.running++
	go func() {
		script(func(result string) { s.arrive <- gateEvent{actor, "done:" + result, ""} })
		s.arrive <- gateEvent{actor, "exit", ""}
	}()
}

// settle consumes events until every running actor is parked at a gate (or has exited); finished calls are
// reported through onDone in the order they happen.
func (s *scheduler) settle(onDone func(actor int, result string)) {
	for len(s.waiting) < s.running {
		ev := <-s.arrive
		switch {
		case ev.op == "exit":
			s.running--
		case len(ev.op) > 5 && ev.op[:5] == "done:":
			onDone(ev.actor, ev.op[5:])
		default:
			s.waiting[ev.actor] = ev
		}
	}
}

// release lets one parked actor perform its announced operation.
func (s *scheduler) release(actor int) gateEvent {
	ev := s.waiting[actor]
	delete(s.waiting, actor)
	s.gates[actor].permit <- struct{}{}
	return ev
}

func (s *scheduler) parked() []int {
	var out []int
	for a := range s.waiting {
		out = append(out, a)
	}
	sortInts(out)
	return out
}

func sortInts(a []int) {
	for i := 1; i < len(a); i++ {
		for j := i; j > 0 && a[j-1] > a[j]; j-- {
			a[j-1], a[j] = a[j], a[j-1]
		}
	}
}

var errUnexpected = errors.New("unexpected")

func errClass(err error) string {
	if err == nil {
		return "ok"
	}
	return fmt.Sprint(err)
}
