package main

import (
	"bytes"
	"fmt"
	"io"
	"math/rand"
	"sort"
	"sync"

	"github.com/jamf/regatta/regattapb"
	_ "github.com/jamf/regatta/regattaserver/encoding/gzip"
	_ "github.com/jamf/regatta/regattaserver/encoding/proto"
	_ "github.com/jamf/regatta/regattaserver/encoding/snappy"
	_ "github.com/jamf/regatta/regattaserver/encoding/zstd"
	"google.golang.org/grpc/encoding"
	"google.golang.org/protobuf/encoding/protowire"
	"google.golang.org/protobuf/proto"
	"google.golang.org/protobuf/reflect/protoreflect"
)

func init() { register("c18", runC18) }

// pfieldsOf renders a message as the Coq pfield tree (fields in ascending number order, populated fields only).
func pfieldsOf(m protoreflect.Message) string {
	type fv struct {
		fd protoreflect.FieldDescriptor
		v  protoreflect.Value
	}
	var fs []fv
	m.Range(func(fd protoreflect.FieldDescriptor, v protoreflect.Value) bool {
		fs = append(fs, fv{fd, v})
		return true
	})
	// the order in which the vtprotobuf generated MarshalVT emits fields: plain fields by ascending number, members of
	// (real) oneofs after them. Field order is not constrained by the wire format; decoders accept any order.
	realOneof := func(fd protoreflect.FieldDescriptor) bool {
		return fd.ContainingOneof() != nil && !fd.ContainingOneof().IsSynthetic()
	}
	sort.Slice(fs, func(i, j int) bool {
		oi, oj := realOneof(fs[i].fd), realOneof(fs[j].fd)
		if oi != oj {
			return !oi
		}
		return fs[i].fd.Number() < fs[j].fd.Number()
	})
	var out []string
	one := func(fd protoreflect.FieldDescriptor, v protoreflect.Value) string {
		n := uint64(fd.Number())
		switch fd.Kind() {
		case protoreflect.BoolKind:
			b := uint64(0)
			if v.Bool() {
				b = 1
			}
			return fmt.Sprintf("PVar %d %d", n, b)
		case protoreflect.EnumKind:
			return fmt.Sprintf("PVar %d %d", n, uint64(v.Enum()))
		case protoreflect.Int32Kind, protoreflect.Int64Kind:
			return fmt.Sprintf("PVar %d %d", n, uint64(v.Int()))
		case protoreflect.Uint32Kind, protoreflect.Uint64Kind:
			return fmt.Sprintf("PVar %d %d", n, v.Uint())
		case protoreflect.BytesKind:
			return fmt.Sprintf("PBytes %d %s", n, cBytes(v.Bytes()))
		case protoreflect.StringKind:
			return fmt.Sprintf("PBytes %d %s", n, cBytes([]byte(v.String())))
		case protoreflect.MessageKind:
			return fmt.Sprintf("PMsg %d %s", n, pfieldsOf(v.Message()))
		}
		panic("unsupported kind " + fd.Kind().String())
	}
	for _, f := range fs {
		if f.fd.IsList() {
			l := f.v.List()
			for i := 0; i < l.Len(); i++ {
				out = append(out, "("+one(f.fd, l.Get(i))+")")
			}
		} else {
			out = append(out, "("+one(f.fd, f.v)+")")
		}
	}
	return cList(out)
}

func topFields(b []byte) string {
	var out []string
	for len(b) > 0 {
		num, typ, n := protowire.ConsumeTag(b)
		if n < 0 {
			return oN(-1)
		}
		b = b[n:]
		switch typ {
		case protowire.VarintType:
			v, k := protowire.ConsumeVarint(b)
			b = b[k:]
			out = append(out, oL(oU(uint64(num)), oN(0), oU(v)))
		case protowire.BytesType:
			v, k := protowire.ConsumeBytes(b)
			b = b[k:]
			out = append(out, oL(oU(uint64(num)), oN(2), oB(v)))
		case protowire.Fixed64Type:
			out = append(out, oL(oU(uint64(num)), oN(1), oB(b[:8])))
			b = b[8:]
		case protowire.Fixed32Type:
			out = append(out, oL(oU(uint64(num)), oN(5), oB(b[:4])))
			b = b[4:]
		default:
			return oN(-1)
		}
	}
	return oLs(out)
}

type vtMsg interface {
	proto.Message
	MarshalVT() ([]byte, error)
	UnmarshalVT([]byte) error
}

func c18Messages(r *rand.Rand) []vtMsg {
	g := newFsmGen(r, Hist{})
	g.leader = true
	var ms []vtMsg
	u := func() uint64 { return pick(r, []uint64{0, 1, 127, 128, 300, 1 << 32, 1<<63 + 5, ^uint64(0)}) }
	by := func() []byte {
		switch r.Intn(5) {
		case 0:
			return nil
		case 1:
			return []byte{}
		case 2:
			return bytes.Repeat([]byte{0xAB}, 200+r.Intn(100))
		}
		return g.key()
	}
	hdr := func() *regattapb.ResponseHeader {
		if r.Intn(3) == 0 {
			return nil
		}
		return &regattapb.ResponseHeader{ShardId: u(), ReplicaId: u(), Revision: u(), RaftTerm: u(), RaftLeaderId: u()}
	}
	kv := func() *regattapb.KeyValue {
		return &regattapb.KeyValue{Key: by(), Value: by(), CreateRevision: int64(u()), ModRevision: int64(u())}
	}
	for i := 0; i < 6; i++ {
		c := g.cmd(0)
		if r.Intn(2) == 0 {
			l := u()
			c.Leader = &l
		}
		ms = append(ms, c.pb())
	}
	t := g.txn()
	treq := &regattapb.TxnRequest{Table: by()}
	for _, x := range t.Cmps {
		treq.Compare = append(treq.Compare, x.pb())
	}
	for _, x := range t.Succ {
		treq.Success = append(treq.Success, x.pb())
	}
	for _, x := range t.Fail {
		treq.Failure = append(treq.Failure, x.pb())
	}
	rr := &regattapb.ResponseOp_Range{Kvs: []*regattapb.KeyValue{kv(), kv()}, More: r.Intn(2) == 0, Count: int64(u())}
	resps := []*regattapb.ResponseOp{
		{Response: &regattapb.ResponseOp_ResponseRange{ResponseRange: rr}},
		{Response: &regattapb.ResponseOp_ResponsePut{ResponsePut: &regattapb.ResponseOp_Put{PrevKv: kv()}}},
		{Response: &regattapb.ResponseOp_ResponsePut{ResponsePut: &regattapb.ResponseOp_Put{}}},
		{Response: &regattapb.ResponseOp_ResponseDeleteRange{ResponseDeleteRange: &regattapb.ResponseOp_DeleteRange{Deleted: int64(u()), PrevKvs: []*regattapb.KeyValue{kv()}}}},
		{},
	}
	cmd := g.cmd(0)
	ms = append(ms, treq,
		&regattapb.TxnResponse{Header: hdr(), Succeeded: r.Intn(2) == 0, Responses: resps},
		&regattapb.CommandResult{Responses: resps, Revision: u()},
		kv(), &regattapb.KeyValue{},
		&regattapb.RangeRequest{Table: by(), Key: by(), RangeEnd: by(), Limit: int64(u()), Linearizable: true, KeysOnly: r.Intn(2) == 0, CountOnly: r.Intn(2) == 0, MinModRevision: int64(u())},
		&regattapb.RangeResponse{Header: hdr(), Kvs: []*regattapb.KeyValue{kv(), kv(), kv()}, More: true, Count: int64(u())},
		&regattapb.PutRequest{Table: by(), Key: by(), Value: by(), PrevKv: true},
		&regattapb.PutResponse{Header: hdr(), PrevKv: kv()},
		&regattapb.DeleteRangeRequest{Table: by(), Key: by(), RangeEnd: by(), PrevKv: r.Intn(2) == 0, Count: true},
		&regattapb.DeleteRangeResponse{Header: hdr(), Deleted: int64(u()), PrevKvs: []*regattapb.KeyValue{kv()}},
		&regattapb.ReplicateRequest{Table: by(), LeaderIndex: u()},
		&regattapb.ReplicateResponse{LeaderIndex: u(), Response: &regattapb.ReplicateResponse_CommandsResponse{CommandsResponse: &regattapb.ReplicateCommandsResponse{
			Commands: []*regattapb.ReplicateCommand{{Command: cmd.pb(), LeaderIndex: u()}, {Command: &regattapb.Command{Type: regattapb.Command_DUMMY}, LeaderIndex: u()}}}}},
		&regattapb.ReplicateResponse{Response: &regattapb.ReplicateResponse_ErrorResponse{ErrorResponse: &regattapb.ReplicateErrResponse{Error: regattapb.ReplicateError_USE_SNAPSHOT}}},
		&regattapb.ReplicateResponse{LeaderIndex: u()},
		&regattapb.SnapshotChunk{Data: by(), Len: u()},
		&regattapb.SnapshotRequest{Table: by()},
		&regattapb.MetadataResponse{Tables: []*regattapb.Table{{Name: "a", Type: regattapb.Table_REPLICATED}, {Name: "ü"}}},
		&regattapb.BackupRequest{Table: by()},
		&regattapb.RestoreMessage{Data: &regattapb.RestoreMessage_Info{Info: &regattapb.RestoreInfo{Table: by()}}},
		&regattapb.RestoreMessage{Data: &regattapb.RestoreMessage_Chunk{Chunk: &regattapb.SnapshotChunk{Data: by(), Len: u()}}},
		&regattapb.CreateTableRequest{Name: "tbl"}, &regattapb.DeleteTableRequest{Name: ""},
	)
	return ms
}

func runC18(args []string) error {
	rf, err := parseFlags("c18", args, nil)
	if err != nil {
		return err
	}
	r := rf.rng()
	rounds := rf.count(12, 250)
	sum := &Summary{Engine: "c18", Seed: rf.Seed,
		Rule: "generated messages of the API and replication types (every oneof arm, absent vs present-but-empty optional fields, nil vs empty bytes, 64-bit extremes, nested and repeated messages, 200-300 byte fields) through the registered 'proto' codec: decode(encode m) = m into fresh objects and into junk-filled recycled objects, bytes equal to the wire model's encoding of the message's field tree; registered gzip/snappy/zstd compressors on payloads of 0 B..300 KiB under 16 concurrent goroutines sharing the pooled state; distinct = distinct message values; non-trivial = message with a nested message or oneof"}
	codec := encoding.GetCodec("proto")
	if codec == nil {
		return fmt.Errorf("proto codec not registered")
	}
	cf := &CasesFile{Requires: []string{"Model.Bytes", "Model.Obs", "Model.ProtoWire", "Run.C18Run"}, CaseType: "c18case", Check: "c18_check", Show: "c18_model"}
	ht := sum.hist("message_types")
	seen := map[string]bool{}
	var junkPool = map[string]vtMsg{}
	c := 0
	for round := 0; round < rounds; round++ {
		for _, m := range c18Messages(r) {
			name := string(m.ProtoReflect().Descriptor().FullName())
			ht.Inc(name)
			bts, err := codec.Marshal(m)
			if err != nil {
				return err
			}
			in := map[string]any{"type": name, "hex": fmt.Sprintf("%x", bts)}
			// fresh object
			fresh := m.ProtoReflect().New().Interface().(vtMsg)
			if err := codec.Unmarshal(bts, fresh); err != nil {
				sum.violate(c, "codec cannot decode its own encoding", in, err.Error())
			} else if !proto.Equal(m, fresh) {
				sum.violate(c, "message changed by encode/decode", in, nil)
			}
			// recycled object, the way readIntoTable recycles its Command: Reset() then decode over whatever an
			// earlier message of the same type left behind
			if old, ok := junkPool[name]; ok {
				proto.Reset(old)
				if err := codec.Unmarshal(bts, old); err != nil {
					sum.violate(c, "codec cannot decode into a recycled object", in, err.Error())
				} else if !proto.Equal(m, old) {
					in2 := map[string]any{"type": name, "hex": in["hex"], "recycled_with": "Reset", "differs": diffFields(m.ProtoReflect(), old.ProtoReflect())}
					sum.violate(c, "decoding into a recycled object differs from decoding into a fresh one", in2, nil)
				}
			}
			junkPool[name] = fresh
			key := name + fmt.Sprintf("%x", bts)
			nested := bytes.Contains([]byte(pfieldsOf(m.ProtoReflect())), []byte("PMsg"))
			if !seen[key] && nested {
				sum.DistinctNontrivial++
			}
			seen[key] = true
			cf.Add(fmt.Sprintf("{| p_fields := %s; p_impl := %s |}", pfieldsOf(m.ProtoReflect()), oL(oB(bts), topFields(bts))), fmt.Sprintf("%s %x", name, bts))
			if len(sum.Samples) < 3 && nested && c%13 == 0 {
				sum.Samples = append(sum.Samples, map[string]string{"type": name, "bytes": fmt.Sprintf("%x", bts)})
			}
			c++
		}
	}
	sum.Evaluations = c

	// ---- pooled vtproto objects as the snapshot stream readers use them ----
	for i := 0; i < 50; i++ {
		ch := regattapb.SnapshotChunkFromVTPool()
		src := &regattapb.SnapshotChunk{Data: bytes.Repeat([]byte{byte(i)}, r.Intn(40)), Len: uint64(r.Intn(3))}
		b, _ := src.MarshalVT()
		ch.ResetVT()
		if err := codec.Unmarshal(b, ch); err != nil || !bytes.Equal(ch.Data, src.Data) || ch.Len != src.Len {
			sum.violate(c+i, "decoding into a pooled SnapshotChunk differs", map[string]any{"i": i}, nil)
		}
		ch.ReturnToVTPool()
		// the pooled Command is only ever an ENCODING source (fsm.writeCommand): set the fields it sets, encode, decode
		cm := regattapb.CommandFromVTPool()
		cm.Table = []byte("t")
		cm.Type = regattapb.Command_PUT
		cm.Kv = &regattapb.KeyValue{Key: []byte{byte(i), 1}, Value: bytes.Repeat([]byte{7}, i)}
		wb, _ := cm.MarshalVT()
		back := &regattapb.Command{}
		if err := back.UnmarshalVT(wb); err != nil || back.Type != regattapb.Command_PUT || !bytes.Equal(back.Kv.GetKey(), cm.Kv.Key) || !bytes.Equal(back.Kv.GetValue(), cm.Kv.Value) || back.LeaderIndex != nil || len(back.RangeEnd) != 0 {
			sum.violate(c+i, "command encoded from a pooled object decodes differently", map[string]any{"hex": fmt.Sprintf("%x", wb)}, nil)
		}
		cm.ReturnToVTPool()
		// ... and the next user of the pool is worker.proposeBatch, which builds a SEQUENCE in the pooled object: what it
		// encodes must be what the same assignments encode on a fresh object
		mkSeq := func(seq *regattapb.Command) []byte {
			li := uint64(1000 + i)
			seq.Type = regattapb.Command_SEQUENCE
			seq.Sequence = append(seq.Sequence, &regattapb.Command{Table: []byte("t"), Type: regattapb.Command_PUT, Kv: &regattapb.KeyValue{Key: []byte{byte(i)}, Value: []byte("v")}},
				&regattapb.Command{Table: []byte("t"), Type: regattapb.Command_DELETE, Kv: &regattapb.KeyValue{Key: []byte{byte(i)}}, RangeEnd: []byte{}})
			seq.LeaderIndex = &li
			b, _ := seq.MarshalVT()
			seq.Sequence = seq.Sequence[:0]
			seq.LeaderIndex = nil
			return b
		}
		pooled := regattapb.CommandFromVTPool()
		pb := mkSeq(pooled)
		pooled.ReturnToVTPool()
		if fb := mkSeq(&regattapb.Command{}); !bytes.Equal(pb, fb) {
			sum.violate(c+i, "a command encoded from a pooled object (after the snapshot writer used and returned it) differs from the same command encoded from a fresh object", map[string]any{"pooled_hex": fmt.Sprintf("%x", pb), "fresh_hex": fmt.Sprintf("%x", fb)}, nil)
		}
	}

	// ---- the codec inside a real API server with requests in flight ----
	if err := runC18Server(sum); err != nil {
		return err
	}
	// ---- compressors under concurrent use of their pooled state ----
	hcz := sum.hist("compressor_payloads")
	for _, name := range []string{"gzip", "snappy", "zstd"} {
		comp := encoding.GetCompressor(name)
		if comp == nil {
			sum.violate(0, "compressor not registered: "+name, nil, nil)
			continue
		}
		var wg sync.WaitGroup
		var mu sync.Mutex
		nper := 12
		if rf.Tier == "thorough" {
			nper = 120
		}
		for gidx := 0; gidx < 16; gidx++ {
			wg.Add(1)
			seed := rf.Seed*1000 + int64(gidx)
			go func() {
				defer wg.Done()
				rr := rand.New(rand.NewSource(seed))
				for i := 0; i < nper; i++ {
					l := pick(rr, []int{0, 1, 2, 100, 4096, 65536, 65537, 300000})
					p := make([]byte, l)
					fill := rr.Intn(3)
					chunk := 1 + rr.Intn(70000)
					func() {
						defer func() {
							if pv := recover(); pv != nil {
								mu.Lock()
								sum.violate(0, "compressor "+name+" panics under concurrent use", map[string]any{"len": l, "fill": fill, "goroutines": 16, "seed": seed}, fmt.Sprint(pv))
								mu.Unlock()
							}
						}()
						switch fill {
						case 0:
							rr.Read(p)
						case 1:
							for j := range p {
								p[j] = byte(j % 7)
							}
						}
						var buf bytes.Buffer
						w, err := comp.Compress(&buf)
						if err == nil {
							// write in pieces
							for off := 0; off < len(p); {
								k := chunk
								if off+k > len(p) {
									k = len(p) - off
								}
								if _, err = w.Write(p[off : off+k]); err != nil {
									break
								}
								off += k
							}
							if err == nil {
								err = w.Close()
							}
						}
						var out []byte
						if err == nil {
							var rd io.Reader
							rd, err = comp.Decompress(&buf)
							if err == nil {
								out, err = io.ReadAll(rd)
							}
						}
						mu.Lock()
						hcz.Inc(fmt.Sprintf("%s/%d", name, l))
						sum.Evaluations++
						if l > 0 {
							sum.DistinctNontrivial++
						}
						if err != nil || !bytes.Equal(out, p) {
							sum.violate(0, "compressor "+name+" does not return the original bytes under concurrent use", map[string]any{"len": l, "fill": fill, "goroutines": 16, "seed": seed}, fmt.Sprint(err))
						}
						mu.Unlock()
					}()
				}
			}()
		}
		wg.Wait()
	}
	names, err := cf.Write(rf.Out, "c18_cases", 60)
	if err != nil {
		return err
	}
	sum.CasesFiles = names
	return sum.write(rf.Out, "c18")
}

// diffFields names the fields (as paths) in which two messages of one type differ; "(presence)" when one has the
// field and the other does not.
func diffFields(a, b protoreflect.Message) []string {
	out := []string{}
	var walk func(prefix string, a, b protoreflect.Message)
	walk = func(prefix string, a, b protoreflect.Message) {
		fds := a.Descriptor().Fields()
		for i := 0; i < fds.Len(); i++ {
			fd := fds.Get(i)
			name := prefix + string(fd.Name())
			switch {
			case a.Has(fd) != b.Has(fd):
				out = append(out, name+" (presence)")
			case !a.Has(fd) || a.Get(fd).Equal(b.Get(fd)):
			case fd.IsList() && fd.Message() != nil && a.Get(fd).List().Len() == b.Get(fd).List().Len():
				la, lb := a.Get(fd).List(), b.Get(fd).List()
				for j := 0; j < la.Len(); j++ {
					walk(fmt.Sprintf("%s[%d].", name, j), la.Get(j).Message(), lb.Get(j).Message())
				}
			case !fd.IsList() && !fd.IsMap() && fd.Message() != nil:
				walk(name+".", a.Get(fd).Message(), b.Get(fd).Message())
			default:
				out = append(out, name)
			}
		}
	}
	walk("", a, b)
	return out
}
