package main

import (
	"bytes"
	"fmt"
	"strings"
	"sync/atomic"

	"github.com/cockroachdb/pebble/vfs"
	"github.com/jamf/regatta/regattapb"
	"github.com/jamf/regatta/storage/table/fsm"
	"github.com/jamf/regatta/util/iter"
	sm "github.com/lni/dragonboat/v4/statemachine"
)

// ---- steps of a scenario (mirrors Run/FsmRun.v) ----

type gStep struct {
	Kind    int // 0 apply, 1 read, 2 iter, 3 txn read-only, 4 index, 5 reopen
	Entries []gEntry
	R       gRange
	Cmps    []gCmp
	Succ    []gOp
	Fail    []gOp
	Reopen  int // 0 close+open, 1 snapshot->snapshot, 2 checkpoint->checkpoint, 3 snapshot->checkpoint-configured, 4 checkpoint->snapshot-configured
	// Late (transfer kinds only): the saver applies the NEXT apply batch between PrepareSnapshot and SaveSnapshot (what
	// dragonboat's concurrent snapshotting does); the receiver still gets the state at the cut and replays that batch.
	// Not part of the model step: a transfer is the identity there whenever the stream is taken.
	Late []gEntry
}

func (s gStep) coq() string {
	switch s.Kind {
	case 0:
		parts := make([]string, len(s.Entries))
		for i, e := range s.Entries {
			parts[i] = "(" + e.coq() + ")"
		}
		return "SApply " + cList(parts)
	case 1:
		return "SRead " + s.R.coq()
	case 2:
		return "SIter " + s.R.coq()
	case 3:
		return fmt.Sprintf("STxnRO %s %s %s", coqCmps(s.Cmps), coqOps(s.Succ), coqOps(s.Fail))
	case 4:
		return "SIndex"
	}
	return "SReopen"
}

func (s gStep) String() string {
	switch s.Kind {
	case 0:
		return fmt.Sprintf("apply%v", s.Entries)
	case 1:
		return "read " + s.R.String()
	case 2:
		return "iter " + s.R.String()
	case 3:
		return fmt.Sprintf("txn-ro if%v then%v else%v", s.Cmps, s.Succ, s.Fail)
	case 4:
		return "index"
	}
	return fmt.Sprintf("reopen(%d)", s.Reopen)
}

// ---- observables ----

func oKV(kv *regattapb.KeyValue) string { return oL(oB(kv.Key), oB(kv.Value)) }

func oKVs(kvs []*regattapb.KeyValue) string {
	parts := make([]string, len(kvs))
	for i, kv := range kvs {
		parts[i] = oKV(kv)
	}
	return oLs(parts)
}

func oRange(r *regattapb.ResponseOp_Range) string {
	return oL(oKVs(r.Kvs), oBool(r.More), oN(r.Count))
}

func oResp(r *regattapb.ResponseOp) string {
	switch x := r.Response.(type) {
	case *regattapb.ResponseOp_ResponseRange:
		return oL(oN(0), oRange(x.ResponseRange))
	case *regattapb.ResponseOp_ResponsePut:
		if x.ResponsePut.PrevKv == nil {
			return oL(oN(1), oL())
		}
		return oL(oN(1), oL(oKV(x.ResponsePut.PrevKv)))
	case *regattapb.ResponseOp_ResponseDeleteRange:
		return oL(oN(2), oN(x.ResponseDeleteRange.Deleted), oKVs(x.ResponseDeleteRange.PrevKvs))
	}
	return oN(-1)
}

func oResps(rs []*regattapb.ResponseOp) string {
	parts := make([]string, len(rs))
	for i, r := range rs {
		parts[i] = oResp(r)
	}
	return oLs(parts)
}

// ---- the real state machine ----

var fsmSeq atomic.Uint64

type realFSM struct {
	f        *fsm.FSM
	fs       vfs.FS
	dir      string
	srt      fsm.SnapshotRecoveryType
	notified []uint64
	id       uint64
}

func newRealFSM(fs vfs.FS, srt fsm.SnapshotRecoveryType) (*realFSM, uint64, error) {
	r := &realFSM{fs: fs, dir: "/data", srt: srt, id: 1 + fsmSeq.Add(1)}
	idx, err := r.open()
	return r, idx, err
}

func (r *realFSM) open() (uint64, error) {
	f := fsm.New("t", r.dir, r.fs, nil, nil, r.srt, func(applied uint64) { r.notified = append(r.notified, applied) })(r.id, 1)
	r.f = f.(*fsm.FSM)
	return r.f.Open(nil)
}

func (r *realFSM) close() { _ = r.f.Close() }

type entryObs struct {
	Value    uint64
	HasData  bool
	Revision uint64
	Resps    []*regattapb.ResponseOp
}

func (r *realFSM) apply(es []gEntry) ([]entryObs, uint64, error) {
	ents := make([]sm.Entry, len(es))
	for i, e := range es {
		_, bts := wireNormal(e.Cmd)
		ents[i] = sm.Entry{Index: e.Idx, Cmd: bts}
	}
	r.notified = nil
	res, err := r.f.Update(ents)
	if err != nil {
		return nil, 0, err
	}
	out := make([]entryObs, len(res))
	for i, e := range res {
		o := entryObs{Value: e.Result.Value, HasData: len(e.Result.Data) > 0}
		if o.HasData {
			cr := &regattapb.CommandResult{}
			if err := cr.UnmarshalVT(e.Result.Data); err != nil {
				return nil, 0, err
			}
			o.Revision = cr.Revision
			o.Resps = cr.Responses
		}
		out[i] = o
	}
	var n uint64
	if len(r.notified) > 0 {
		n = r.notified[len(r.notified)-1]
	}
	return out, n, nil
}

func (o entryObs) obs() string {
	return oL(oU(o.Value), oBool(o.HasData), oU(o.Revision), oResps(o.Resps))
}

func (r *realFSM) read(q gRange) (*regattapb.ResponseOp_Range, error) {
	v, err := r.f.Lookup(q.pb())
	if err != nil {
		return nil, err
	}
	return v.(*regattapb.ResponseOp_Range), nil
}

func (r *realFSM) iterate(q gRange) ([]*regattapb.ResponseOp_Range, error) {
	v, err := r.f.Lookup(fsm.IteratorRequest{RangeOp: q.pb()})
	if err != nil {
		return nil, err
	}
	return iter.Collect(v.(iter.Seq[*regattapb.ResponseOp_Range])), nil
}

func (r *realFSM) txnRO(cs []gCmp, succ, fail []gOp) (*regattapb.TxnResponse, error) {
	req := &regattapb.TxnRequest{Table: []byte("t")}
	for _, c := range cs {
		req.Compare = append(req.Compare, c.pb())
	}
	for _, o := range succ {
		req.Success = append(req.Success, o.pb())
	}
	for _, o := range fail {
		req.Failure = append(req.Failure, o.pb())
	}
	v, err := r.f.Lookup(req)
	if err != nil {
		return nil, err
	}
	return v.(*regattapb.TxnResponse), nil
}

func (r *realFSM) indices() (uint64, uint64, error) {
	a, err := r.f.Lookup(fsm.LocalIndexRequest{})
	if err != nil {
		return 0, 0, err
	}
	b, err := r.f.Lookup(fsm.LeaderIndexRequest{})
	if err != nil {
		return 0, 0, err
	}
	return a.(*fsm.IndexResponse).Index, b.(*fsm.IndexResponse).Index, nil
}

// transfer saves a snapshot of r and recovers it into a fresh instance configured with dstType.
func (r *realFSM) transfer(dstType fsm.SnapshotRecoveryType, late []gEntry) (*realFSM, error) {
	ctx, err := r.f.PrepareSnapshot()
	if err != nil {
		return nil, err
	}
	if len(late) > 0 {
		if _, _, err := r.apply(late); err != nil {
			return nil, err
		}
		// dragonboat syncs the state machine before a concurrent save: the late batch reaches the DB's files
		if err := r.f.Sync(); err != nil {
			return nil, err
		}
	}
	var buf bytes.Buffer
	if err := r.f.SaveSnapshot(ctx, &buf, nil); err != nil {
		return nil, err
	}
	dst, _, err := newRealFSM(vfs.NewMem(), dstType)
	if err != nil {
		return nil, err
	}
	// pre-existing junk in the receiver must not survive
	junk := uint64(999)
	_, _, _ = dst.apply([]gEntry{{Idx: 1, Cmd: gCmd{Kind: regattapb.Command_PUT, K: []byte("junk"), V: []byte("junk"), Leader: &junk}}})
	if err := dst.f.RecoverFromSnapshot(&buf, nil); err != nil {
		return nil, err
	}
	return dst, nil
}

func (r *realFSM) reopen(kind int, late []gEntry) (*realFSM, error) {
	switch kind {
	case 0:
		r.close()
		if _, err := r.open(); err != nil {
			return nil, err
		}
		return r, nil
	case 1, 2, 3, 4:
		src := []fsm.SnapshotRecoveryType{0, fsm.RecoveryTypeSnapshot, fsm.RecoveryTypeCheckpoint, fsm.RecoveryTypeSnapshot, fsm.RecoveryTypeCheckpoint}[kind]
		dstT := []fsm.SnapshotRecoveryType{0, fsm.RecoveryTypeSnapshot, fsm.RecoveryTypeCheckpoint, fsm.RecoveryTypeCheckpoint, fsm.RecoveryTypeSnapshot}[kind]
		r.srt = src
		// the saver's format is a property of the instance; re-create the saver with that format on the same files
		r.close()
		if _, err := r.open(); err != nil {
			return nil, err
		}
		dst, err := r.transfer(dstT, late)
		if err != nil {
			return nil, err
		}
		r.close()
		return dst, nil
	}
	return r, nil
}

// runSteps executes a scenario on a fresh state machine and returns one observable per step.
func runSteps(steps []gStep) (obs []string, err error) {
	f, _, err := newRealFSM(vfs.NewMem(), fsm.RecoveryTypeSnapshot)
	if err != nil {
		return nil, err
	}
	defer func() { f.close() }()
	for _, s := range steps {
		o, nf, err := runStep(f, s)
		if err != nil {
			return nil, fmt.Errorf("step %v: %w", s, err)
		}
		f = nf
		obs = append(obs, o)
	}
	return obs, nil
}

func runStep(f *realFSM, s gStep) (o string, nf *realFSM, err error) {
	nf = f
	defer func() {
		if p := recover(); p != nil {
			o = oL(oN(-99))
			err = nil
			_ = p
		}
	}()
	switch s.Kind {
	case 0:
		res, n, err := f.apply(s.Entries)
		if err != nil {
			return "", f, err
		}
		return applyObs(res, n), f, nil
	case 1:
		r, err := f.read(s.R)
		if err != nil {
			return "", f, err
		}
		return oRange(r), f, nil
	case 2:
		rs, err := f.iterate(s.R)
		if err != nil {
			return "", f, err
		}
		parts := make([]string, len(rs))
		for i, r := range rs {
			parts[i] = oRange(r)
		}
		return oLs(parts), f, nil
	case 3:
		t, err := f.txnRO(s.Cmps, s.Succ, s.Fail)
		if err != nil {
			return "", f, err
		}
		return oL(oBool(t.Succeeded), oResps(t.Responses)), f, nil
	case 4:
		a, b, err := f.indices()
		if err != nil {
			return "", f, err
		}
		return oL(oU(a), oU(b)), f, nil
	default:
		g, err := f.reopen(s.Reopen, s.Late)
		if err != nil {
			return "", f, err
		}
		a, b, err := g.indices()
		if err != nil {
			return "", g, err
		}
		return oL(oU(a), oU(b)), g, nil
	}
}

func applyObs(res []entryObs, n uint64) string {
	parts := make([]string, len(res))
	for i, r := range res {
		parts[i] = r.obs()
	}
	return oL(oLs(parts), oU(n))
}

func stepsCoq(steps []gStep) string {
	parts := make([]string, len(steps))
	for i, s := range steps {
		parts[i] = "(" + s.coq() + ")"
	}
	return cList(parts)
}

func stepsDescr(steps []gStep) string {
	parts := make([]string, len(steps))
	for i, s := range steps {
		parts[i] = s.String()
	}
	return strings.Join(parts, " ; ")
}

// normalizeSteps replaces every command by its wire-normal form (what the state machine decodes).
func normalizeSteps(steps []gStep) {
	for i := range steps {
		for j := range steps[i].Entries {
			steps[i].Entries[j].Cmd, _ = wireNormal(steps[i].Entries[j].Cmd)
		}
	}
}
