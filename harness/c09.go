package main

import (
	"bytes"
	"fmt"
	"strings"

	"github.com/cockroachdb/pebble/vfs"
	"github.com/jamf/regatta/regattapb"
	"github.com/jamf/regatta/storage/table/fsm"
	"github.com/jamf/regatta/util/iter"
)

func init() { register("c09", runC09) }

// rangeOracle checks the property's own clauses on the implementation's answers for one request against the
// sorted list of pairs the table holds inside the requested range.
func rangeOracle(sum *Summary, c int, in map[string]any, req gRange, inRange [][2][]byte, unary *regattapb.ResponseOp_Range, stream []*regattapb.ResponseOp_Range) {
	want := inRange
	if req.Limit > 0 && int64(len(want)) > req.Limit {
		want = want[:req.Limit]
	}
	remain := len(want) < len(inRange)
	// streamed read: concatenation of messages
	var got [][2][]byte
	var total int64
	for i, m := range stream {
		for _, kv := range m.Kvs {
			got = append(got, [2][]byte{kv.Key, kv.Value})
		}
		total += m.Count
		last := i == len(stream)-1
		if !last && !m.More {
			sum.violate(c, "streamed read: a message before the last is not flagged 'more'", in, fmt.Sprint(i))
		}
		if last && m.More != remain {
			sum.violate(c, "'more' is not set exactly when pairs of the range remain", in, fmt.Sprintf("more=%v remain=%v returned=%d of %d", m.More, remain, len(want), len(inRange)))
		}
		if !req.CountOnly && m.Count != int64(len(m.Kvs)) {
			sum.violate(c, "count differs from the number of pairs returned", in, fmt.Sprint(i))
		}
		if sz := m.SizeVT(); sz+512 >= 4*1024*1024 {
			sum.violate(c, "streamed message at or above the transport limit", in, fmt.Sprint(sz))
		}
	}
	if total != int64(len(want)) {
		sum.violate(c, "counts of the streamed read do not add up to the pairs returned", in, fmt.Sprintf("%d vs %d", total, len(want)))
	}
	if !req.CountOnly {
		if len(got) != len(want) {
			sum.violate(c, "streamed read loses or repeats pairs", in, fmt.Sprintf("%d vs %d", len(got), len(want)))
		} else {
			for i := range got {
				if !bytes.Equal(got[i][0], want[i][0]) || (!req.KeysOnly && !bytes.Equal(got[i][1], want[i][1])) || (req.KeysOnly && len(got[i][1]) != 0) {
					sum.violate(c, "streamed read returns a wrong pair or wrong order", in, fmt.Sprint(i))
					break
				}
			}
		}
	} else if len(got) != 0 {
		sum.violate(c, "count-only read returns pairs", in, nil)
	}
	// unary read is the first message
	if len(stream) > 0 && unary != nil {
		ub, _ := unary.MarshalVT()
		sb, _ := stream[0].MarshalVT()
		if !bytes.Equal(ub, sb) {
			sum.violate(c, "unary read differs from the first message of the streamed read", in, nil)
		}
	}
}

func specIn(lo, hi, k []byte) bool {
	if bytes.Compare(lo, k) > 0 {
		return false
	}
	if bytes.Equal(hi, []byte{0}) {
		return true
	}
	return bytes.Compare(k, hi) < 0
}

func runC09(args []string) error {
	rf, err := parseFlags("c09", args, nil)
	if err != nil {
		return err
	}
	r := rf.rng()
	sum := &Summary{Engine: "c09", Seed: rf.Seed,
		Rule: "(a) exhaustive grid on the real fsm.FSM: tables with n=0..7 pairs (keys that are prefixes of each other, 0x00/0xFF tails), every limit 0..n+1, full/keys-only/count-only, explicit, wildcard and inverted bounds, unary and streamed reads; (b) size cuts: tables with 1-2 MiB values arranged so that the 4MiB-1KiB cut falls before, on and after the last pair and coincides with the limit, compared with the chunking model on lengths; distinct = distinct (table, request) combinations; non-trivial = range holds >= 2 pairs"}
	cf := &CasesFile{Requires: []string{"Model.Bytes", "Model.Obs", "Model.Cmd", "Model.Fsm", "Run.FsmRun"}, CaseType: "fcase",
		Check: "fsm_check", Show: "fsm_model", Spec: "fsm_spec_check", SpecShow: "fsm_spec"}
	hg := sum.hist("grid")
	// in ascending byte order (the oracle compares with this order)
	allKeys := [][]byte{[]byte("a"), {'a', 0}, []byte("ab"), {'a', 0xff}, []byte("b"), {0xff}, {0xff, 0xff}}
	maxN := 7
	if rf.Tier != "thorough" {
		maxN = 6
	}
	c := 0
	for n := 0; n <= maxN; n++ {
		keys := allKeys[:n]
		var kvs [][2][]byte
		for i, k := range keys {
			kvs = append(kvs, [2][]byte{k, []byte(fmt.Sprintf("v%d", i))})
		}
		apply := gStep{Kind: 0, Entries: []gEntry{{Idx: 1, Cmd: gCmd{Kind: regattapb.Command_PUT_BATCH, KVs: kvs}}}}
		bounds := [][2][]byte{{{0}, {0}}, {[]byte("a"), {0}}, {[]byte("a"), []byte("b")}, {{'a', 0}, {0xff}}, {[]byte("b"), []byte("a")}, {[]byte("a"), []byte("a")}, {{0}, {0xff, 0xff}}}
		for _, b := range bounds {
			var inRange [][2][]byte
			for _, kv := range kvs {
				if specIn(b[0], b[1], kv[0]) {
					inRange = append(inRange, kv)
				}
			}
			var steps []gStep
			steps = append(steps, apply)
			var reqs []gRange
			for limit := 0; limit <= len(inRange)+1; limit++ {
				for mode := 0; mode < 3; mode++ {
					q := gRange{Key: b[0], End: b[1], Limit: int64(limit), KeysOnly: mode == 1, CountOnly: mode == 2}
					reqs = append(reqs, q)
					steps = append(steps, gStep{Kind: 1, R: q}, gStep{Kind: 2, R: q})
				}
			}
			normalizeSteps(steps)
			// run on the real FSM, keeping the typed answers for the oracle
			f, _, err := newRealFSM(vfs.NewMem(), fsm.RecoveryTypeSnapshot)
			if err != nil {
				return err
			}
			var obs []string
			for si, s := range steps {
				o, _, err := runStep(f, s)
				if err != nil {
					return err
				}
				obs = append(obs, o)
				if s.Kind == 2 {
					un, err := f.read(s.R)
					if err != nil {
						return err
					}
					st, err := f.iterate(s.R)
					if err != nil {
						return err
					}
					in := map[string]any{"table": fmt.Sprint(kvs), "request": s.R.String()}
					rangeOracle(sum, c+si, in, s.R, inRange, un, st)
				}
			}
			f.close()
			d := stepsDescr(steps)
			cf.Add(fmt.Sprintf("{| f_steps := %s; f_impl := %s |}", stepsCoq(steps), oLs(obs)), d)
			sum.Evaluations += len(reqs) * 2
			if len(inRange) >= 2 {
				sum.DistinctNontrivial += len(reqs) * 2
			}
			hg.Inc(fmt.Sprintf("n=%d", n))
			hg.Inc(fmt.Sprintf("matches=%d", len(inRange)))
			if len(sum.Samples) < 2 && n == 3 && len(inRange) == 3 {
				sum.Samples = append(sum.Samples, map[string]any{"table": fmt.Sprint(kvs), "bounds": fmt.Sprint(b), "requests": len(reqs)})
			}
			c++
		}
	}
	names, err := cf.Write(rf.Out, "c09_cases", 10)
	if err != nil {
		return err
	}

	// ---- (b) size cuts on lengths ----
	zf := &CasesFile{Requires: []string{"Model.Bytes", "Model.Obs", "Model.Cmd", "Model.Fsm", "Run.FsmRun"}, CaseType: "szcase", Check: "sz_check", Show: "sz_model"}
	hz := sum.hist("sizecut")
	const MiB = 1024 * 1024
	thr := int(fsm.VerifMaxRangeSize)
	layouts := [][]int{
		{MiB, MiB, MiB, MiB, MiB, MiB},                  // cut inside
		{2 * MiB, 2 * MiB, 2 * MiB},                     // cut after every pair but the first
		{2 * MiB, 2*MiB - 1100},                         // just below the threshold: no cut
		{2 * MiB, 2*MiB - 1040},                         // around the threshold
		{2 * MiB, 2*MiB - 1030},                         //
		{2 * MiB, 2*MiB - 1024},                         //
		{2 * MiB, 2*MiB - 1000},                         // just above: cut before the last pair
		{MiB, MiB, MiB, thr - 3*MiB - 40, 10},           // cut exactly on the last pair
		{MiB, MiB, MiB, MiB - 1100, 5, 5, 5},            // small pairs after a nearly full message
		{100, 2 * MiB, 100, 2 * MiB, 100, 2 * MiB, 100}, // alternating
	}
	// many small pairs: the per-pair framing overhead of the wire format adds up (a size estimate that counts key and
	// value bytes only would overshoot the transport limit here)
	many := make([]int, 4400)
	for i := range many {
		many[i] = 1000
	}
	layouts = append(layouts, many)
	nz := len(layouts)
	if rf.Tier == "thorough" {
		for i := 0; i < 30*rf.Scale; i++ {
			var l []int
			for j := 0; j < 2+r.Intn(6); j++ {
				switch r.Intn(4) {
				case 0:
					l = append(l, r.Intn(2000))
				case 1:
					l = append(l, MiB+r.Intn(2048)-1024)
				default:
					l = append(l, r.Intn(2*MiB))
				}
			}
			layouts = append(layouts, l)
		}
	}
	for li, lay := range layouts {
		f, _, err := newRealFSM(vfs.NewMem(), fsm.RecoveryTypeSnapshot)
		if err != nil {
			return err
		}
		var es []gEntry
		var pairs [][2][]byte
		for i, vl := range lay {
			k := []byte(fmt.Sprintf("k%02d", i))
			if len(lay) > 100 {
				k = []byte(fmt.Sprintf("k%05d", i))
			}
			v := bytes.Repeat([]byte{byte('a' + i)}, vl)
			pairs = append(pairs, [2][]byte{k, v})
			es = append(es, gEntry{Idx: uint64(i + 1), Cmd: gCmd{Kind: regattapb.Command_PUT, K: k, V: v}})
		}
		if _, _, err := f.apply(es); err != nil {
			return err
		}
		limits := []int64{0, int64(len(lay)), int64(len(lay)) - 1, 1}
		if li >= nz {
			limits = []int64{0, int64(1 + r.Intn(len(lay)))}
		}
		for _, limit := range limits {
			if limit < 0 {
				continue
			}
			for mode := 0; mode < 3; mode++ {
				q := gRange{Key: []byte("k"), End: []byte("l"), Limit: limit, KeysOnly: mode == 1, CountOnly: mode == 2}
				st, err := f.iterate(q)
				if err != nil {
					return err
				}
				un, err := f.read(q)
				if err != nil {
					return err
				}
				in := map[string]any{"value_lengths": fmt.Sprint(lay), "request": q.String()}
				if len(lay) > 100 {
					in["value_lengths"] = fmt.Sprintf("%d values of %d bytes", len(lay), lay[0])
				}
				rangeOracle(sum, 100000+li, in, q, pairs, un, st)
				var parts, ps []string
				for _, m := range st {
					parts = append(parts, oL(oN(int64(len(m.Kvs))), oN(m.Count), oBool(m.More)))
				}
				for i, vl := range lay {
					_ = i
					if len(lay) > 100 {
						ps = append(ps, fmt.Sprintf("(6, %d)", vl))
					} else {
						ps = append(ps, fmt.Sprintf("(3, %d)", vl))
					}
				}
				modeS := []string{"MFull", "MKeys", "MCount"}[mode]
				if len(lay) > 100 && (rf.Tier != "thorough" || limit != 0) {
					// the model evaluates this layout in minutes (quadratic size computation in N arithmetic): the quick tier
					// keeps the real run and the oracle, the thorough tier also evaluates the model on the unlimited requests
					sum.Evaluations++
					continue
				}
				zf.Add(fmt.Sprintf("{| z_pairs := %s; z_mode := %s; z_limit := %s; z_impl := %s |}", cList(ps), modeS, cZ(limit), oLs(parts)),
					fmt.Sprintf("values %.80v limit %d mode %s", fmt.Sprint(lay), limit, modeS))
				sum.Evaluations++
				sum.DistinctNontrivial++
				hz.Inc(fmt.Sprintf("messages=%d", len(st)))
			}
		}
		f.close()
	}
	sum.Samples = append(sum.Samples, zf.Descr[0], zf.Descr[len(zf.Descr)-1])
	znames, err := zf.Write(rf.Out, "c09_size", 60)
	if err != nil {
		return err
	}
	sum.CasesFiles = append(names, znames...)
	if err := runC09Layers(sum); err != nil {
		return err
	}
	if err := runC09Lazy(sum); err != nil {
		return err
	}
	return sum.write(rf.Out, "c09")
}

// runC09Lazy: range reads are lazy sequences consumed by the server while the table keeps changing. (a) a streamed
// read of several messages with a write (touching the first and the last key of the range) applied between two
// messages must still be ONE point-in-time view; (b) a sequence obtained, then other commands applied (they reuse the
// pooled key buffers), then consumed, must still respect its bounds.
func runC09Lazy(sum *Summary) error {
	join := joinChunks
	// (a)
	if err := lazyStreamOneState(sum, join); err != nil {
		return err
	}
	// (b)
	{
		f, _, err := newRealFSM(vfs.NewMem(), fsm.RecoveryTypeSnapshot)
		if err != nil {
			return err
		}
		var es []gEntry
		for i := 0; i < 30; i++ {
			es = append(es, gEntry{Idx: uint64(i + 1), Cmd: gCmd{Kind: regattapb.Command_PUT, K: []byte(fmt.Sprintf("key/%02d", i)), V: []byte("v")}})
		}
		if _, _, err := f.apply(es); err != nil {
			return err
		}
		for n, q := range []gRange{{Key: []byte("key/10"), End: []byte("key/20")}, {Key: []byte("key/05"), End: []byte{0}}, {Key: []byte("key/10"), End: []byte("key/20"), KeysOnly: true, Limit: 4}} {
			want, err := f.iterate(q)
			if err != nil {
				return err
			}
			v, err := f.f.Lookup(fsm.IteratorRequest{RangeOp: q.pb()})
			if err != nil {
				return err
			}
			// other traffic between obtaining and consuming the sequence: single puts and a lookup, outside the range
			if _, _, err := f.apply([]gEntry{{Idx: uint64(100 + 2*n), Cmd: gCmd{Kind: regattapb.Command_PUT, K: []byte("aaa"), V: []byte("x")}},
				{Idx: uint64(101 + 2*n), Cmd: gCmd{Kind: regattapb.Command_PUT, K: []byte("key/03"), V: []byte("v")}}}); err != nil {
				return err
			}
			_, _ = f.read(gRange{Key: []byte("key/01")})
			got := iter.Collect(v.(iter.Seq[*regattapb.ResponseOp_Range]))
			sum.Evaluations++
			sum.hist("lazy").Inc("commands applied between obtaining and consuming a sequence")
			if q.End[0] == 0 { // the open-ended range sees the new key or not: compare from the lower bound on
				want, _ = f.iterate(q)
			}
			if join(got) != join(want) {
				sum.violate(200010+n, "a range read consumed after other commands were applied does not respect its bounds", map[string]any{"request": q.String()},
					fmt.Sprintf("got %s want %s", join(got), join(want)))
			}
		}
		f.close()
	}
	return nil
}

// lazyStreamOneState: a streamed range read of several messages with a transaction applied between two messages is
// the table before or after the transaction, never a mix (used by C09 and C10).
func lazyStreamOneState(sum *Summary, join func([]*regattapb.ResponseOp_Range) string) error {
	f, _, err := newRealFSM(vfs.NewMem(), fsm.RecoveryTypeSnapshot)
	if err != nil {
		return err
	}
	var es []gEntry
	for i := 0; i < 7; i++ {
		es = append(es, gEntry{Idx: uint64(i + 1), Cmd: gCmd{Kind: regattapb.Command_PUT, K: []byte(fmt.Sprintf("big/%02d", i)), V: bytes.Repeat([]byte{'o'}, 1300*1024)}})
	}
	if _, _, err := f.apply(es); err != nil {
		return err
	}
	q := gRange{Key: []byte("big/"), End: []byte("big0")}
	oldC, err := f.iterate(q)
	if err != nil {
		return err
	}
	v, err := f.f.Lookup(fsm.IteratorRequest{RangeOp: q.pb()})
	if err != nil {
		return err
	}
	pull, stop := iter.Pull(v.(iter.Seq[*regattapb.ResponseOp_Range]))
	var got []*regattapb.ResponseOp_Range
	first, ok := pull()
	if ok {
		got = append(got, first)
	}
	if _, _, err := f.apply([]gEntry{{Idx: 8, Cmd: gCmd{Kind: regattapb.Command_TXN, Succ: []gOp{
		{Kind: 1, K: []byte("big/00"), V: bytes.Repeat([]byte{'n'}, 1300*1024)}, {Kind: 1, K: []byte("big/06"), V: bytes.Repeat([]byte{'n'}, 1300*1024)}}}}}); err != nil {
		return err
	}
	for ok {
		var ch *regattapb.ResponseOp_Range
		ch, ok = pull()
		if ok {
			got = append(got, ch)
		}
	}
	stop()
	newC, err := f.iterate(q)
	if err != nil {
		return err
	}
	sum.Evaluations++
	sum.hist("lazy").Inc("write between two messages of a stream")
	if g := join(got); g != join(oldC) && g != join(newC) {
		sum.violate(200001, "a streamed range read mixes two states of the table", map[string]any{"scenario": "7 pairs of 1.3 MiB; first message consumed; one transaction overwrites the first and the last key; rest consumed", "messages": len(got)},
			fmt.Sprintf("stream %s; before the write %s; after it %s", g, join(oldC), join(newC)))
	}
	f.close()
	return nil
}

func joinChunks(chunks []*regattapb.ResponseOp_Range) string {
	var sb strings.Builder
	for _, ch := range chunks {
		for _, kv := range ch.Kvs {
			c := byte('-')
			if len(kv.Value) > 0 {
				c = kv.Value[0]
			}
			fmt.Fprintf(&sb, "%s=%c%d;", kv.Key, c, len(kv.Value))
		}
	}
	return sb.String()
}
