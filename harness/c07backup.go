package main

import (
	"context"
	"fmt"
	"net"
	"os"
	"path/filepath"
	"time"

	"github.com/jamf/regatta/regattapb"
	"github.com/jamf/regatta/regattaserver"
	"github.com/jamf/regatta/replication/backup"
	"go.uber.org/zap"
	"google.golang.org/grpc"
	"google.golang.org/grpc/credentials/insecure"
)

// runC07Backup: the operator path - a real storage.Engine behind the real Maintenance (BackupServer) and Cluster gRPC
// services, driven by the real backup client (replication/backup): back up tables of 0, 5 and 3 large pairs, change
// every table, restore, compare; then tamper with the backup directory (a file swapped for another table's valid
// backup, a file cut to zero length - both still decode as streams, neither matches the manifest) and require that the
// restore is refused AND that no table changed.
func runC07Backup(sum *Summary, bg *CasesFile) error {
	node, err := newC05Node("c07backup", 0, 0, 0, nil)
	if err != nil {
		return err
	}
	defer func() {
		done := make(chan struct{})
		go func() { _ = node.e.Close(); close(done) }()
		select {
		case <-done:
		case <-time.After(20 * time.Second):
		}
	}()
	l, err := net.Listen("tcp", "127.0.0.1:0")
	if err != nil {
		return err
	}
	srv := regattaserver.NewServer(l, zap.NewNop().Sugar())
	regattapb.RegisterClusterServer(srv, &regattaserver.ClusterServer{Cluster: node.e})
	regattapb.RegisterMaintenanceServer(srv, &regattaserver.BackupServer{Tables: node.e, AuthFunc: func(ctx context.Context) (context.Context, error) { return ctx, nil }})
	go func() { _ = srv.Serve() }()
	defer srv.Shutdown()
	conn, err := grpc.NewClient(l.Addr().String(), grpc.WithTransportCredentials(insecure.NewCredentials()))
	if err != nil {
		return err
	}
	defer conn.Close()

	names := []string{"alpha", "big", "empty"}
	for _, n := range names {
		if _, err := node.e.CreateTable(n); err != nil {
			return err
		}
	}
	put := func(tab, k string, v []byte) error {
		t, err := node.waitTable(tab)
		if err != nil {
			return err
		}
		ctx, cancel := context.WithTimeout(context.Background(), 10*time.Second)
		defer cancel()
		_, err = t.Put(ctx, &regattapb.PutRequest{Table: []byte(tab), Key: []byte(k), Value: v})
		return err
	}
	del := func(tab, k string, end []byte) error {
		t, err := node.waitTable(tab)
		if err != nil {
			return err
		}
		ctx, cancel := context.WithTimeout(context.Background(), 10*time.Second)
		defer cancel()
		_, err = t.Delete(ctx, &regattapb.DeleteRangeRequest{Table: []byte(tab), Key: []byte(k), RangeEnd: end})
		return err
	}
	for i := 0; i < 5; i++ {
		if err := put("alpha", fmt.Sprintf("a%d", i), []byte(fmt.Sprintf("v%d", i))); err != nil {
			return err
		}
	}
	for i := 0; i < 3; i++ {
		if err := put("big", fmt.Sprintf("b%d", i), make([]byte, 300*1024+i)); err != nil {
			return err
		}
	}
	if _, err := node.waitTable("empty"); err != nil {
		return err
	}
	contents := func() (map[string]string, error) {
		out := map[string]string{}
		for _, n := range names {
			if _, err := node.waitTable(n); err != nil {
				return nil, err
			}
			c, err := node.content(n, true)
			if err != nil {
				return nil, err
			}
			out[n] = c
		}
		return out, nil
	}
	digest := func(m map[string]string) string {
		s := ""
		for _, n := range names {
			s += fmt.Sprintf("%s:%d bytes/%08x ", n, len(m[n]), fnv32(m[n]))
		}
		return s
	}
	captured, err := contents()
	if err != nil {
		return err
	}
	dir, err := os.MkdirTemp("", "verif-c07-backup-")
	if err != nil {
		return err
	}
	defer os.RemoveAll(dir)
	b := &backup.Backup{Conn: conn, Dir: dir, Timeout: 60 * time.Second}
	if _, err := b.Backup(); err != nil {
		return fmt.Errorf("backup: %w", err)
	}
	change := func(round int) error {
		if err := del("alpha", "a1", nil); err != nil {
			return err
		}
		if err := put("alpha", fmt.Sprintf("later-%d", round), []byte("x")); err != nil {
			return err
		}
		if err := put("alpha", "a2", []byte(fmt.Sprintf("changed-%d", round))); err != nil {
			return err
		}
		if err := del("big", "b", []byte("c")); err != nil {
			return err
		}
		if err := put("big", fmt.Sprintf("small-%d", round), []byte("s")); err != nil {
			return err
		}
		return put("empty", fmt.Sprintf("not-empty-%d", round), []byte("y"))
	}
	hb := sum.hist("backup_restore")
	// ---- (1) restore of the untouched backup ----
	if err := change(1); err != nil {
		return err
	}
	if err := b.Restore(); err != nil {
		return fmt.Errorf("restore: %w", err)
	}
	after, err := contents()
	if err != nil {
		return err
	}
	sum.Evaluations++
	sum.DistinctNontrivial++
	hb.Inc("backup, change every table, restore")
	bg.Add(fmt.Sprintf("{| bg_matches := [true; true; true]; bg_impl := %s |}", oL(oBool(true), oL(oBool(true), oBool(true), oBool(true)))), "untouched backup directory")
	for _, n := range names {
		if after[n] != captured[n] {
			sum.violate(900001, "a table restored from a backup differs from the content captured by the backup", map[string]any{"scenario": "backup of tables alpha (5 pairs), big (3 pairs of 300 KiB), empty (0 pairs); every table changed; restore", "table": n},
				fmt.Sprintf("captured %s; after the restore %s", digest(captured), digest(after)))
		}
	}
	// ---- (2) tampered backup directories: refused, and nothing changed ----
	orig := map[string][]byte{}
	for _, n := range names {
		if orig[n], err = os.ReadFile(filepath.Join(dir, n+".bak")); err != nil {
			return err
		}
	}
	for ti, tamper := range []struct {
		descr string
		apply func() error
	}{
		{"alpha.bak replaced by the (valid) backup file of table big", func() error { return os.WriteFile(filepath.Join(dir, "alpha.bak"), orig["big"], 0o644) }},
		{"alpha.bak cut to zero length", func() error { return os.WriteFile(filepath.Join(dir, "alpha.bak"), nil, 0o644) }},
		{"big.bak replaced by the (valid) backup file of table alpha", func() error { return os.WriteFile(filepath.Join(dir, "big.bak"), orig["alpha"], 0o644) }},
	} {
		for _, n := range names {
			if err := os.WriteFile(filepath.Join(dir, n+".bak"), orig[n], 0o644); err != nil {
				return err
			}
		}
		if err := change(2 + ti); err != nil {
			return err
		}
		before, err := contents()
		if err != nil {
			return err
		}
		if err := tamper.apply(); err != nil {
			return err
		}
		rerr := b.Restore()
		after, err := contents()
		if err != nil {
			return err
		}
		sum.Evaluations++
		sum.DistinctNontrivial++
		hb.Inc("tampered: " + tamper.descr)
		in := map[string]any{"scenario": "backup; tables changed; " + tamper.descr + "; restore"}
		{
			var ms, fl []string
			for _, n := range names {
				ms = append(ms, cBool(!((ti < 2 && n == "alpha") || (ti == 2 && n == "big"))))
				fl = append(fl, oBool(after[n] != before[n]))
			}
			bg.Add(fmt.Sprintf("{| bg_matches := %s; bg_impl := %s |}", cList(ms), oL(oBool(rerr == nil), oLs(fl))), tamper.descr)
		}
		if rerr == nil {
			sum.violate(900002+ti, "a backup file whose checksum does not match its manifest was not refused", in, nil)
		}
		// the tables listed before the tampered one are legitimately restored (the client works table by table); the
		// tampered table and everything after it must be untouched
		tampered := "alpha"
		if ti == 2 {
			tampered = "big"
		}
		reached := false
		for _, n := range names {
			if n == tampered {
				reached = true
			}
			if reached && after[n] != before[n] {
				sum.violate(900002+ti, "a refused backup file (checksum mismatch) changed a table", in, fmt.Sprintf("table %s: before %s; after %s (restore error: %v)", n, digest(before), digest(after), rerr))
			}
		}
	}
	return nil
}

func fnv32(s string) uint32 {
	h := uint32(2166136261)
	for i := 0; i < len(s); i++ {
		h = (h ^ uint32(s[i])) * 16777619
	}
	return h
}
