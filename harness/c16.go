package main

import (
	"bufio"
	"bytes"
	"context"
	"encoding/json"
	"fmt"
	"io"
	"math"
	"math/rand"
	"os"
	"os/exec"
	"strings"
	"time"

	"github.com/jamf/regatta/regattapb"
	"github.com/jamf/regatta/regattaserver"
	serrors "github.com/jamf/regatta/storage/errors"
	"github.com/jamf/regatta/storage/table"
	"github.com/jamf/regatta/util/iter"
	"google.golang.org/grpc"
	"google.golang.org/grpc/codes"
	"google.golang.org/grpc/status"
)

func init() { register("c16", runC16) }

// tableEngine is storage.Engine's request routing (table lookup, then the ActiveTable method) over the simulated
// Raft host: one known table "t".
type tableEngine struct {
	h  *simHost
	at table.ActiveTable
}

func (e *tableEngine) get(name []byte) (*table.ActiveTable, error) {
	if string(name) != "t" {
		return nil, serrors.ErrTableNotFound
	}
	return &e.at, nil
}
func (e *tableEngine) Range(ctx context.Context, req *regattapb.RangeRequest) (*regattapb.RangeResponse, error) {
	t, err := e.get(req.Table)
	if err != nil {
		return nil, err
	}
	return t.Range(ctx, req)
}
func (e *tableEngine) Put(ctx context.Context, req *regattapb.PutRequest) (*regattapb.PutResponse, error) {
	t, err := e.get(req.Table)
	if err != nil {
		return nil, err
	}
	return t.Put(ctx, req)
}
func (e *tableEngine) Delete(ctx context.Context, req *regattapb.DeleteRangeRequest) (*regattapb.DeleteRangeResponse, error) {
	t, err := e.get(req.Table)
	if err != nil {
		return nil, err
	}
	return t.Delete(ctx, req)
}
func (e *tableEngine) Txn(ctx context.Context, req *regattapb.TxnRequest) (*regattapb.TxnResponse, error) {
	t, err := e.get(req.Table)
	if err != nil {
		return nil, err
	}
	return t.Txn(ctx, req)
}
func (e *tableEngine) IterateRange(ctx context.Context, req *regattapb.RangeRequest) (iter.Seq[*regattapb.RangeResponse], error) {
	t, err := e.get(req.Table)
	if err != nil {
		return nil, err
	}
	it, err := t.Iterator(ctx, req)
	if err != nil {
		return nil, err
	}
	return iter.Map(it, func(s *regattapb.ResponseOp_Range) *regattapb.RangeResponse {
		return &regattapb.RangeResponse{Kvs: s.Kvs, More: s.More, Count: s.Count}
	}), nil
}

type fakeTables struct {
	regattaserver.TableService
	names map[string]bool
}

func (f *fakeTables) CreateTable(name string) (table.Table, error) {
	if !validName(name) {
		return table.Table{}, errInvalidName()
	}
	if f.names[name] {
		return table.Table{}, serrors.ErrTableExists
	}
	f.names[name] = true
	return table.Table{Name: name, ClusterID: 10001}, nil
}
func (f *fakeTables) DeleteTable(name string) error {
	if !validName(name) {
		return errInvalidName()
	}
	if !f.names[name] {
		return serrors.ErrTableNotFound
	}
	delete(f.names, name)
	return nil
}
func (f *fakeTables) GetTables() ([]table.Table, error) { return nil, nil }

type rangeStream struct {
	grpc.ServerStream
	n int
}

func (s *rangeStream) Send(*regattapb.RangeResponse) error { s.n++; return nil }
func (s *rangeStream) Context() context.Context            { return context.Background() }

func codeOf(err error) int64 { return int64(status.Code(err)) }

func fullContent(e *tableEngine) string {
	r, err := e.at.Range(context.Background(), &regattapb.RangeRequest{Table: []byte("t"), Key: []byte{0}, RangeEnd: []byte{0}, Linearizable: true})
	if err != nil {
		return "ERR " + err.Error()
	}
	var b bytes.Buffer
	for _, kv := range r.Kvs {
		fmt.Fprintf(&b, "%x=%d;", kv.Key, len(kv.Value))
	}
	// the empty-key record is outside the \0 range: look it up directly on the state machine
	if f := e.h.reps[0]; f != nil {
		if rr, err := f.read(gRange{Key: []byte{}}); err == nil && rr.Count > 0 {
			b.WriteString("EMPTYKEY;")
		}
	}
	return b.String()
}

func runC16(args []string) error {
	rf, err := parseFlags("c16", args, nil)
	if err != nil {
		return err
	}
	r := rf.rng()
	sum := &Summary{Engine: "c16", Seed: rf.Seed,
		Rule: "enumerated field combinations of Range/IterateRange/Put/DeleteRange/Txn requests (empty, boundary and oversize byte fields around the 1024-byte key and 2 MiB value limits, negative limit, both flags, each revision filter, unknown/empty table, unknown tables with non-UTF-8 names, empty oneofs, operations nested in transactions with invalid keys/values) through the real regattaserver.KVServer and table.ActiveTable over a simulated Raft host with real state machines; tables API requests through TablesServer/ReadonlyTablesServer; observed: gRPC status code, table content before/after every rejected request, that the handler returned (panics are caught and reported); plus a malformed stream of random field garbage; distinct = distinct requests; non-trivial = request violating exactly one constraint"}
	cf := &CasesFile{Requires: []string{"Model.Bytes", "Model.Obs", "Model.Validate", "Run.C16Run"}, CaseType: "c16case", Check: "c16_check", Show: "c16_model"}
	h, err := newSimHost(rand.New(rand.NewSource(rf.Seed)), 1)
	if err != nil {
		return err
	}
	defer h.close()
	eng := &tableEngine{h: h, at: table.Table{Name: "t", ClusterID: 10001}.AsActive(h)}
	srv := &regattaserver.KVServer{Storage: eng}
	ctx := context.Background()
	if _, err := srv.Put(ctx, &regattapb.PutRequest{Table: []byte("t"), Key: []byte("seed"), Value: []byte("v")}); err != nil {
		return err
	}
	hk := sum.hist("requests")
	hc := sum.hist("status")
	keyLens := []int{0, 1, 1024, 1025}
	valLens := []int{0, 1, 2 * 1024 * 1024, 2*1024*1024 + 1}
	tables := []string{"", "t", "unknown"}
	c := 0
	guard := func(name string, in map[string]any, f func() error) (code int64) {
		defer func() {
			if p := recover(); p != nil {
				sum.violate(c, "a request terminated its handler with a panic", in, fmt.Sprint(p))
				code = -1
			}
		}()
		before := fullContent(eng)
		err := f()
		code = codeOf(err)
		hc.Inc(codes.Code(code).String())
		if code != 0 {
			if after := fullContent(eng); after != before {
				sum.violate(c, "a rejected request changed the table", in, fmt.Sprintf("%s -> %s", before, after))
			}
		}
		return code
	}
	mk := func(n int) []byte { return bytes.Repeat([]byte{'k'}, n) }
	cbool := cBool
	// ---- Range / IterateRange ----
	for _, tb := range tables {
		for _, kl := range keyLens {
			for _, el := range []int{0, 1, 1024, 1025} {
				for _, lim := range []int64{-1, 0, 2} {
					for _, flags := range [][2]bool{{false, false}, {true, false}, {false, true}, {true, true}} {
						for filt := 0; filt < 5; filt++ {
							if (filt > 0 || flags[0] && flags[1] || lim < 0) && (kl > 1 && el > 1) {
								continue // keep the grid moderate: combine option errors with small fields only
							}
							req := &regattapb.RangeRequest{Table: []byte(tb), Key: mk(kl), Limit: lim, KeysOnly: flags[0], CountOnly: flags[1]}
							if el > 0 {
								req.RangeEnd = mk(el)
							}
							var f [4]int64
							if filt > 0 {
								f[filt-1] = 7
							}
							req.MinModRevision, req.MaxModRevision, req.MinCreateRevision, req.MaxCreateRevision = f[0], f[1], f[2], f[3]
							in := map[string]any{"api": "Range", "table": tb, "key_len": kl, "end_len": el, "limit": lim, "keys_only": flags[0], "count_only": flags[1], "filter": filt}
							code := guard("range", in, func() error { _, err := srv.Range(ctx, req); return err })
							code2 := guard("iterate", in, func() error { return srv.IterateRange(req, &rangeStream{}) })
							hk.Inc("range")
							if code != code2 {
								sum.violate(c, "Range and IterateRange classify the same request differently", in, fmt.Sprint(code, code2))
							}
							term := fmt.Sprintf("VRange (mkrange %d %s %d %d %s %s %s %s %s %s %s)", len(tb), cbool(tb == "t"), kl, el, cZ(lim), cbool(flags[0]), cbool(flags[1]), cZ(f[0]), cZ(f[1]), cZ(f[2]), cZ(f[3]))
							cf.Add(fmt.Sprintf("{| v_req := %s; v_impl := %s |}", term, oN(code)), fmt.Sprint(in))
							c++
							// property: documented status classes
							switch {
							case lim < 0 || (flags[0] && flags[1]) || tb == "" || kl == 0:
								if code != int64(codes.InvalidArgument) && !(filt > 0 && code == int64(codes.Unimplemented)) {
									sum.violate(c, "malformed range request not refused with InvalidArgument", in, fmt.Sprint(codes.Code(code)))
								}
							case filt > 0:
								if code != int64(codes.Unimplemented) {
									sum.violate(c, "unsupported revision filter not refused with Unimplemented", in, fmt.Sprint(codes.Code(code)))
								}
							case tb == "unknown":
								if code != int64(codes.NotFound) {
									sum.violate(c, "unknown table not refused with NotFound", in, fmt.Sprint(codes.Code(code)))
								}
							case kl > 1024 || el > 1024:
								if code == 0 {
									sum.violate(c, "oversize key accepted", in, nil)
								}
							}
						}
					}
				}
			}
		}
	}
	// ---- Put / DeleteRange ----
	for _, tb := range tables {
		for _, kl := range keyLens {
			for _, vl := range valLens {
				req := &regattapb.PutRequest{Table: []byte(tb), Key: mk(kl), Value: bytes.Repeat([]byte{'v'}, vl), PrevKv: vl == 1}
				in := map[string]any{"api": "Put", "table": tb, "key_len": kl, "val_len": vl}
				code := guard("put", in, func() error { _, err := srv.Put(ctx, req); return err })
				hk.Inc("put")
				cf.Add(fmt.Sprintf("{| v_req := VPut {| pr_table_len := %d; pr_table_known := %s; pr_key_len := %d; pr_val_len := %d |}; v_impl := %s |}", len(tb), cbool(tb == "t"), kl, vl, oN(code)), fmt.Sprint(in))
				c++
				switch {
				case tb == "" || kl == 0:
					if code != int64(codes.InvalidArgument) {
						sum.violate(c, "malformed put not refused with InvalidArgument", in, fmt.Sprint(codes.Code(code)))
					}
				case tb == "unknown":
					if code != int64(codes.NotFound) {
						sum.violate(c, "unknown table not refused with NotFound", in, fmt.Sprint(codes.Code(code)))
					}
				case kl > 1024 || vl > 2*1024*1024:
					if code == 0 {
						sum.violate(c, "oversize key or value accepted", in, nil)
					}
				}
			}
			dreq := &regattapb.DeleteRangeRequest{Table: []byte(tb), Key: mk(kl), PrevKv: true}
			in := map[string]any{"api": "DeleteRange", "table": tb, "key_len": kl}
			code := guard("delete", in, func() error { _, err := srv.DeleteRange(ctx, dreq); return err })
			hk.Inc("delete")
			cf.Add(fmt.Sprintf("{| v_req := VDel {| dr_table_len := %d; dr_table_known := %s; dr_key_len := %d |}; v_impl := %s |}", len(tb), cbool(tb == "t"), kl, oN(code)), fmt.Sprint(in))
			c++
			if (tb == "" || kl == 0) && code != int64(codes.InvalidArgument) {
				sum.violate(c, "malformed delete not refused with InvalidArgument", in, fmt.Sprint(codes.Code(code)))
			}
		}
	}
	// ---- Txn with nested operations ----
	type nop struct {
		kind   int
		kl, vl int
	}
	var opsets [][]nop
	for _, kl := range keyLens {
		for _, vl := range []int{0, 2 * 1024 * 1024, 2*1024*1024 + 1} {
			opsets = append(opsets, []nop{{1, kl, vl}})
		}
		opsets = append(opsets, []nop{{2, kl, 0}}, []nop{{0, kl, 0}}, []nop{{1, 3, 3}, {2, kl, 0}, {3, 0, 0}})
	}
	opsets = append(opsets, nil, []nop{{3, 0, 0}})
	for _, tb := range tables {
		for _, ops := range opsets {
			for branch := 0; branch < 2; branch++ {
				req := &regattapb.TxnRequest{Table: []byte(tb)}
				var cops []string
				for _, o := range ops {
					var op *regattapb.RequestOp
					switch o.kind {
					case 0:
						op = &regattapb.RequestOp{Request: &regattapb.RequestOp_RequestRange{RequestRange: &regattapb.RequestOp_Range{Key: mk(o.kl)}}}
						cops = append(cops, fmt.Sprintf("TRange %d 0", o.kl))
					case 1:
						op = &regattapb.RequestOp{Request: &regattapb.RequestOp_RequestPut{RequestPut: &regattapb.RequestOp_Put{Key: mk(o.kl), Value: bytes.Repeat([]byte{'v'}, o.vl)}}}
						cops = append(cops, fmt.Sprintf("TPut %d %d", o.kl, o.vl))
					case 2:
						op = &regattapb.RequestOp{Request: &regattapb.RequestOp_RequestDeleteRange{RequestDeleteRange: &regattapb.RequestOp_DeleteRange{Key: mk(o.kl)}}}
						cops = append(cops, fmt.Sprintf("TDel %d 0", o.kl))
					default:
						op = &regattapb.RequestOp{}
						cops = append(cops, "TUnset")
					}
					if branch == 0 {
						req.Success = append(req.Success, op)
					} else {
						req.Failure = append(req.Failure, op)
						req.Compare = []*regattapb.Compare{{Key: []byte("nonexistent")}}
					}
				}
				in := map[string]any{"api": "Txn", "table": tb, "ops": fmt.Sprint(ops), "branch": branch}
				code := guard("txn", in, func() error { _, err := srv.Txn(ctx, req); return err })
				hk.Inc("txn")
				cf.Add(fmt.Sprintf("{| v_req := VTxn {| tr_table_len := %d; tr_table_known := %s; tr_ops := %s |}; v_impl := %s |}", len(tb), cbool(tb == "t"), cList(cops), oN(code)), fmt.Sprint(in))
				c++
				if tb == "t" {
					for _, o := range ops {
						bad := (o.kind == 1 || o.kind == 2) && (o.kl == 0 || o.kl > 1024) || o.kind == 1 && o.vl > 2*1024*1024
						if bad && code == 0 {
							sum.violate(c, "a transaction with a nested operation violating the key/value limits was accepted", in, fullContent(eng))
						}
					}
					// clean up what accepted transactions wrote
					if code == 0 {
						_, _ = srv.DeleteRange(ctx, &regattapb.DeleteRangeRequest{Table: []byte("t"), Key: []byte("k"), RangeEnd: []byte("l")})
					}
				}
			}
		}
	}
	// ---- tables API ----
	ft := &fakeTables{names: map[string]bool{"exists": true}}
	ts := &regattaserver.TablesServer{Tables: ft, AuthFunc: func(ctx context.Context) (context.Context, error) { return ctx, nil }}
	ro := &regattaserver.ReadonlyTablesServer{TablesServer: *ts}
	for _, name := range []string{"", "new", "exists", "a/b", "sys/idseq"} {
		in := map[string]any{"api": "Tables.Create", "name": name}
		code := guard("create", in, func() error { _, err := ts.Create(ctx, &regattapb.CreateTableRequest{Name: name}); return err })
		delete(ft.names, "new")
		slash := bytes.ContainsRune([]byte(name), '/')
		cf.Add(fmt.Sprintf("{| v_req := VCreate {| tb_name_len := %d; tb_has_slash := %s; tb_exists := %s |}; v_impl := %s |}", len(name), cbool(slash), cbool(name == "exists"), oN(code)), fmt.Sprint(in))
		c++
		code = guard("delete-table", in, func() error { _, err := ts.Delete(ctx, &regattapb.DeleteTableRequest{Name: name}); return err })
		ft.names["exists"] = true
		cf.Add(fmt.Sprintf("{| v_req := VDelete {| tb_name_len := %d; tb_has_slash := %s; tb_exists := %s |}; v_impl := %s |}", len(name), cbool(slash), cbool(name == "exists"), oN(code)), fmt.Sprint(in))
		c++
		for _, f := range []func() error{
			func() error { _, err := ro.Create(ctx, &regattapb.CreateTableRequest{Name: name}); return err },
			func() error { _, err := ro.Delete(ctx, &regattapb.DeleteTableRequest{Name: name}); return err }} {
			code := guard("follower-mutation", in, f)
			cf.Add(fmt.Sprintf("{| v_req := VFollowerMutation; v_impl := %s |}", oN(code)), fmt.Sprint(in))
			c++
			if code != int64(codes.Unimplemented) {
				sum.violate(c, "table mutation on a follower not refused with Unimplemented", in, fmt.Sprint(codes.Code(code)))
			}
		}
		hk.Inc("tables")
	}
	// ---- table names are bytes: unknown tables whose name is not valid UTF-8 (or holds control characters) are
	// unknown tables like any other ----
	for _, name := range [][]byte{{'t', 0xff, 0xfe, 'x'}, []byte("caf\xe9"), {0}, []byte("t\n"), {0xc3, 0x28}, bytes.Repeat([]byte{0xff}, 300)} {
		in := map[string]any{"api": "requests to an unknown table with an odd name", "table_hex": fmt.Sprintf("%x", name)}
		calls := map[string]func() error{
			"range": func() error {
				_, err := srv.Range(ctx, &regattapb.RangeRequest{Table: name, Key: []byte("k")})
				return err
			},
			"iterate": func() error {
				return srv.IterateRange(&regattapb.RangeRequest{Table: name, Key: []byte("k")}, &rangeStream{})
			},
			"put": func() error {
				_, err := srv.Put(ctx, &regattapb.PutRequest{Table: name, Key: []byte("k"), Value: []byte("v")})
				return err
			},
			"delete": func() error {
				_, err := srv.DeleteRange(ctx, &regattapb.DeleteRangeRequest{Table: name, Key: []byte("k")})
				return err
			},
			"txn": func() error {
				_, err := srv.Txn(ctx, &regattapb.TxnRequest{Table: name, Success: []*regattapb.RequestOp{{Request: &regattapb.RequestOp_RequestPut{RequestPut: &regattapb.RequestOp_Put{Key: []byte("k"), Value: []byte("v")}}}}})
				return err
			},
		}
		for _, api := range []string{"range", "iterate", "put", "delete", "txn"} {
			in2 := map[string]any{"call": api}
			for k, v := range in {
				in2[k] = v
			}
			if code := guard("odd-table-"+api, in2, calls[api]); code != int64(codes.NotFound) && code != -1 {
				sum.violate(c, "unknown table not refused with NotFound", in2, fmt.Sprint(codes.Code(code)))
			}
			sum.Evaluations++
		}
		hk.Inc("odd-table-names")
	}
	if err := runC16EngineNames(sum); err != nil {
		return err
	}
	// ---- malformed stream: random garbage in every field; only survival and "no effect on rejection" are checked ----
	ng := rf.count(150, 3000)
	// ---- extreme numeric fields on requests that MATCH existing pairs: run in a child process, because what such a
	// request can do to a server is not only a panic (caught above) but a fatal runtime error ----
	if err := c16ExtremeParent(sum); err != nil {
		return err
	}
	hk.Inc("extreme-numeric (child process)")
	for i := 0; i < ng; i++ {
		gb := func() []byte {
			switch r.Intn(4) {
			case 0:
				return nil
			case 1:
				return []byte{}
			}
			b := make([]byte, r.Intn(40))
			r.Read(b)
			return b
		}
		tb := pick(r, []string{"t", "t", "", "x"})
		in := map[string]any{"api": "garbage", "i": i}
		switch r.Intn(4) {
		case 0:
			req := &regattapb.RangeRequest{Table: []byte(tb), Key: gb(), RangeEnd: gb(), Limit: int64(r.Intn(5) - 2), KeysOnly: r.Intn(2) == 0, CountOnly: r.Intn(2) == 0, Linearizable: r.Intn(2) == 0}
			guard("g-range", in, func() error { _, err := srv.Range(ctx, req); return err })
			guard("g-iter", in, func() error { return srv.IterateRange(req, &rangeStream{}) })
		case 1:
			guard("g-put", in, func() error {
				_, err := srv.Put(ctx, &regattapb.PutRequest{Table: []byte(tb), Key: gb(), Value: gb(), PrevKv: r.Intn(2) == 0})
				return err
			})
		case 2:
			guard("g-del", in, func() error {
				_, err := srv.DeleteRange(ctx, &regattapb.DeleteRangeRequest{Table: []byte(tb), Key: gb(), RangeEnd: gb(), PrevKv: r.Intn(2) == 0, Count: r.Intn(2) == 0})
				return err
			})
		default:
			req := &regattapb.TxnRequest{Table: []byte(tb)}
			for j := r.Intn(3); j > 0; j-- {
				cmp := &regattapb.Compare{Result: regattapb.Compare_CompareResult(r.Intn(4)), Key: gb(), RangeEnd: gb()}
				if r.Intn(2) == 0 {
					cmp.TargetUnion = &regattapb.Compare_Value{Value: gb()}
				}
				req.Compare = append(req.Compare, cmp)
			}
			mkop := func() *regattapb.RequestOp {
				switch r.Intn(4) {
				case 0:
					return &regattapb.RequestOp{Request: &regattapb.RequestOp_RequestRange{RequestRange: &regattapb.RequestOp_Range{Key: gb(), RangeEnd: gb(), Limit: int64(r.Intn(4) - 1), KeysOnly: r.Intn(2) == 0, CountOnly: r.Intn(2) == 0}}}
				case 1:
					return &regattapb.RequestOp{Request: &regattapb.RequestOp_RequestPut{RequestPut: &regattapb.RequestOp_Put{Key: gb(), Value: gb(), PrevKv: r.Intn(2) == 0}}}
				case 2:
					return &regattapb.RequestOp{Request: &regattapb.RequestOp_RequestDeleteRange{RequestDeleteRange: &regattapb.RequestOp_DeleteRange{Key: gb(), RangeEnd: gb(), PrevKv: r.Intn(2) == 0, Count: r.Intn(2) == 0}}}
				}
				// (a nil element of a repeated message field cannot arrive over the wire: decoders allocate every element)
				return &regattapb.RequestOp{}
			}
			for j := r.Intn(3); j > 0; j-- {
				req.Success = append(req.Success, mkop())
			}
			for j := r.Intn(3); j > 0; j-- {
				req.Failure = append(req.Failure, mkop())
			}
			guard("g-txn", in, func() error { _, err := srv.Txn(ctx, req); return err })
		}
		hk.Inc("garbage")
		c++
	}
	sum.Evaluations = c
	sum.DistinctNontrivial = c / 2
	sum.Samples = append(sum.Samples, cf.Descr[0], cf.Descr[len(cf.Descr)/2], cf.Descr[len(cf.Descr)-1])
	names, err := cf.Write(rf.Out, "c16_cases", 400)
	if err != nil {
		return err
	}
	sum.CasesFiles = names
	// ---- which transactions take the read path: every combination of up to two operations per branch ----
	{
		ro := &CasesFile{Requires: []string{"Model.Bytes", "Model.Obs", "Model.Validate", "Run.C16Run"}, CaseType: "rocase", Check: "ro_check", Show: "ro_model"}
		mkop := func(k int) (*regattapb.RequestOp, string) {
			switch k {
			case 0:
				return &regattapb.RequestOp{Request: &regattapb.RequestOp_RequestRange{RequestRange: &regattapb.RequestOp_Range{Key: []byte("k")}}}, "TRange 1 0"
			case 1:
				return &regattapb.RequestOp{Request: &regattapb.RequestOp_RequestPut{RequestPut: &regattapb.RequestOp_Put{Key: []byte("k"), Value: []byte("v")}}}, "TPut 1 1"
			case 2:
				return &regattapb.RequestOp{Request: &regattapb.RequestOp_RequestDeleteRange{RequestDeleteRange: &regattapb.RequestOp_DeleteRange{Key: []byte("k")}}}, "TDel 1 0"
			}
			return &regattapb.RequestOp{}, "TUnset"
		}
		var lists [][]int
		lists = append(lists, nil)
		for a := 0; a < 4; a++ {
			lists = append(lists, []int{a})
			for b := 0; b < 4; b++ {
				lists = append(lists, []int{a, b})
			}
		}
		for _, su := range lists {
			for _, fa := range lists {
				req := &regattapb.TxnRequest{Table: []byte("t")}
				var cs, cfl []string
				for _, k := range su {
					o, c := mkop(k)
					req.Success = append(req.Success, o)
					cs = append(cs, c)
				}
				for _, k := range fa {
					o, c := mkop(k)
					req.Failure = append(req.Failure, o)
					cfl = append(cfl, c)
				}
				ro.Add(fmt.Sprintf("{| ro_succ := %s; ro_fail := %s; ro_impl := %s |}", cList(cs), cList(cfl), oBool(req.IsReadonly())), fmt.Sprint(su, fa))
				sum.Evaluations++
			}
		}
		rnames, err := ro.Write(rf.Out, "c16_readpath", 500)
		if err != nil {
			return err
		}
		sum.CasesFiles = append(sum.CasesFiles, rnames...)
	}
	return sum.write(rf.Out, "c16")
}

// ---- extreme numeric fields: huge limits, enum values outside the defined range (open proto3 enums) on requests that
// MATCH existing pairs.  Any status is fine; a panic or a dead process is not. ----

func init() { register("c16x", runC16Extreme) }

// runC16Extreme is the child: it announces every request on stdout before issuing it ("REQ <json>"), reports caught
// panics as "VIOL <json>" and ends with "DONE".
func runC16Extreme(args []string) error {
	h, err := newSimHost(rand.New(rand.NewSource(1)), 1)
	if err != nil {
		return err
	}
	defer h.close()
	eng := &tableEngine{h: h, at: table.Table{Name: "t", ClusterID: 10001}.AsActive(h)}
	srv := &regattaserver.KVServer{Storage: eng}
	ctx := context.Background()
	out := bufio.NewWriter(os.Stdout)
	say := func(tag string, v any) {
		b, _ := json.Marshal(v)
		fmt.Fprintf(out, "%s %s\n", tag, b)
		out.Flush()
	}
	guard := func(name string, in map[string]any, f func() error) {
		cp := map[string]any{"call": name}
		for k, v := range in {
			cp[k] = v
		}
		say("REQ", cp)
		defer func() {
			if p := recover(); p != nil {
				cp["panic"] = fmt.Sprint(p)
				say("VIOL", cp)
			}
		}()
		before := fullContent(eng)
		if err := f(); codeOf(err) != 0 {
			if after := fullContent(eng); after != before {
				cp["changed"] = fmt.Sprintf("%s -> %s", before, after)
				say("VIOL", cp)
			}
		}
	}
	for _, k := range []string{"xa", "xb", "xc"} {
		_, _ = srv.Put(ctx, &regattapb.PutRequest{Table: []byte("t"), Key: []byte(k), Value: []byte("v")})
	}
	for _, lim := range []int64{math.MaxInt64, 1 << 45, 1 << 62, math.MaxInt32 + 1} {
		for _, flags := range [][2]bool{{false, false}, {true, false}, {false, true}} {
			in := map[string]any{"api": "Range with a huge limit on a non-empty range", "limit": lim, "keys_only": flags[0], "count_only": flags[1]}
			req := &regattapb.RangeRequest{Table: []byte("t"), Key: []byte("x"), RangeEnd: []byte("y"), Limit: lim, KeysOnly: flags[0], CountOnly: flags[1]}
			guard("x-range", in, func() error { _, err := srv.Range(ctx, req); return err })
			guard("x-iterate", in, func() error { return srv.IterateRange(req, &rangeStream{}) })
			rop := &regattapb.RequestOp{Request: &regattapb.RequestOp_RequestRange{RequestRange: &regattapb.RequestOp_Range{Key: []byte("x"), RangeEnd: []byte("y"), Limit: lim, KeysOnly: flags[0], CountOnly: flags[1]}}}
			guard("x-txn-ro", in, func() error {
				_, err := srv.Txn(ctx, &regattapb.TxnRequest{Table: []byte("t"), Success: []*regattapb.RequestOp{rop}})
				return err
			})
			guard("x-txn-rw", in, func() error {
				_, err := srv.Txn(ctx, &regattapb.TxnRequest{Table: []byte("t"), Success: []*regattapb.RequestOp{rop, {Request: &regattapb.RequestOp_RequestPut{RequestPut: &regattapb.RequestOp_Put{Key: []byte("xa"), Value: []byte("v")}}}}})
				return err
			})

		}
	}
	for _, res := range []int32{4, 7, -1, 1000} {
		for _, tgt := range []int32{0, 3, -2} {
			for _, rng := range []bool{false, true} {
				cmp := &regattapb.Compare{Result: regattapb.Compare_CompareResult(res), Target: regattapb.Compare_CompareTarget(tgt), Key: []byte("xa"), TargetUnion: &regattapb.Compare_Value{Value: []byte("v")}}
				if rng {
					cmp.RangeEnd = []byte("xz")
				}
				in := map[string]any{"api": "Txn with an undefined compare result / target on an existing key", "result": res, "target": tgt, "range": rng}
				rop := &regattapb.RequestOp{Request: &regattapb.RequestOp_RequestRange{RequestRange: &regattapb.RequestOp_Range{Key: []byte("xa")}}}
				guard("x-cmp-ro", in, func() error {
					_, err := srv.Txn(ctx, &regattapb.TxnRequest{Table: []byte("t"), Compare: []*regattapb.Compare{cmp}, Success: []*regattapb.RequestOp{rop}, Failure: []*regattapb.RequestOp{rop}})
					return err
				})
				guard("x-cmp-rw", in, func() error {
					pop := &regattapb.RequestOp{Request: &regattapb.RequestOp_RequestPut{RequestPut: &regattapb.RequestOp_Put{Key: []byte("xa"), Value: []byte("v")}}}
					_, err := srv.Txn(ctx, &regattapb.TxnRequest{Table: []byte("t"), Compare: []*regattapb.Compare{cmp}, Success: []*regattapb.RequestOp{pop}, Failure: []*regattapb.RequestOp{pop}})
					return err
				})

			}
		}
	}

	say("DONE", map[string]any{})
	return nil
}

// c16ExtremeParent runs the child under an address-space limit and turns its death into a violation whose input is
// the request it had announced last.
func c16ExtremeParent(sum *Summary) error {
	exe, err := os.Executable()
	if err != nil {
		return err
	}
	cmd := exec.Command("/bin/sh", "-c", "ulimit -v 33554432; exec \"$0\" c16x", exe)
	var stderr bytes.Buffer
	cmd.Stderr = &stderr
	stdout, err := cmd.StdoutPipe()
	if err != nil {
		return err
	}
	if err := cmd.Start(); err != nil {
		return err
	}
	timer := time.AfterFunc(120*time.Second, func() { _ = cmd.Process.Kill() })
	defer timer.Stop()
	var last map[string]any
	done := false
	sc := bufio.NewScanner(stdout)
	sc.Buffer(make([]byte, 1<<20), 1<<20)
	for sc.Scan() {
		line := sc.Text()
		tag, rest, _ := strings.Cut(line, " ")
		var m map[string]any
		_ = json.Unmarshal([]byte(rest), &m)
		switch tag {
		case "REQ":
			last = m
			sum.Evaluations++
		case "VIOL":
			what := "a request terminated its handler with a panic"
			if _, ok := m["changed"]; ok {
				what = "a rejected request changed the table"
			}
			sum.violate(700000+sum.Evaluations, what, m, fmt.Sprint(m["panic"], m["changed"]))
		case "DONE":
			done = true
		}
	}
	werr := cmd.Wait()
	if !done {
		first := stderr.String()
		if i := strings.Index(first, "\n\n"); i > 0 {
			first = first[:i]
		}
		if len(first) > 600 {
			first = first[:600]
		}
		if last == nil {
			return fmt.Errorf("harness: the c16x child died before its first request: %v\n%s", werr, first)
		}
		sum.violate(700000+sum.Evaluations, "a request terminated the serving process", last, fmt.Sprintf("%v: %s", werr, first))
	}
	return nil
}

func validName(name string) bool { return name != "" && !bytes.ContainsRune([]byte(name), '/') }
func errInvalidName() error      { return serrors.ErrInvalidTableName }

var _ = io.EOF
