package main

import (
	"bytes"
	"flag"
	"fmt"
	"math/rand"
	"os"
	"path/filepath"
	"sort"
	"strings"
	"sync"
	"sync/atomic"
	"time"

	"github.com/cockroachdb/pebble/vfs"
	rp "github.com/jamf/regatta/pebble"
	"github.com/jamf/regatta/regattapb"
	"github.com/jamf/regatta/storage/table/fsm"
	sm "github.com/lni/dragonboat/v4/statemachine"
)

func init() { register("c04", runC04) }

// ---- the crash file system ----
//
// crashFS counts the sync operations (file fsync and directory sync) that reach Pebble's strict in-memory file system.
// From the crashAt-th sync on nothing becomes durable any more: after ResetToSyncedState the file system is exactly
// what a machine that crashed just before that sync finds on disk (file data durable up to the file's last sync,
// directory entries up to the directory's last sync). Operations other than syncs do not change what is durable, so
// the sync boundaries are all the distinct crash outcomes.
// It also records the protocol-level events on the table directory (the primitive steps of Model/DirProto.v).
type crashFS struct {
	*vfs.MemFS
	n       atomic.Int64
	crashAt int64
	crashed atomic.Bool
	drv     *c04driver
}

func (c *crashFS) onSync() {
	i := c.n.Add(1)
	if c.crashAt > 0 && i >= c.crashAt && !c.crashed.Swap(true) {
		c.MemFS.SetIgnoreSyncs(true)
	}
}

type crashFile struct {
	vfs.File
	fs     *crashFS
	kind   int // 0 other, 1 the table directory, 2 current.updating
	writes int
	buf    []byte
}

func (f *crashFile) Sync() error {
	f.fs.onSync()
	err := f.File.Sync()
	if err == nil {
		switch f.kind {
		case 1:
			f.fs.drv.emit(2)
		case 2:
			f.fs.drv.emit(5)
		}
	}
	return err
}

func (f *crashFile) Write(p []byte) (int, error) {
	n, err := f.File.Write(p)
	if f.kind == 2 && err == nil {
		f.writes++
		f.buf = append(f.buf, p...)
		if f.writes == 2 { // checksum, then the name
			f.fs.drv.emit(4, f.fs.drv.nameID(string(f.buf[8:])))
		}
	}
	return n, err
}

func (c *crashFS) wrap(name string, f vfs.File, err error) (vfs.File, error) {
	if err != nil {
		return nil, err
	}
	kind := 0
	if c.drv != nil && name != "" && filepath.Clean(name) == c.drv.dir {
		kind = 1
	}
	return &crashFile{File: f, fs: c, kind: kind}, nil
}

func (c *crashFS) Create(name string) (vfs.File, error) {
	f, err := c.MemFS.Create(name)
	if err == nil && c.drv != nil && name == filepath.Join(c.drv.dir, "current.updating") {
		c.drv.onCreateUpd()
		return &crashFile{File: f, fs: c, kind: 2}, nil
	}
	return c.wrap("", f, err)
}
func (c *crashFS) Open(name string, opts ...vfs.OpenOption) (vfs.File, error) {
	f, err := c.MemFS.Open(name, opts...)
	return c.wrap(name, f, err)
}
func (c *crashFS) OpenDir(name string) (vfs.File, error) {
	f, err := c.MemFS.OpenDir(name)
	return c.wrap(name, f, err)
}
func (c *crashFS) ReuseForWrite(oldname, newname string) (vfs.File, error) {
	f, err := c.MemFS.ReuseForWrite(oldname, newname)
	return c.wrap("", f, err)
}
func (c *crashFS) MkdirAll(dir string, perm os.FileMode) error {
	fresh := false
	if c.drv != nil && filepath.Dir(filepath.Clean(dir)) == c.drv.dir {
		if _, err := c.MemFS.Stat(dir); err != nil {
			fresh = true
		}
	}
	err := c.MemFS.MkdirAll(dir, perm)
	if err == nil && fresh {
		c.drv.onMkDb(filepath.Base(filepath.Clean(dir)))
	}
	return err
}
func (c *crashFS) Rename(oldname, newname string) error {
	err := c.MemFS.Rename(oldname, newname)
	if err == nil && c.drv != nil && oldname == filepath.Join(c.drv.dir, "current.updating") && newname == filepath.Join(c.drv.dir, "current") {
		c.drv.emit(6)
	}
	return err
}
func (c *crashFS) RemoveAll(name string) error {
	err := c.MemFS.RemoveAll(name)
	if err == nil && c.drv != nil && filepath.Dir(filepath.Clean(name)) == c.drv.dir {
		base := filepath.Base(name)
		switch {
		case base == "current.updating":
			c.drv.onRemoveUpd()
		case strings.HasPrefix(base, "ingest-"):
		default:
			c.drv.emit(8, c.drv.nameID(base))
		}
	}
	return err
}

// ---- the driver: runs operations of the state machine, records the primitive steps ----

type c04hop struct {
	kind   int // 0 open, 1 update, 2 sync, 3 close, 4 recover
	n      int // recover: number of batches in the snapshot
	format fsm.SnapshotRecoveryType
}

func (h c04hop) coq() string {
	switch h.kind {
	case 0:
		return "HOpen"
	case 1:
		return "HUpdate"
	case 2:
		return "HSync"
	case 3:
		return "HClose"
	case 5:
		return ""
	}
	return fmt.Sprintf("HRecover %d", h.n)
}
func (h c04hop) String() string {
	if h.kind == 4 {
		return fmt.Sprintf("recover(%d batches, format %d)", h.n, h.format)
	}
	return [...]string{"open", "update", "sync", "close", "", "settle"}[h.kind]
}

type c04ev []int

type c04driver struct {
	mu        sync.Mutex
	fs        *crashFS
	log       [][]gEntry
	dir       string
	f         *fsm.FSM
	next      int
	curName   int
	names     map[string]int
	live      int
	applied   int
	events    []c04ev
	inRecover bool
	recoverN  int
	liveSet   bool
	lastSync  int
	opErr     error
}

func (d *c04driver) emit(ev ...int) {
	if d.fs.crashed.Load() {
		return
	}
	d.mu.Lock()
	d.events = append(d.events, c04ev(ev))
	d.mu.Unlock()
}
func (d *c04driver) nameID(base string) int {
	d.mu.Lock()
	defer d.mu.Unlock()
	if id, ok := d.names[base]; ok {
		return id
	}
	return 999 // a name the protocol never created
}
func (d *c04driver) onMkDb(base string) {
	d.mu.Lock()
	d.names[base] = d.curName
	d.mu.Unlock()
	d.emit(1, d.curName)
}
func (d *c04driver) onCreateUpd() {
	if d.inRecover {
		d.emit(11, d.curName, d.recoverN)
	}
	d.emit(3)
}
func (d *c04driver) onRemoveUpd() {
	if d.inRecover && !d.liveSet {
		d.liveSet = true
		d.emit(12, d.curName)
	}
	d.emit(7)
}

func batchCount(log [][]gEntry, idx uint64) (int, bool) {
	n := 0
	exact := idx == 0
	for _, b := range log {
		if b[len(b)-1].Idx <= idx {
			n++
		}
		if b[len(b)-1].Idx == idx {
			exact = true
		}
	}
	return n, exact
}

func newC04Driver(log [][]gEntry, crashAt int64) *c04driver {
	cfs := &crashFS{MemFS: vfs.NewStrictMem(), crashAt: crashAt}
	// the operator-provided base data directory exists and is durable beforehand
	_ = cfs.MemFS.MkdirAll("/data", 0o755)
	if r, err := cfs.MemFS.OpenDir("/"); err == nil {
		_ = r.Sync()
		_ = r.Close()
	}
	host, _ := os.Hostname()
	d := &c04driver{fs: cfs, log: log, dir: rp.GetNodeDBDirName("/data", host, "t-77"), names: map[string]int{}, live: -1}
	cfs.drv = d
	return d
}

func (d *c04driver) index() uint64 {
	li, err := d.f.Lookup(fsm.LocalIndexRequest{})
	if err != nil {
		return 0
	}
	return li.(*fsm.IndexResponse).Index
}

func (d *c04driver) open() error {
	d.curName = d.next
	d.next++
	d.f = fsm.New("t", "/data", d.fs, nil, nil, fsm.RecoveryTypeSnapshot, nil)(77, 1).(*fsm.FSM)
	idx, err := d.f.Open(nil)
	if err != nil {
		d.f = nil
		return err
	}
	name, err := rp.GetCurrentDBDirName(d.fs.MemFS, d.dir)
	if err != nil {
		return err
	}
	d.live = d.nameID(name)
	d.applied, _ = batchCount(d.log, idx)
	d.emit(12, d.live)
	return nil
}

// run executes one operation; returns false when the operation failed (after a crash the disk no longer persists and
// anything may fail; before a crash a failure is reported by the caller)
func (d *c04driver) run(h c04hop, streams func(n int, t fsm.SnapshotRecoveryType) []byte) (ok bool) {
	defer func() {
		if r := recover(); r != nil {
			d.opErr = fmt.Errorf("panic: %v", r)
			ok = false
		}
	}()
	switch h.kind {
	case 0:
		if err := d.open(); err != nil {
			d.opErr = err
			return false
		}
	case 1:
		if d.f == nil || d.applied >= len(d.log) {
			return true
		}
		b := d.log[d.applied]
		ents := make([]sm.Entry, len(b))
		for i, e := range b {
			_, bts := wireNormal(e.Cmd)
			ents[i] = sm.Entry{Index: e.Idx, Cmd: bts}
		}
		d.emit(9, d.live)
		if _, err := d.f.Update(ents); err != nil {
			d.opErr = err
			return false
		}
		d.applied++
	case 2:
		if d.f == nil {
			return true
		}
		if err := d.f.Sync(); err != nil {
			d.opErr = err
			return false
		}
		if !d.fs.crashed.Load() {
			d.lastSync = d.applied
		}
		d.emit(10, d.live)
		d.emit(13, d.applied)
	case 3:
		if d.f == nil {
			return true
		}
		if err := d.f.Close(); err != nil {
			d.opErr = err
			return false
		}
		if !d.fs.crashed.Load() {
			d.lastSync = d.applied
		}
		d.emit(10, d.live)
		d.emit(12)
		d.emit(13, d.applied)
		d.f, d.live = nil, -1
	case 5: // let Pebble's background work (a flush it started on its own) run; no step of the protocol
		time.Sleep(400 * time.Millisecond)
	case 4:
		if d.f == nil || h.n < d.applied {
			return true
		}
		d.curName = d.next
		d.next++
		d.inRecover, d.recoverN, d.liveSet = true, h.n, false
		err := d.f.RecoverFromSnapshot(bytes.NewReader(streams(h.n, h.format)), nil)
		d.inRecover = false
		if err != nil {
			d.opErr = err
			return false
		}
		if !d.fs.crashed.Load() {
			d.lastSync = h.n
		}
		d.live, d.applied = d.curName, h.n
		d.emit(13, h.n)
	}
	return true
}

// crash discards everything that is not durable and forgets the process
func (d *c04driver) crash() {
	d.fs.MemFS.SetIgnoreSyncs(true)
	d.fs.crashed.Store(true)
	if d.f != nil {
		func() { defer func() { _ = recover() }(); _ = d.f.Close() }()
	}
	d.f, d.live = nil, -1
	d.fs.MemFS.ResetToSyncedState()
	d.fs.MemFS.SetIgnoreSyncs(false)
	d.fs.crashed.Store(false)
	d.fs.crashAt = 0
	d.events = nil
	d.opErr = nil
}

func contentOf(f *fsm.FSM) (string, error) {
	v, err := f.Lookup(gRange{Key: []byte{0}, End: []byte{0}}.pb())
	if err != nil {
		return "", err
	}
	var sb strings.Builder
	for _, kv := range v.(*regattapb.ResponseOp_Range).Kvs {
		fmt.Fprintf(&sb, "%s=%s;", kv.Key, kv.Value)
	}
	return sb.String(), nil
}

// ---- log, scenarios ----

func putE(idx uint64, k, v string) gEntry {
	return gEntry{Idx: idx, Cmd: gCmd{Kind: regattapb.Command_PUT, K: []byte(k), V: []byte(v)}}
}

// the log all scenarios draw from: eight batches (puts, a transaction, a range delete, multi-entry batches)
func c04Log() [][]gEntry {
	b1 := []gEntry{putE(1, "a", "1"), putE(2, "b", "2")}
	b2 := []gEntry{{Idx: 3, Cmd: gCmd{Kind: regattapb.Command_TXN, Succ: []gOp{{Kind: 1, K: []byte("c"), V: []byte("3")}, {Kind: 2, K: []byte("a")}}}}}
	b3 := []gEntry{putE(4, "d", "4"), {Idx: 5, Cmd: gCmd{Kind: regattapb.Command_DELETE, K: []byte("b"), End: []byte("c")}}, putE(6, "e", "5")}
	b4 := []gEntry{putE(7, "f", "6")}
	b5 := []gEntry{putE(8, "a", "7"), putE(9, "g", "8")}
	b6 := []gEntry{{Idx: 10, Cmd: gCmd{Kind: regattapb.Command_DELETE, K: []byte("d")}}}
	b7 := []gEntry{putE(11, "h", "9")}
	b8 := []gEntry{putE(12, "i", "10"), putE(13, "c", "11")}
	return [][]gEntry{b1, b2, b3, b4, b5, b6, b7, b8}
}

// a log whose second batch is one large mixed Update: 9 plain puts of 1 MiB, then a put with prev_kv, a counted
// delete and a transaction (all need the indexed batch)
func c04BigLog() [][]gEntry {
	b1 := []gEntry{putE(1, "a", "1"), putE(2, "b", "2")}
	var b2 []gEntry
	for i := 0; i < 9; i++ {
		b2 = append(b2, gEntry{Idx: uint64(3 + i), Cmd: gCmd{Kind: regattapb.Command_PUT, K: []byte(fmt.Sprintf("big%d", i)), V: bytes.Repeat([]byte{byte('A' + i)}, 1024*1024)}})
	}
	b2 = append(b2,
		gEntry{Idx: 12, Cmd: gCmd{Kind: regattapb.Command_PUT, K: []byte("a"), V: []byte("3"), Prev: true}},
		gEntry{Idx: 13, Cmd: gCmd{Kind: regattapb.Command_DELETE, K: []byte("b"), Count: true}},
		gEntry{Idx: 14, Cmd: gCmd{Kind: regattapb.Command_TXN, Succ: []gOp{{Kind: 1, K: []byte("c"), V: []byte("4")}}}})
	b3 := []gEntry{putE(15, "d", "5")}
	return [][]gEntry{b1, b2, b3}
}

// a log whose second and third batches stage no write at all: a no-op, a transaction whose predicate fails and that
// has no failure branch, a transaction that only reads - the applied index still has to move (and be durable after
// the next sync)
func c04QuietLog() [][]gEntry {
	b1 := []gEntry{putE(1, "a", "1"), putE(2, "b", "2")}
	b2 := []gEntry{{Idx: 3, Cmd: gCmd{Kind: regattapb.Command_DUMMY}},
		{Idx: 4, Cmd: gCmd{Kind: regattapb.Command_TXN, Cmps: []gCmp{{Res: 0, Key: []byte("a"), HasVal: true, Val: []byte("other")}}, Succ: []gOp{{Kind: 1, K: []byte("c"), V: []byte("3")}}}}}
	b3 := []gEntry{{Idx: 5, Cmd: gCmd{Kind: regattapb.Command_TXN, Succ: []gOp{{Kind: 0, R: gRange{Key: []byte("a")}}}}}}
	b4 := []gEntry{putE(6, "d", "4")}
	return [][]gEntry{b1, b2, b3, b4}
}

// a log whose second batch is ten puts of 2 MiB applied by ONE Update call
func c04HugeLog() [][]gEntry {
	b1 := []gEntry{putE(1, "a", "1"), putE(2, "b", "2")}
	var b2 []gEntry
	for i := 0; i < 10; i++ {
		b2 = append(b2, gEntry{Idx: uint64(3 + i), Cmd: gCmd{Kind: regattapb.Command_PUT, K: []byte(fmt.Sprintf("huge%d", i)), V: bytes.Repeat([]byte{byte('a' + i)}, 2*1024*1024-64)}})
	}
	b3 := []gEntry{putE(13, "d", "5")}
	return [][]gEntry{b1, b2, b3}
}

type c04scenario struct {
	name string
	ops  []c04hop
}

func c04Scenarios(r *rand.Rand, random int) []c04scenario {
	o, u, s, c := c04hop{kind: 0}, c04hop{kind: 1}, c04hop{kind: 2}, c04hop{kind: 3}
	rec := func(n int, t fsm.SnapshotRecoveryType) c04hop { return c04hop{kind: 4, n: n, format: t} }
	out := []c04scenario{
		{"first open, updates, sync, update", []c04hop{o, u, u, s, u}},
		{"clean close and reopen between syncs", []c04hop{o, u, s, c, o, u, s, u, u}},
		{"snapshot install (snapshot format)", []c04hop{o, u, s, rec(3, fsm.RecoveryTypeSnapshot), u, s}},
		{"snapshot install (checkpoint format)", []c04hop{o, u, s, rec(3, fsm.RecoveryTypeCheckpoint), u, s}},
		{"no sync at all", []c04hop{o, u, u}},
		{"two installs in a row", []c04hop{o, rec(2, fsm.RecoveryTypeCheckpoint), u, rec(5, fsm.RecoveryTypeSnapshot), s, u}},
	}
	for i := 0; i < random; i++ {
		ops := []c04hop{o}
		open, applied := true, 0
		want := 4 + r.Intn(7)
		for len(ops) < want {
			if !open {
				ops = append(ops, o)
				open = true
				continue
			}
			switch k := r.Intn(10); {
			case k < 4 && applied < 8:
				ops = append(ops, u)
				applied++
			case k < 6:
				ops = append(ops, s)
			case k < 7:
				ops = append(ops, c)
				open = false
			case k < 9 && applied < 8:
				n := applied + r.Intn(8-applied+1)
				ops = append(ops, rec(n, fsm.SnapshotRecoveryType(r.Intn(2))))
				applied = n
			default:
				ops = append(ops, s)
			}
		}
		out = append(out, c04scenario{fmt.Sprintf("random %d", i), ops})
	}
	return out
}

func hopsCoq(ops []c04hop) string {
	var parts []string
	for _, h := range ops {
		if c := h.coq(); c != "" {
			parts = append(parts, c)
		}
	}
	return cList(parts)
}

// events as observables; runs of directory removals are sorted (they happen in directory-listing order)
func eventsObs(evs []c04ev) string {
	evs = append([]c04ev(nil), evs...)
	for i := 0; i < len(evs); {
		j := i
		for j < len(evs) && evs[j][0] == 8 {
			j++
		}
		if j > i {
			seg := evs[i:j]
			sort.Slice(seg, func(a, b int) bool { return seg[a][1] < seg[b][1] })
			i = j
		} else {
			i++
		}
	}
	items := make([]string, len(evs))
	for i, e := range evs {
		parts := make([]string, len(e))
		for k, x := range e {
			parts[k] = oN(int64(x))
		}
		items[i] = oLs(parts)
	}
	return oLs(items)
}

func runC04(args []string) error {
	onlyScenario := -1
	installsOnly := false
	rf, err := parseFlags("c04", args, func(fs *flag.FlagSet) {
		fs.IntVar(&onlyScenario, "scenario", -1, "run one scenario only")
		fs.BoolVar(&installsOnly, "installs", false, "only scenarios that install a snapshot (used by C08)")
	})
	if err != nil {
		return err
	}
	sum := &Summary{Engine: "c04", Seed: rf.Seed,
		Rule: "real fsm.FSM over Pebble's strict in-memory file system behind a sync-counting, event-recording wrapper. For each scenario (fixed: first open, updates, sync, clean close and reopen, snapshot install in both formats, unsynced tail, two installs, a large mixed batch, batches that stage no write; plus random operation sequences) and EVERY sync operation k issued by regatta or Pebble (file fsync or directory sync; other operations do not change what is durable) the k-th and all later syncs are dropped, the volatile state is discarded and the table is reopened; additionally a second crash at several syncs of the reopen itself. Go oracle: reopen succeeds, reported index is a batch boundary with content = entries 1..i, i >= index covered by the last completed sync/close/install, re-applying the entries after i reaches the no-crash end state. Coq: the recorded protocol events of the no-crash run must equal the model's primitive steps, and for every crash point (position = events completed before the crash) the model must admit the reopen outcome for some survival oracle. distinct = (scenario, crash points); non-trivial = crash after the first completed open"}
	cf := &CasesFile{Requires: []string{"Model.Bytes", "Model.Obs", "Model.DirProto", "Run.C04Run"}, CaseType: "c04case", Check: "c04_check", Show: "c04_model"}
	hs, hk := sum.hist("syncs_per_scenario"), sum.hist("hops")
	rnd := rf.rng()
	scenarioBase := 0
	runLog := func(log [][]gEntry, scenarios []c04scenario) error {
		// expected content after exactly the first b batches
		ref, _, err := newRealFSM(vfs.NewMem(), fsm.RecoveryTypeSnapshot)
		if err != nil {
			return err
		}
		exp := make([]string, len(log)+1)
		exp[0], _ = contentOf(ref.f)
		for i, b := range log {
			if _, _, err := ref.apply(b); err != nil {
				return err
			}
			exp[i+1], _ = contentOf(ref.f)
		}
		ref.close()
		type skey struct {
			n int
			t fsm.SnapshotRecoveryType
		}
		cache := map[skey][]byte{}
		streams := func(n int, t fsm.SnapshotRecoveryType) []byte {
			if b, ok := cache[skey{n, t}]; ok {
				return b
			}
			src, _, err := newRealFSM(vfs.NewMem(), t)
			if err != nil {
				panic(err)
			}
			defer src.close()
			for _, b := range log[:n] {
				if _, _, err := src.apply(b); err != nil {
					panic(err)
				}
			}
			ctx, err := src.f.PrepareSnapshot()
			if err != nil {
				panic(err)
			}
			var buf bytes.Buffer
			if err := src.f.SaveSnapshot(ctx, &buf, nil); err != nil {
				panic(err)
			}
			cache[skey{n, t}] = buf.Bytes()
			return buf.Bytes()
		}

		for si, sc := range scenarios {
			if onlyScenario >= 0 && si+scenarioBase != onlyScenario {
				continue
			}
			for _, h := range sc.ops {
				hk.Inc(h.String())
			}
			total := int64(0)
			finalBatches := 0
			for k := int64(0); k == 0 || k <= total+1; k++ {
				seconds := []int64{0}
				if k > 0 {
					if rf.Tier == "thorough" && len(log) > 3 { // (the log with the 9 MiB batch runs without second crashes: memory)
						seconds = []int64{0, 1, 2, 3, 4, 5, 6, 8, 10, 13}
					} else if k%3 == 0 {
						seconds = []int64{0, 1 + k%7}
					}
				}
				for _, k2 := range seconds {
					d := newC04Driver(log, k)
					failedBefore := ""
					for _, h := range sc.ops {
						if !d.run(h, streams) {
							if !d.fs.crashed.Load() {
								failedBefore = fmt.Sprintf("%v: %v", h, d.opErr)
							}
							break
						}
					}
					in := map[string]any{"scenario": sc.name, "ops": fmt.Sprint(sc.ops), "crash_before_sync": k, "second_crash_at_reopen_sync": k2}
					sum.Evaluations++
					if failedBefore != "" {
						sum.violate(sum.Evaluations, "an operation fails although nothing crashed", in, failedBefore)
						continue
					}
					if k == 0 { // the run without a crash: how many syncs there are, where it ends
						total = d.fs.n.Load()
						finalBatches = d.applied
						hs[sc.name] = int(total)
					}
					full := !d.fs.crashed.Load()
					trace := eventsObs(d.events)
					lastSync := d.lastSync
					eras := []string{fmt.Sprintf("era_of %s %d", hopsCoq(sc.ops), len(d.events))}
					d.crash()
					if k2 > 0 { // a second crash during the recovery itself
						d.fs.crashAt = d.fs.n.Load() + k2
						_ = d.run(c04hop{kind: 0}, streams)
						eras = append(eras, fmt.Sprintf("era_of [HOpen] %d", len(d.events)))
						d.crash()
					}
					if k > 3 {
						sum.DistinctNontrivial++
					}
					// the final reopen
					outObs := "OL []"
					if !d.run(c04hop{kind: 0}, streams) {
						sum.violate(sum.Evaluations, "reopening the table after a crash fails", in, fmt.Sprint(d.opErr))
					} else {
						index := d.index()
						b, exact := batchCount(log, index)
						outObs = oL(oN(int64(b)))
						content, _ := contentOf(d.f)
						if !exact {
							sum.violate(sum.Evaluations, "after a crash the table reports an index that is not a batch boundary", in, fmt.Sprint(index))
						} else if content != exp[b] {
							sum.violate(sum.Evaluations, "after a crash the content is not the result of applying exactly the entries up to the reported index", in, fmt.Sprintf("index %d content %.300q want %.300q", index, content, exp[b]))
						}
						if b < lastSync {
							sum.violate(sum.Evaluations, "after a crash the reported index is behind the last completed sync", in, fmt.Sprintf("batches %d (index %d) < synced batches %d", b, index, lastSync))
						}
						// re-apply the log entries after the reported index up to where the run without a crash ended
						for d.applied < finalBatches {
							if !d.run(c04hop{kind: 1}, streams) {
								sum.violate(sum.Evaluations, "re-applying entries after recovery fails", in, fmt.Sprint(d.opErr))
								break
							}
						}
						if d.applied >= finalBatches {
							final, _ := contentOf(d.f)
							if final != exp[d.applied] {
								sum.violate(sum.Evaluations, "re-applying the entries after the reported index does not reach the no-crash state", in, fmt.Sprintf("%.300q vs %.300q", final, exp[d.applied]))
							}
						}
						if len(sum.Samples) < 3 && k == total/2 && k2 == 0 {
							sum.Samples = append(sum.Samples, map[string]any{"scenario": sc.name, "ops": fmt.Sprint(sc.ops), "crash_before_sync": k, "of_syncs": total, "reopen_index": index, "batches": b, "last_completed_sync_batches": lastSync})
						}
						_ = d.f.Close()
					}
					cf.Add(fmt.Sprintf("{| k_eras := %s; k_full := %s; k_impl := %s |}", cList(eras), cBool(full), oL(trace, outObs)),
						fmt.Sprintf("%s %v crash before sync %d (of %d), second crash at reopen sync %d", sc.name, sc.ops, k, total, k2))
				}
			}
		}
		scenarioBase += len(scenarios)
		return nil
	}
	if err := runLog(c04Log(), c04Scenarios(rnd, rf.count(4, 40))); err != nil {
		return err
	}
	// one Update that mixes more than a memtable of plain writes with commands that need the indexed batch: Pebble
	// flushes on its own while (or right after) the batch is applied; the batch and its index must stay one unit
	o, u, sy, settle := c04hop{kind: 0}, c04hop{kind: 1}, c04hop{kind: 2}, c04hop{kind: 5}
	if err := runLog(c04BigLog(), []c04scenario{
		{"large mixed batch, unsynced", []c04hop{o, u, sy, u, settle, u}},
		// Pebble starts a flush by itself (the 9 MiB batch); the next batch is applied while it runs; once it has ended a
		// Sync must still cover that batch
		{"update during Pebble's own flush, then sync", []c04hop{o, u, u, u, settle, sy}},
	}); err != nil {
		return err
	}
	// one Update of more than 16 MiB (ten entries of 2 MiB): however the state machine cuts it into Pebble batches,
	// what is durable at any moment is whole entries together with exactly their index
	if err := runLog(c04HugeLog(), []c04scenario{
		{"one apply batch of 20 MiB, unsynced", []c04hop{o, u, sy, u, settle, u}},
	}); err != nil {
		return err
	}
	if err := runLog(c04QuietLog(), []c04scenario{
		{"batches that stage no write, synced", []c04hop{o, u, u, sy, u, sy, u}},
		{"batches that stage no write, close and reopen", []c04hop{o, u, u, u, c04hop{kind: 3}, o, u}},
	}); err != nil {
		return err
	}
	if len(sum.Samples) == 0 {
		sum.Samples = append(sum.Samples, "no crash points")
	}
	names, err := cf.Write(rf.Out, "c04", 400)
	if err != nil {
		return err
	}
	sum.CasesFiles = names
	return sum.write(rf.Out, "c04")
}
