package main

import (
	"context"
	"flag"
	"fmt"
	"strings"
	"sync"
	"sync/atomic"
	"time"

	pvfs "github.com/cockroachdb/pebble/vfs"
	"github.com/jamf/regatta/regattapb"
	"github.com/jamf/regatta/replication"
	"github.com/jamf/regatta/storage"
	lvfs "github.com/lni/vfs"
	"go.uber.org/zap"
)

func init() { register("c05multi", runC05Multi) }

// a follower cluster of three nodes in one process; node B's copy of the table can be made to lag (its apply path is
// held after a batch), which is what a slow disk or a restarting process does to a replica
func newC05FollowerCluster(tag string, hold *atomic.Bool, release chan struct{}) ([]*c05node, error) {
	raft := []string{freeAddr(), freeAddr(), freeAddr()}
	gossip := []string{freeAddr(), freeAddr(), freeAddr()}
	members := map[uint64]string{1: raft[0], 2: raft[1], 3: raft[2]}
	nodes := make([]*c05node, 3)
	var wg sync.WaitGroup
	errs := make([]error, 3)
	for i := 0; i < 3; i++ {
		i := i
		n := &c05node{fs: lvfs.NewMem(), tfs: pvfs.NewMem(), raftAddr: raft[i], name: fmt.Sprintf("%s-%d", tag, i+1)}
		var listener func(table string, rev uint64)
		if i == 1 {
			listener = func(table string, rev uint64) {
				if table == "t" && hold.Load() {
					<-release
				}
			}
		}
		n.cfgFn = func() storage.Config {
			return storage.Config{
				FS:             n.fs,
				Log:            zap.NewNop().Sugar(),
				InitialMembers: members,
				Gossip:         storage.GossipConfig{BindAddress: gossip[i], InitialMembers: gossip, ClusterName: tag, NodeName: n.name},
				NodeID:         uint64(i + 1),
				RTTMillisecond: 5,
				RaftAddress:    raft[i],
				Table: storage.TableConfig{HeartbeatRTT: 1, ElectionRTT: 10, FS: n.tfs, MaxInMemLogSize: 1024 * 1024, BlockCacheSize: 1024 * 1024, TableCacheSize: 1024,
					AppliedIndexListener: listener},
				Meta: storage.MetaConfig{HeartbeatRTT: 1, ElectionRTT: 10},
			}
		}
		nodes[i] = n
		wg.Add(1)
		go func() { defer wg.Done(); errs[i] = n.start() }()
	}
	wg.Wait()
	for _, e := range errs {
		if e != nil {
			return nodes, e
		}
	}
	return nodes, nil
}

func runC05Multi(args []string) error {
	rf, err := parseFlags("c05multi", args, func(fs *flag.FlagSet) {})
	if err != nil {
		return err
	}
	sum := &Summary{Engine: "c05multi", Seed: rf.Seed,
		Rule: "a follower cluster of three storage.Engine nodes in one process replicating from a single-node leader through the real replication services: node 1 holds the table's replication lease and replicates; node 2's copy of the table lags behind the table's Raft log (its apply path is held); the lease moves to node 2 (node 1's replication manager stops, node 2's starts); oracle: after everything settled, follower content = leader content (every leader command exactly once)"}
	quietDragonboat()
	rnd := rf.rng()
	in := map[string]any{"scenario": "lease hand-over to a node whose replica of the table lags", "seed": rf.Seed}
	sys := &c05sys{repCfg: replication.Config{ReconcileInterval: 150 * time.Millisecond,
		Workers: replication.WorkerConfig{PollInterval: 20 * time.Millisecond, LeaseInterval: 50 * time.Millisecond, LogRPCTimeout: 2 * time.Second, SnapshotRPCTimeout: 20 * time.Second, MaxRecoveryInFlight: 1}}}
	if sys.leader, err = newC05Node("mleader", 0, 0, 64, nil); err != nil {
		return err
	}
	defer func() { _ = sys.leader.e.Close() }()
	var hold atomic.Bool
	release := make(chan struct{})
	fol, err := newC05FollowerCluster("mfol", &hold, release)
	if err != nil {
		return fmt.Errorf("follower cluster: %w", err)
	}
	defer func() {
		for _, n := range fol {
			if n != nil && n.e != nil {
				done := make(chan struct{})
				go func(n *c05node) { _ = n.e.Close(); close(done) }(n)
				select {
				case <-done:
				case <-time.After(10 * time.Second):
				}
			}
		}
	}()
	if err := sys.startServer(0); err != nil {
		return err
	}
	defer func() { _ = sys.conn.Close(); sys.srv.Stop() }()
	const tname = "t"
	if _, err := sys.leader.e.CreateTable(tname); err != nil {
		return err
	}
	lt, err := sys.leader.waitTable(tname)
	if err != nil {
		return err
	}
	// a chain of non-idempotent transactions: step i moves k from v(i) to v(i+1) and leaves a marker if k is not v(i),
	// so a command that takes effect twice is visible in the content
	step := 0
	{
		ctx, cancel := context.WithTimeout(context.Background(), 5*time.Second)
		_, err := lt.Put(ctx, &regattapb.PutRequest{Table: []byte(tname), Key: []byte("k"), Value: []byte("v0")})
		cancel()
		if err != nil {
			return err
		}
	}
	write := func(n int) error {
		for i := 0; i < n; i++ {
			ctx, cancel := context.WithTimeout(context.Background(), 5*time.Second)
			_, err := lt.Txn(ctx, &regattapb.TxnRequest{Table: []byte(tname),
				Compare: []*regattapb.Compare{{Key: []byte("k"), Result: regattapb.Compare_EQUAL, Target: regattapb.Compare_VALUE, TargetUnion: &regattapb.Compare_Value{Value: []byte(fmt.Sprintf("v%d", step))}}},
				Success: []*regattapb.RequestOp{{Request: &regattapb.RequestOp_RequestPut{RequestPut: &regattapb.RequestOp_Put{Key: []byte("k"), Value: []byte(fmt.Sprintf("v%d", step+1))}}}},
				Failure: []*regattapb.RequestOp{{Request: &regattapb.RequestOp_RequestPut{RequestPut: &regattapb.RequestOp_Put{Key: []byte(fmt.Sprintf("applied-twice-%03d", step)), Value: []byte("x")}}}}})
			cancel()
			if err != nil {
				return err
			}
			step++
		}
		return nil
	}
	_ = rnd
	queues := make([]*storage.IndexNotificationQueue, 3)
	for i := range queues {
		queues[i] = storage.NewNotificationQueue()
		go queues[i].Run()
	}
	mgrA := replication.NewManager(fol[0].e, queues[0], sys.conn, sys.repCfg)
	if err := mgrA.Start(); err != nil {
		return err
	}
	if err := write(30); err != nil {
		return err
	}
	waitFol := func(n *c05node, d time.Duration) (uint64, uint64) {
		la, _ := sys.leader.localIndex(tname)
		dl := time.Now().Add(d)
		var f uint64
		for time.Now().Before(dl) {
			if x, err := n.leaderIndex(tname); err == nil {
				f = x
				if f >= la {
					break
				}
			}
			time.Sleep(20 * time.Millisecond)
		}
		return f, la
	}
	if f, la := waitFol(fol[0], 40*time.Second); f < la {
		return fmt.Errorf("setup: node 1 did not replicate (%d of %d)", f, la)
	}
	if _, err := fol[1].waitTable(tname); err != nil {
		return err
	}
	// node 2's replica stops applying after its next batch
	hold.Store(true)
	if err := write(40); err != nil {
		return err
	}
	fA, la := waitFol(fol[0], 40*time.Second)
	if fA < la {
		return fmt.Errorf("setup: node 1 did not replicate the second part (%d of %d)", fA, la)
	}
	fB, _ := fol[1].leaderIndex(tname)
	sum.Evaluations++
	sum.DistinctNontrivial++
	sum.Samples = append(sum.Samples, map[string]any{"leader_applied": la, "node1_leader_index": fA, "node2_local_leader_index_while_lagging": fB})
	if fB >= fA {
		sum.Notes = append(sum.Notes, "node 2 did not lag (the hold came too late); scenario not exercised")
	}
	// the lease moves: node 1 stops replicating, node 2 starts
	mgrA.Close()
	mgrB := replication.NewManager(fol[1].e, queues[1], sys.conn, sys.repCfg)
	if err := mgrB.Start(); err != nil {
		return err
	}
	time.Sleep(4 * time.Second)
	hold.Store(false)
	close(release)
	time.Sleep(1 * time.Second)
	waitFol(fol[0], 20*time.Second)
	done := make(chan struct{})
	go func() { mgrB.Close(); close(done) }()
	select {
	case <-done:
	case <-time.After(15 * time.Second):
	}
	lc, err := sys.leader.content(tname, true)
	if err != nil {
		return err
	}
	fc, err := fol[0].content(tname, true)
	if err != nil {
		return err
	}
	fl, _ := fol[0].leaderIndex(tname)
	if lc != fc {
		sum.violate(0, "after a lease hand-over to a node with a lagging replica the follower's content differs from the leader's (leader commands applied more than once)", in,
			fmt.Sprintf("node 2 read leader index %d locally while the table already held %d; follower leader index now %d, leader applied %d; leader %.300s follower %.300s", fB, fA, fl, la, lc, fc))
	}
	_ = strings.Join
	sum.CasesFiles = []string{}
	return sum.write(rf.Out, "c05multi")
}
